package harness

// C11 — start-up: stores holding mixes of NotStarted / Running / terminal plans whose recorded
// activity is back-dated to either side of the configured maximum; a new Workstream (recovery on or
// off) is constructed; which plans were acted on, the plugin calls and the stored images before and
// after are compared with Model/Startup.

import (
	"fmt"
	"time"

	coercion "github.com/element-of-surprise/coercion"
	"github.com/element-of-surprise/coercion/workflow"
	"github.com/element-of-surprise/coercion/workflow/context"
	"github.com/element-of-surprise/coercion/workflow/storage/sqlite"
	"github.com/element-of-surprise/coercion/workflow/utils/walk"
	"github.com/google/uuid"
)

type c11Plan struct {
	Kind  string `json:"kind"`  // notStarted | running | terminal
	Aged  bool   `json:"aged"`  // last activity older than maxAge
	Shift string `json:"shift"` // how far the activity was back-dated
	Cut   int    `json:"cut"`
	Of    int    `json:"of"`
	rr    *recordedRun
	ps    *PlanSpec
	id    uuid.UUID
	shift time.Duration
}

func shiftState(s *workflow.State, d time.Duration) {
	if s == nil {
		return
	}
	if !s.Start.IsZero() {
		s.Start = s.Start.Add(-d)
	}
	if !s.End.IsZero() {
		s.End = s.End.Add(-d)
	}
}

func shiftedWrite(w writeRec, d time.Duration) writeRec {
	switch w.Kind {
	case "wPlan":
		c := *w.plan
		c.State = copyState(c.State)
		shiftState(c.State, d)
		w.plan = &c
	case "wBlock":
		c := *w.blk
		c.State = copyState(c.State)
		shiftState(c.State, d)
		w.blk = &c
	case "wChecks":
		c := *w.chk
		c.State = copyState(c.State)
		shiftState(c.State, d)
		w.chk = &c
	case "wSeq":
		c := *w.seq
		c.State = copyState(c.State)
		shiftState(c.State, d)
		w.seq = &c
	case "wAct":
		c := *w.act
		c.State = copyState(c.State)
		shiftState(c.State, d)
		w.act = &c
	}
	return w
}

type storedSummary struct {
	Status  string   `json:"status"`
	Reason  string   `json:"reason"`
	Inner   []string `json:"inner"`
	Running int      `json:"running"`
}

func summarize(p *workflow.Plan) storedSummary {
	s := storedSummary{Status: statusStr(p.State.Status), Reason: reasonStr(p.Reason), Inner: []string{}}
	first := true
	for it := range walk.Plan(p) {
		if first {
			first = false
			continue
		}
		st := it.Value.(interface{ GetState() *workflow.State }).GetState()
		s.Inner = append(s.Inner, statusStr(st.Status))
		if st.Status == workflow.Running {
			s.Running++
		}
	}
	return s
}

func c11Case(r *Result, m *Model, rng randLike, n int) {
	const maxAge = 10 * time.Second
	recoveryOn := rng.IntN(5) != 0
	np := 2 + rng.IntN(4)
	tr := newTracer()
	sc := &scripts{tags: map[string]*tagState{}}
	reg := newRegistry(tr, sc)
	ctx := context.Background()
	inner, err := sqlite.New(ctx, "", reg, sqlite.WithInMemory())
	if err != nil {
		r.finding(Finding{Kind: "crash", Clause: "C11.env", Text: err.Error()})
		return
	}
	defer inner.Close(ctx)
	var plans []*c11Plan
	for i := 0; i < np; i++ {
		ps := genSmallSpec(rng, fmt.Sprintf("s%d.%d.", n, i))
		rr, err := recordRun(ps)
		if err != nil || rr.res == nil || rr.res.Final == nil {
			r.finding(Finding{Kind: "crash", Clause: "C11.record", Text: fmt.Sprint(err)})
			return
		}
		cp := &c11Plan{rr: rr, ps: ps, id: rr.id, Of: len(rr.recs)}
		switch rng.IntN(5) {
		case 0:
			cp.Kind, cp.Cut = "notStarted", 0
		case 1:
			cp.Kind, cp.Cut = "terminal", len(rr.recs)
		default:
			cp.Kind, cp.Cut = "running", 1+rng.IntN(len(rr.recs)-2)
			// keep the cut before the terminal plan write
			for cp.Cut > 1 {
				d := durableAt(rr.ix, rr.recs[:cp.Cut])
				if d[0].Status == "running" {
					break
				}
				cp.Cut--
			}
		}
		switch rng.IntN(5) {
		case 4:
			// just past the limit: the recorded activity lies further back than the shift (it was recorded before this
			// store was built), so the plan is stale whatever the machine's speed; a limit compared in whole seconds misses it
			cp.shift, cp.Aged, cp.Shift = maxAge+50*time.Millisecond, true, "maxAge+50ms"
		case 0:
			cp.shift, cp.Aged, cp.Shift = maxAge+2*time.Second, true, "maxAge+2s"
		case 1:
			cp.shift, cp.Aged, cp.Shift = maxAge+time.Hour, true, "maxAge+1h"
		case 2:
			cp.shift, cp.Aged, cp.Shift = maxAge-3*time.Second, false, "maxAge-3s"
		default:
			cp.shift, cp.Aged, cp.Shift = 0, false, "0"
		}
		ps.eachAction(func(a *ActSpec, _ bool) { sc.tags[a.Tag] = &tagState{script: a.Script} })
		if err := inner.Create(ctx, rr.submitted); err != nil {
			r.finding(Finding{Kind: "crash", Clause: "C11.create", Text: err.Error()})
			return
		}
		for _, w := range rr.recs[:cp.Cut] {
			if err := applyWrite(inner, shiftedWrite(w, cp.shift)); err != nil {
				r.finding(Finding{Kind: "crash", Clause: "C11.replay", Text: err.Error()})
				return
			}
		}
		tr.mu.Lock()
		for u, idx := range rr.objIdx {
			tr.objIdx[u] = idx
			tr.planNo[u] = i
		}
		tr.mu.Unlock()
		plans = append(plans, cp)
	}
	// images before
	before := make([]storedSummary, np)
	type mStored struct {
		ID         int      `json:"id"`
		Status     string   `json:"status"`
		LastUpdate int      `json:"lastUpdate"`
		Inner      []string `json:"inner"`
	}
	var mstore []mStored
	for i, cp := range plans {
		p, err := inner.Read(ctx, cp.id)
		if err != nil {
			r.finding(Finding{Kind: "crash", Clause: "C11.read", Text: err.Error()})
			return
		}
		before[i] = summarize(p)
		lu := 1000
		if cp.Aged {
			lu = 1000 - 100 - 20
		} else if cp.shift > 0 {
			lu = 1000 - 100 + 30
		}
		mstore = append(mstore, mStored{ID: i, Status: before[i].Status, LastUpdate: lu, Inner: before[i].Inner})
	}
	var model []struct {
		ID          int      `json:"id"`
		Fate        string   `json:"fate"`
		ClosedInner []string `json:"closedInner"`
	}
	if err := m.Ask(map[string]any{"cmd": "startup", "recovery": recoveryOn, "maxAge": 100, "now": 1000, "store": mstore}, &model); err != nil {
		r.finding(Finding{Kind: "disagreement", Clause: "C11.driver", Text: err.Error()})
		return
	}
	breadcrumb(map[string]any{"recovery": recoveryOn, "plans": plans})
	spy := &spyVault{Vault: inner, tr: tr}
	opts := []coercion.Option{coercion.WithMaxLastUpdate(maxAge)}
	if !recoveryOn {
		opts = append(opts, coercion.WithNoRecovery())
	}
	ws, err := coercion.New(ctx, reg, spy, opts...)
	if err != nil {
		r.finding(Finding{Kind: "crash", Clause: "C11.new", Text: err.Error()})
		return
	}
	for _, cp := range plans {
		// wait for whatever the Workstream decided to run (Wait returns at once for plans it did not resume)
		wctx, cancel := context.WithTimeout(ctx, 15*time.Second)
		ws.Wait(wctx, cp.id)
		cancel()
	}
	time.Sleep(2 * time.Millisecond)
	events := tr.snapshot()
	desc := map[string]any{"recovery": recoveryOn, "plans": plans}
	mix := map[string]bool{}
	for i, cp := range plans {
		mix[cp.Kind] = true
		enters, writes := 0, 0
		for _, e := range events {
			if e.Plan != i || e.Obj < 0 {
				continue
			}
			if e.L == "enter" {
				enters++
			}
			if len(e.L) > 1 && e.L[0] == 'w' && e.Phase == "post" {
				writes++
			}
		}
		p, err := inner.Read(ctx, cp.id)
		if err != nil {
			r.finding(Finding{Kind: "monitor", Clause: "C11.readable_after", Text: err.Error(), Case: desc})
			continue
		}
		after := summarize(p)
		feat := map[string]any{"kind": cp.Kind, "aged": cp.Aged, "recovery": recoveryOn, "modelFate": model[i].Fate}
		switch model[i].Fate {
		case "untouched":
			if enters > 0 || writes > 0 || !jsonEq(before[i], after) {
				feat["enters"], feat["writes"] = enters > 0, writes > 0
				r.finding(Finding{Kind: "monitor", Clause: "C11.untouched", Features: feat,
					Text: fmt.Sprintf("a %s plan (aged=%v, recovery=%v) was executed or modified at start-up", cp.Kind, cp.Aged, recoveryOn), Case: desc, Observed: map[string]any{"before": before[i], "after": after}})
			}
		case "closed":
			if enters > 0 {
				r.finding(Finding{Kind: "monitor", Clause: "C11.stale_not_resumed", Features: feat, Text: "a stale Running plan had plugins invoked at start-up", Case: desc})
			}
			if after.Status != "failed" || after.Reason != "exceedRecovery" {
				feat["status"], feat["reason"] = after.Status, after.Reason
				r.finding(Finding{Kind: "monitor", Clause: "C11.stale_closed_failed_exceedrecovery", Features: feat,
					Text: "a stale Running plan was not closed as Failed/ExceedRecovery: " + after.Status + "/" + after.Reason, Case: desc})
			} else if after.Running > 0 || !jsonEq(after.Inner, model[i].ClosedInner) {
				feat["running"] = after.Running
				r.finding(Finding{Kind: "monitor", Clause: "C11.stale_nothing_left_running", Features: feat,
					Text: fmt.Sprintf("after closing a stale plan %d objects inside it are still Running (or other objects changed)", after.Running), Case: desc, Observed: after.Inner, Model: model[i].ClosedInner})
			}
		case "resumed":
			if after.Status != "completed" && after.Status != "failed" {
				feat["status"] = after.Status
				r.finding(Finding{Kind: "monitor", Clause: "C11.live_resumed", Features: feat, Text: "a live Running plan was not driven to a terminal state: " + after.Status, Case: desc})
			}
			if after.Reason == "exceedRecovery" {
				r.finding(Finding{Kind: "monitor", Clause: "C11.live_resumed", Features: feat, Text: "a live Running plan was closed as ExceedRecovery", Case: desc})
			}
		}
		r.count("fate:" + model[i].Fate)
		r.count("kind:" + cp.Kind)
	}
	r.eval(desc, len(mix) >= 2)
	if n < 2 {
		r.sample(desc)
	}
}

type randLike interface {
	IntN(int) int
	Float64() float64
}

func genSmallSpec(rng randLike, prefix string) *PlanSpec {
	n := 0
	tag := func() string { n++; return fmt.Sprintf("%s%d", prefix, n) }
	ps := &PlanSpec{}
	if rng.IntN(3) == 0 {
		ps.Pre = &GroupSpec{Actions: []ActSpec{{Tag: tag()}}}
	}
	if rng.IntN(3) == 0 {
		ps.Deferred = &GroupSpec{Actions: []ActSpec{{Tag: tag()}}}
	}
	for b := 1 + rng.IntN(2); b > 0; b-- {
		bs := BlockSpec{Conc: 1 + rng.IntN(2)}
		for s := 1 + rng.IntN(2); s > 0; s-- {
			q := SeqSpec{}
			for a := 1 + rng.IntN(2); a > 0; a-- {
				q.Actions = append(q.Actions, ActSpec{Tag: tag()})
			}
			bs.Seqs = append(bs.Seqs, q)
		}
		ps.Blocks = append(ps.Blocks, bs)
	}
	return ps
}

func init() {
	campaigns["C11"] = func(r *Result) {
		quietLogs()
		r.Rule = "stores of 2-5 plans, each NotStarted, Running (a random cut of a recorded execution replayed into the store) or terminal, with activity back-dated by maxAge+50ms / maxAge+2s / maxAge+1h (stale) or maxAge-3s / 0 (live) against WithMaxLastUpdate(10s); recovery on (80%) or off; which plans were acted on, plugin calls and stored images before/after compared with Model/Startup; non-trivial = store with plans in >=2 different statuses; distinct by store description"
		m := getModel()
		defer putModel(m)
		rng := newRand(11)
		n := tierN(150, 5000)
		for i := 0; i < n && !expired(); i++ {
			c11Case(r, m, rng, i)
		}
		r.Validated = r.Evaluations
	}
}
