package harness

// C18 — clones: plans in all execution states x the four option combinations; the clone's full image
// must equal the original's with exactly the fields Model/Clone says (definition always; ids, state,
// times, reason, submit time, attempts only with keep-state; keys never); no pointer, map or slice
// backing array may be shared (alias scan by reflection); mutating the clone must not change the
// original; the default clone must be accepted by Submit.

import (
	"fmt"
	"reflect"
	"strings"
	"time"

	"github.com/element-of-surprise/coercion/workflow"
	"github.com/element-of-surprise/coercion/workflow/context"
	"github.com/element-of-surprise/coercion/workflow/utils/clone"
	"github.com/element-of-surprise/coercion/workflow/utils/walk"
	"github.com/google/uuid"
)

// expectClone computes the image Model/Clone predicts from the original's image.
func expectClone(p fullPlan, keep bool) fullPlan {
	zs := fullState{Status: "nil"}
	nilKey := uuid.Nil.String()
	act := func(a fullAction) fullAction {
		a.Key = nilKey
		if !keep {
			a.ID, a.State, a.Attempts = nilKey, zs, []fullAttempt{}
		}
		return a
	}
	chk := func(c *fullChecks) *fullChecks {
		if c == nil {
			return nil
		}
		out := *c
		out.Key = nilKey
		if !keep {
			out.ID, out.State = nilKey, zs
		}
		out.Actions = []fullAction{}
		for _, a := range c.Actions {
			out.Actions = append(out.Actions, act(a))
		}
		return &out
	}
	out := p
	if !keep {
		out.ID, out.State, out.Reason, out.Submit = nilKey, zs, "unknown", 0
	}
	out.Bypass, out.Pre, out.Cont, out.Post, out.Deferred = chk(p.Bypass), chk(p.Pre), chk(p.Cont), chk(p.Post), chk(p.Deferred)
	out.Blocks = []fullBlock{}
	for _, b := range p.Blocks {
		nb := b
		nb.Key = nilKey
		if !keep {
			nb.ID, nb.State = nilKey, zs
		}
		nb.Bypass, nb.Pre, nb.Cont, nb.Post, nb.Deferred = chk(b.Bypass), chk(b.Pre), chk(b.Cont), chk(b.Post), chk(b.Deferred)
		nb.Seqs = []fullSeq{}
		for _, q := range b.Seqs {
			nq := q
			nq.Key = nilKey
			if !keep {
				nq.ID, nq.State = nilKey, zs
			}
			nq.Actions = []fullAction{}
			for _, a := range q.Actions {
				nq.Actions = append(nq.Actions, act(a))
			}
			nb.Seqs = append(nb.Seqs, nq)
		}
		out.Blocks = append(out.Blocks, nb)
	}
	return out
}

// pointersOf collects the addresses of everything mutable reachable from v: pointers, map headers and
// slice backing arrays (of non-zero length).
func pointersOf(v reflect.Value, seen map[uintptr]string, path string, depth int) {
	if depth > 40 || !v.IsValid() {
		return
	}
	switch v.Kind() {
	case reflect.Ptr:
		if v.IsNil() {
			return
		}
		if _, ok := seen[v.Pointer()]; ok {
			return
		}
		seen[v.Pointer()] = path
		pointersOf(v.Elem(), seen, path, depth+1)
	case reflect.Interface:
		if !v.IsNil() {
			pointersOf(v.Elem(), seen, path, depth+1)
		}
	case reflect.Struct:
		if _, ok := v.Interface().(time.Time); ok {
			return
		}
		for i := 0; i < v.NumField(); i++ {
			if !v.Type().Field(i).IsExported() {
				continue
			}
			pointersOf(v.Field(i), seen, path+"."+v.Type().Field(i).Name, depth+1)
		}
	case reflect.Slice:
		if v.IsNil() || v.Len() == 0 {
			return
		}
		seen[v.Pointer()] = path + "[]"
		for i := 0; i < v.Len(); i++ {
			pointersOf(v.Index(i), seen, path+"[]", depth+1)
		}
	case reflect.Map:
		if v.IsNil() {
			return
		}
		seen[v.Pointer()] = path + "{}"
		for _, k := range v.MapKeys() {
			pointersOf(v.MapIndex(k), seen, path+"{}", depth+1)
		}
	}
}

type SecReq struct {
	T      string
	Token  string `coerce:"secure"`
	Nested *SecInner
	List   []SecInner
	Opts   map[string]*SecInner
}
type SecInner struct {
	Name string
	Pass string `coerce:"secure"`
}

func c18Case(r *Result, env *engineEnv, rng randLike, n int) {
	ctx := context.Background()
	g := &richGen{r: rng, sec: true, pre: fmt.Sprintf("cl%d.", n), now: time.Now().Add(-time.Hour)}
	executed := rng.IntN(4) != 0
	p := g.plan(executed)
	origImg := fPlan(p)
	for combo := 0; combo < 4; combo++ {
		keep, secrets := combo&1 != 0, combo&2 != 0
		var opts []clone.Option
		if keep {
			opts = append(opts, clone.WithKeepState())
		}
		if secrets {
			opts = append(opts, clone.WithKeepSecrets())
		}
		desc := map[string]any{"case": n, "executed": executed, "keepState": keep, "keepSecrets": secrets}
		var c *workflow.Plan
		pan := safeCall("clone.Plan", func() { c = clone.Plan(ctx, p, opts...) })
		if pan != "" || c == nil {
			r.finding(Finding{Kind: "monitor", Clause: "C18.clone_panics", Features: map[string]any{"keep": keep}, Text: "clone.Plan panicked or returned nil: " + pan, Case: desc})
			continue
		}
		got, want := fPlan(c), expectClone(origImg, keep)
		if !secrets {
			// secure-tagged values are scrubbed by the default clone: requests of the secure-typed plugin are
			// compared through their canaries instead (no secret value may survive, untagged data must)
			leak, lost := scrubCheck(&got, &want)
			if leak != "" {
				r.finding(Finding{Kind: "monitor", Clause: "C18.default_clone_scrubs_secrets", Features: map[string]any{"keepState": keep}, Text: "a secure-tagged value survived in the default clone: " + leak, Case: desc})
			}
			if lost != "" {
				r.finding(Finding{Kind: "monitor", Clause: "C18.untagged_data_intact", Features: map[string]any{"keepState": keep}, Text: "untagged request data was lost by the default clone: " + lost, Case: desc})
			}
		}
		if d := firstDiffPath(want, got); d != "" {
			r.finding(Finding{Kind: "monitor", Clause: "C18.clone_fields", Features: map[string]any{"keepState": keep, "field": d},
				Text: "the clone differs from what Model/Clone predicts; first difference at " + d, Case: desc, Observed: got, Model: want})
		}
		if d := firstDiffPath(origImg, fPlan(p)); d != "" {
			r.finding(Finding{Kind: "monitor", Clause: "C18.original_untouched", Features: map[string]any{"field": d, "keepSecrets": secrets}, Text: "cloning changed the original plan at " + d, Case: desc})
			return
		}
		// alias scan
		a, b := map[uintptr]string{}, map[uintptr]string{}
		pointersOf(reflect.ValueOf(p), a, "", 0)
		pointersOf(reflect.ValueOf(c), b, "", 0)
		for ptr, where := range b {
			if w2, ok := a[ptr]; ok {
				r.finding(Finding{Kind: "monitor", Clause: "C18.no_shared_memory", Features: map[string]any{"where": where}, Text: "the clone shares memory with the original: clone" + where + " = original" + w2, Case: desc})
				break
			}
		}
		// mutate the clone everywhere, the original must not change
		for it := range walk.Plan(c) {
			switch x := it.Value.(type) {
			case *workflow.Plan:
				x.Name += "!"
				if len(x.Meta) > 0 {
					x.Meta[0] ^= 0xff
				}
				if x.State != nil {
					x.State.Status = workflow.Stopped
				}
			case *workflow.Checks:
				x.Delay++
				if x.State != nil {
					x.State.Status = workflow.Stopped
				}
			case *workflow.Block:
				x.Name += "!"
				x.Concurrency++
				if x.State != nil {
					x.State.Status = workflow.Stopped
				}
			case *workflow.Sequence:
				x.Descr += "!"
				if x.State != nil {
					x.State.Status = workflow.Stopped
				}
			case *workflow.Action:
				x.Retries++
				if x.State != nil {
					x.State.Status = workflow.Stopped
				}
				switch q := x.Req.(type) {
				case *PReq:
					q.T += "!"
					q.Opts["mut"] = 1
				}
				for _, at := range x.Attempts {
					at.Start = at.Start.Add(time.Hour)
					if at.Err != nil {
						at.Err.Message += "!"
						if at.Err.Wrapped != nil {
							at.Err.Wrapped.Message += "!"
						}
					}
					if pr, ok := at.Resp.(*PResp); ok {
						pr.T += "!"
						if len(pr.L) > 0 {
							pr.L[0]++
						}
					}
				}
			}
		}
		if d := firstDiffPath(origImg, fPlan(p)); d != "" {
			r.finding(Finding{Kind: "monitor", Clause: "C18.no_shared_memory", Features: map[string]any{"where": d, "how": "mutation"}, Text: "mutating the clone changed the original at " + d, Case: desc})
			return
		}
		r.eval(desc, true)
		r.count(fmt.Sprintf("keepState=%v", keep))
	}
	// the default clone of any plan is accepted by Submit
	c := clone.Plan(ctx, p)
	if _, err := env.ws.Submit(ctx, c); err != nil {
		r.finding(Finding{Kind: "monitor", Clause: "C18.default_clone_resubmittable", Features: map[string]any{"executed": executed}, Text: "Submit refused the default clone of a plan: " + err.Error(), Case: map[string]any{"case": n}})
	}
	r.count("resubmitted")
	// single objects too
	if len(p.Blocks) > 0 {
		b := p.Blocks[0]
		cb := clone.Block(ctx, b, clone.WithKeepState(), clone.WithKeepSecrets())
		pb, pc := map[uintptr]string{}, map[uintptr]string{}
		pointersOf(reflect.ValueOf(b), pb, "", 0)
		pointersOf(reflect.ValueOf(cb), pc, "", 0)
		for ptr, where := range pc {
			if _, ok := pb[ptr]; ok {
				r.finding(Finding{Kind: "monitor", Clause: "C18.no_shared_memory", Features: map[string]any{"where": where, "object": "block"}, Text: "clone.Block shares memory with the original at " + where})
				break
			}
		}
	}
	if n < 1 {
		r.sample(map[string]any{"original": origImg, "default_clone": fPlan(clone.Plan(ctx, p))})
	}
}

func init() {
	campaigns["C18"] = func(r *Result) {
		quietLogs()
		r.Rule = "rich plans (as C13: keys, group, meta, value- and pointer-typed requests/responses with maps and slices, multi-attempt actions with wrapped errors) fresh or executed (every status) x {default, keep-state, keep-secrets, both}: full image compared with Model/Clone, original unchanged, alias scan by reflection over pointers/maps/slice arrays, mutation of every object of the clone, Submit of the default clone, clone.Block separately; non-trivial = every (plan, option set); distinct by (case, options)"
		env, err := newEngineEnv("")
		if err != nil {
			r.finding(Finding{Kind: "crash", Clause: "C18.env", Text: err.Error()})
			return
		}
		defer env.close()
		rng := newRand(18)
		for i := 0; i < tierN(150, 6000) && !expired(); i++ {
			c18Case(r, env, rng, i)
		}
		r.Validated = r.Evaluations
	}
}

// scrubCheck blanks the requests of the secure-typed plugin on both images (so that the field
// comparison ignores them) after checking the clone's side: no canary of a secure-tagged value may be
// present, the untagged parts must be.
func scrubCheck(got, want *fullPlan) (leak, lost string) {
	visit := func(g, w []fullAction) {
		for i := range g {
			if i >= len(w) || !strings.HasPrefix(w[i].Req, "harness.SecReq:") {
				continue
			}
			for _, canary := range []string{"tok-", "pw-", "pl-", "pm-"} {
				if strings.Contains(g[i].Req, canary) {
					leak = canary + " in " + g[i].Name
				}
			}
			for _, keepStr := range []string{`"T":"` + w[i].Name + `"`, `"Name":"n"`, `"Name":"l"`, `"Name":"m"`} {
				if !strings.Contains(g[i].Req, keepStr) {
					lost = keepStr + " in " + g[i].Name
				}
			}
			g[i].Req, w[i].Req = "", ""
		}
	}
	grp := func(g, w *fullChecks) {
		if g != nil && w != nil {
			visit(g.Actions, w.Actions)
		}
	}
	grp(got.Bypass, want.Bypass)
	grp(got.Pre, want.Pre)
	grp(got.Cont, want.Cont)
	grp(got.Post, want.Post)
	grp(got.Deferred, want.Deferred)
	for bi := range got.Blocks {
		if bi >= len(want.Blocks) {
			break
		}
		gb, wb := &got.Blocks[bi], &want.Blocks[bi]
		grp(gb.Bypass, wb.Bypass)
		grp(gb.Pre, wb.Pre)
		grp(gb.Cont, wb.Cont)
		grp(gb.Post, wb.Post)
		grp(gb.Deferred, wb.Deferred)
		for si := range gb.Seqs {
			if si < len(wb.Seqs) {
				visit(gb.Seqs[si].Actions, wb.Seqs[si].Actions)
			}
		}
	}
	return
}
