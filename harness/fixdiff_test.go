package harness

// Function-level differential for the recovery repair (hook coercion.VerifFixAction / VerifFixSeq /
// VerifFixChecks, build tag verif): random object states — every status incl. Stopped, 0-3 attempts
// with and without End / Err — are repaired by the real code and by Model/Fix (fixAction),
// Model/FixFull (fixSeqFull, fixChecks) through the driver; complete images are compared.
// Times: generated times are base+k s (image k); anything the code stamps with time.Now() is ≥ the
// call's start and maps to fixNow, the `now` the model is given.

import (
	"fmt"
	"time"

	coercion "github.com/element-of-surprise/coercion"
	"github.com/element-of-surprise/coercion/plugins"
	"github.com/element-of-surprise/coercion/workflow"
)

const fixNow = 999999

var fixBase = time.Date(2020, 1, 1, 0, 0, 0, 0, time.UTC)

func fixT(k int) time.Time {
	if k == 0 {
		return time.Time{}
	}
	return fixBase.Add(time.Duration(k) * time.Second)
}

func fixTImg(t time.Time, callStart time.Time) int {
	if t.IsZero() {
		return 0
	}
	if !t.Before(callStart) {
		return fixNow
	}
	return int(t.Sub(fixBase) / time.Second)
}

var fixStatuses = []string{"notStarted", "running", "completed", "failed", "stopped"}

func genFixAction(rng randLike, id int, pStopped float64) ActionImg {
	a := ActionImg{ID: id, Name: fmt.Sprintf("a%d", id), Descr: "d", Plugin: "act", Retries: rng.IntN(3), Attempts: []AttemptImg{}}
	switch x := rng.Float64(); {
	case x < 0.55:
		a.Status = "running"
	case x < 0.55+pStopped:
		a.Status = "stopped"
	default:
		a.Status = fixStatuses[rng.IntN(4)]
	}
	if a.Status != "notStarted" || rng.IntN(4) == 0 {
		a.TStart = 1 + rng.IntN(10)
	}
	if a.Status == "completed" || a.Status == "failed" || rng.IntN(6) == 0 {
		a.TEnd = 40 + rng.IntN(10)
	}
	n := rng.IntN(4)
	for i := 0; i < n; i++ {
		at := AttemptImg{TStart: 10 + 5*i, TEnd: 12 + 5*i, Err: "none", Resp: true}
		if rng.IntN(3) == 0 {
			at.Err, at.Resp = []string{"permanent", "transient"}[rng.IntN(2)], rng.IntN(2) == 0
		}
		// unended attempts: mostly at the tail (a crash), sometimes in the middle
		if (i == n-1 && rng.IntN(2) == 0) || rng.IntN(8) == 0 {
			at.TEnd = 0
		}
		a.Attempts = append(a.Attempts, at)
	}
	return a
}

func fixActionFromImg(im ActionImg) *workflow.Action {
	a := &workflow.Action{ID: intUUID(im.ID), Name: im.Name, Descr: im.Descr, Plugin: im.Plugin, Retries: im.Retries,
		State: &workflow.State{Status: statusFromStr(im.Status), Start: fixT(im.TStart), End: fixT(im.TEnd)}}
	for _, at := range im.Attempts {
		w := &workflow.Attempt{Start: fixT(at.TStart), End: fixT(at.TEnd)}
		if at.Resp {
			w.Resp = Resp{T: "r"}
		}
		switch at.Err {
		case "permanent":
			w.Err = &plugins.Error{Message: "p", Permanent: true}
		case "transient":
			w.Err = &plugins.Error{Message: "r"}
		}
		a.Attempts = append(a.Attempts, w)
	}
	return a
}

func fixActionImg(a *workflow.Action, id int, t0 time.Time) ActionImg {
	im := ActionImg{ID: id, Name: a.Name, Descr: a.Descr, Plugin: a.Plugin, Retries: a.Retries,
		Status: statusStr(a.State.Status), TStart: fixTImg(a.State.Start, t0), TEnd: fixTImg(a.State.End, t0), Attempts: []AttemptImg{}}
	for _, at := range a.Attempts {
		im.Attempts = append(im.Attempts, AttemptImg{Err: errKind(at.Err), Resp: at.Resp != nil, TStart: fixTImg(at.Start, t0), TEnd: fixTImg(at.End, t0)})
	}
	return im
}

func fixDiffCampaign(r *Result, quick, thorough int) {
	m := getModel()
	defer putModel(m)
	rng := newRand(909)
	n := tierN(quick, thorough)
	ask := func(kind string, obj any, dst any) bool {
		if err := m.Ask(map[string]any{"cmd": "fix", "kind": kind, "now": fixNow, "obj": obj}, dst); err != nil {
			r.finding(Finding{Kind: "disagreement", Clause: "C09.driver", Text: err.Error(), Case: obj})
			return false
		}
		return true
	}
	for i := 0; i < n && !expired(); i++ {
		pStopped := 0.0
		if i%5 == 4 {
			pStopped = 0.15
		}
		switch i % 3 {
		case 0: // fixAction
			in := genFixAction(rng, 1, pStopped)
			a := fixActionFromImg(in)
			t0 := time.Now()
			panicked := safeCall("fixAction", func() { coercion.VerifFixAction(a) })
			var want ActionImg
			if !ask("action", in, &want) {
				return
			}
			if panicked != "" {
				r.finding(Finding{Kind: "monitor", Clause: "C09.fix_function_panics", Features: map[string]any{"fn": "fixAction"}, Text: panicked, Case: in})
				continue
			}
			got := fixActionImg(a, 1, t0)
			if !canonEq(got, want) {
				r.finding(Finding{Kind: "disagreement", Clause: "C09.fix_model_mismatch", Features: map[string]any{"fn": "fixAction", "status": in.Status, "attempts": len(in.Attempts)},
					Text: "fixAction of the implementation and Model/Fix.fixAction differ", Case: in, Observed: got, Model: want})
			}
			r.count("fixAction:" + in.Status + "->" + got.Status)
			r.eval(map[string]any{"fn": "fixAction", "in": in}, in.Status == "running")
		case 1: // fixSeq
			q := SeqImg{ID: 100, Name: "s", Descr: "d", Actions: []ActionImg{}}
			q.Status = "running"
			if rng.IntN(6) == 0 {
				q.Status = fixStatuses[rng.IntN(5)]
			}
			q.TStart = 1 + rng.IntN(5)
			if rng.IntN(5) == 0 {
				q.TEnd = 45
			}
			na := rng.IntN(5)
			for j := 0; j < na; j++ {
				q.Actions = append(q.Actions, genFixAction(rng, 101+j, pStopped))
			}
			s := &workflow.Sequence{ID: intUUID(q.ID), Name: q.Name, Descr: q.Descr, State: &workflow.State{Status: statusFromStr(q.Status), Start: fixT(q.TStart), End: fixT(q.TEnd)}}
			for _, ai := range q.Actions {
				s.Actions = append(s.Actions, fixActionFromImg(ai))
			}
			t0 := time.Now()
			panicked := safeCall("fixSeq", func() { coercion.VerifFixSeq(s) })
			var want SeqImg
			if !ask("seq", q, &want) {
				return
			}
			if panicked != "" {
				r.finding(Finding{Kind: "monitor", Clause: "C09.fix_function_panics", Features: map[string]any{"fn": "fixSeq"}, Text: panicked, Case: q})
				continue
			}
			got := SeqImg{ID: q.ID, Name: s.Name, Descr: s.Descr, Status: statusStr(s.State.Status), TStart: fixTImg(s.State.Start, t0), TEnd: fixTImg(s.State.End, t0), Actions: []ActionImg{}}
			for j, a := range s.Actions {
				got.Actions = append(got.Actions, fixActionImg(a, 101+j, t0))
			}
			if !canonEq(got, want) {
				r.finding(Finding{Kind: "disagreement", Clause: "C09.fix_model_mismatch", Features: map[string]any{"fn": "fixSeq", "status": q.Status, "gotStatus": got.Status, "wantStatus": want.Status},
					Text: "fixSeq of the implementation and Model/FixFull.fixSeqFull differ", Case: q, Observed: got, Model: want})
			}
			r.count("fixSeq:" + q.Status + "->" + got.Status)
			r.eval(map[string]any{"fn": "fixSeq", "in": q}, q.Status == "running" && na > 0)
		case 2: // fixChecks
			c := ChecksImg{ID: 200, Actions: []ActionImg{}}
			c.Status = fixStatuses[rng.IntN(5)]
			if rng.IntN(2) == 0 {
				c.Status = "running"
			}
			c.TStart = 1 + rng.IntN(5)
			if rng.IntN(3) == 0 {
				c.TEnd = 45
			}
			na := rng.IntN(4)
			for j := 0; j < na; j++ {
				c.Actions = append(c.Actions, genFixAction(rng, 201+j, pStopped))
			}
			w := &workflow.Checks{ID: intUUID(c.ID), State: &workflow.State{Status: statusFromStr(c.Status), Start: fixT(c.TStart), End: fixT(c.TEnd)}}
			for _, ai := range c.Actions {
				w.Actions = append(w.Actions, fixActionFromImg(ai))
			}
			t0 := time.Now()
			panicked := safeCall("fixChecks", func() { coercion.VerifFixChecks(w) })
			var want ChecksImg
			if !ask("checks", c, &want) {
				return
			}
			if panicked != "" {
				r.finding(Finding{Kind: "monitor", Clause: "C09.fix_function_panics", Features: map[string]any{"fn": "fixChecks"}, Text: panicked, Case: c})
				continue
			}
			got := ChecksImg{ID: c.ID, Status: statusStr(w.State.Status), TStart: fixTImg(w.State.Start, t0), TEnd: fixTImg(w.State.End, t0), Actions: []ActionImg{}}
			for j, a := range w.Actions {
				got.Actions = append(got.Actions, fixActionImg(a, 201+j, t0))
			}
			if !canonEq(got, want) {
				r.finding(Finding{Kind: "disagreement", Clause: "C09.fix_model_mismatch", Features: map[string]any{"fn": "fixChecks", "status": c.Status},
					Text: "fixChecks of the implementation and Model/FixFull.fixChecks differ", Case: c, Observed: got, Model: want})
			}
			r.count("fixChecks:" + c.Status + "->" + got.Status)
			r.eval(map[string]any{"fn": "fixChecks", "in": c}, c.Status == "running")
		}
	}
	// nil group: fixChecks(nil) must be a no-op
	if p := safeCall("fixChecks(nil)", func() { coercion.VerifFixChecks(nil) }); p != "" {
		r.finding(Finding{Kind: "monitor", Clause: "C09.fix_function_panics", Features: map[string]any{"fn": "fixChecks", "nil": true}, Text: p})
	}
}
