#!/bin/sh
# regenerate go.mod / go.sum of the harness from /repo's (so dependency versions always match the tree under test)
set -e
cd "$(dirname "$0")"
REPO=${VERIF_REPO:-/repo}
{
  echo "module verifharness"
  echo
  sed -n '/^go /p' $REPO/go.mod
  echo
  echo "require github.com/element-of-surprise/coercion v0.0.0"
  echo "replace github.com/element-of-surprise/coercion => $REPO"
  echo
  awk '/^require \(/{p=1} p{print} /^\)/{p=0}' $REPO/go.mod
} > go.mod.new
cmp -s go.mod.new go.mod || mv go.mod.new go.mod
rm -f go.mod.new
cmp -s $REPO/go.sum go.sum || cp $REPO/go.sum go.sum
