package harness

// C20 — builder: exact differential of per-call results (error class / panic) and of every emitted
// plan (imaged at emission and again at the end of the history) on random call histories.

import (
	"fmt"
	"math/rand/v2"
	"strings"
	"time"

	"github.com/element-of-surprise/coercion/workflow"
	"github.com/element-of-surprise/coercion/workflow/builder"
)

type bCall struct {
	C      string     `json:"c"`
	Kind   *string    `json:"kind,omitempty"`
	Checks *ChecksImg `json:"checks,omitempty"`
	HasNil bool       `json:"hasNil"`
	Args   *bArgs     `json:"args,omitempty"`
	Seq    *SeqImg    `json:"seq,omitempty"`
	Action *ActionImg `json:"action,omitempty"`
	Blank  bool       `json:"blank"`
	Name   string     `json:"name"`
	Descr  string     `json:"descr"`
	Group  *int       `json:"group,omitempty"`
	// not sent to the model's decision, only descriptive
	NilChecks, NilSeq, NilAction bool `json:"-"`
}

type bArgs struct {
	Key      int    `json:"key"`
	Name     string `json:"name"`
	Descr    string `json:"descr"`
	Entrance int64  `json:"entrance"`
	Exit     int64  `json:"exit"`
	Conc     int    `json:"conc"`
	Tol      int    `json:"tol"`
}

func errClass(err error) string {
	if err == nil {
		return "ok"
	}
	m := err.Error()
	switch {
	case strings.Contains(m, "after Plan() has been called"), strings.Contains(m, "more than once"):
		return "err:afterEmit"
	case strings.Contains(m, "must not be nil"):
		return "err:nilArg"
	case strings.Contains(m, "with existing"):
		return "err:dupGroup"
	case strings.Contains(m, "unknown check type"):
		return "err:badType"
	case strings.Contains(m, "non-Plan or non-Block"), strings.Contains(m, "invalid type for"):
		return "err:wrongLevel"
	case strings.Contains(m, "cannot go up from root"):
		return "err:upFromRoot"
	case strings.Contains(m, "must be provided"), strings.Contains(m, "must not be empty"):
		return "err:missingField"
	}
	return "err:other"
}

var gkinds = []string{"bypass", "pre", "cont", "post", "deferred"}

func ctOf(k *string) builder.ChecksType {
	if k == nil {
		return builder.ChecksType(9)
	}
	switch *k {
	case "bypass":
		return builder.BypassChecks
	case "pre":
		return builder.PreChecks
	case "cont":
		return builder.ContChecks
	case "post":
		return builder.PostChecks
	case "deferred":
		return builder.DeferredChecks
	}
	return builder.CTUnknown
}

type c20Gen struct {
	r   *rand.Rand
	n   int
	pos string // shadow position: plan, pgroup, block, bgroup, seq, or "?" after errors
}

func (g *c20Gen) name() string {
	g.n++
	switch x := g.r.IntN(40); {
	case x == 0:
		return ""
	case x == 1:
		return "  "
	}
	return fmt.Sprintf("n%d", g.n)
}

func (g *c20Gen) action() *ActionImg {
	a := &ActionImg{Name: g.name(), Descr: "d", Plugin: "plug", Status: "notStarted", Attempts: []AttemptImg{}, Req: ""}
	if g.r.IntN(30) == 0 {
		a.Plugin = ""
	}
	if g.r.IntN(40) == 0 {
		a.Descr = ""
	}
	return a
}

func (g *c20Gen) call() bCall {
	// choose a call kind; biased towards what is valid at the shadow position
	var opts []string
	switch g.pos {
	case "plan":
		opts = []string{"addChecks", "addChecks", "addBlock", "addBlock", "addBlock", "plan"}
	case "pgroup", "bgroup":
		opts = []string{"addAction", "addAction", "up", "up"}
	case "block":
		opts = []string{"addChecks", "addSequence", "addSequence", "addSequence", "up"}
	case "seq":
		opts = []string{"addAction", "addAction", "addAction", "up"}
	default:
		opts = []string{"reset", "up", "plan", "err"}
	}
	all := []string{"addChecks", "addBlock", "addSequence", "addAction", "up", "plan", "err", "reset"}
	c := opts[g.r.IntN(len(opts))]
	if g.r.IntN(100) < 15 {
		c = all[g.r.IntN(len(all))]
	}
	out := bCall{C: c}
	switch c {
	case "addChecks":
		k := gkinds[g.r.IntN(5)]
		out.Kind = &k
		if g.r.IntN(25) == 0 {
			out.Kind = nil
		}
		if g.r.IntN(25) == 0 {
			out.NilChecks = true
		} else {
			ch := &ChecksImg{Status: "notStarted", Actions: []ActionImg{}, Delay: int64(g.r.IntN(3))}
			for i := g.r.IntN(3); i > 0; i-- {
				ch.Actions = append(ch.Actions, *g.action())
			}
			out.Checks = ch
			out.HasNil = g.r.IntN(25) == 0
		}
	case "addBlock":
		out.Args = &bArgs{Name: g.name(), Descr: "d", Conc: g.r.IntN(4), Tol: g.r.IntN(3) - 1, Entrance: int64(g.r.IntN(2)), Exit: int64(g.r.IntN(2)), Key: g.r.IntN(2) * (g.n + 1)}
		if g.r.IntN(40) == 0 {
			out.Args.Descr = ""
		}
	case "addSequence":
		if g.r.IntN(25) == 0 {
			out.NilSeq = true
		} else {
			q := &SeqImg{Name: g.name(), Descr: "d", Status: "notStarted", Actions: []ActionImg{}}
			if g.r.IntN(40) == 0 {
				q.Descr = ""
			}
			for i := g.r.IntN(2); i > 0; i-- {
				q.Actions = append(q.Actions, *g.action())
			}
			out.Seq = q
		}
	case "addAction":
		if g.r.IntN(30) == 0 {
			out.NilAction = true
		} else {
			out.Action = g.action()
		}
	case "reset":
		out.Name, out.Descr = g.name(), "descr"
		if g.r.IntN(8) == 0 {
			out.Descr = " \t"
		}
		if g.r.IntN(4) == 0 {
			gid := g.r.IntN(3) // 0 = uuid.Nil
			out.Group = &gid
		}
		out.Blank = strings.TrimSpace(out.Name) == "" || strings.TrimSpace(out.Descr) == ""
	}
	return out
}

// shadow position update after an accepted call (only to steer generation)
func (g *c20Gen) advance(c bCall, res string) {
	if res != "ok" && res != "plan" {
		if c.C == "reset" {
			g.pos = "?"
		}
		if strings.HasPrefix(res, "err") && c.C != "plan" && c.C != "err" {
			g.pos = "?"
		}
		return
	}
	switch c.C {
	case "reset":
		g.pos = "plan"
	case "addChecks":
		if g.pos == "plan" {
			g.pos = "pgroup"
		} else {
			g.pos = "bgroup"
		}
	case "addBlock":
		g.pos = "block"
	case "addSequence":
		g.pos = "seq"
	case "up":
		switch g.pos {
		case "pgroup", "block":
			g.pos = "plan"
		case "bgroup", "seq":
			g.pos = "block"
		}
	case "plan":
		g.pos = "?"
	}
}

func actFromImg(a ActionImg) *workflow.Action {
	return &workflow.Action{Name: a.Name, Descr: a.Descr, Plugin: a.Plugin}
}

// applyCall performs one call on the real builder; returns the canonical result string.
func applyCall(b *builder.BuildPlan, c bCall) (res string, emitted *workflow.Plan, err error) {
	defer func() {
		if r := recover(); r != nil {
			res, emitted, err = "panic", nil, nil
		}
	}()
	switch c.C {
	case "up":
		b.Up()
	case "err":
	case "plan":
		p, e := b.Plan()
		if e != nil {
			return errClass(e), nil, e
		}
		return "plan", p, nil
	case "reset":
		var opts []builder.Option
		if c.Group != nil {
			opts = append(opts, builder.WithGroupID(intUUID(*c.Group)))
		}
		e := b.Reset(c.Name, c.Descr, opts...)
		return errClass(e), nil, e
	case "addChecks":
		var ch *workflow.Checks
		if c.Checks != nil {
			ch = &workflow.Checks{Delay: time.Duration(c.Checks.Delay) * time.Millisecond}
			for _, a := range c.Checks.Actions {
				ch.Actions = append(ch.Actions, actFromImg(a))
			}
			if c.HasNil {
				ch.Actions = append(ch.Actions, nil)
			}
		}
		b.AddChecks(ctOf(c.Kind), ch)
	case "addBlock":
		b.AddBlock(builder.BlockArgs{Key: intUUID(c.Args.Key), Name: c.Args.Name, Descr: c.Args.Descr,
			EntranceDelay: time.Duration(c.Args.Entrance) * time.Millisecond, ExitDelay: time.Duration(c.Args.Exit) * time.Millisecond,
			Concurrency: c.Args.Conc, ToleratedFailures: c.Args.Tol})
	case "addSequence":
		var q *workflow.Sequence
		if c.Seq != nil {
			q = &workflow.Sequence{Name: c.Seq.Name, Descr: c.Seq.Descr}
			for _, a := range c.Seq.Actions {
				q.Actions = append(q.Actions, actFromImg(a))
			}
		}
		b.AddSequence(q)
	case "addAction":
		var a *workflow.Action
		if c.Action != nil {
			a = actFromImg(*c.Action)
		}
		b.AddAction(a)
	}
	e := b.Err()
	return errClass(e), nil, e
}

type c20Obs struct {
	Rets  []string  `json:"rets"`
	Plans []PlanImg `json:"plans"`
}

func runC20(r *Result, m *Model, calls []bCall) {
	obs := c20Obs{Rets: []string{}, Plans: []PlanImg{}}
	var plans []*workflow.Plan
	var atEmit []PlanImg
	// first call is New
	c0 := calls[0]
	var opts []builder.Option
	if c0.Group != nil {
		opts = append(opts, builder.WithGroupID(intUUID(*c0.Group)))
	}
	b, err := builder.New(c0.Name, c0.Descr, opts...)
	obs.Rets = append(obs.Rets, errClass(err))
	var stickyErr error
	emitted := false
	identityBroken := -1
	if err == nil {
		for i, c := range calls[1:] {
			res, p, e := applyCall(b, c)
			obs.Rets = append(obs.Rets, res)
			if res == "panic" {
				break
			}
			if p != nil {
				plans = append(plans, p)
				atEmit = append(atEmit, planImage(p, nil))
				emitted = true
			}
			if c.C == "reset" {
				stickyErr, emitted = nil, false
				if e == nil {
					continue
				}
				// a failed Reset leaves b.err as it was
				stickyErr = b.Err()
				continue
			}
			// identity: before emission the very same error value keeps being returned
			if !emitted && c.C != "plan" {
				if stickyErr != nil && e != stickyErr && identityBroken < 0 {
					identityBroken = i + 1
				}
				if stickyErr == nil && e != nil {
					stickyErr = e
				}
			}
		}
	}
	for _, p := range plans {
		obs.Plans = append(obs.Plans, planImage(p, nil))
	}
	var mo struct {
		Rets []any `json:"rets"`
		Ref  []any `json:"ref"`
	}
	cmd := map[string]any{"cmd": "build", "calls": calls}
	if err := m.Ask(cmd, &mo); err != nil {
		r.finding(Finding{Kind: "disagreement", Clause: "C20.driver", Text: err.Error(), Case: calls})
		return
	}
	want := c20Obs{Rets: []string{}, Plans: []PlanImg{}}
	var wantPlans []any
	for _, x := range mo.Rets {
		switch v := x.(type) {
		case string:
			want.Rets = append(want.Rets, v)
		case map[string]any:
			want.Rets = append(want.Rets, "plan")
			wantPlans = append(wantPlans, v["plan"])
		}
	}
	// compare results; an unknown error text ("err:other") is accepted where the model expects some error
	retsOK := len(obs.Rets) == len(want.Rets)
	firstBad := -1
	for i := 0; retsOK && i < len(obs.Rets); i++ {
		if obs.Rets[i] != want.Rets[i] && !(obs.Rets[i] == "err:other" && strings.HasPrefix(want.Rets[i], "err:")) {
			retsOK = false
			firstBad = i
		}
	}
	if !retsOK {
		feat := map[string]any{}
		if firstBad >= 0 {
			feat["call"] = calls[firstBad].C
			feat["got"] = obs.Rets[firstBad]
			feat["want"] = want.Rets[firstBad]
		} else {
			feat["len"] = true
		}
		r.finding(Finding{Kind: "monitor", Clause: "C20.calls", Features: feat,
			Text: "per-call results of the builder differ from Model/Builder", Case: calls, Observed: obs.Rets, Model: want.Rets})
		return
	}
	if identityBroken >= 0 {
		r.finding(Finding{Kind: "monitor", Clause: "C20.sticky_identity", Features: map[string]any{"call": calls[identityBroken].C},
			Text: "a later call replaced the first recorded error by another error value", Case: calls, Observed: obs.Rets})
	}
	if wantPlans == nil {
		wantPlans = []any{}
	}
	if atEmit == nil {
		atEmit = []PlanImg{}
	}
	if !canonEq(obs.Plans, wantPlans) || !canonEq(atEmit, wantPlans) {
		r.finding(Finding{Kind: "monitor", Clause: "C20.plan", Features: map[string]any{"changedAfterEmit": canonEq(atEmit, wantPlans)},
			Text: "an emitted plan differs from the plan the call history describes (Model/Builder)", Case: calls, Observed: obs.Plans, Model: wantPlans})
	}
	// the bottom-up reference (Model/BuilderRef, "directly constructing the same hierarchy"): one plan per successful Plan()
	if mo.Ref == nil {
		mo.Ref = []any{}
	}
	if !canonEq(atEmit, mo.Ref) {
		r.finding(Finding{Kind: "monitor", Clause: "C20.reference", Features: map[string]any{"emitted": len(atEmit), "reference": len(mo.Ref)},
			Text: "an emitted plan differs from what constructing the same hierarchy bottom-up yields (Model/BuilderRef)", Case: calls, Observed: atEmit, Model: mo.Ref})
	} else if len(atEmit) > 0 {
		r.count("emitted plans equal to the bottom-up reference")
	}
	for _, x := range obs.Rets {
		if x == "panic" {
			// the model agrees that this history panics: a known defect class, reported as a monitor finding of its own
			last := calls[len(obs.Rets)-1]
			feat := map[string]any{"call": last.C}
			if last.C == "addAction" {
				feat["nilAction"] = last.Action == nil
			}
			r.finding(Finding{Kind: "monitor", Clause: "C20.no_panic", Features: feat, Text: "builder call panicked", Case: calls, Observed: obs.Rets})
		}
	}
}

func init() {
	campaigns["C20"] = func(r *Result) {
		r.Rule = "random call histories (New + 3..30 calls of AddChecks/AddBlock/AddSequence/AddAction/Up/Plan/Err/Reset), 85% steered to be valid at the current position, 15% arbitrary; arguments include nil, empty and blank names, nil actions inside Checks, unknown check types, nil group ids; non-trivial = history with >=1 Up and >=1 refused call, or >= 6 calls; distinct by history"
		m := getModel()
		defer putModel(m)
		n := tierN(1500, 100000)
		rng := newRand(20)
		for i := 0; i < n && !expired(); i++ {
			g := &c20Gen{r: rng, pos: "plan"}
			calls := []bCall{{C: "reset", Name: "plan", Descr: "d"}}
			if rng.IntN(20) == 0 {
				c := bCall{C: "reset"}
				c.Name, c.Descr = g.name(), "d"
				gid := rng.IntN(2)
				c.Group = &gid
				c.Blank = strings.TrimSpace(c.Name) == ""
				calls[0] = c
			}
			ln := 3 + rng.IntN(28)
			// generate adaptively: steer by the model-independent shadow position, updated from the real result
			b, err := builder.New(calls[0].Name, calls[0].Descr)
			_ = b
			ups, refused := 0, 0
			if err == nil {
				shadow, _ := builder.New("x", "y")
				for k := 0; k < ln; k++ {
					c := g.call()
					res, _, _ := applyCall(shadow, c)
					calls = append(calls, c)
					if res == "panic" {
						break
					}
					g.advance(c, res)
					if c.C == "up" {
						ups++
					}
					if strings.HasPrefix(res, "err") {
						refused++
					}
					r.count("call:" + c.C)
				}
			}
			runC20(r, m, calls)
			r.eval(calls, (ups >= 1 && refused >= 1) || len(calls) >= 6)
			if i < 2 {
				r.sample(calls)
			}
			r.count(fmt.Sprintf("len<=%d", (len(calls)/10+1)*10))
		}
		r.Validated = r.Evaluations
	}
}
