package harness

// C13 / C14 — the sqlite vault against the abstract vault (Model/Store): field-by-field round trips
// of rich plans through Create / Update* / Read / Delete, un-encodable requests at every position,
// raw row counts, interleaved creates and deletes, second Create, SIGKILL during Submit.

import (
	"encoding/json"
	"fmt"
	"math"
	"os"
	"os/exec"
	"path/filepath"
	"syscall"
	"time"

	coercion "github.com/element-of-surprise/coercion"
	"github.com/element-of-surprise/coercion/plugins"
	"github.com/element-of-surprise/coercion/workflow"
	"github.com/element-of-surprise/coercion/workflow/context"
	"github.com/element-of-surprise/coercion/workflow/storage"
	"github.com/element-of-surprise/coercion/workflow/storage/cosmosdb"
	"github.com/element-of-surprise/coercion/workflow/storage/sqlite"
	"github.com/element-of-surprise/coercion/workflow/utils/walk"
	"github.com/google/uuid"
	"zombiezen.com/go/sqlite/sqlitex"
)

// ---------------------------------------------------------------------------------------------
// canonical full image of a plan (everything C13 lists)

type fullState struct {
	Status string `json:"status"`
	Start  int64  `json:"start"`
	End    int64  `json:"end"`
}
type fullErr struct {
	Code    uint     `json:"code"`
	Msg     string   `json:"msg"`
	Perm    bool     `json:"perm"`
	Wrapped *fullErr `json:"wrapped"`
}
type fullAttempt struct {
	Resp  string   `json:"resp"`
	Err   *fullErr `json:"err"`
	Start int64    `json:"start"`
	End   int64    `json:"end"`
}
type fullAction struct {
	ID, Key             string
	Name, Descr, Plugin string
	Timeout             int64
	Retries             int
	Req                 string
	State               fullState
	Attempts            []fullAttempt
}
type fullChecks struct {
	ID, Key string
	Delay   int64
	State   fullState
	Actions []fullAction
}
type fullSeq struct {
	ID, Key, Name, Descr string
	State                fullState
	Actions              []fullAction
}
type fullBlock struct {
	ID, Key, Name, Descr              string
	Entrance, Exit                    int64
	Conc, Tol                         int
	State                             fullState
	Bypass, Pre, Cont, Post, Deferred *fullChecks
	Seqs                              []fullSeq
}
type fullPlan struct {
	ID, Group, Name, Descr            string
	Meta                              string
	State                             fullState
	Reason                            string
	Submit                            int64
	Bypass, Pre, Cont, Post, Deferred *fullChecks
	Blocks                            []fullBlock
}

func ns(t time.Time) int64 {
	if t.IsZero() {
		return 0
	}
	return t.UnixNano()
}

func fState(s *workflow.State) fullState {
	if s == nil {
		return fullState{Status: "nil"}
	}
	return fullState{Status: statusStr(s.Status), Start: ns(s.Start), End: ns(s.End)}
}

func fErr(e *plugins.Error) *fullErr {
	if e == nil {
		return nil
	}
	return &fullErr{Code: uint(e.Code), Msg: e.Message, Perm: e.Permanent, Wrapped: fErr(e.Wrapped)}
}

func jstr(v any) string {
	if v == nil {
		return "null"
	}
	b, err := json.Marshal(v)
	if err != nil {
		return "unencodable"
	}
	return fmt.Sprintf("%T:%s", v, b)
}

func fAction(a *workflow.Action) fullAction {
	out := fullAction{ID: a.ID.String(), Key: a.Key.String(), Name: a.Name, Descr: a.Descr, Plugin: a.Plugin, Timeout: int64(a.Timeout), Retries: a.Retries,
		Req: jstr(a.Req), State: fState(a.State), Attempts: []fullAttempt{}}
	for _, at := range a.Attempts {
		out.Attempts = append(out.Attempts, fullAttempt{Resp: jstr(at.Resp), Err: fErr(at.Err), Start: ns(at.Start), End: ns(at.End)})
	}
	return out
}

func fChecks(c *workflow.Checks) *fullChecks {
	if c == nil {
		return nil
	}
	out := &fullChecks{ID: c.ID.String(), Key: c.Key.String(), Delay: int64(c.Delay), State: fState(c.State), Actions: []fullAction{}}
	for _, a := range c.Actions {
		out.Actions = append(out.Actions, fAction(a))
	}
	return out
}

func fPlan(p *workflow.Plan) fullPlan {
	out := fullPlan{ID: p.ID.String(), Group: p.GroupID.String(), Name: p.Name, Descr: p.Descr, Meta: string(p.Meta), State: fState(p.State), Reason: reasonStr(p.Reason),
		Submit: ns(p.SubmitTime), Bypass: fChecks(p.BypassChecks), Pre: fChecks(p.PreChecks), Cont: fChecks(p.ContChecks), Post: fChecks(p.PostChecks), Deferred: fChecks(p.DeferredChecks), Blocks: []fullBlock{}}
	for _, b := range p.Blocks {
		fb := fullBlock{ID: b.ID.String(), Key: b.Key.String(), Name: b.Name, Descr: b.Descr, Entrance: int64(b.EntranceDelay), Exit: int64(b.ExitDelay), Conc: b.Concurrency, Tol: b.ToleratedFailures,
			State: fState(b.State), Bypass: fChecks(b.BypassChecks), Pre: fChecks(b.PreChecks), Cont: fChecks(b.ContChecks), Post: fChecks(b.PostChecks), Deferred: fChecks(b.DeferredChecks), Seqs: []fullSeq{}}
		for _, q := range b.Sequences {
			fq := fullSeq{ID: q.ID.String(), Key: q.Key.String(), Name: q.Name, Descr: q.Descr, State: fState(q.State), Actions: []fullAction{}}
			for _, a := range q.Actions {
				fq.Actions = append(fq.Actions, fAction(a))
			}
			fb.Seqs = append(fb.Seqs, fq)
		}
		out.Blocks = append(out.Blocks, fb)
	}
	return out
}

// firstDiffPath returns the JSON path of the first difference between two images.
func firstDiffPath(a, b any) string {
	var x, y any
	ba, _ := json.Marshal(a)
	bb, _ := json.Marshal(b)
	json.Unmarshal(ba, &x)
	json.Unmarshal(bb, &y)
	var walkD func(p string, x, y any) string
	walkD = func(p string, x, y any) string {
		switch xv := x.(type) {
		case map[string]any:
			yv, ok := y.(map[string]any)
			if !ok {
				return p
			}
			for _, k := range sortedKeys(xv) {
				if d := walkD(p+"."+k, xv[k], yv[k]); d != "" {
					return d
				}
			}
			return ""
		case []any:
			yv, ok := y.([]any)
			if !ok || len(xv) != len(yv) {
				return p + "[len]"
			}
			for i := range xv {
				if d := walkD(p+"[]", xv[i], yv[i]); d != "" {
					return d
				}
			}
			return ""
		default:
			if !jsonEq(x, y) {
				return p
			}
			return ""
		}
	}
	return walkD("", x, y)
}

// ---------------------------------------------------------------------------------------------
// rich plan generator (fully defaulted, ready for Vault.Create)

type richGen struct {
	sec bool
	r   randLike
	n   int
	pre string
	now time.Time
}

func (g *richGen) t() time.Time {
	switch g.r.IntN(4) {
	case 0:
		return time.Time{}
	}
	g.n++
	return g.now.Add(time.Duration(g.n)*time.Second + time.Duration(g.r.IntN(1000000000))).UTC()
}

func (g *richGen) state(st workflow.Status) *workflow.State {
	s := &workflow.State{Status: st}
	if st != workflow.NotStarted {
		s.Start = g.t()
		if st != workflow.Running {
			s.End = g.t()
		}
	}
	return s
}

// id returns an object id that is NOT ordered by creation time (a third of them; the rest are UUIDv7 as Submit assigns
// them): the order of children must come from the stored position, never from the ids.
func (g *richGen) id() uuid.UUID {
	if g.r.IntN(3) != 0 {
		return workflow.NewV7()
	}
	var u uuid.UUID
	for i := range u {
		u[i] = byte(g.r.IntN(256))
	}
	u[6] = (u[6] & 0x0f) | 0x40 // version 4
	u[8] = (u[8] & 0x3f) | 0x80
	return u
}

func (g *richGen) key() uuid.UUID {
	if g.r.IntN(2) == 0 {
		return uuid.Nil
	}
	return workflow.NewV7()
}

func (g *richGen) attempts(ptr bool) []*workflow.Attempt {
	n := g.r.IntN(4)
	if n == 0 {
		return nil
	}
	var out []*workflow.Attempt
	for i := 0; i < n; i++ {
		g.n++
		at := &workflow.Attempt{Start: g.t(), End: g.t()}
		switch g.r.IntN(3) {
		case 0:
			at.Err = &plugins.Error{Code: plugins.ErrCode(g.r.IntN(5)), Message: fmt.Sprintf("e%d", g.n), Permanent: g.r.IntN(2) == 0}
			if g.r.IntN(2) == 0 {
				at.Err.Wrapped = &plugins.Error{Code: 7, Message: "inner", Wrapped: &plugins.Error{Message: "innermost", Permanent: true}}
			}
		}
		if g.r.IntN(3) != 0 {
			if ptr {
				at.Resp = &PResp{T: fmt.Sprintf("r%d", g.n), L: []int{g.n, i}}
			} else {
				at.Resp = Resp{T: fmt.Sprintf("r%d", g.n)}
			}
		}
		out = append(out, at)
	}
	return out
}

func (g *richGen) action(check bool, st workflow.Status) *workflow.Action {
	g.n++
	ptr := g.r.IntN(3) == 0
	a := &workflow.Action{ID: g.id(), Key: g.key(), Name: fmt.Sprintf("%sa%d", g.pre, g.n), Descr: fmt.Sprintf("descr %d", g.n),
		Timeout: time.Duration(5+g.r.IntN(100)) * time.Second, Retries: g.r.IntN(4), State: g.state(st)}
	sec := !ptr && g.sec && g.r.IntN(3) == 0
	switch {
	case sec:
		a.Plugin = "sact"
		if check {
			a.Plugin = "schk"
		}
		a.Req = SecReq{T: a.Name, Token: "tok-" + a.Name, Nested: &SecInner{Name: "n", Pass: "pw-" + a.Name},
			List: []SecInner{{Name: "l", Pass: "pl-" + a.Name}}, Opts: map[string]*SecInner{"k": {Name: "m", Pass: "pm-" + a.Name}}}
	case ptr && check:
		a.Plugin, a.Req = "pchk", &PReq{T: a.Name, Opts: map[string]int{"x": g.n}}
	case ptr:
		a.Plugin, a.Req = "pact", &PReq{T: a.Name, Opts: map[string]int{}}
	case check:
		a.Plugin, a.Req = "chk", Req{T: a.Name}
	default:
		a.Plugin, a.Req = "act", Req{T: a.Name}
	}
	if st != workflow.NotStarted {
		a.Attempts = g.attempts(ptr)
	}
	return a
}

func (g *richGen) checks(p float64, st workflow.Status) *workflow.Checks {
	if g.r.Float64() >= p {
		return nil
	}
	c := &workflow.Checks{ID: g.id(), Key: g.key(), Delay: time.Duration(g.r.IntN(5000)) * time.Millisecond, State: g.state(st)}
	for i := 1 + g.r.IntN(2); i > 0; i-- {
		c.Actions = append(c.Actions, g.action(true, st))
	}
	return c
}

func (g *richGen) plan(executed bool) *workflow.Plan {
	st := func() workflow.Status {
		if !executed {
			return workflow.NotStarted
		}
		return allStatuses[g.r.IntN(4)]
	}
	p := &workflow.Plan{ID: workflow.NewV7(), Name: g.pre + "plan", Descr: "a plan", State: g.state(st()), SubmitTime: g.now.Add(-time.Minute).UTC()}
	if g.r.IntN(2) == 0 {
		p.GroupID = workflow.NewV7()
	}
	switch g.r.IntN(3) {
	case 0:
		p.Meta = []byte(fmt.Sprintf("meta-%d\x00\xff", g.n))
	case 1:
		p.Meta = []byte{}
	}
	if executed && p.State.Status == workflow.Failed {
		p.Reason = []workflow.FailureReason{workflow.FRPreCheck, workflow.FRBlock, workflow.FRContCheck, workflow.FRExceedRecovery}[g.r.IntN(4)]
	}
	p.BypassChecks, p.PreChecks, p.ContChecks, p.PostChecks, p.DeferredChecks = g.checks(0.3, st()), g.checks(0.5, st()), g.checks(0.3, st()), g.checks(0.4, st()), g.checks(0.3, st())
	for b := 1 + g.r.IntN(3); b > 0; b-- {
		g.n++
		blk := &workflow.Block{ID: g.id(), Key: g.key(), Name: fmt.Sprintf("%sb%d", g.pre, g.n), Descr: "block", EntranceDelay: time.Duration(g.r.IntN(3)) * time.Second,
			ExitDelay: time.Duration(g.r.IntN(3)) * time.Millisecond, Concurrency: 1 + g.r.IntN(4), ToleratedFailures: g.r.IntN(4) - 1, State: g.state(st())}
		blk.BypassChecks, blk.PreChecks, blk.ContChecks, blk.PostChecks, blk.DeferredChecks = g.checks(0.2, st()), g.checks(0.3, st()), g.checks(0.2, st()), g.checks(0.3, st()), g.checks(0.3, st())
		for s := 1 + g.r.IntN(3); s > 0; s-- {
			g.n++
			q := &workflow.Sequence{ID: g.id(), Key: g.key(), Name: fmt.Sprintf("%ss%d", g.pre, g.n), Descr: "seq", State: g.state(st())}
			for a := 1 + g.r.IntN(3); a > 0; a-- {
				q.Actions = append(q.Actions, g.action(false, st()))
			}
			blk.Sequences = append(blk.Sequences, q)
		}
		p.Blocks = append(p.Blocks, blk)
	}
	for it := range walk.Plan(p) {
		if s, ok := it.Value.(interface{ SetPlanID(uuid.UUID) }); ok {
			s.SetPlanID(p.ID)
		}
	}
	return p
}

func tableCountsV(v *sqlite.Vault) map[string]int {
	out := map[string]int{}
	conn, err := v.Pool().Take(context.Background())
	if err != nil {
		return out
	}
	defer v.Pool().Put(conn)
	for _, t := range []string{"plans", "blocks", "checks", "sequences", "actions"} {
		sqlitex.ExecuteTransient(conn, "SELECT count(*) FROM "+t, &sqlitex.ExecOptions{ResultFunc: func(stmt *sqliteStmt) error {
			out[t] = stmt.ColumnInt(0)
			return nil
		}})
	}
	return out
}

func objectCounts(ps ...*workflow.Plan) map[string]int {
	out := map[string]int{"plans": 0, "blocks": 0, "checks": 0, "sequences": 0, "actions": 0}
	for _, p := range ps {
		for it := range walk.Plan(p) {
			switch it.Value.Type() {
			case workflow.OTPlan:
				out["plans"]++
			case workflow.OTBlock:
				out["blocks"]++
			case workflow.OTCheck:
				out["checks"]++
			case workflow.OTSequence:
				out["sequences"]++
			case workflow.OTAction:
				out["actions"]++
			}
		}
	}
	return out
}

func newStoreOnly() (*sqlite.Vault, error) {
	reg := newRegistry(newTracer(), &scripts{tags: map[string]*tagState{}})
	return sqlite.New(context.Background(), "", reg, sqlite.WithInMemory())
}

// ---------------------------------------------------------------------------------------------
// C13 case: create, random updates, reads

func c13Case(r *Result, rng randLike, n int, backend string) {
	ctx := context.Background()
	var v storage.Vault
	if backend == "cosmos" {
		v = cosmosdb.NewVerifVault(newRegistry(newTracer(), &scripts{tags: map[string]*tagState{}}))
	} else {
		sv, err := newStoreOnly()
		if err != nil {
			r.finding(Finding{Kind: "crash", Clause: "C13.env", Text: err.Error()})
			return
		}
		defer sv.Close(ctx)
		v = sv
	}
	g := &richGen{r: rng, pre: fmt.Sprintf("c%d.", n), now: time.Now().Add(-time.Hour)}
	executed := rng.IntN(3) == 0
	p := g.plan(executed)
	desc := map[string]any{"case": n, "executed_at_create": executed, "backend": backend}
	if err := v.Create(ctx, p); err != nil {
		r.finding(Finding{Kind: "monitor", Clause: "C13.create", Text: "Create of a valid plan failed: " + err.Error(), Case: desc})
		return
	}
	check := func(stage string) bool {
		got, err := v.Read(ctx, p.ID)
		if err != nil {
			r.finding(Finding{Kind: "monitor", Clause: "C13.read", Features: map[string]any{"stage": stage}, Text: "Read failed: " + err.Error(), Case: desc})
			return false
		}
		want, have := fPlan(p), fPlan(got)
		if d := firstDiffPath(want, have); d != "" {
			r.finding(Finding{Kind: "monitor", Clause: "C13.roundtrip", Features: map[string]any{"stage": stage, "field": d, "backend": backend},
				Text: backend + ": Read does not return what was last written; first difference at " + d, Case: desc, Observed: have, Model: want})
			return false
		}
		return true
	}
	if !check("after create") {
		return
	}
	// random updates
	var objs []any
	for it := range walk.Plan(p) {
		objs = append(objs, it.Value)
	}
	nu := 3 + rng.IntN(12)
	if backend == "cosmos" {
		// The repository's fake client re-encodes documents on every patch and does not keep the order of
		// children stable afterwards (also on the unchanged tree), so Update* over it cannot be judged:
		// the cosmos leg is the Create -> Read -> Delete round trip only.
		nu = 0
	}
	for i := 0; i < nu; i++ {
		o := objs[rng.IntN(len(objs))]
		st := allStatuses[rng.IntN(4)]
		var uerr error
		// a third of the updates leave the state untouched and change only what else the row holds (the attempts of an
		// action — what Runner.exec writes after every attempt while the action stays Running — or the plan's reason)
		keepState := rng.IntN(3) == 0
		switch x := o.(type) {
		case *workflow.Action:
			if keepState {
				_, ptr := x.Req.(*PReq)
				if rng.IntN(5) == 0 {
					x.Attempts = nil
				} else {
					g.n++
					at := &workflow.Attempt{Start: g.t(), End: g.t()}
					if ptr {
						at.Resp = &PResp{T: fmt.Sprintf("r%d", g.n), L: []int{g.n}}
					} else {
						at.Resp = Resp{T: fmt.Sprintf("r%d", g.n)}
					}
					x.Attempts = append(x.Attempts, at)
				}
				uerr = v.UpdateAction(ctx, x)
				o = nil
			}
		case *workflow.Plan:
			if keepState {
				x.Reason = []workflow.FailureReason{workflow.FRUnknown, workflow.FRBlock, workflow.FRPostCheck, workflow.FRDeferredCheck, workflow.FRExceedRecovery}[rng.IntN(5)]
				uerr = v.UpdatePlan(ctx, x)
				o = nil
			}
		}
		switch x := o.(type) {
		case *workflow.Plan:
			x.State = g.state(st)
			x.Reason = []workflow.FailureReason{workflow.FRUnknown, workflow.FRBlock, workflow.FRPostCheck, workflow.FRDeferredCheck, workflow.FRExceedRecovery}[rng.IntN(5)]
			uerr = v.UpdatePlan(ctx, x)
		case *workflow.Block:
			x.State = g.state(st)
			uerr = v.UpdateBlock(ctx, x)
		case *workflow.Checks:
			x.State = g.state(st)
			uerr = v.UpdateChecks(ctx, x)
		case *workflow.Sequence:
			x.State = g.state(st)
			uerr = v.UpdateSequence(ctx, x)
		case *workflow.Action:
			x.State = g.state(st)
			_, ptr := x.Req.(*PReq)
			if rng.IntN(4) == 0 {
				x.Attempts = nil // a reset (resetActions / resetAction)
			} else {
				x.Attempts = append(x.Attempts, g.attempts(ptr)...)
			}
			uerr = v.UpdateAction(ctx, x)
		}
		if uerr != nil {
			r.finding(Finding{Kind: "monitor", Clause: "C13.update", Text: "an Update failed: " + uerr.Error(), Case: desc})
			return
		}
		if i%4 == 3 || i == nu-1 {
			if !check(fmt.Sprintf("after %d updates", i+1)) {
				return
			}
		}
	}
	// unknown and deleted ids
	if got, err := v.Read(ctx, workflow.NewV7()); err == nil {
		r.finding(Finding{Kind: "monitor", Clause: "C13.unknown_id_is_error", Features: map[string]any{"empty": got == nil || got.State == nil}, Text: "Read of an id that was never created returned no error", Case: desc})
	}
	if err := v.Delete(ctx, p.ID); err != nil {
		r.finding(Finding{Kind: "monitor", Clause: "C13.delete", Text: "Delete failed: " + err.Error(), Case: desc})
		return
	}
	if _, err := v.Read(ctx, p.ID); err == nil {
		r.finding(Finding{Kind: "monitor", Clause: "C13.deleted_id_is_error", Text: "Read of a deleted id returned no error", Case: desc})
	}
	r.eval(map[string]any{"case": n, "updates": nu, "backend": backend, "plan": fPlan(p)}, nu >= 1 || backend == "cosmos")
	if n < 1 {
		r.sample(map[string]any{"updates": nu, "final_plan": fPlan(p)})
	}
	r.countN("updates", nu)
}

// ---------------------------------------------------------------------------------------------
// C14 cases

func c14Unencodable(r *Result, rng randLike, n int) {
	ctx := context.Background()
	v, err := newStoreOnly()
	if err != nil {
		return
	}
	defer v.Close(ctx)
	g := &richGen{r: rng, pre: fmt.Sprintf("u%d.", n), now: time.Now().Add(-time.Hour)}
	other := g.plan(false)
	if err := v.Create(ctx, other); err != nil {
		r.finding(Finding{Kind: "monitor", Clause: "C14.create", Text: err.Error()})
		return
	}
	p := g.plan(false)
	// every value-typed action is a position; poison them one at a time (quick: a random third of them)
	var acts []*workflow.Action
	var where []string
	for it := range walk.Plan(p) {
		if a, ok := it.Value.(*workflow.Action); ok {
			if _, ok := a.Req.(Req); ok {
				acts = append(acts, a)
				par := it.Chain[len(it.Chain)-1]
				w := "sequence"
				if par.Type() == workflow.OTCheck {
					w = "check"
					if len(it.Chain) >= 3 {
						w = "block check"
					}
				}
				where = append(where, w)
			}
		}
	}
	before := tableCountsV(v)
	for i, a := range acts {
		if cfg.Tier == "quick" && rng.IntN(3) != 0 {
			continue
		}
		orig := a.Req
		a.Req = Req{T: "poison", N: math.NaN()}
		desc := map[string]any{"poisoned_action": a.Name, "position": i, "of": len(acts), "where": where[i]}
		err := v.Create(ctx, p)
		after := tableCountsV(v)
		_, rerr := v.Read(ctx, p.ID)
		ex, _ := v.Exists(ctx, p.ID)
		switch {
		case err == nil:
			r.finding(Finding{Kind: "monitor", Clause: "C14.unencodable_create_fails", Features: map[string]any{"where": where[i], "readable": rerr == nil},
				Text: "Create succeeded although a request cannot be serialised", Case: desc, Observed: map[string]any{"before": before, "after": after}})
			v.Delete(ctx, p.ID)
			before = tableCountsV(v)
		case !jsonEq(before, after) || rerr == nil || ex:
			r.finding(Finding{Kind: "monitor", Clause: "C14.failed_create_leaves_no_trace", Features: map[string]any{"where": where[i], "readable": rerr == nil, "exists": ex},
				Text: "a failed Create left rows behind", Case: desc, Observed: map[string]any{"before": before, "after": after}})
			return
		}
		a.Req = orig
		r.eval(desc, true)
		r.count("unencodable@" + where[i])
	}
	// the healthy plan goes in afterwards, and the other plan is untouched
	if err := v.Create(ctx, p); err != nil {
		r.finding(Finding{Kind: "monitor", Clause: "C14.create", Text: "Create failed after failed attempts: " + err.Error()})
		return
	}
	if got, err := v.Read(ctx, other.ID); err != nil || firstDiffPath(fPlan(other), fPlan(got)) != "" {
		r.finding(Finding{Kind: "monitor", Clause: "C14.other_plans_untouched", Text: "another plan changed while Creates failed"})
	}
	// second create of the same id
	clone := g.plan(false)
	clone.ID = p.ID
	b2 := tableCountsV(v)
	if err := v.Create(ctx, clone); err == nil {
		r.finding(Finding{Kind: "monitor", Clause: "C14.second_create_fails", Text: "creating an existing id succeeded"})
	}
	if got, err := v.Read(ctx, p.ID); err != nil || firstDiffPath(fPlan(p), fPlan(got)) != "" || !jsonEq(b2, tableCountsV(v)) {
		r.finding(Finding{Kind: "monitor", Clause: "C14.second_create_keeps_first", Text: "a refused second Create altered the stored plan or left rows"})
	}
	r.eval(map[string]any{"second_create": n}, true)
}

func c14Interleave(r *Result, rng randLike, n int) {
	ctx := context.Background()
	v, err := newStoreOnly()
	if err != nil {
		return
	}
	defer v.Close(ctx)
	g := &richGen{r: rng, pre: fmt.Sprintf("i%d.", n), now: time.Now().Add(-time.Hour)}
	live := map[uuid.UUID]*workflow.Plan{}
	var order []uuid.UUID
	var hist []string
	for step := 0; step < 6+rng.IntN(8); step++ {
		if len(live) > 0 && rng.IntN(3) == 0 {
			id := order[rng.IntN(len(order))]
			if _, ok := live[id]; !ok {
				continue
			}
			hist = append(hist, "delete")
			if err := v.Delete(ctx, id); err != nil {
				r.finding(Finding{Kind: "monitor", Clause: "C14.delete", Text: err.Error(), Case: hist})
				return
			}
			delete(live, id)
		} else {
			p := g.plan(rng.IntN(2) == 0)
			hist = append(hist, "create")
			if err := v.Create(ctx, p); err != nil {
				r.finding(Finding{Kind: "monitor", Clause: "C14.create", Text: err.Error(), Case: hist})
				return
			}
			live[p.ID] = p
			order = append(order, p.ID)
		}
		var ps []*workflow.Plan
		for _, id := range order {
			if p, ok := live[id]; ok {
				ps = append(ps, p)
				got, err := v.Read(ctx, id)
				if err != nil || firstDiffPath(fPlan(p), fPlan(got)) != "" {
					r.finding(Finding{Kind: "monitor", Clause: "C14.delete_keeps_other_plans", Features: map[string]any{"readErr": err != nil}, Text: "a live plan no longer reads back as stored after creates/deletes of other plans", Case: hist})
					return
				}
			} else if _, err := v.Read(ctx, id); err == nil {
				r.finding(Finding{Kind: "monitor", Clause: "C14.delete_removes_plan", Text: "a deleted plan is still readable", Case: hist})
				return
			}
		}
		want, got := objectCounts(ps...), tableCountsV(v)
		if !jsonEq(want, got) {
			r.finding(Finding{Kind: "monitor", Clause: "C14.delete_removes_every_row", Features: map[string]any{"leftover": leftover(want, got)},
				Text: fmt.Sprintf("row counts %v differ from the objects of the live plans %v", got, want), Case: hist})
			return
		}
	}
	r.eval(map[string]any{"interleave": n, "history": hist}, len(hist) >= 2)
	r.count("interleaved")
}

func leftover(want, got map[string]int) []string {
	var out []string
	for _, t := range sortedKeys(got) {
		if got[t] != want[t] {
			out = append(out, t)
		}
	}
	return out
}

// c14Kill: a child process submits plans to a file-backed store and is killed at a random instant;
// afterwards every plan row must belong to a completely readable plan and no orphan rows may exist.
func c14Kill(r *Result, rng randLike, n int) {
	dir, err := os.MkdirTemp(os.Getenv("VERIF_WORK"), "c14kill")
	if err != nil {
		return
	}
	defer os.RemoveAll(dir)
	self, _ := os.Executable()
	cmd := exec.Command(self)
	cmd.Env = append(os.Environ(), "VERIF_CHILD=c14kill", "VERIF_KILL_DIR="+dir, fmt.Sprintf("VERIF_SEED=%d", cfg.Seed+uint64(n)))
	if err := cmd.Start(); err != nil {
		return
	}
	// wait until the child reports its store is open, then kill it at a random instant
	ready := filepath.Join(dir, "ready")
	for i := 0; i < 2000; i++ {
		if _, err := os.Stat(ready); err == nil {
			break
		}
		time.Sleep(time.Millisecond)
	}
	time.Sleep(time.Duration(rng.IntN(25000)) * time.Microsecond)
	cmd.Process.Signal(syscall.SIGKILL)
	cmd.Wait()
	ctx := context.Background()
	reg := newRegistry(newTracer(), &scripts{tags: map[string]*tagState{}})
	v, err := sqlite.New(ctx, dir, reg)
	if err != nil {
		r.finding(Finding{Kind: "monitor", Clause: "C14.store_reopens_after_kill", Text: err.Error()})
		return
	}
	defer v.Close(ctx)
	ch, err := v.List(ctx, 0)
	ids, _, _ := drainIDs(ch, err)
	var ps []*workflow.Plan
	for _, id := range ids {
		p, err := v.Read(ctx, id)
		if err != nil {
			r.finding(Finding{Kind: "monitor", Clause: "C14.kill_all_or_nothing", Features: map[string]any{"what": "unreadable"}, Text: "after a kill during Submit a plan row exists whose plan cannot be read: " + err.Error()})
			return
		}
		ps = append(ps, p)
	}
	want, got := objectCounts(ps...), tableCountsV(v)
	if !jsonEq(want, got) {
		r.finding(Finding{Kind: "monitor", Clause: "C14.kill_all_or_nothing", Features: map[string]any{"what": "orphans", "tables": leftover(want, got)},
			Text: fmt.Sprintf("after a kill during Submit the tables hold %v but the readable plans account for %v", got, want)})
	}
	r.eval(map[string]any{"kill": n, "plans_survived": len(ids)}, true)
	r.count(fmt.Sprintf("kill:plans=%d", len(ids)))
}

func drainIDs(ch chan storageStream, err error) ([]uuid.UUID, bool, string) {
	var ids []uuid.UUID
	if err != nil {
		return nil, true, err.Error()
	}
	t := time.After(2 * time.Second)
	for {
		select {
		case x, ok := <-ch:
			if !ok {
				return ids, true, ""
			}
			if x.Err == nil {
				ids = append(ids, x.Result.ID)
			}
		case <-t:
			return ids, false, ""
		}
	}
}

func init() {
	childEntries["c14kill"] = func() {
		dir := os.Getenv("VERIF_KILL_DIR")
		tr := newTracer()
		sc := &scripts{tags: map[string]*tagState{}}
		reg := newRegistry(tr, sc)
		ctx := context.Background()
		v, err := sqlite.New(ctx, dir, reg)
		if err != nil {
			os.Exit(4)
		}
		ws, err := coercion.New(ctx, reg, v)
		if err != nil {
			os.Exit(4)
		}
		os.WriteFile(filepath.Join(dir, "ready"), []byte("1"), 0o644)
		rng := newRand(77)
		for i := 0; ; i++ {
			g := &engineGen{r: rng, prefix: fmt.Sprintf("k%d.", i), MaxBlocks: 3, MaxSeqs: 3, MaxActs: 3, PGroup: 0.5, Retries: 1, ContMode: "pass", ConcMax: 2}
			ps := g.plan()
			ws.Submit(ctx, buildPlan(ps, fmt.Sprintf("kill%d", i)))
		}
	}
	campaigns["C13"] = func(r *Result) {
		quietLogs()
		r.Rule = "sqlite vault and cosmosdb vault over the repository fake client (hook NewVerifVault): rich fully-defaulted plans (1-3 blocks, 1-3 sequences, 1-3 actions, optional groups; keys, group id, nil/empty/binary meta, delays, concurrency, tolerance, timeouts, retries; value- and pointer-typed requests/responses; created pristine or already executed with zero and nanosecond times and multi-attempt actions with wrapped errors) through Create, 3-14 random Update* calls (incl. attempt resets), Reads after every few updates, unknown and deleted ids, on the real sqlite vault; every field compared with what was last written; non-trivial = >=1 update after create; distinct by final plan image"
		rng := newRand(13)
		phase(0.4)
		for i := 0; i < tierN(200, 8000) && !expired(); i++ {
			c13Case(r, rng, i, "sqlite")
		}
		phase(0.55)
		for i := 0; i < tierN(60, 2000) && !expired(); i++ {
			c13Case(r, rng, 100000+i, "cosmos")
		}
		r.Validated = r.Evaluations
	}
	campaigns["C14"] = func(r *Result) {
		quietLogs()
		r.Rule = "sqlite vault: (a) a request that cannot be serialised (NaN) placed at every value-typed action of rich plans (quick: a random third of the positions) - Create must fail and leave all five tables exactly as they were, then the healthy plan and a second Create of its id; (b) interleaved creates/deletes of several plans with per-table row counts equal to the objects of the live plans and every live plan reading back unchanged; (c) SIGKILL of a child process at a random instant (0-25 ms) while it Submits plans to a file-backed store - afterwards every plan row belongs to a completely readable plan and no orphan rows exist; non-trivial = every case; distinct by case description"
		rng := newRand(14)
		phase(0.7)
		for i := 0; i < tierN(40, 1500) && !expired(); i++ {
			c14Unencodable(r, rng, i)
		}
		for i := 0; i < tierN(40, 1500) && !expired(); i++ {
			c14Interleave(r, rng, i)
		}
		phase(1)
		for i := 0; i < tierN(30, 1500) && !expired(); i++ {
			c14Kill(r, rng, i)
		}
		r.Validated = r.Evaluations
	}
}
