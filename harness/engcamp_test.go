package harness

// Engine campaigns C01–C04, C06–C08: every case is one generated plan run through the real engine;
// all trace monitors are evaluated, and on schedule-independent configurations the outcome is compared
// exactly with Model/Engine (driver command "engine").

import (
	"fmt"
	"sort"
	"strings"
	"time"
)

type engineModelOut struct {
	Status string `json:"status"`
	Reason string `json:"reason"`
	Evs    []struct {
		K      string `json:"k"`
		Idx    int    `json:"idx"`
		OK     bool   `json:"ok"`
		Status string `json:"status"`
	} `json:"evs"`
	Objs []struct {
		Idx    int    `json:"idx"`
		Status string `json:"status"`
		Calls  int    `json:"calls"`
	} `json:"objs"`
}

// stageList canonicalises a stage sequence: cont groups dropped; consecutive sequences of one block
// become one sorted set (their relative order depends on the schedule when Concurrency > 1).
func stageList(ix *index, units []int, ok map[int]bool) []string {
	var out []string
	var pend []string
	pendBlock := -2
	flush := func() {
		if len(pend) > 0 {
			sort.Strings(pend)
			out = append(out, "seqs{"+strings.Join(pend, ",")+"}")
			pend = nil
		}
	}
	for _, u := range units {
		o := ix.Objs[u]
		if o.Kind == "group" && o.GKind == "cont" {
			continue
		}
		if o.Kind == "seq" {
			if o.Block != pendBlock {
				flush()
				pendBlock = o.Block
			}
			pend = append(pend, fmt.Sprintf("%d:%v", u, ok[u]))
			continue
		}
		flush()
		pendBlock = -2
		out = append(out, fmt.Sprintf("%s@%d:%v", o.GKind, u, ok[u]))
	}
	flush()
	return out
}

func engineDifferential(r *Result, m *Model, ix *index, res *runResult, desc any) {
	var mo engineModelOut
	if err := m.Ask(map[string]any{"cmd": "engine", "plan": ix.Model}, &mo); err != nil {
		r.finding(Finding{Kind: "disagreement", Clause: "ENG.driver", Text: err.Error(), Case: desc})
		return
	}
	v := newTraceView(ix, res.Trace, 0, res.Final)
	// 1. statuses and call counts per object (cont groups and their actions are compared loosely)
	got := map[int]string{}
	calls := map[int]int{}
	var walkImg func()
	walkImg = func() {
		p := res.Final
		got[0] = p.Status
		grp := func(c *ChecksImg) {
			if c == nil {
				return
			}
			got[c.ID] = c.Status
			for _, a := range c.Actions {
				got[a.ID] = a.Status
			}
		}
		grp(p.Bypass)
		grp(p.Pre)
		grp(p.Cont)
		grp(p.Post)
		grp(p.Deferred)
		for _, b := range p.Blocks {
			got[b.ID] = b.Status
			grp(b.Bypass)
			grp(b.Pre)
			grp(b.Cont)
			grp(b.Post)
			grp(b.Deferred)
			for _, q := range b.Seqs {
				got[q.ID] = q.Status
				for _, a := range q.Actions {
					got[a.ID] = a.Status
				}
			}
		}
	}
	walkImg()
	for i := range ix.Objs {
		calls[i] = len(v.enters[i])
	}
	var diffs []string
	for _, o := range mo.Objs {
		info := ix.Objs[o.Idx]
		if info.GKind == "cont" {
			// loose: a cont group the model says passes must not be Failed; one it says failed must be Failed
			if (o.Status == "failed") != (got[o.Idx] == "failed") && info.Kind == "group" {
				diffs = append(diffs, fmt.Sprintf("cont group %d: got %s, model %s", o.Idx, got[o.Idx], o.Status))
			}
			continue
		}
		if got[o.Idx] != o.Status {
			diffs = append(diffs, fmt.Sprintf("%s %d: got %s, model %s", info.Kind, o.Idx, got[o.Idx], o.Status))
		}
		if info.Kind == "action" && calls[o.Idx] != o.Calls {
			r.finding(Finding{Kind: "monitor", Clause: "ENG.calls", Features: map[string]any{"where": info.GKind, "got": calls[o.Idx], "model": o.Calls},
				Text: fmt.Sprintf("action %d (%s) was invoked %d times, Model/Engine says %d", o.Idx, info.Tag, calls[o.Idx], o.Calls), Case: desc})
		}
	}
	if got[0] != mo.Status {
		diffs = append(diffs, fmt.Sprintf("plan: got %s, model %s", got[0], mo.Status))
	}
	if len(diffs) > 0 {
		kind := strings.Fields(diffs[0])[0]
		r.finding(Finding{Kind: "monitor", Clause: "ENG.status", Features: map[string]any{"first": kind},
			Text: "final statuses differ from Model/Engine: " + strings.Join(diffs, "; "), Case: desc, Observed: got, Model: mo.Objs})
	}
	if lw := v.lastW[0]; lw != nil && lw.Reason != mo.Reason {
		r.finding(Finding{Kind: "monitor", Clause: "ENG.reason", Features: map[string]any{"got": lw.Reason, "model": mo.Reason},
			Text: "failure reason written by the engine differs from Model/Engine", Case: desc})
	}
	// 2. stage order
	var mUnits []int
	mOK := map[int]bool{}
	for _, e := range mo.Evs {
		if e.K == "group" || e.K == "seq" {
			mUnits = append(mUnits, e.Idx)
			mOK[e.Idx] = e.OK
		}
	}
	type fu struct {
		n int64
		u int
	}
	var fus []fu
	for u, n := range v.first {
		fus = append(fus, fu{n, u})
	}
	sort.Slice(fus, func(i, j int) bool { return fus[i].n < fus[j].n })
	var gUnits []int
	gOK := map[int]bool{}
	for _, f := range fus {
		gUnits = append(gUnits, f.u)
		gOK[f.u] = got[f.u] == "completed"
	}
	// pre and the initial cont run happen in parallel: only pre's position is compared (cont dropped)
	ms, gs := stageList(ix, mUnits, mOK), stageList(ix, gUnits, gOK)
	if !jsonEq(ms, gs) {
		r.finding(Finding{Kind: "monitor", Clause: "ENG.stage_order", Features: map[string]any{"diff": diffKind(gs, ms)},
			Text: "the order/verdicts of executed stages differ from Model/Engine", Case: desc, Observed: gs, Model: ms})
	}
}

type engineOpts struct {
	settle   time.Duration
	maxWait  time.Duration
	noDiff   bool
	describe func(ps *PlanSpec) any
}

// runEngineSpec runs one plan on env (which must be idle) and evaluates monitors + differential.
func runEngineSpec(r *Result, m *Model, env *engineEnv, ps *PlanSpec, o engineOpts) (*index, *runResult) {
	newTracerInto(env)
	ix := buildIndex(ps)
	desc := any(ps)
	breadcrumb(desc)
	p, err := env.submit(ps, 0)
	if err != nil {
		r.finding(Finding{Kind: "crash", Clause: "ENG.submit", Text: err.Error(), Case: desc})
		return ix, nil
	}
	if o.maxWait == 0 {
		o.maxWait = 20 * time.Second
	}
	res := env.startAndWait(p, 0, o.maxWait, o.settle)
	runMonitors(r, ix, res, desc)
	if !res.TimedOut && res.Final != nil && !o.noDiff && detConfig(ps) {
		engineDifferential(r, m, ix, res, desc)
		r.count("differential")
	}
	return ix, res
}

// clause filters: which findings belong to which property's check
var propClauses = map[string][]string{
	"C01": {"C01.", "ENG.stage_order", "ENG.calls", "ENG.driver", "ENG.submit"},
	"C02": {"C02.", "C01.a_blocks_in_order", "ENG.submit"},
	"C03": {"C03.", "ENG.status", "ENG.driver", "ENG.submit"},
	"C04": {"C04.", "ENG.status", "ENG.reason", "ENG.driver", "ENG.submit"},
	"C06": {"C06.", "ENG.stage_order", "ENG.calls", "ENG.status", "ENG.driver", "ENG.submit"},
	"C07": {"C07.", "ENG.status", "ENG.reason", "ENG.driver", "ENG.submit"},
	"C08": {"C08.", "ENG.submit"},
}

func filterFindings(r *Result, prop string) {
	var keep []Finding
	other := 0
	for _, f := range r.Findings {
		ok := false
		for _, p := range propClauses[prop] {
			if strings.HasPrefix(f.Clause, p) {
				ok = true
			}
		}
		if ok {
			keep = append(keep, f)
		} else {
			other++
			r.Distribution["other-property-finding:"+f.Clause]++
		}
	}
	r.Findings = keep
	if other > 0 {
		r.Notes = append(r.Notes, fmt.Sprintf("%d findings of clauses belonging to other properties were observed and are reported by those properties' checks", other))
	}
}

type engineCampaign struct {
	prop     string
	rule     string
	quick    int
	thorough int
	gen      func(i int, g *engineGen)
	nontriv  func(ps *PlanSpec, ix *index, res *runResult) bool
	settle   time.Duration
	corpus   []*PlanSpec
	crashes  int
	after    func(r *Result) // extra sub-campaign, run last
}

func (c *engineCampaign) run(r *Result) {
	quietLogs()
	r.Rule = c.rule
	n := tierN(c.quick, c.thorough)
	workers := 8
	per := (n + workers - 1) / workers
	if c.crashes > 0 {
		phase(0.6)
	}
	parallel(workers, workers, func(w int) {
		m := getModel()
		defer putModel(m)
		env, err := newEngineEnv("")
		if err != nil {
			r.finding(Finding{Kind: "crash", Clause: "ENG.submit", Text: err.Error()})
			return
		}
		defer env.close()
		rng := newRand(uint64(1000 + w))
		if w == 0 {
			for _, ps := range c.corpus {
				runEngineSpec(r, m, env, ps, engineOpts{settle: c.settle})
				r.count("corpus")
			}
		}
		for i := w * per; i < (w+1)*per && i < n && !expired(); i++ {
			g := &engineGen{r: rng, prefix: fmt.Sprintf("e%d.", i), MaxBlocks: 3, MaxSeqs: 4, MaxActs: 3, PGroup: 0.45, PFail: 0.15, PCheckBad: 0.12,
				Retries: 2, ContMode: "pass", DelayUs: 300, ConcMax: 3}
			c.gen(i, g)
			ps := g.plan()
			ix, res := runEngineSpec(r, m, env, ps, engineOpts{settle: c.settle})
			if res == nil {
				continue
			}
			r.eval(ps, c.nontriv(ps, ix, res))
			if i < 2 {
				r.sample(map[string]any{"spec": ps, "final_status": res.Final != nil && res.Final.Status != "", "events": len(res.Trace)})
			}
			r.count(fmt.Sprintf("blocks=%d", len(ps.Blocks)))
			if res.Final != nil {
				r.count("plan:" + res.Final.Status)
			}
			if detConfig(ps) {
				r.count("schedule-independent")
			}
		}
	})
	phase(1)
	if c.crashes > 0 {
		// the property must also hold across a restart: a small crash-replay campaign (every write prefix)
		crashCampaign(c.prop, r, c.crashes, c.crashes*20, false)
		r.Notes = append(r.Notes, "includes a crash-replay sub-campaign (harness/crash_test.go) for the property's clauses across a restart")
	}
	if c.after != nil && !expired() {
		c.after(r)
	}
	filterFindings(r, c.prop)
	r.Validated = r.Evaluations
}

func anyGroup(ps *PlanSpec) bool {
	if ps.Bypass != nil || ps.Pre != nil || ps.Cont != nil || ps.Post != nil || ps.Deferred != nil {
		return true
	}
	for _, b := range ps.Blocks {
		if b.Bypass != nil || b.Pre != nil || b.Cont != nil || b.Post != nil || b.Deferred != nil {
			return true
		}
	}
	return false
}

func countFailingSeqs(ps *PlanSpec) int {
	n := 0
	for _, b := range ps.Blocks {
		for _, q := range b.Seqs {
			if seqFails(q) {
				n++
			}
		}
	}
	return n
}

func init() {
	campaigns["C01"] = (&engineCampaign{prop: "C01",
		rule:  "random plans (1-3 blocks, 1-4 sequences, 1-3 actions, each of the 10 check groups with p=0.45, Concurrency 0-3, tolerance -1..2, retries 0-2, ~15% failing actions, plugin latencies 0-300us); all trace monitors + exact comparison with Model/Engine on schedule-independent configurations; non-trivial = (>=2 blocks or a sequence with >=2 actions) and >=1 check group; distinct by spec",
		quick: 400, thorough: 20000,
		gen: func(i int, g *engineGen) {
			if i%4 == 0 {
				g.ContMode = "none"
			}
		},
		nontriv: func(ps *PlanSpec, ix *index, res *runResult) bool {
			multi := len(ps.Blocks) >= 2
			for _, b := range ps.Blocks {
				for _, q := range b.Seqs {
					if len(q.Actions) >= 2 {
						multi = true
					}
				}
			}
			return multi && anyGroup(ps)
		}}).run
	campaigns["C02"] = (&engineCampaign{prop: "C02",
		rule:  "random plans biased to many sequences (2-6) against Concurrency 0-3 (less, equal, more), latencies 0-800us so that sequences overlap, no failing actions in half of the cases, in a fifth of the cases sequence actions whose first call outlives a 3-6 ms timeout (the abandoned call must end with its context); monitors: sequences with an action in flight / Running per block <= Concurrency, blocks never overlap; non-trivial = a block with more sequences than its Concurrency; distinct by spec",
		quick: 300, thorough: 10000,
		gen: func(i int, g *engineGen) {
			g.MaxSeqs, g.DelayUs, g.PGroup, g.MaxActs = 6, 800, 0.2, 2
			if i%2 == 0 {
				g.PFail = 0
			}
			if i%5 == 3 {
				g.Overruns = true // calls that outlive their action's timeout: abandoned calls must really be cancelled
			}
		},
		nontriv: func(ps *PlanSpec, ix *index, res *runResult) bool {
			for _, b := range ps.Blocks {
				c := b.Conc
				if c < 1 {
					c = 1
				}
				if len(b.Seqs) > c {
					return true
				}
			}
			return false
		}}).run
	campaigns["C03"] = (&engineCampaign{prop: "C03", crashes: 12,
		rule:  "random plans with 35% failing sequence actions, 1-5 sequences, tolerance -1..2, Concurrency 0-3, random latencies (completion orders); monitors: failure bound tol+conc, nothing started after the threshold beyond conc-1, block/plan outcomes; exact comparison with Model/Engine on schedule-independent configurations; non-trivial = >=1 failing sequence; distinct by spec",
		quick: 400, thorough: 15000,
		gen: func(i int, g *engineGen) {
			g.PFail, g.MaxSeqs, g.PGroup, g.DelayUs = 0.35, 5, 0.25, 500
		},
		nontriv: func(ps *PlanSpec, ix *index, res *runResult) bool { return countFailingSeqs(ps) > 0 }}).run
	// stored witness of known finding D2: a failing block and plan-level PostChecks that therefore never run
	d2 := &PlanSpec{Post: &GroupSpec{Actions: []ActSpec{{Tag: "d2.post"}}},
		Blocks: []BlockSpec{{Conc: 1, Seqs: []SeqSpec{{Actions: []ActSpec{{Tag: "d2.a", Script: []Outcome{{Resp: "nil", Err: "permanent"}}}}}}}}}
	campaigns["C04"] = (&engineCampaign{prop: "C04", corpus: []*PlanSpec{d2}, after: c04Concurrent,
		rule:  "random plans incl. continuous checks (passing, or failing at run k) and failing actions; the plan returned by Wait is checked against the consistency rules R1-R8, the trace for quiescence at release and a settle window for stability; exact comparison with Model/Engine on schedule-independent configurations; non-trivial = >=1 failing action or a cont group; distinct by spec",
		quick: 350, thorough: 10000,
		settle: 3 * time.Millisecond,
		gen: func(i int, g *engineGen) {
			g.PFail = 0.25
			if i%2 == 0 {
				g.ContMode = "mixed"
			}
		},
		nontriv: func(ps *PlanSpec, ix *index, res *runResult) bool {
			return countFailingSeqs(ps) > 0 || ps.Cont != nil || res.Final == nil || res.Final.Status == "failed"
		}}).run
	campaigns["C06"] = (&engineCampaign{prop: "C06", crashes: 12,
		rule:  "random plans with bypass groups (p=0.5 at plan and block level, 60% of bypass actions failing) and pre/cont groups with 30% failing check actions; monitors: a passed bypass skips its whole scope and completes it, a failed pre / initial cont run blocks every sequence action and fails the scope; exact comparison with Model/Engine; non-trivial = a bypass or pre group with a decided verdict; distinct by spec",
		quick: 400, thorough: 15000,
		gen: func(i int, g *engineGen) {
			g.PGroup, g.PCheckBad, g.MaxSeqs = 0.7, 0.3, 2
			if i%3 == 0 {
				g.ContMode = "none"
			}
		},
		nontriv: func(ps *PlanSpec, ix *index, res *runResult) bool { return anyGroup(ps) }}).run
	campaigns["C07"] = (&engineCampaign{prop: "C07",
		rule:  "random plans with continuous checks at plan and block level failing at run k in 0..4 (or never) against sequences of varying latency, and deferred groups on scopes that fail in every way (pre, sequences, cont, post); monitors: a failed cont run fails its scope (plan reason ContCheck), deferred checks run exactly once iff the scope was entered and not bypassed, after everything else, and their failure fails the scope; non-trivial = a cont group that ran >=2 times or a deferred group on a failing scope; distinct by spec",
		quick: 300, thorough: 10000,
		gen: func(i int, g *engineGen) {
			g.ContMode, g.PGroup, g.DelayUs, g.PFail = "mixed", 0.6, 1200, 0.2
		},
		nontriv: func(ps *PlanSpec, ix *index, res *runResult) bool {
			v := newTraceView(ix, res.Trace, 0, res.Final)
			for i, o := range ix.Objs {
				if o.Kind == "group" && o.GKind == "cont" && v.groupRuns(i) >= 2 {
					return true
				}
				if o.Kind == "group" && o.GKind == "deferred" && res.Final != nil && res.Final.Status == "failed" {
					return true
				}
			}
			return false
		}}).run
	campaigns["C08"] = (&engineCampaign{prop: "C08", after: c08FaultCampaign,
		rule:  "random plans with retries 0-3 and transient failures; the merged log of store writes (before/after markers with images) and plugin calls is checked: Running durable before invoke, attempt k durable before attempt k+1 and before the next action, terminal plan state and the whole final flush durable before release, blocks/sequences/sequence actions never leave a terminal status; non-trivial = >=1 retry or a sequence with >=2 actions; distinct by spec",
		quick: 400, thorough: 10000,
		gen: func(i int, g *engineGen) {
			g.Retries, g.PFail = 3, 0.2
		},
		nontriv: func(ps *PlanSpec, ix *index, res *runResult) bool {
			for _, b := range ps.Blocks {
				for _, q := range b.Seqs {
					if len(q.Actions) >= 2 {
						return true
					}
					for _, a := range q.Actions {
						if len(a.Script) >= 2 {
							return true
						}
					}
				}
			}
			return false
		}}).run
}
