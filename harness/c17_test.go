package harness

// C17 — shapes generated from the grammar of Model/Secure as real Go types (reflect.StructOf with
// `coerce` tags), a canary planted at every leaf, placed as the request of a sequence action / check
// action and as the response of an attempt; the canaries visible in the JSON of the default clone and
// in every file of the rendered HTML report must be exactly those Model/Secure predicts (none, on
// handled shapes); untagged leaves must survive; the original must be left intact. Plus the registry's
// refusal of secret-looking untagged field names.

import (
	"encoding/json"
	"fmt"
	"io/fs"
	"reflect"
	"sort"
	"strings"
	"time"

	"github.com/element-of-surprise/coercion/plugins"
	"github.com/element-of-surprise/coercion/plugins/registry"
	"github.com/element-of-surprise/coercion/workflow"
	"github.com/element-of-surprise/coercion/workflow/context"
	"github.com/element-of-surprise/coercion/workflow/utils/clone"
	"github.com/element-of-surprise/coercion/workflow/utils/html/reports"
	"github.com/gostdlib/base/retry/exponential"
)

type goVal struct {
	K  string    `json:"k"`
	C  int       `json:"c,omitempty"`
	V  *goVal    `json:"v,omitempty"`
	Fs []goField `json:"fs,omitempty"`
	Vs []goVal   `json:"vs,omitempty"`
}
type goField struct {
	Secure bool  `json:"secure"`
	V      goVal `json:"v"`
}

var anyType = reflect.TypeOf((*any)(nil)).Elem()
var strType = reflect.TypeOf("")

type shapeGenS struct {
	r       randLike
	canary  int
	unhand  bool // allow shapes the dispatch does not handle ([]any, *[]T, **T …)
	nField  int
	secrets map[int]bool
}

func canaryStr(n int) string { return fmt.Sprintf("CANARY-%04d-X", n) }

// gen returns a Go value of a freshly generated type together with its description.
// kindHint restricts what may be generated at this position ("" = anything).
func (g *shapeGenS) gen(depth int, underSecure bool) (reflect.Value, goVal) {
	if depth <= 0 {
		return g.leaf(underSecure)
	}
	switch x := g.r.IntN(100); {
	case x < 22:
		return g.leaf(underSecure)
	case x < 45:
		return g.strct(depth, underSecure)
	case x < 60: // pointer
		var inner reflect.Value
		var d goVal
		if g.unhand && g.r.IntN(4) == 0 {
			inner, d = g.gen(depth-1, underSecure) // pointer to anything
		} else {
			inner, d = g.strct(depth-1, underSecure)
		}
		p := reflect.New(inner.Type())
		p.Elem().Set(inner)
		return p, goVal{K: "ptr", V: &d}
	case x < 75: // slice
		n := 1 + g.r.IntN(2)
		if g.unhand && g.r.IntN(3) == 0 {
			sl := reflect.MakeSlice(reflect.SliceOf(anyType), 0, n)
			var ds []goVal
			for i := 0; i < n; i++ {
				v, d := g.concrete(depth-1, underSecure)
				sl = reflect.Append(sl, v)
				ds = append(ds, goVal{K: "iface", V: &d})
			}
			return sl, goVal{K: "slice", Vs: ds}
		}
		var first reflect.Value
		var d0 goVal
		if g.r.IntN(4) == 0 {
			// a slice (or map) directly inside a slice
			in, ind := g.strct(depth-1, underSecure)
			if g.r.IntN(2) == 0 {
				isl := reflect.MakeSlice(reflect.SliceOf(in.Type()), 0, 1)
				first, d0 = reflect.Append(isl, in), goVal{K: "slice", Vs: []goVal{ind}}
			} else {
				im := reflect.MakeMap(reflect.MapOf(strType, in.Type()))
				im.SetMapIndex(reflect.ValueOf("k"), in)
				first, d0 = im, goVal{K: "map", Vs: []goVal{ind}}
			}
		} else {
			first, d0 = g.gen(depth-1, underSecure)
		}
		sl := reflect.MakeSlice(reflect.SliceOf(first.Type()), 0, n)
		sl = reflect.Append(sl, first)
		ds := []goVal{d0}
		for i := 1; i < n; i++ {
			v, d := g.like(first, d0, underSecure)
			sl = reflect.Append(sl, v)
			ds = append(ds, d)
		}
		// sparse slices: a nil entry in front of (or between) entries that hold secrets must not end the scrub
		if k := first.Kind(); (k == reflect.Ptr || k == reflect.Slice || k == reflect.Map) && g.r.IntN(3) == 0 {
			at := g.r.IntN(len(ds))
			nsl := reflect.MakeSlice(sl.Type(), 0, len(ds)+1)
			var nds []goVal
			for i := 0; i < len(ds); i++ {
				if i == at {
					nsl = reflect.Append(nsl, reflect.Zero(first.Type()))
					nds = append(nds, goVal{K: "nil"})
				}
				nsl = reflect.Append(nsl, sl.Index(i))
				nds = append(nds, ds[i])
			}
			sl, ds = nsl, nds
		}
		return sl, goVal{K: "slice", Vs: ds}
	case x < 88: // map[string]T
		if g.unhand && g.r.IntN(3) == 0 {
			m := reflect.MakeMap(reflect.MapOf(strType, anyType))
			v, d := g.concrete(depth-1, underSecure)
			m.SetMapIndex(reflect.ValueOf("k0"), v)
			return m, goVal{K: "map", Vs: []goVal{{K: "iface", V: &d}}}
		}
		first, d0 := g.gen(depth-1, underSecure)
		m := reflect.MakeMap(reflect.MapOf(strType, first.Type()))
		m.SetMapIndex(reflect.ValueOf("k0"), first)
		return m, goVal{K: "map", Vs: []goVal{d0}}
	default: // interface-typed position is only available as a struct field / elem; emit a struct here
		return g.strct(depth, underSecure)
	}
}

// concrete generates a value suitable for being held by an interface (no bare interface).
func (g *shapeGenS) concrete(depth int, underSecure bool) (reflect.Value, goVal) {
	if g.r.IntN(2) == 0 {
		return g.strct(depth, underSecure)
	}
	inner, d := g.strct(depth, underSecure)
	p := reflect.New(inner.Type())
	p.Elem().Set(inner)
	return p, goVal{K: "ptr", V: &d}
}

func (g *shapeGenS) leaf(underSecure bool) (reflect.Value, goVal) {
	g.canary++
	if underSecure {
		g.secrets[g.canary] = true
	}
	return reflect.ValueOf(canaryStr(g.canary)), goVal{K: "leaf", C: g.canary}
}

// like builds another value of the same type as v (same shape, fresh canaries).
func (g *shapeGenS) like(v reflect.Value, d goVal, underSecure bool) (reflect.Value, goVal) {
	switch d.K {
	case "leaf":
		return g.leaf(underSecure)
	case "struct":
		nv := reflect.New(v.Type()).Elem()
		nd := goVal{K: "struct"}
		for i, f := range d.Fs {
			fv, fd := g.like(v.Field(i), f.V, underSecure || f.Secure)
			nv.Field(i).Set(fv)
			nd.Fs = append(nd.Fs, goField{Secure: f.Secure, V: fd})
		}
		return nv, nd
	case "ptr":
		iv, id := g.like(v.Elem(), *d.V, underSecure)
		p := reflect.New(v.Type().Elem())
		p.Elem().Set(iv)
		return p, goVal{K: "ptr", V: &id}
	case "iface":
		if v.Kind() == reflect.Interface {
			v = v.Elem()
		}
		iv, id := g.like(v, *d.V, underSecure)
		return iv, goVal{K: "iface", V: &id}
	case "slice":
		sl := reflect.MakeSlice(v.Type(), 0, len(d.Vs))
		nd := goVal{K: "slice"}
		for i, e := range d.Vs {
			var ev reflect.Value
			var ed goVal
			if e.K == "iface" {
				iv, id := g.like(v.Index(i).Elem(), *e.V, underSecure)
				ev, ed = iv, goVal{K: "iface", V: &id}
			} else {
				ev, ed = g.like(v.Index(i), e, underSecure)
			}
			sl = reflect.Append(sl, ev)
			nd.Vs = append(nd.Vs, ed)
		}
		return sl, nd
	case "map":
		m := reflect.MakeMap(v.Type())
		nd := goVal{K: "map"}
		for i, key := range v.MapKeys() {
			var ev reflect.Value
			var ed goVal
			if d.Vs[i].K == "iface" {
				iv, id := g.like(v.MapIndex(key).Elem(), *d.Vs[i].V, underSecure)
				ev, ed = iv, goVal{K: "iface", V: &id}
			} else {
				ev, ed = g.like(v.MapIndex(key), d.Vs[i], underSecure)
			}
			m.SetMapIndex(key, ev)
			nd.Vs = append(nd.Vs, ed)
		}
		return m, nd
	}
	return v, d
}

func (g *shapeGenS) strct(depth int, underSecure bool) (reflect.Value, goVal) {
	n := 1 + g.r.IntN(3)
	var fields []reflect.StructField
	var vals []reflect.Value
	d := goVal{K: "struct"}
	for i := 0; i < n; i++ {
		g.nField++
		secure := g.r.IntN(4) == 0
		var fv reflect.Value
		var fd goVal
		asIface := g.r.IntN(6) == 0 && depth > 0
		if asIface {
			iv, id := g.concrete(depth-1, underSecure || secure)
			fv, fd = iv, goVal{K: "iface", V: &id}
		} else {
			fv, fd = g.gen(depth-1, underSecure || secure)
		}
		ft := fv.Type()
		if asIface {
			ft = anyType
		}
		tag := ""
		if secure {
			tag = `coerce:"secure"`
		}
		fields = append(fields, reflect.StructField{Name: fmt.Sprintf("F%d", g.nField), Type: ft, Tag: reflect.StructTag(tag)})
		vals = append(vals, fv)
		d.Fs = append(d.Fs, goField{Secure: secure, V: fd})
	}
	t := reflect.StructOf(fields)
	v := reflect.New(t).Elem()
	for i, fv := range vals {
		v.Field(i).Set(fv)
	}
	return v, d
}

func canariesIn(s string) []int {
	var out []int
	seen := map[int]bool{}
	for {
		i := strings.Index(s, "CANARY-")
		if i < 0 {
			break
		}
		var n int
		if _, err := fmt.Sscanf(s[i:], "CANARY-%04d-X", &n); err == nil && !seen[n] {
			seen[n] = true
			out = append(out, n)
		}
		s = s[i+7:]
	}
	sort.Ints(out)
	return out
}

func intsEq(a, b []int) bool {
	if len(a) != len(b) {
		return false
	}
	for i := range a {
		if a[i] != b[i] {
			return false
		}
	}
	return true
}

func c17Case(r *Result, m *Model, rng randLike, n int, unhandled bool) {
	ctx := context.Background()
	g := &shapeGenS{r: rng, unhand: unhandled, secrets: map[int]bool{}}
	val, d := g.strct(2+rng.IntN(3), false)
	if d.K != "struct" {
		return
	}
	var mo struct {
		Panic   bool  `json:"panic"`
		Leaks   []int `json:"leaks"`
		Handled bool  `json:"handled"`
		Secrets []int `json:"secrets"`
	}
	if err := m.Ask(map[string]any{"cmd": "secure", "fs": d.Fs}, &mo); err != nil {
		r.finding(Finding{Kind: "disagreement", Clause: "C17.driver", Text: err.Error(), Case: d})
		return
	}
	sort.Ints(mo.Leaks)
	var secretList []int
	for c := range g.secrets {
		secretList = append(secretList, c)
	}
	sort.Ints(secretList)
	place := []string{"sequence request", "check request", "attempt response"}[rng.IntN(3)]
	mk := func() *workflow.Plan {
		a := &workflow.Action{Name: "a", Descr: "d", Plugin: "act", Timeout: 30 * time.Second, State: &workflow.State{}, ID: workflow.NewV7()}
		c := &workflow.Action{Name: "c", Descr: "d", Plugin: "chk", Timeout: 30 * time.Second, State: &workflow.State{}, ID: workflow.NewV7()}
		switch place {
		case "sequence request":
			a.Req = val.Interface()
		case "check request":
			c.Req = val.Interface()
		default:
			a.Attempts = []*workflow.Attempt{{Resp: val.Interface(), Err: &plugins.Error{Message: "x"}}}
		}
		return &workflow.Plan{Name: "p", Descr: "d", ID: workflow.NewV7(), State: &workflow.State{},
			PreChecks: &workflow.Checks{ID: workflow.NewV7(), State: &workflow.State{}, Actions: []*workflow.Action{c}},
			Blocks: []*workflow.Block{{Name: "b", Descr: "d", ID: workflow.NewV7(), State: &workflow.State{},
				Sequences: []*workflow.Sequence{{Name: "s", Descr: "d", ID: workflow.NewV7(), State: &workflow.State{}, Actions: []*workflow.Action{a}}}}}}
	}
	p := mk()
	origJSON, _ := json.Marshal(p)
	desc := map[string]any{"shape": d, "place": place, "handled": mo.Handled, "secrets": secretList}
	feat := func(extra map[string]any) map[string]any {
		extra["handled"] = mo.Handled
		extra["place"] = place
		return extra
	}
	// --- default clone (keep-state so that attempts are carried)
	var c *workflow.Plan
	pan := safeCall("clone", func() { c = clone.Plan(ctx, p, clone.WithKeepState()) })
	switch {
	case pan != "" && !mo.Panic:
		r.finding(Finding{Kind: "monitor", Clause: "C17.scrubber_panics", Features: feat(map[string]any{"modelPanics": false}), Text: "the default clone panicked on a shape Model/Secure handles: " + pan, Case: desc})
	case pan != "" && mo.Panic:
		r.finding(Finding{Kind: "monitor", Clause: "C17.scrubber_panics", Features: feat(map[string]any{"modelPanics": true}), Text: "the default clone panics on this shape (as Model/Secure predicts): " + pan, Case: desc})
	case pan == "" && mo.Panic:
		r.finding(Finding{Kind: "monitor", Clause: "C17.model_mismatch", Features: feat(map[string]any{}), Text: "Model/Secure predicts a panic but the clone succeeded", Case: desc})
	default:
		cj, _ := json.Marshal(c)
		got := canariesIn(string(cj))
		var leaked, lost []int
		for _, x := range got {
			if g.secrets[x] {
				leaked = append(leaked, x)
			}
		}
		inGot := map[int]bool{}
		for _, x := range got {
			inGot[x] = true
		}
		for x := 1; x <= g.canary; x++ {
			if !g.secrets[x] && !inGot[x] {
				lost = append(lost, x)
			}
		}
		if leaked == nil {
			leaked = []int{}
		}
		if mo.Leaks == nil {
			mo.Leaks = []int{}
		}
		if !intsEq(leaked, mo.Leaks) {
			r.finding(Finding{Kind: "monitor", Clause: "C17.model_mismatch", Features: feat(map[string]any{"more": len(leaked) > len(mo.Leaks)}),
				Text: fmt.Sprintf("canaries leaking through the default clone %v differ from Model/Secure's prediction %v", leaked, mo.Leaks), Case: desc})
		}
		if len(leaked) > 0 {
			r.finding(Finding{Kind: "monitor", Clause: "C17.clone_leaks_secret", Features: feat(map[string]any{"predicted": intsEq(leaked, mo.Leaks)}),
				Text: fmt.Sprintf("secure-tagged values %v appear in the default clone", leaked), Case: desc})
		}
		if len(lost) > 0 {
			r.finding(Finding{Kind: "monitor", Clause: "C17.untagged_data_intact", Features: feat(map[string]any{}), Text: fmt.Sprintf("untagged values %v were lost by the default clone", lost), Case: desc})
		}
	}
	if after, _ := json.Marshal(p); string(after) != string(origJSON) {
		r.finding(Finding{Kind: "monitor", Clause: "C17.original_intact", Features: feat(map[string]any{}), Text: "the default clone changed the original plan", Case: desc})
	}
	// --- HTML report (Render may alter the plan it is given: use a fresh one)
	if rng.IntN(3) == 0 || cfg.Tier == "thorough" {
		p2 := mk()
		var fsys fs.ReadFileFS
		var rerr error
		pan := safeCall("render", func() { fsys, rerr = reports.Render(ctx, p2) })
		if pan == "" && rerr == nil && fsys != nil {
			leakedFiles := map[string][]int{}
			fs.WalkDir(fsys, ".", func(path string, de fs.DirEntry, err error) error {
				if err != nil || de.IsDir() {
					return nil
				}
				b, e := fsys.ReadFile(path)
				if e != nil {
					return nil
				}
				for _, x := range canariesIn(string(b)) {
					if g.secrets[x] {
						leakedFiles[strings.Split(path, "/")[0]] = append(leakedFiles[strings.Split(path, "/")[0]], x)
					}
				}
				return nil
			})
			var all []int
			for _, xs := range leakedFiles {
				all = append(all, xs...)
			}
			sort.Ints(all)
			var uniq []int
			for i, x := range all {
				if i == 0 || x != all[i-1] {
					uniq = append(uniq, x)
				}
			}
			if uniq == nil {
				uniq = []int{}
			}
			if len(uniq) > 0 {
				r.finding(Finding{Kind: "monitor", Clause: "C17.report_leaks_secret", Features: feat(map[string]any{"predictedByScrubberModel": intsEq(uniq, mo.Leaks)}),
					Text: fmt.Sprintf("secure-tagged values %v appear in the rendered HTML report (%v)", uniq, sortedKeys(leakedFiles)), Case: desc})
			}
			r.count("reports")
		} else if pan != "" && !mo.Panic {
			r.finding(Finding{Kind: "monitor", Clause: "C17.scrubber_panics", Features: feat(map[string]any{"modelPanics": false, "where": "render"}), Text: "reports.Render panicked: " + pan, Case: desc})
		}
	}
	r.eval(desc, len(secretList) > 0)
	r.count("place:" + place)
	if mo.Handled {
		r.count("handled shapes")
	} else {
		r.count("unhandled shapes")
	}
	if n < 2 {
		r.sample(desc)
	}
}

// registry: a secret-looking field name without a secure/ignore tag must be refused
type regPlugin struct {
	req, resp any
}

func (p regPlugin) Name() string                                               { return "reg" }
func (p regPlugin) Execute(ctx context.Context, req any) (any, *plugins.Error) { return nil, nil }
func (p regPlugin) ValidateReq(req any) error                                  { return nil }
func (p regPlugin) Request() any                                               { return p.req }
func (p regPlugin) Response() any                                              { return p.resp }
func (p regPlugin) IsCheck() bool                                              { return false }
func (p regPlugin) Init() error                                                { return nil }
func (p regPlugin) RetryPolicy() exponential.Policy {
	return exponential.Policy{InitialInterval: time.Millisecond, Multiplier: 2, MaxInterval: time.Second}
}

func c17Registry(r *Result, rng randLike, n int) {
	names := []string{"Token", "Password", "APIKey", "JwtValue", "HashSum", "ClientSecret", "BearerAuth", "Credentials", "SigningCert", "AuthCode"}
	plain := []string{"Name", "Count", "Region", "Size"}
	secretName := names[rng.IntN(len(names))]
	tag := []string{"", `coerce:"secure"`, `coerce:"ignore"`, `json:"x"`}[rng.IntN(4)]
	depth := rng.IntN(8) // 0: top level, 1: nested struct, 2: non-nil pointer to nested struct, 3: nil pointer, 4: slice of structs, 5: map of structs, 6/7: declared after a clean struct / non-nil pointer-to-struct sibling
	inResp := rng.IntN(2) == 0
	leaf := reflect.StructOf([]reflect.StructField{{Name: plain[rng.IntN(4)], Type: strType}, {Name: secretName, Type: strType, Tag: reflect.StructTag(tag)}})
	var top reflect.Type
	switch depth {
	case 0:
		top = leaf
	case 1:
		top = reflect.StructOf([]reflect.StructField{{Name: "Inner", Type: leaf}, {Name: "Other", Type: strType}})
	case 2, 3:
		top = reflect.StructOf([]reflect.StructField{{Name: "Inner", Type: reflect.PointerTo(leaf)}})
	case 4:
		top = reflect.StructOf([]reflect.StructField{{Name: "Items", Type: reflect.SliceOf(leaf)}})
	case 5:
		top = reflect.StructOf([]reflect.StructField{{Name: "Items", Type: reflect.MapOf(strType, leaf)}})
	default:
		// the field loop must go on after it has looked into a struct-kind sibling that holds nothing secret
		clean := reflect.StructOf([]reflect.StructField{{Name: "Region", Type: strType}, {Name: "Count", Type: reflect.TypeOf(0)}})
		sib := clean
		if depth == 7 {
			sib = reflect.PointerTo(clean)
		}
		top = reflect.StructOf([]reflect.StructField{{Name: "Meta", Type: sib}, {Name: plain[rng.IntN(4)], Type: strType}, {Name: secretName, Type: strType, Tag: reflect.StructTag(tag)}})
	}
	val := reflect.New(top).Elem()
	if depth == 2 {
		val.Field(0).Set(reflect.New(leaf))
	}
	if depth == 7 {
		val.Field(0).Set(reflect.New(top.Field(0).Type.Elem()))
	}
	how := []string{"top level", "nested struct", "non-nil pointer", "nil pointer", "slice of structs", "map of structs", "after a clean struct sibling", "after a non-nil pointer-to-struct sibling"}[depth]
	ok := reflect.New(reflect.StructOf([]reflect.StructField{{Name: "Name", Type: strType}})).Elem().Interface()
	pl := regPlugin{req: val.Interface(), resp: ok}
	if inResp {
		pl = regPlugin{req: ok, resp: val.Interface()}
	}
	reg := registry.New()
	err := reg.Register(pl)
	tagged := strings.Contains(tag, "secure") || strings.Contains(tag, "ignore")
	desc := map[string]any{"field": secretName, "tag": tag, "where": how, "inResponse": inResp}
	if tagged && err != nil {
		r.finding(Finding{Kind: "monitor", Clause: "C17.registry_accepts_tagged", Features: map[string]any{"where": how}, Text: "a plugin whose secret-looking field is tagged was refused: " + err.Error(), Case: desc})
	}
	if !tagged && err == nil {
		r.finding(Finding{Kind: "monitor", Clause: "C17.registry_refuses_untagged_secret", Features: map[string]any{"where": how},
			Text: "a plugin with an untagged secret-looking field name (" + how + ") was registered", Case: desc})
	}
	r.eval(desc, true)
	r.count("registry")
}

func init() {
	campaigns["C17"] = func(r *Result) {
		quietLogs()
		r.Rule = "request/response shapes generated from the grammar of Model/Secure (nested structs, pointers, slices, maps, interface values, 25% of fields secure-tagged, depth 2-4) built as real Go types with reflect.StructOf, a canary string at every leaf; placed as a sequence action's request, a check action's request or an attempt's response; canaries in the JSON of the default (keep-state) clone and in every file of reports.Render compared with Model/Secure's prediction; two thirds of the shapes restricted to what the dispatch handles, one third with []any / map[string]any / pointer-to-non-struct; plus registry.Register on types with secret-looking field names (tagged secure/ignore/untagged, top-level / nested / behind a pointer, request or response); non-trivial = >=1 secure leaf; distinct by (shape, place)"
		m := getModel()
		defer putModel(m)
		rng := newRand(17)
		phase(0.8)
		for i := 0; i < tierN(900, 30000) && !expired(); i++ {
			c17Case(r, m, rng, i, i%3 == 2)
		}
		phase(1)
		for i := 0; i < tierN(120, 3000) && !expired(); i++ {
			c17Registry(r, rng, i)
		}
		r.Validated = r.Evaluations
	}
}
