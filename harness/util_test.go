package harness

import "github.com/google/uuid"

type uuidT = uuid.UUID
