package harness

import (
	"github.com/element-of-surprise/coercion/workflow/storage"
	"github.com/google/uuid"
	"zombiezen.com/go/sqlite"
)

type uuidT = uuid.UUID

type sqliteStmt = sqlite.Stmt

type storageStream = storage.Stream[storage.ListResult]
