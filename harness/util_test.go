package harness

import (
	"github.com/google/uuid"
	"zombiezen.com/go/sqlite"
)

type uuidT = uuid.UUID

type sqliteStmt = sqlite.Stmt
