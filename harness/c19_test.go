package harness

// C19 — walk: exact differential between walk.Plan and Model/Walk on random shapes (nil groups,
// nil/empty slices) and every early-stop position.

import (
	"fmt"
	"math/rand/v2"

	"github.com/element-of-surprise/coercion/workflow"
	"github.com/element-of-surprise/coercion/workflow/utils/walk"
)

type walkItem struct {
	Kind  string `json:"kind"`
	ID    int    `json:"id"`
	Chain []int  `json:"chain"`
}

func kindStr(t workflow.ObjectType) string {
	switch t {
	case workflow.OTPlan:
		return "plan"
	case workflow.OTCheck:
		return "checks"
	case workflow.OTBlock:
		return "block"
	case workflow.OTSequence:
		return "sequence"
	case workflow.OTAction:
		return "action"
	}
	return "unknown"
}

type idObj interface{ GetID() uuidT }

// shapeGen builds random plan shapes with sequential ids.
type shapeGen struct {
	r    *rand.Rand
	next int
	// probabilities / bounds
	maxBlocks, maxSeqs, maxActs int
	pGroup                      float64
}

func (g *shapeGen) id() uuidT { g.next++; return intUUID(g.next) }

func (g *shapeGen) acts(max int) []*workflow.Action {
	n := g.r.IntN(max + 1)
	if n == 0 {
		if g.r.IntN(2) == 0 {
			return nil
		}
		return []*workflow.Action{}
	}
	out := make([]*workflow.Action, n)
	for i := range out {
		if g.r.IntN(25) == 0 {
			continue // a nil child: skipped by the walk
		}
		out[i] = &workflow.Action{ID: g.id(), Name: "a", Descr: "a"}
	}
	return out
}

func (g *shapeGen) checks() *workflow.Checks {
	if g.r.Float64() >= g.pGroup {
		return nil
	}
	c := &workflow.Checks{ID: g.id()}
	c.Actions = g.acts(g.maxActs)
	return c
}

func (g *shapeGen) plan() *workflow.Plan {
	p := &workflow.Plan{ID: g.id(), Name: "p", Descr: "p"}
	p.BypassChecks, p.PreChecks, p.ContChecks = g.checks(), g.checks(), g.checks()
	nb := g.r.IntN(g.maxBlocks + 1)
	if nb > 0 || g.r.IntN(2) == 0 {
		p.Blocks = []*workflow.Block{}
	}
	for i := 0; i < nb; i++ {
		if g.r.IntN(30) == 0 {
			p.Blocks = append(p.Blocks, nil)
			continue
		}
		b := &workflow.Block{ID: g.id(), Name: "b", Descr: "b"}
		b.BypassChecks, b.PreChecks, b.ContChecks = g.checks(), g.checks(), g.checks()
		ns := g.r.IntN(g.maxSeqs + 1)
		for j := 0; j < ns; j++ {
			if g.r.IntN(30) == 0 {
				b.Sequences = append(b.Sequences, nil)
				continue
			}
			q := &workflow.Sequence{ID: g.id(), Name: "s", Descr: "s"}
			q.Actions = g.acts(g.maxActs)
			b.Sequences = append(b.Sequences, q)
		}
		b.PostChecks, b.DeferredChecks = g.checks(), g.checks()
		p.Blocks = append(p.Blocks, b)
	}
	p.PostChecks, p.DeferredChecks = g.checks(), g.checks()
	return p
}

func objID(o workflow.Object, ids *ider) int {
	switch v := o.(type) {
	case *workflow.Plan:
		return ids.id(v.ID)
	case *workflow.Checks:
		return ids.id(v.ID)
	case *workflow.Block:
		return ids.id(v.ID)
	case *workflow.Sequence:
		return ids.id(v.ID)
	case *workflow.Action:
		return ids.id(v.ID)
	}
	return -1
}

// implWalk runs walk.Plan, stopping when stopAt items were received (0 = never).
// It reports a panic of the iterator (e.g. yield after stop) as bad=true.
func implWalk(p *workflow.Plan, stopAt int, ids *ider) (items []walkItem, bad bool) {
	items = []walkItem{}
	defer func() {
		if r := recover(); r != nil {
			bad = true
		}
	}()
	n := 0
	walk.Plan(p)(func(it walk.Item) bool {
		w := walkItem{Kind: kindStr(it.Value.Type()), ID: objID(it.Value, ids), Chain: []int{}}
		for _, c := range it.Chain {
			w.Chain = append(w.Chain, objID(c, ids))
		}
		items = append(items, w)
		n++
		return stopAt == 0 || n < stopAt
	})
	return items, false
}

type walkOut struct {
	Items []walkItem `json:"items"`
	Bad   bool       `json:"bad"`
}

func c19Case(r *Result, m *Model, p *workflow.Plan, stopAt int, ids *ider, img PlanImg) {
	items, bad := implWalk(p, stopAt, ids)
	cmd := map[string]any{"cmd": "walk", "plan": img}
	if stopAt > 0 {
		cmd["stopAt"] = stopAt
	}
	var mo walkOut
	if err := m.Ask(cmd, &mo); err != nil {
		r.finding(Finding{Kind: "disagreement", Clause: "C19.driver", Text: err.Error(), Case: cmd})
		return
	}
	got := walkOut{Items: items, Bad: bad}
	if !jsonEq(got, mo) {
		r.finding(Finding{Kind: "monitor", Clause: "C19.items", Text: "walk.Plan output differs from the proved specification order (Model/Walk)",
			Features: map[string]any{"stop": stopAt > 0, "firstDiff": firstDiff(items, mo.Items)}, Case: cmd, Observed: got, Model: mo})
	}
}

func firstDiff(a, b []walkItem) string {
	for i := 0; i < len(a) && i < len(b); i++ {
		if !jsonEq(a[i], b[i]) {
			if a[i].Kind != b[i].Kind || a[i].ID != b[i].ID {
				return "order@" + b[i].Kind
			}
			return "chain@" + b[i].Kind
		}
	}
	if len(a) < len(b) {
		return "missing@" + b[len(a)].Kind
	}
	if len(a) > len(b) {
		return "extra@" + a[len(b)].Kind
	}
	return "none"
}

func init() {
	campaigns["C19"] = func(r *Result) {
		r.Rule = "random plan shapes (0-3 blocks, 0-3 sequences, 0-3 actions, each of the 10 check groups present with p=0.5, nil and empty slices); each shape walked in full and stopped at every position; non-trivial = at least one absent and one present group, or an early stop; distinct by (shape, stop position)"
		m := getModel()
		defer putModel(m)
		n := tierN(300, 20000)
		rng := newRand(19)
		for i := 0; i < n && !expired(); i++ {
			g := &shapeGen{r: rng, maxBlocks: 3, maxSeqs: 3, maxActs: 3, pGroup: 0.5}
			if i%10 == 0 {
				g.pGroup = 0.9
			}
			p := g.plan()
			ids := newIder()
			img := planImage(p, ids)
			full, _ := implWalk(p, 0, ids)
			present, absent := 0, 0
			for _, c := range []*workflow.Checks{p.BypassChecks, p.PreChecks, p.ContChecks, p.PostChecks, p.DeferredChecks} {
				if c == nil {
					absent++
				} else {
					present++
				}
			}
			r.count(fmt.Sprintf("blocks=%d", len(p.Blocks)))
			r.count(fmt.Sprintf("items<=%d", (len(full)/10+1)*10))
			c19Case(r, m, p, 0, ids, img)
			r.eval(map[string]any{"p": img, "k": 0}, present > 0 && absent > 0)
			if i < 2 {
				r.sample(map[string]any{"plan": img, "walk": full})
			}
			// every early-stop position (quick tier: all positions up to 12 then every 3rd)
			for k := 1; k <= len(full)+1; k++ {
				if cfg.Tier == "quick" && k > 12 && k%3 != 0 {
					continue
				}
				c19Case(r, m, p, k, ids, img)
				r.eval(map[string]any{"p": img, "k": k}, true)
				r.count("stops")
			}
		}
		r.Validated = r.Evaluations
	}
}
