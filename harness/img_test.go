package harness

// Canonical plan images exchanged with the Lean driver (Appendix F of DESIGN.md). Field names are
// the Lean structure field names (Model/Types.lean); every field is always emitted.

import (
	"encoding/binary"
	"sort"
	"strings"
	"time"

	"github.com/element-of-surprise/coercion/plugins"
	"github.com/element-of-surprise/coercion/workflow"
	"github.com/google/uuid"
)

type AttemptImg struct {
	Err    string `json:"err"`
	Resp   bool   `json:"resp"`
	TStart int    `json:"tStart"`
	TEnd   int    `json:"tEnd"`
}

type ActionImg struct {
	ID       int          `json:"id"`
	Key      int          `json:"key"`
	Name     string       `json:"name"`
	Descr    string       `json:"descr"`
	Plugin   string       `json:"plugin"`
	Timeout  int64        `json:"timeout"`
	Retries  int          `json:"retries"`
	Req      string       `json:"req"`
	Status   string       `json:"status"`
	TStart   int          `json:"tStart"`
	TEnd     int          `json:"tEnd"`
	Attempts []AttemptImg `json:"attempts"`
}

type ChecksImg struct {
	ID      int         `json:"id"`
	Key     int         `json:"key"`
	Delay   int64       `json:"delay"`
	Status  string      `json:"status"`
	TStart  int         `json:"tStart"`
	TEnd    int         `json:"tEnd"`
	Actions []ActionImg `json:"actions"`
}

type SeqImg struct {
	ID      int         `json:"id"`
	Key     int         `json:"key"`
	Name    string      `json:"name"`
	Descr   string      `json:"descr"`
	Status  string      `json:"status"`
	TStart  int         `json:"tStart"`
	TEnd    int         `json:"tEnd"`
	Actions []ActionImg `json:"actions"`
}

type BlockImg struct {
	ID       int        `json:"id"`
	Key      int        `json:"key"`
	Name     string     `json:"name"`
	Descr    string     `json:"descr"`
	Entrance int64      `json:"entrance"`
	Exit     int64      `json:"exit"`
	Conc     int        `json:"conc"`
	Tol      int        `json:"tol"`
	Status   string     `json:"status"`
	TStart   int        `json:"tStart"`
	TEnd     int        `json:"tEnd"`
	Bypass   *ChecksImg `json:"bypass"`
	Pre      *ChecksImg `json:"pre"`
	Cont     *ChecksImg `json:"cont"`
	Post     *ChecksImg `json:"post"`
	Deferred *ChecksImg `json:"deferred"`
	Seqs     []SeqImg   `json:"seqs"`
}

type PlanImg struct {
	ID       int        `json:"id"`
	Name     string     `json:"name"`
	Descr    string     `json:"descr"`
	Group    int        `json:"group"`
	Meta     string     `json:"pmeta"`
	Status   string     `json:"status"`
	TStart   int        `json:"tStart"`
	TEnd     int        `json:"tEnd"`
	Reason   string     `json:"reason"`
	Submit   int        `json:"submit"`
	Bypass   *ChecksImg `json:"bypass"`
	Pre      *ChecksImg `json:"pre"`
	Cont     *ChecksImg `json:"cont"`
	Post     *ChecksImg `json:"post"`
	Deferred *ChecksImg `json:"deferred"`
	Blocks   []BlockImg `json:"blocks"`
}

func statusStr(s workflow.Status) string {
	switch s {
	case workflow.NotStarted:
		return "notStarted"
	case workflow.Running:
		return "running"
	case workflow.Completed:
		return "completed"
	case workflow.Failed:
		return "failed"
	case workflow.Stopped:
		return "stopped"
	}
	return "invalid"
}

func statusFromStr(s string) workflow.Status {
	switch s {
	case "running":
		return workflow.Running
	case "completed":
		return workflow.Completed
	case "failed":
		return workflow.Failed
	case "stopped":
		return workflow.Stopped
	}
	return workflow.NotStarted
}

func reasonStr(r workflow.FailureReason) string {
	switch r {
	case workflow.FRUnknown:
		return "unknown"
	case workflow.FRPreCheck:
		return "preCheck"
	case workflow.FRBlock:
		return "block"
	case workflow.FRPostCheck:
		return "postCheck"
	case workflow.FRContCheck:
		return "contCheck"
	case workflow.FRDeferredCheck:
		return "deferredCheck"
	case workflow.FRStopped:
		return "stopped"
	case workflow.FRExceedRecovery:
		return "exceedRecovery"
	}
	return "invalid"
}

// intUUID encodes a small integer in a version-7-shaped UUID (so it is also a valid Key).
func intUUID(n int) uuid.UUID {
	if n == 0 {
		return uuid.Nil
	}
	var u uuid.UUID
	u[0] = 0x01
	u[6] = 0x70 // version 7
	u[8] = 0x80 // variant
	u[9], u[10], u[11] = 0xEE, 0xEE, 0xEE
	binary.BigEndian.PutUint32(u[12:], uint32(n))
	return u
}

// ider maps uuids to small ints: known intUUIDs decode directly, others are numbered on first sight.
type ider struct {
	m    map[uuid.UUID]int
	next int
}

func newIder() *ider { return &ider{m: map[uuid.UUID]int{}, next: 1000} }

func (d *ider) id(u uuid.UUID) int {
	if u == uuid.Nil {
		return 0
	}
	if u[0] == 0x01 && u[6] == 0x70 && u[8] == 0x80 && u[1] == 0 && u[2] == 0 && u[3] == 0 && u[9] == 0xEE && u[10] == 0xEE && u[11] == 0xEE {
		return int(binary.BigEndian.Uint32(u[12:]))
	}
	if v, ok := d.m[u]; ok {
		return v
	}
	d.next++
	d.m[u] = d.next
	return d.next
}

// timer maps wall-clock instants to canonical ranks (0 = zero time), order preserving.
type timer struct{ rank map[int64]int }

func errKind(e *plugins.Error) string {
	if e == nil {
		return "none"
	}
	if e.Message == "plugin execution timed out" {
		return "timeout"
	}
	if strings.Contains(e.Message, "returned a type") && e.Permanent {
		return "typeErr"
	}
	if e.Permanent {
		return "permanent"
	}
	return "transient"
}

type imager struct {
	ids   *ider
	times map[int64]int // nil: all times → 0/1 (zero / non-zero)
}

func (im *imager) t(x time.Time) int {
	if x.IsZero() {
		return 0
	}
	if im.times == nil {
		return 1
	}
	return im.times[x.UnixNano()]
}

func collectTimes(p *workflow.Plan) map[int64]int {
	set := map[int64]bool{}
	add := func(t time.Time) {
		if !t.IsZero() {
			set[t.UnixNano()] = true
		}
	}
	st := func(s *workflow.State) {
		if s != nil {
			add(s.Start)
			add(s.End)
		}
	}
	acts := func(as []*workflow.Action) {
		for _, a := range as {
			if a == nil {
				continue
			}
			st(a.State)
			for _, at := range a.Attempts {
				add(at.Start)
				add(at.End)
			}
		}
	}
	chk := func(c *workflow.Checks) {
		if c != nil {
			st(c.State)
			acts(c.Actions)
		}
	}
	add(p.SubmitTime)
	st(p.State)
	for _, c := range []*workflow.Checks{p.BypassChecks, p.PreChecks, p.ContChecks, p.PostChecks, p.DeferredChecks} {
		chk(c)
	}
	for _, b := range p.Blocks {
		if b == nil {
			continue
		}
		st(b.State)
		for _, c := range []*workflow.Checks{b.BypassChecks, b.PreChecks, b.ContChecks, b.PostChecks, b.DeferredChecks} {
			chk(c)
		}
		for _, s := range b.Sequences {
			if s == nil {
				continue
			}
			st(s.State)
			acts(s.Actions)
		}
	}
	var xs []int64
	for k := range set {
		xs = append(xs, k)
	}
	sort.Slice(xs, func(i, j int) bool { return xs[i] < xs[j] })
	m := map[int64]int{}
	for i, x := range xs {
		m[x] = i + 1
	}
	return m
}

func (im *imager) state(s *workflow.State) (string, int, int) {
	if s == nil {
		return "notStarted", 0, 0
	}
	return statusStr(s.Status), im.t(s.Start), im.t(s.End)
}

func reqTag(v any) string {
	switch r := v.(type) {
	case nil:
		return ""
	case interface{ Tag() string }:
		return r.Tag()
	}
	return "?"
}

func (im *imager) action(a *workflow.Action) ActionImg {
	s, t0, t1 := im.state(a.State)
	out := ActionImg{ID: im.ids.id(a.ID), Key: im.ids.id(a.Key), Name: a.Name, Descr: a.Descr, Plugin: a.Plugin,
		Timeout: a.Timeout.Milliseconds(), Retries: a.Retries, Req: reqTag(a.Req), Status: s, TStart: t0, TEnd: t1, Attempts: []AttemptImg{}}
	for _, at := range a.Attempts {
		out.Attempts = append(out.Attempts, AttemptImg{Err: errKind(at.Err), Resp: at.Resp != nil, TStart: im.t(at.Start), TEnd: im.t(at.End)})
	}
	return out
}

func (im *imager) actions(as []*workflow.Action) []ActionImg {
	out := []ActionImg{}
	for _, a := range as {
		if a == nil {
			continue // nil children are not objects: walk skips them (fix 87d37cc), Validate rejects them
		}
		out = append(out, im.action(a))
	}
	return out
}

func (im *imager) checks(c *workflow.Checks) *ChecksImg {
	if c == nil {
		return nil
	}
	s, t0, t1 := im.state(c.State)
	return &ChecksImg{ID: im.ids.id(c.ID), Key: im.ids.id(c.Key), Delay: c.Delay.Milliseconds(), Status: s, TStart: t0, TEnd: t1, Actions: im.actions(c.Actions)}
}

func (im *imager) seq(q *workflow.Sequence) SeqImg {
	s, t0, t1 := im.state(q.State)
	return SeqImg{ID: im.ids.id(q.ID), Key: im.ids.id(q.Key), Name: q.Name, Descr: q.Descr, Status: s, TStart: t0, TEnd: t1, Actions: im.actions(q.Actions)}
}

func (im *imager) block(b *workflow.Block) BlockImg {
	s, t0, t1 := im.state(b.State)
	out := BlockImg{ID: im.ids.id(b.ID), Key: im.ids.id(b.Key), Name: b.Name, Descr: b.Descr,
		Entrance: b.EntranceDelay.Milliseconds(), Exit: b.ExitDelay.Milliseconds(), Conc: b.Concurrency, Tol: b.ToleratedFailures,
		Status: s, TStart: t0, TEnd: t1,
		Bypass: im.checks(b.BypassChecks), Pre: im.checks(b.PreChecks), Cont: im.checks(b.ContChecks), Post: im.checks(b.PostChecks), Deferred: im.checks(b.DeferredChecks),
		Seqs: []SeqImg{}}
	for _, q := range b.Sequences {
		if q == nil {
			continue
		}
		out.Seqs = append(out.Seqs, im.seq(q))
	}
	return out
}

func (im *imager) plan(p *workflow.Plan) PlanImg {
	s, t0, t1 := im.state(p.State)
	out := PlanImg{ID: im.ids.id(p.ID), Name: p.Name, Descr: p.Descr, Group: im.ids.id(p.GroupID), Meta: string(p.Meta),
		Status: s, TStart: t0, TEnd: t1, Reason: reasonStr(p.Reason), Submit: im.t(p.SubmitTime),
		Bypass: im.checks(p.BypassChecks), Pre: im.checks(p.PreChecks), Cont: im.checks(p.ContChecks), Post: im.checks(p.PostChecks), Deferred: im.checks(p.DeferredChecks),
		Blocks: []BlockImg{}}
	for _, b := range p.Blocks {
		if b == nil {
			continue
		}
		out.Blocks = append(out.Blocks, im.block(b))
	}
	return out
}

// planImage gives the canonical image of a plan with order-preserving logical times.
func planImage(p *workflow.Plan, ids *ider) PlanImg {
	if ids == nil {
		ids = newIder()
	}
	im := &imager{ids: ids, times: collectTimes(p)}
	return im.plan(p)
}
