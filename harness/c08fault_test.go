package harness

// C08 under storage faults. The write that makes an attempt durable (`UpdateAction` after the attempt was appended) can
// fail. Persist-before-act then means the engine must not go on: the pinned code treats the failure as fatal
// (log.Fatalf), so the next plugin call never happens. A child process runs one action whose first j calls fail
// transiently, with a vault that refuses the first action write showing j attempts; at every plugin entry the child prints
// how many attempts the STORE holds for the action. The parent checks the clause of C08.persist_before_invoke on that
// output: call k (0-based) is entered only when the store shows at least k attempts. The child is expected to die.

import (
	"bufio"
	"context"
	"fmt"
	"os"
	"os/exec"
	"strconv"
	"strings"
	"time"

	coercion "github.com/element-of-surprise/coercion"
	"github.com/element-of-surprise/coercion/workflow"
	"github.com/element-of-surprise/coercion/workflow/utils/walk"
)

func init() { childEntries["c08fault"] = c08FaultChild }

func c08FaultSpec(j int) *PlanSpec {
	var script []Outcome
	for i := 0; i < j; i++ {
		script = append(script, Outcome{Resp: "nil", Err: "transient"})
	}
	script = append(script, Outcome{Resp: "good", Err: "none"})
	return &PlanSpec{Blocks: []BlockSpec{{Conc: 1, Tol: 0, Seqs: []SeqSpec{{Actions: []ActSpec{{Tag: "f.a0", Retries: 3, Script: script}}}}}}}
}

func c08FaultChild() {
	quietLogs()
	j, _ := strconv.Atoi(os.Getenv("VERIF_FAULT_ATTEMPTS"))
	if j < 1 {
		j = 1
	}
	ps := c08FaultSpec(j)
	env, err := newEngineEnv("")
	if err != nil {
		fmt.Println("ENVERR", err)
		os.Exit(4)
	}
	failed := false
	env.spy.fail = func(e *Event) error {
		if !failed && e.L == "wAct" && e.Img != nil && e.Img.Attempts == j {
			failed = true
			fmt.Println("FAULT attempts=" + strconv.Itoa(j))
			return fmt.Errorf("injected storage fault")
		}
		return nil
	}
	p, err := env.submit(ps, 0)
	if err != nil {
		fmt.Println("ENVERR", err)
		os.Exit(4)
	}
	env.sc.gate = func(tag string, k int) {
		stored := -1
		if sp, err := env.inner.Read(context.Background(), p.ID); err == nil {
			for it := range walk.Plan(sp) {
				if a, ok := it.Value.(*workflow.Action); ok && a.Name != "" {
					stored = len(a.Attempts)
				}
			}
		}
		fmt.Printf("CALL k=%d stored=%d\n", k, stored)
	}
	res := env.startAndWait(p, 0, 10*time.Second, 0)
	st := "none"
	if res != nil && res.Final != nil {
		st = res.Final.Status
	}
	fmt.Println("DONE status=" + st)
}

var _ = coercion.New

// c08FaultCampaign runs the child for j = 1, 2 and judges its output.
func c08FaultCampaign(r *Result) {
	self, _ := os.Executable()
	for j := 1; j <= 2; j++ {
		cmd := exec.Command(self)
		cmd.Env = append(os.Environ(), "VERIF_CHILD=c08fault", fmt.Sprintf("VERIF_FAULT_ATTEMPTS=%d", j))
		out, _ := cmd.StdoutPipe()
		if err := cmd.Start(); err != nil {
			continue
		}
		done := make(chan struct{})
		var lines []string
		go func() {
			sc := bufio.NewScanner(out)
			for sc.Scan() {
				lines = append(lines, sc.Text())
			}
			close(done)
		}()
		select {
		case <-done:
		case <-time.After(30 * time.Second):
			cmd.Process.Kill()
			<-done
		}
		cmd.Wait()
		fault, calls, envErr := false, 0, false
		desc := map[string]any{"fault": "first write of the action showing " + strconv.Itoa(j) + " attempt(s) refused", "spec": c08FaultSpec(j), "output": lines}
		for _, l := range lines {
			switch {
			case strings.HasPrefix(l, "ENVERR"):
				envErr = true
			case strings.HasPrefix(l, "FAULT"):
				fault = true
			case strings.HasPrefix(l, "CALL"):
				var k, stored int
				if _, err := fmt.Sscanf(l, "CALL k=%d stored=%d", &k, &stored); err == nil {
					calls++
					if stored < k {
						r.finding(Finding{Kind: "monitor", Clause: "C08.attempt_before_next", Case: desc,
							Text:     fmt.Sprintf("after a refused storage write the engine ran ahead of the store: plugin call %d entered while the store holds %d attempt(s)", k, stored),
							Features: map[string]any{"fault": "write_error"}, Observed: map[string]any{"call": k, "stored_attempts": stored}})
					}
				}
			}
		}
		if envErr || calls == 0 {
			continue
		}
		r.eval(desc, fault)
		r.count("storage-fault child")
	}
	r.Notes = append(r.Notes, "includes a storage-fault sub-campaign (harness/c08fault_test.go): the write that makes attempt j durable is refused; no later plugin call may be entered while the store shows fewer attempts than calls made")
}
