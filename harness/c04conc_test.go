package harness

// C04 with several plans on ONE Workstream. Every other engine campaign runs one plan at a time per Workstream, so state
// shared between the plans of a Workstream (the single sm.States, the pools) is never contended there. Here k small plans
// are submitted, started together and waited for concurrently; what Wait returns for each of them must be terminal, hold
// nothing Running, agree with a re-read a little later, and every scripted action must have run exactly once.

import (
	"context"
	"fmt"
	"sync"
	"time"

	"github.com/element-of-surprise/coercion/workflow"
	"github.com/element-of-surprise/coercion/workflow/utils/walk"
)

func c04PlanProblems(p *workflow.Plan) (terminal bool, running []string) {
	if p == nil || p.State == nil {
		return false, []string{"no plan"}
	}
	terminal = p.State.Status == workflow.Completed || p.State.Status == workflow.Failed
	for it := range walk.Plan(p) {
		if g, ok := it.Value.(interface{ GetState() *workflow.State }); ok {
			if st := g.GetState(); st != nil && st.Status == workflow.Running {
				running = append(running, fmt.Sprintf("%s", it.Value.Type()))
			}
		}
	}
	return terminal, running
}

func c04Concurrent(r *Result) {
	env, err := newEngineEnv("")
	if err != nil {
		return
	}
	defer env.close()
	rng := newRand(404)
	rounds := tierN(8, 80)
	for round := 0; round < rounds && !expired(); round++ {
		newTracerInto(env)
		k := 4 + rng.IntN(5)
		type one struct {
			p     *workflow.Plan
			ps    *PlanSpec
			final *workflow.Plan
			werr  error
		}
		plans := make([]*one, k)
		ok := true
		for i := 0; i < k; i++ {
			ps := genSmallSpec(rng, fmt.Sprintf("cc%d.%d.", round, i))
			ps.Post = &GroupSpec{Actions: []ActSpec{{Tag: fmt.Sprintf("cc%d.%d.post", round, i)}}}
			p, err := env.submit(ps, i)
			if err != nil {
				ok = false
				break
			}
			plans[i] = &one{p: p, ps: ps}
		}
		if !ok {
			continue
		}
		desc := map[string]any{"kind": "concurrent plans on one Workstream", "plans": k, "round": round}
		breadcrumb(desc)
		var wg sync.WaitGroup
		start := make(chan struct{})
		for _, o := range plans {
			wg.Add(1)
			go func(o *one) {
				defer wg.Done()
				<-start
				if err := env.ws.Start(context.Background(), o.p.ID); err != nil {
					o.werr = err
					return
				}
				wctx, cancel := context.WithTimeout(context.Background(), 20*time.Second)
				defer cancel()
				o.final, o.werr = env.ws.Wait(wctx, o.p.ID)
			}(o)
		}
		close(start)
		wg.Wait()
		time.Sleep(3 * time.Millisecond)
		calls := map[string]int{}
		for _, e := range env.tr.snapshot() {
			if e.L == "enter" {
				calls[e.Tag]++
			}
		}
		for i, o := range plans {
			feat := map[string]any{"concurrentPlans": true}
			if o.werr != nil || o.final == nil {
				r.finding(Finding{Kind: "monitor", Clause: "C04.terminates", Features: feat, Text: fmt.Sprintf("plan %d of %d concurrent plans: Start/Wait failed: %v", i, k, o.werr), Case: desc})
				continue
			}
			term, running := c04PlanProblems(o.final)
			if !term {
				r.finding(Finding{Kind: "monitor", Clause: "C04.R1_terminal", Features: feat, Text: fmt.Sprintf("plan %d of %d concurrent plans: the plan returned by Wait is %v, not Completed or Failed", i, k, o.final.State.Status), Case: desc})
			}
			if len(running) > 0 {
				r.finding(Finding{Kind: "monitor", Clause: "C04.R2_nothing_running", Features: feat, Text: fmt.Sprintf("plan %d of %d concurrent plans: objects still Running in the plan returned by Wait: %v", i, k, running), Case: desc})
			}
			again, err := env.inner.Read(context.Background(), o.p.ID)
			if err == nil {
				t2, run2 := c04PlanProblems(again)
				if t2 != term || len(run2) != len(running) || again.State.Status != o.final.State.Status {
					r.finding(Finding{Kind: "monitor", Clause: "C04.stable_after_wait", Features: feat, Text: fmt.Sprintf("plan %d of %d concurrent plans: the stored plan changed after Wait returned (%v -> %v)", i, k, o.final.State.Status, again.State.Status), Case: desc})
				}
			}
			o.ps.eachAction(func(a *ActSpec, _ bool) {
				if calls[a.Tag] != 1 {
					r.finding(Finding{Kind: "monitor", Clause: "C04.R8_truthful", Features: feat, Text: fmt.Sprintf("plan %d of %d concurrent all-success plans: action %s was invoked %d times", i, k, a.Tag, calls[a.Tag]), Case: desc})
				}
			})
		}
		r.eval(desc, true)
		r.count("concurrent-plans round")
	}
	r.Notes = append(r.Notes, "includes rounds of 4-8 plans submitted, started and awaited concurrently on one Workstream (harness/c04conc_test.go)")
}
