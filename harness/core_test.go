package harness

// Core of the correspondence harness: configuration from the environment, PRNG, the Lean driver
// client, result accumulation. Built as a test binary (go test -c -tags verif) so that
// testing.Testing() is true inside the code under test (sqlite.Vault.Pool, WithCapture).

import (
	"bufio"
	"crypto/sha256"
	"encoding/hex"
	"encoding/json"
	"fmt"
	"io"
	"math/rand/v2"
	"os"
	"os/exec"
	"sort"
	"strconv"
	"strings"
	"sync"
	"sync/atomic"
	"testing"
	"time"
)

type Finding struct {
	Kind     string         `json:"kind"` // monitor | disagreement | crash
	Clause   string         `json:"clause"`
	Features map[string]any `json:"features,omitempty"`
	Text     string         `json:"text"`
	Case     any            `json:"case,omitempty"`
	Observed any            `json:"observed,omitempty"`
	Model    any            `json:"model,omitempty"`
}

type Result struct {
	Property     string         `json:"property"`
	Tier         string         `json:"tier"`
	Seed         uint64         `json:"seed"`
	Evaluations  int            `json:"evaluations"`
	Distinct     int            `json:"distinct_nontrivial"`
	Rule         string         `json:"rule"`
	Samples      []any          `json:"samples"`
	Distribution map[string]int `json:"distribution"`
	Findings     []Finding      `json:"findings"`
	Validated    int            `json:"traces_validated_against_impl"`
	Exhaustive   bool           `json:"exhaustive"`
	Notes        []string       `json:"notes,omitempty"`
	WallS        float64        `json:"wall_s"`

	mu       sync.Mutex
	seen     map[string]bool
	findKeys map[string]bool
}

func newResult(prop string) *Result {
	return &Result{Property: prop, Tier: cfg.Tier, Seed: cfg.Seed, Distribution: map[string]int{}, seen: map[string]bool{}, findKeys: map[string]bool{}}
}

func (r *Result) count(key string) { r.mu.Lock(); r.Distribution[key]++; r.mu.Unlock() }
func (r *Result) countN(key string, n int) {
	r.mu.Lock()
	r.Distribution[key] += n
	r.mu.Unlock()
}

// eval records one evaluated case; canonical is hashed for distinctness; nontrivial by the property's rule.
func (r *Result) eval(canonical any, nontrivial bool) {
	r.mu.Lock()
	defer r.mu.Unlock()
	r.Evaluations++
	if !nontrivial {
		return
	}
	b, _ := json.Marshal(canonical)
	h := sha256.Sum256(b)
	k := hex.EncodeToString(h[:8])
	if !r.seen[k] {
		r.seen[k] = true
		r.Distinct++
	}
}

func (r *Result) sample(s any) {
	r.mu.Lock()
	defer r.mu.Unlock()
	if len(r.Samples) < 3 {
		r.Samples = append(r.Samples, s)
	}
}

// finding records a finding; at most a few per (kind, clause, features) signature are kept.
func (r *Result) finding(f Finding) {
	r.mu.Lock()
	defer r.mu.Unlock()
	fb, _ := json.Marshal(f.Features)
	k := f.Kind + "|" + f.Clause + "|" + string(fb)
	r.Distribution["finding:"+f.Kind+":"+f.Clause]++
	if r.findKeys[k] {
		return
	}
	r.findKeys[k] = true
	r.Findings = append(r.Findings, f)
}

type config struct {
	Prop   string
	Tier   string
	Seed   uint64
	Out    string
	Driver string
	Replay string
	Scale  float64
	// Deadline (VERIF_BUDGET_S seconds after start, 0 = none): campaigns stop generating new cases after it
	Deadline time.Time
	Start    time.Time
	// Phase (see phase()): the current sub-campaign may run until this instant (zero: until Deadline)
	Phase time.Time
}

var budgetHit atomic.Bool

// expired reports whether the campaign's time budget is used up; loops over generated cases test it.
func expired() bool {
	if cfg.Deadline.IsZero() {
		return false
	}
	d := cfg.Deadline
	if !cfg.Phase.IsZero() && cfg.Phase.Before(d) {
		d = cfg.Phase
	}
	if time.Now().Before(d) {
		return false
	}
	budgetHit.Store(true)
	return true
}

// phase gives the sub-campaign that follows the time until `frac` of the whole budget has passed, so that a
// campaign made of several parts runs every part even when the budget cuts it short (frac 1 = the rest).
func phase(frac float64) {
	if cfg.Deadline.IsZero() {
		return
	}
	cfg.Phase = cfg.Start.Add(time.Duration(float64(cfg.Deadline.Sub(cfg.Start)) * frac))
}

var cfg config

func envOr(k, d string) string {
	if v := os.Getenv(k); v != "" {
		return v
	}
	return d
}

func loadCfg() {
	cfg.Prop = os.Getenv("VERIF_PROP")
	cfg.Tier = envOr("VERIF_TIER", "quick")
	s, _ := strconv.ParseUint(envOr("VERIF_SEED", "1"), 10, 64)
	cfg.Seed = s
	cfg.Out = envOr("VERIF_OUT", "/dev/stdout")
	cfg.Driver = envOr("VERIF_DRIVER", "/verif/lean/.lake/build/bin/driver")
	cfg.Replay = os.Getenv("VERIF_REPLAY")
	cfg.Scale, _ = strconv.ParseFloat(envOr("VERIF_SCALE", "1"), 64)
	if cfg.Scale <= 0 {
		cfg.Scale = 1
	}
	if b, _ := strconv.ParseFloat(os.Getenv("VERIF_BUDGET_S"), 64); b > 0 {
		cfg.Start = time.Now()
		cfg.Deadline = cfg.Start.Add(time.Duration(b * float64(time.Second)))
	}
}

// n scales a quick-tier count to the current tier.
func tierN(quick, thorough int) int {
	n := quick
	if cfg.Tier == "thorough" {
		n = thorough
	}
	n = int(float64(n) * cfg.Scale)
	if n < 1 {
		n = 1
	}
	return n
}

func newRand(stream uint64) *rand.Rand { return rand.New(rand.NewPCG(cfg.Seed, stream)) }

// ---------------------------------------------------------------------------------------------
// Lean driver client

type Model struct {
	mu  sync.Mutex
	cmd *exec.Cmd
	in  io.WriteCloser
	out *bufio.Reader
}

func startModel() (*Model, error) {
	c := exec.Command(cfg.Driver)
	in, err := c.StdinPipe()
	if err != nil {
		return nil, err
	}
	out, err := c.StdoutPipe()
	if err != nil {
		return nil, err
	}
	c.Stderr = os.Stderr
	if err := c.Start(); err != nil {
		return nil, err
	}
	return &Model{cmd: c, in: in, out: bufio.NewReaderSize(out, 1<<20)}, nil
}

type modelAnswer struct {
	OK  bool            `json:"ok"`
	Out json.RawMessage `json:"out"`
	Why string          `json:"why"`
}

// Ask sends one command and decodes the answer's "out" into dst (if non-nil).
func (m *Model) Ask(cmd any, dst any) error {
	b, err := json.Marshal(cmd)
	if err != nil {
		return err
	}
	m.mu.Lock()
	defer m.mu.Unlock()
	if _, err := m.in.Write(append(b, '\n')); err != nil {
		return fmt.Errorf("driver write: %w", err)
	}
	line, err := m.out.ReadBytes('\n')
	if err != nil {
		return fmt.Errorf("driver read: %w", err)
	}
	var a modelAnswer
	if err := json.Unmarshal(line, &a); err != nil {
		return fmt.Errorf("driver answer %q: %w", line, err)
	}
	if !a.OK {
		return fmt.Errorf("driver: %s", a.Why)
	}
	if dst != nil {
		return json.Unmarshal(a.Out, dst)
	}
	return nil
}

func (m *Model) Close() { m.in.Close(); m.cmd.Wait() }

// modelPool hands out one driver per worker.
var modelPool = sync.Pool{}

func getModel() *Model {
	if m, ok := modelPool.Get().(*Model); ok && m != nil {
		return m
	}
	m, err := startModel()
	if err != nil {
		fmt.Fprintf(os.Stderr, "cannot start Lean driver %s: %v\n", cfg.Driver, err)
		os.Exit(3)
	}
	return m
}
func putModel(m *Model) { modelPool.Put(m) }

// ---------------------------------------------------------------------------------------------

type campaign func(r *Result)

var campaigns = map[string]campaign{}

func jsonEq(a, b any) bool {
	x, _ := json.Marshal(a)
	y, _ := json.Marshal(b)
	return string(x) == string(y)
}

// canonEq compares two JSON-able values structurally (object key order and Go types do not matter).
func canonEq(a, b any) bool {
	canon := func(v any) string {
		x, _ := json.Marshal(v)
		var g any
		json.Unmarshal(x, &g)
		y, _ := json.Marshal(g)
		return string(y)
	}
	return canon(a) == canon(b)
}

func sortedKeys[V any](m map[string]V) []string {
	ks := make([]string, 0, len(m))
	for k := range m {
		ks = append(ks, k)
	}
	sort.Strings(ks)
	return ks
}

func TestMain(m *testing.M) {
	loadCfg()
	if cfg.Prop == "" {
		os.Exit(m.Run())
	}
	if ch := os.Getenv("VERIF_CHILD"); ch != "" && ch != "campaign" {
		childMain()
		return
	}
	// Process isolation: the campaign runs in a child process. A panic in a pool goroutine or a
	// log.Fatalf of the engine kills only the child; the parent records the death as an observation.
	if os.Getenv("VERIF_CHILD") == "" && os.Getenv("VERIF_NO_ISOLATION") == "" {
		os.Exit(runIsolated())
	}
	c, ok := campaigns[cfg.Prop]
	if !ok {
		fmt.Fprintf(os.Stderr, "no campaign for %s\n", cfg.Prop)
		os.Exit(3)
	}
	r := newResult(cfg.Prop)
	t0 := time.Now()
	c(r)
	r.WallS = time.Since(t0).Seconds()
	if budgetHit.Load() {
		r.Notes = append(r.Notes, fmt.Sprintf("time budget (VERIF_BUDGET_S=%s) reached: the campaign stopped generating cases after %d evaluations", os.Getenv("VERIF_BUDGET_S"), r.Evaluations))
	}
	if r.Findings == nil {
		r.Findings = []Finding{}
	}
	if r.Samples == nil {
		r.Samples = []any{}
	}
	b, _ := json.MarshalIndent(r, "", " ")
	if err := os.WriteFile(cfg.Out, b, 0o644); err != nil {
		fmt.Fprintln(os.Stderr, err)
		os.Exit(3)
	}
	os.Exit(0)
}

// childMain is the entry point of isolated child processes (crash / kill experiments).
var childEntries = map[string]func(){}

func childMain() {
	f, ok := childEntries[os.Getenv("VERIF_CHILD")]
	if !ok {
		fmt.Fprintf(os.Stderr, "no child entry %s\n", os.Getenv("VERIF_CHILD"))
		os.Exit(3)
	}
	f()
	os.Exit(0)
}

// parallel runs f(i) for i in [0,n) on up to w workers.
func parallel(n, w int, f func(i int)) {
	if w < 1 {
		w = 1
	}
	var wg sync.WaitGroup
	ch := make(chan int)
	for k := 0; k < w; k++ {
		wg.Add(1)
		go func() {
			defer wg.Done()
			for i := range ch {
				f(i)
			}
		}()
	}
	for i := 0; i < n; i++ {
		ch <- i
	}
	close(ch)
	wg.Wait()
}

// breadcrumb records the case about to be executed, so that a dead child can be attributed to it.
func breadcrumb(desc any) {
	if os.Getenv("VERIF_CHILD") != "campaign" {
		return
	}
	b, _ := json.Marshal(desc)
	os.WriteFile(cfg.Out+".current", b, 0o644)
}

func runIsolated() int {
	self, err := os.Executable()
	if err != nil {
		fmt.Fprintln(os.Stderr, err)
		return 3
	}
	os.Remove(cfg.Out)
	os.Remove(cfg.Out + ".current")
	cmd := exec.Command(self)
	cmd.Env = append(os.Environ(), "VERIF_CHILD=campaign")
	var buf tailBuffer
	cmd.Stdout = &buf
	cmd.Stderr = &buf
	t0 := time.Now()
	runErr := cmd.Run()
	if _, statErr := os.Stat(cfg.Out); statErr == nil && runErr == nil {
		os.Remove(cfg.Out + ".current")
		return 0
	}
	// the child died without delivering a result
	var cur any
	if b, e := os.ReadFile(cfg.Out + ".current"); e == nil {
		json.Unmarshal(b, &cur)
	}
	os.Remove(cfg.Out + ".current")
	r := newResult(cfg.Prop)
	r.Evaluations = 1
	r.WallS = time.Since(t0).Seconds()
	r.Rule = "campaign child process died"
	r.Samples = []any{}
	first := buf.firstPanicLine()
	r.Findings = []Finding{{Kind: "crash", Clause: cfg.Prop + ".process_exit", Features: map[string]any{"how": first},
		Text: fmt.Sprintf("the process running the campaign exited (%v): %s", runErr, first), Case: cur, Observed: buf.String()}}
	b, _ := json.MarshalIndent(r, "", " ")
	os.WriteFile(cfg.Out, b, 0o644)
	return 0
}

// tailBuffer keeps the last 16 KiB written to it.
type tailBuffer struct {
	mu sync.Mutex
	b  []byte
}

func (t *tailBuffer) Write(p []byte) (int, error) {
	t.mu.Lock()
	defer t.mu.Unlock()
	t.b = append(t.b, p...)
	if len(t.b) > 1<<14 {
		t.b = t.b[len(t.b)-(1<<14):]
	}
	return len(p), nil
}

func (t *tailBuffer) String() string { t.mu.Lock(); defer t.mu.Unlock(); return string(t.b) }

func (t *tailBuffer) firstPanicLine() string {
	s := t.String()
	for _, line := range strings.Split(s, "\n") {
		if strings.HasPrefix(line, "panic:") || strings.Contains(line, "fatal") || strings.Contains(line, "Fatal") || strings.Contains(line, "failed to write") {
			if len(line) > 200 {
				line = line[:200]
			}
			return line
		}
	}
	lines := strings.Split(strings.TrimSpace(s), "\n")
	if len(lines) > 0 {
		l := lines[len(lines)-1]
		if len(l) > 200 {
			l = l[:200]
		}
		return l
	}
	return ""
}
