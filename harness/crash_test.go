package harness

// Crash emulation by write-prefix replay (DESIGN §3.4): one execution is recorded write by write
// (each with a private copy of the object as written); for every cut k a fresh in-memory vault
// receives Create(submitted plan) + the first k writes; a new Workstream on it (fresh registry, fresh
// plugin call counters) recovers and is waited on. A second cut inside the recovery run gives double
// crashes. Monitors: C09 (nothing durably finished runs again), C10 (recovery terminates in a
// consistent state equal to the uninterrupted outcome when plugin outcomes depend on the action only).

import (
	"encoding/json"
	"fmt"
	"os"
	"sort"
	"strings"
	"time"

	coercion "github.com/element-of-surprise/coercion"
	"github.com/element-of-surprise/coercion/workflow"
	"github.com/element-of-surprise/coercion/workflow/context"
	"github.com/element-of-surprise/coercion/workflow/storage"
	"github.com/element-of-surprise/coercion/workflow/storage/sqlite"
	"github.com/google/uuid"
)

type writeRec struct {
	Kind string // wPlan | wBlock | wChecks | wSeq | wAct
	N    int64
	Obj  int
	Img  *ObjImg
	plan *workflow.Plan
	blk  *workflow.Block
	chk  *workflow.Checks
	seq  *workflow.Sequence
	act  *workflow.Action
}

func copyState(s *workflow.State) *workflow.State {
	if s == nil {
		return nil
	}
	c := *s
	return &c
}

func copyAttempts(as []*workflow.Attempt) []*workflow.Attempt {
	if as == nil {
		return nil
	}
	out := make([]*workflow.Attempt, len(as))
	for i, a := range as {
		c := *a
		if a.Err != nil {
			e := *a.Err
			c.Err = &e
		}
		out[i] = &c
	}
	return out
}

// recorder is a vault interposer that keeps a private copy of every object written.
type recorder struct {
	*spyVault
	recs []writeRec
}

func (r *recorder) rec(w writeRec) {
	r.tr.mu.Lock()
	w.N = r.tr.n
	r.tr.mu.Unlock()
	r.recs = append(r.recs, w)
}

func (r *recorder) UpdatePlan(ctx context.Context, p *workflow.Plan) error {
	err := r.spyVault.UpdatePlan(ctx, p)
	r.tr.mu.Lock()
	defer r.tr.mu.Unlock()
	r.recs = append(r.recs, writeRec{Kind: "wPlan", N: r.tr.n, Obj: r.tr.objIdx[p.ID], plan: &workflow.Plan{ID: p.ID, State: copyState(p.State), Reason: p.Reason, SubmitTime: p.SubmitTime}})
	return err
}
func (r *recorder) UpdateBlock(ctx context.Context, b *workflow.Block) error {
	err := r.spyVault.UpdateBlock(ctx, b)
	r.tr.mu.Lock()
	defer r.tr.mu.Unlock()
	r.recs = append(r.recs, writeRec{Kind: "wBlock", N: r.tr.n, Obj: r.tr.objIdx[b.ID], blk: &workflow.Block{ID: b.ID, State: copyState(b.State)}})
	return err
}
func (r *recorder) UpdateChecks(ctx context.Context, c *workflow.Checks) error {
	err := r.spyVault.UpdateChecks(ctx, c)
	r.tr.mu.Lock()
	defer r.tr.mu.Unlock()
	r.recs = append(r.recs, writeRec{Kind: "wChecks", N: r.tr.n, Obj: r.tr.objIdx[c.ID], chk: &workflow.Checks{ID: c.ID, State: copyState(c.State)}})
	return err
}
func (r *recorder) UpdateSequence(ctx context.Context, s *workflow.Sequence) error {
	err := r.spyVault.UpdateSequence(ctx, s)
	r.tr.mu.Lock()
	defer r.tr.mu.Unlock()
	r.recs = append(r.recs, writeRec{Kind: "wSeq", N: r.tr.n, Obj: r.tr.objIdx[s.ID], seq: &workflow.Sequence{ID: s.ID, State: copyState(s.State)}})
	return err
}
func (r *recorder) UpdateAction(ctx context.Context, a *workflow.Action) error {
	err := r.spyVault.UpdateAction(ctx, a)
	r.tr.mu.Lock()
	defer r.tr.mu.Unlock()
	r.recs = append(r.recs, writeRec{Kind: "wAct", N: r.tr.n, Obj: r.tr.objIdx[a.ID], act: &workflow.Action{ID: a.ID, State: copyState(a.State), Attempts: copyAttempts(a.Attempts), Plugin: a.Plugin, Retries: a.Retries}})
	return err
}

func applyWrite(v storage.Vault, w writeRec) error {
	ctx := context.Background()
	switch w.Kind {
	case "wPlan":
		return v.UpdatePlan(ctx, w.plan)
	case "wBlock":
		return v.UpdateBlock(ctx, w.blk)
	case "wChecks":
		return v.UpdateChecks(ctx, w.chk)
	case "wSeq":
		return v.UpdateSequence(ctx, w.seq)
	case "wAct":
		return v.UpdateAction(ctx, w.act)
	}
	return nil
}

// durable is the per-object image the store holds at a cut.
type durable struct {
	Status   string
	Attempts int
	LastOK   bool // last attempt ended without error
	LastDone bool // last attempt has an end time
}

func durableAt(ix *index, recs []writeRec) map[int]durable {
	d := map[int]durable{}
	for i := range ix.Objs {
		d[i] = durable{Status: "notStarted"}
	}
	for _, w := range recs {
		var st *workflow.State
		x := durable{}
		switch w.Kind {
		case "wPlan":
			st = w.plan.State
		case "wBlock":
			st = w.blk.State
		case "wChecks":
			st = w.chk.State
		case "wSeq":
			st = w.seq.State
		case "wAct":
			st = w.act.State
			x.Attempts = len(w.act.Attempts)
			if n := len(w.act.Attempts); n > 0 {
				x.LastOK = w.act.Attempts[n-1].Err == nil
				x.LastDone = !w.act.Attempts[n-1].End.IsZero()
			}
		}
		if st != nil {
			x.Status = statusStr(st.Status)
		}
		d[w.Obj] = x
	}
	return d
}

// recordedRun executes a spec once on a recording vault.
type recordedRun struct {
	ix        *index
	submitted *workflow.Plan // as stored right after Submit (read back, NotStarted everywhere)
	id        uuid.UUID
	recs      []writeRec
	res       *runResult
	objIdx    map[uuid.UUID]int
}

func recordRun(ps *PlanSpec) (*recordedRun, error) {
	env, err := newEngineEnv("")
	if err != nil {
		return nil, err
	}
	defer env.close()
	rec := &recorder{spyVault: env.spy}
	ws, err := coercion.New(context.Background(), env.reg, rec)
	if err != nil {
		return nil, err
	}
	env.ws = ws
	p, err := env.submit(ps, 0)
	if err != nil {
		return nil, err
	}
	sub, err := env.inner.Read(context.Background(), p.ID)
	if err != nil {
		return nil, err
	}
	res := env.startAndWait(p, 0, 20*time.Second, 0)
	out := &recordedRun{ix: buildIndex(ps), submitted: sub, id: p.ID, recs: rec.recs, res: res, objIdx: map[uuid.UUID]int{}}
	env.tr.mu.Lock()
	for u, i := range env.tr.objIdx {
		out.objIdx[u] = i
	}
	env.tr.mu.Unlock()
	return out, nil
}

// recoverFrom builds a fresh store holding the submitted plan + the given writes, starts a new
// Workstream on it (which recovers Running plans) and waits for the plan. Returns the recovery run's
// own recorded writes (for double crashes), its trace and the final stored plan.
type recovery struct {
	res     *runResult
	recs    []writeRec
	resumed bool
	err     string
}

func recoverFrom(rr *recordedRun, ps *PlanSpec, writes []writeRec, maxWait time.Duration, opts ...coercion.Option) *recovery {
	out := &recovery{}
	tr := newTracer()
	sc := &scripts{tags: map[string]*tagState{}}
	reg := newRegistry(tr, sc)
	ctx := context.Background()
	inner, err := sqlite.New(ctx, "", reg, sqlite.WithInMemory())
	if err != nil {
		out.err = err.Error()
		return out
	}
	defer inner.Close(ctx)
	ps.eachAction(func(a *ActSpec, _ bool) { sc.tags[a.Tag] = &tagState{script: a.Script} })
	// the stored, submitted plan: re-read objects share nothing with the first run
	if err := inner.Create(ctx, rr.submitted); err != nil {
		out.err = "create: " + err.Error()
		return out
	}
	for _, w := range writes {
		if err := applyWrite(inner, w); err != nil {
			out.err = "replay write: " + err.Error()
			return out
		}
	}
	tr.mu.Lock()
	for u, i := range rr.objIdx {
		tr.objIdx[u] = i
		tr.planNo[u] = 0
	}
	tr.mu.Unlock()
	spy := &spyVault{Vault: inner, tr: tr}
	rec := &recorder{spyVault: spy}
	ws, err := coercion.New(ctx, reg, rec, opts...)
	if err != nil {
		out.err = "new: " + err.Error()
		return out
	}
	res := &runResult{}
	wctx, cancel := context.WithTimeout(ctx, maxWait)
	defer cancel()
	final, werr := ws.Wait(wctx, rr.id)
	tr.add(Event{L: "release", Plan: 0})
	if werr != nil {
		res.WaitErr = werr.Error()
		if wctx.Err() != nil {
			res.TimedOut = true
		}
	}
	if final != nil && final.State != nil {
		ids := newIder()
		for u, i := range rr.objIdx {
			ids.m[u] = i
		}
		img := planImageRaw(final, ids)
		res.Final = &img
	}
	res.Trace = tr.snapshot()
	for _, e := range res.Trace {
		if e.L == "enter" || (len(e.L) > 1 && e.L[0] == 'w') {
			out.resumed = true
		}
	}
	out.res = res
	out.recs = rec.recs
	return out
}

// ---------------------------------------------------------------------------------------------
// monitors for one recovery

func checkRecovery(r *Result, rr *recordedRun, ps *PlanSpec, cut []writeRec, rc *recovery, desc map[string]any, constantScripts bool, uninterrupted *PlanImg) {
	ix := rr.ix
	fail := func(clause string, feat map[string]any, text string) {
		r.finding(Finding{Kind: "monitor", Clause: clause, Features: feat, Text: text, Case: desc})
	}
	if rc.err != "" {
		fail("C10.recovery_setup", map[string]any{}, "could not set up the recovery: "+rc.err)
		return
	}
	d := durableAt(ix, cut)
	planDur := d[0].Status
	res := rc.res
	v := newTraceView(ix, res.Trace, 0, res.Final)
	// C11-ish: only a durably Running plan is resumed
	if planDur != "running" {
		if rc.resumed {
			fail("C09.terminal_plan_not_rerun", map[string]any{"durable": planDur}, "a plan that was durably "+planDur+" was acted on after the restart")
		}
		return
	}
	if res.TimedOut {
		fail("C10.recovery_terminates", map[string]any{}, "the recovered plan did not reach a terminal state within the watchdog")
		return
	}
	if res.Final == nil {
		fail("C10.recovery_terminates", map[string]any{"noPlan": true}, "no plan could be read after the recovery: "+res.WaitErr)
		return
	}
	// C09: nothing durably finished is executed again
	for i, o := range ix.Objs {
		du := d[i]
		switch o.Kind {
		case "action":
			if o.Check {
				continue // checks are re-run after a recovery by design (DESIGN §6 observations)
			}
			n := len(v.enters[i])
			done := du.Status == "completed" || du.Status == "failed" || (du.Status == "running" && du.Attempts > 0 && du.LastDone && du.LastOK)
			if n > 0 && done {
				fail("C09.no_reinvoke_after_durable_result", map[string]any{"durable": du.Status, "attempts": du.Attempts, "lastOK": du.LastOK},
					fmt.Sprintf("a sequence action that was durably %s (attempts=%d, last ok=%v) was invoked again after the restart", du.Status, du.Attempts, du.LastOK))
			}
			if n > 0 && !(du.Status == "notStarted" || du.Status == "running") {
				fail("C09.only_inflight_reinvoked", map[string]any{"durable": du.Status}, "an action that was neither NotStarted nor in flight was invoked after the restart")
			}
		case "seq":
			if du.Status == "completed" || du.Status == "failed" {
				if v.firstWrite(i, "running") != 0 {
					fail("C09.terminal_sequence_not_rerun", map[string]any{"durable": du.Status}, "a sequence that was durably "+du.Status+" was started again")
				}
			}
		case "block":
			if du.Status == "completed" || du.Status == "failed" {
				for _, q := range ix.seqsOf(o.Block) {
					if _, ok := v.first[q]; ok {
						fail("C09.terminal_block_not_rerun", map[string]any{"durable": du.Status}, "a sequence of a block that was durably "+du.Status+" ran after the restart")
						break
					}
				}
			}
		}
	}
	// does the durable image make fixPlan derive a terminal status (Recovery then jumps to End, D21)?
	toTerminal := ""
	for _, gk := range []string{"pre", "post", "cont"} {
		if g := ix.group(-1, gk); g >= 0 && d[g].Status == "failed" {
			toTerminal = "plan " + gk + " checks durably Failed"
		}
	}
	for bi, b := range ix.Blocks {
		if d[b].Status == "failed" {
			toTerminal = "a block durably Failed"
		}
		if d[b].Status == "running" {
			for _, gk := range []string{"pre", "post", "cont"} {
				if g := ix.group(bi, gk); g >= 0 && d[g].Status == "failed" {
					toTerminal = "a block's " + gk + " checks durably Failed"
				}
			}
		}
	}
	// C03 across a restart: sequences that durably failed still count; once the threshold is exceeded
	// nothing new is started in that block
	for bi, b := range ps.Blocks {
		if b.Tol < 0 {
			continue
		}
		df := 0
		for _, q := range ix.seqsOf(bi) {
			if d[q].Status == "failed" {
				df++
			}
		}
		if df > b.Tol {
			for _, q := range ix.seqsOf(bi) {
				if d[q].Status != "running" && v.firstWrite(q, "running") != 0 {
					fail("C03.recovery_no_start_after_threshold", map[string]any{"durablyFailed": df, "tol": b.Tol},
						"after a restart a sequence was started in a block whose durably failed sequences already exceeded the tolerance")
					break
				}
			}
		}
	}
	// C03 across a restart, the other direction: a block whose failed sequences stay within the tolerance must not end
	// Failed for "exceeding" it (e.g. because durably Failed sequences are counted once more when the block is re-entered)
	if res.Final != nil {
		for bi, b := range ps.Blocks {
			if b.Tol < 0 || bi >= len(res.Final.Blocks) {
				continue
			}
			fb := res.Final.Blocks[bi]
			if fb.Status != "failed" {
				continue
			}
			nf, unfinished := 0, 0
			for _, q := range fb.Seqs {
				switch q.Status {
				case "failed":
					nf++
				case "completed":
				default:
					unfinished++
				}
			}
			groupFailed := false
			for _, g := range []*ChecksImg{fb.Bypass, fb.Pre, fb.Cont, fb.Post, fb.Deferred, res.Final.Cont} {
				if g != nil && g.Status == "failed" {
					groupFailed = true
				}
			}
			if nf <= b.Tol && !groupFailed {
				fail("C03.recovery_failures_counted_once", map[string]any{"failedSeqs": nf, "tol": b.Tol, "unfinished": unfinished},
					fmt.Sprintf("after a restart a block ended Failed with %d failed sequences, tolerance %d, and no failed check group", nf, b.Tol))
			}
		}
	}
	// C06 across a restart: plan-level pre-checks (and the initial cont run) are run again by the
	// recovering process and must pass before any sequence action is invoked
	var firstSeqEnter int64
	for i, o := range ix.Objs {
		if o.Kind == "action" && !o.Check && len(v.enters[i]) > 0 {
			if n := v.enters[i][0].N; firstSeqEnter == 0 || n < firstSeqEnter {
				firstSeqEnter = n
			}
		}
	}
	if firstSeqEnter != 0 {
		for _, gk := range []string{"pre", "cont"} {
			g := ix.group(-1, gk)
			if g < 0 || (gk == "cont" && ix.group(-1, "pre") < 0) {
				continue
			}
			if d[g].Status == "completed" {
				continue // the gate had durably passed before the crash (fixBlock may finish in-flight sequences at once)
			}
			w := v.firstWrite(g, "completed")
			if w == 0 || w > firstSeqEnter {
				fail("C06.recovery_prechecks_gate_sequences", map[string]any{"group": gk, "durable": d[g].Status},
					"after a restart a sequence action was invoked although the plan's "+gk+" checks had not passed in the recovering process")
			}
		}
	}
	// C06 across a restart, block level (Model/Regate, fix 126bafb): a block with PreChecks whose PreChecks had durably
	// passed but whose ContChecks had not completed their first run is gated by that run in the recovering process before
	// any sequence that was still NotStarted at the cut is begun (sequences in flight at the cut are finished by fixBlock).
	for bi := range ps.Blocks {
		pg, cg := ix.group(bi, "pre"), ix.group(bi, "cont")
		if pg < 0 || cg < 0 || d[pg].Status != "completed" || d[cg].Status == "completed" || d[cg].Status == "failed" {
			continue
		}
		if bg := ix.group(bi, "bypass"); bg >= 0 && d[bg].Status == "completed" {
			continue
		}
		var first int64
		for _, q := range ix.seqsOf(bi) {
			if d[q].Status != "notStarted" {
				continue
			}
			for _, a := range ix.actionsOf(q) {
				if len(v.enters[a]) > 0 {
					if n := v.enters[a][0].N; first == 0 || n < first {
						first = n
					}
				}
			}
		}
		if first == 0 {
			continue
		}
		if w := v.firstWrite(cg, "completed"); w == 0 || w > first {
			fail("C06.recovery_block_cont_gates", map[string]any{"durableCont": d[cg].Status},
				"after a restart a not-yet-started sequence of a block was begun although the first run of the block's ContChecks had not passed (PreChecks durably Completed)")
		}
	}
	// C10: consistent terminal state
	p := res.Final
	if p.Status != "completed" && p.Status != "failed" {
		fail("C10.terminal", map[string]any{"status": p.Status}, "the recovered plan ended "+p.Status)
	}
	running := []string{}
	scan := func(kind string, id int, st string) {
		if st == "running" {
			running = append(running, kind)
		}
	}
	grp := func(c *ChecksImg, kind string) {
		if c == nil {
			return
		}
		scan("checks:"+kind, c.ID, c.Status)
		for _, a := range c.Actions {
			scan("checkaction:"+kind, a.ID, a.Status)
		}
	}
	grp(p.Bypass, "bypass")
	grp(p.Pre, "pre")
	grp(p.Cont, "cont")
	grp(p.Post, "post")
	grp(p.Deferred, "deferred")
	for _, b := range p.Blocks {
		scan("block", b.ID, b.Status)
		grp(b.Bypass, "bypass")
		grp(b.Pre, "pre")
		grp(b.Cont, "cont")
		grp(b.Post, "post")
		grp(b.Deferred, "deferred")
		for _, q := range b.Seqs {
			scan("sequence", q.ID, q.Status)
			for _, a := range q.Actions {
				scan("action", a.ID, a.Status)
			}
		}
	}
	if len(running) > 0 {
		sort.Strings(running)
		kinds := map[string]bool{}
		for _, k := range running {
			kinds[k] = true
		}
		cause := "other"
		onlyChecks := true
		for k := range kinds {
			if len(k) < 11 || k[:11] != "checkaction" {
				onlyChecks = false
			}
		}
		switch {
		case toTerminal != "":
			cause = "recovery_to_terminal" // D21: fixPlan derives a terminal status, Recovery jumps to End without repairing/running the rest
		case onlyChecks:
			cause = "check_action_inflight_at_crash" // D26: fixChecks never repairs them (groups are never Running) and the group was not run again
		}
		fail("C10.nothing_left_running", map[string]any{"cause": cause, "onlyCheckActions": onlyChecks},
			fmt.Sprintf("after the recovery finished (%s) %d objects are still Running in the store: %v", p.Status, len(running), sortedKeys(kinds)))
	}
	// deferred checks of entered, non-bypassed scopes have a verdict
	bypassedPlan := p.Bypass != nil && p.Bypass.Status == "completed"
	if p.Deferred != nil && !bypassedPlan && p.Deferred.Status != "completed" && p.Deferred.Status != "failed" {
		fail("C10.deferred_ran", map[string]any{"scope": "plan", "recovery_to_terminal": toTerminal != ""}, "the recovered plan ended without its deferred checks having run ("+toTerminal+")")
	}
	for _, b := range p.Blocks {
		entered := b.Status == "completed" || b.Status == "failed"
		byp := b.Bypass != nil && b.Bypass.Status == "completed"
		if entered && !byp && !bypassedPlan && b.Deferred != nil && b.Deferred.Status != "completed" && b.Deferred.Status != "failed" {
			fail("C10.deferred_ran", map[string]any{"scope": "block", "recovery_to_terminal": toTerminal != ""}, "a block ended without its deferred checks having run ("+toTerminal+")")
		}
	}
	// outcome equality with the uninterrupted run (plan / block / sequence statuses)
	if constantScripts && uninterrupted != nil && detConfig(ps) {
		var diffs []string
		if p.Status != uninterrupted.Status {
			diffs = append(diffs, fmt.Sprintf("plan %s vs %s", p.Status, uninterrupted.Status))
		}
		for bi := range p.Blocks {
			if bi < len(uninterrupted.Blocks) {
				if p.Blocks[bi].Status != uninterrupted.Blocks[bi].Status {
					diffs = append(diffs, fmt.Sprintf("block%d %s vs %s", bi, p.Blocks[bi].Status, uninterrupted.Blocks[bi].Status))
				}
				for si := range p.Blocks[bi].Seqs {
					if p.Blocks[bi].Seqs[si].Status != uninterrupted.Blocks[bi].Seqs[si].Status {
						diffs = append(diffs, fmt.Sprintf("seq%d.%d %s vs %s", bi, si, p.Blocks[bi].Seqs[si].Status, uninterrupted.Blocks[bi].Seqs[si].Status))
					}
				}
			}
		}
		if len(diffs) > 0 {
			if p.Status != uninterrupted.Status {
				// the statement speaks of the PLAN outcome; block/sequence statuses may legitimately differ after a
				// recovery (e.g. a block whose PreChecks are durably Completed is re-entered without the initial
				// gating run of its ContChecks, so sequences run before the failing cont check is noticed)
				fail("C10.same_outcome_as_uninterrupted", map[string]any{"got": p.Status, "want": uninterrupted.Status},
					fmt.Sprintf("the recovered plan outcome differs from the uninterrupted one: %v", diffs))
			} else {
				r.count("note:inner statuses differ after recovery, plan outcome equal")
			}
		}
	}
}

// constantScript makes every action's outcome a function of the action alone.
func constantScripts(ps *PlanSpec) {
	ps.eachAction(func(a *ActSpec, _ bool) {
		if len(a.Script) > 1 {
			a.Script = a.Script[len(a.Script)-1:]
		}
	})
}

func crashCampaign(prop string, r *Result, quick, thorough int, double bool) {
	quietLogs()
	n := tierN(quick, thorough)
	workers := 8
	per := (n + workers - 1) / workers
	parallel(workers, workers, func(w int) {
		rng := newRand(uint64(9000 + w))
		for i := w*per - 5; i < (w+1)*per && i < n && !expired(); i++ {
			if i < 0 && w != 0 {
				continue
			}
			if i < w*per && i >= 0 {
				continue
			}
			g := &engineGen{r: rng, prefix: fmt.Sprintf("k%d.", i), MaxBlocks: 2, MaxSeqs: 3, MaxActs: 2, PGroup: 0.3, PFail: 0.15, PCheckBad: 0.1,
				Retries: 2, ContMode: "none", DelayUs: 0, ConcMax: 2}
			if i%3 == 0 {
				g.ContMode = "pass"
			}
			if i%3 == 1 {
				g.ContMode, g.PGroup = "fail0", 0.5 // continuous checks whose (initial) run fails
			}
			ps := g.plan()
			if i == -5 {
				// stored witness of fixed defect D29: a block whose ContChecks always fail (tick far away: 30 ms) behind passing
				// PreChecks. Uninterrupted the initial run gates the block: Failed. A crash between the PreChecks' Completed write and
				// the cont result used to resume the block WITHOUT that gate: it finished before the first tick, plan Completed.
				ps = &PlanSpec{Post: &GroupSpec{Actions: []ActSpec{{Tag: "d29.ppost"}}},
					Blocks: []BlockSpec{{Conc: 2, Tol: 0, Pre: &GroupSpec{Actions: []ActSpec{{Tag: "d29.pre", Retries: 2}}},
						Cont: &GroupSpec{DelayUs: 30000, Actions: []ActSpec{{Tag: "d29.cont", Script: []Outcome{{Resp: "nil", Err: "permanent", DelayUs: 4000}}}}},
						Post: &GroupSpec{Actions: []ActSpec{{Tag: "d29.post"}}},
						Seqs: []SeqSpec{{Actions: []ActSpec{{Tag: "d29.a", Retries: 1}, {Tag: "d29.b", Retries: 2}}}}}}}
				r.count("corpus")
			}
			if i == -4 {
				// durably Failed sequences must be counted once when the block is re-entered: tolerance 1, one failing sequence first,
				// two more that must still run after any crash (seeded change C03-D)
				ps = &PlanSpec{Blocks: []BlockSpec{{Conc: 1, Tol: 1, Seqs: []SeqSpec{
					{Actions: []ActSpec{{Tag: "c03d.fail", Script: []Outcome{{Resp: "nil", Err: "permanent"}}}}},
					{Actions: []ActSpec{{Tag: "c03d.b"}}}, {Actions: []ActSpec{{Tag: "c03d.c"}}}}}}}
				r.count("corpus")
			}
			if i == -3 {
				// recovery must pre-count a Failed sequence that lies behind an in-flight (reset) one: Concurrency 2, tolerance 0,
				// a slow first sequence, a failing second one, two more that must then never start (seeded change C03-A)
				ps = &PlanSpec{Blocks: []BlockSpec{{Conc: 2, Tol: 0, Seqs: []SeqSpec{
					{Actions: []ActSpec{{Tag: "c03.slow", Script: []Outcome{{Resp: "good", Err: "none", DelayUs: 4000}}}}},
					{Actions: []ActSpec{{Tag: "c03.fail", Script: []Outcome{{Resp: "nil", Err: "permanent"}}}}},
					{Actions: []ActSpec{{Tag: "c03.c"}}}, {Actions: []ActSpec{{Tag: "c03.d"}}}}}}}
				r.count("corpus")
			}
			if i == -2 {
				// stored witness of fixed defect D27 (05cb03a): an action in flight at the first crash, the second crash inside
				// Recovery's write of the repaired plan; every (cut, cut2) pair is replayed
				ps = &PlanSpec{Blocks: []BlockSpec{{Conc: 1, Tol: 2, Pre: &GroupSpec{Actions: []ActSpec{{Tag: "d27.pre", Retries: 2}}},
					Seqs: []SeqSpec{{Actions: []ActSpec{{Tag: "d27.a", Retries: 2, Script: []Outcome{{Resp: "good", Err: "permanent"}}}}},
						{Actions: []ActSpec{{Tag: "d27.b"}}}}}}}
				r.count("corpus")
			}
			if i == -1 {
				// stored witness of known finding D21: a failing block, plan-level DeferredChecks; every cut is replayed
				ps = &PlanSpec{Deferred: &GroupSpec{Actions: []ActSpec{{Tag: "d21.dfr"}}},
					Blocks: []BlockSpec{{Conc: 1, Deferred: &GroupSpec{Actions: []ActSpec{{Tag: "d21.bdfr"}}},
						Seqs: []SeqSpec{{Actions: []ActSpec{{Tag: "d21.a", Script: []Outcome{{Resp: "nil", Err: "permanent"}}}}}}}}}
				r.count("corpus")
			}
			constantScripts(ps)
			rr, err := recordRun(ps)
			if err != nil || rr.res == nil || rr.res.Final == nil {
				r.finding(Finding{Kind: "crash", Clause: prop + ".record", Text: fmt.Sprint("recording run failed: ", err), Case: ps})
				continue
			}
			nw := len(rr.recs)
			r.count(fmt.Sprintf("writes<=%d", (nw/20+1)*20))
			for k := 0; k <= nw && !expired(); k++ {
				if cfg.Tier == "quick" && nw > 40 && k%2 == 1 {
					continue
				}
				desc := map[string]any{"spec": ps, "cut": k, "of": nw}
				breadcrumb(desc)
				rc := recoverFrom(rr, ps, rr.recs[:k], 15*time.Second)
				checkRecovery(r, rr, ps, rr.recs[:k], rc, desc, true, rr.res.Final)
				inside := k > 0 && k < nw
				r.eval(map[string]any{"spec": ps, "cut": k}, inside)
				r.count("recoveries")
				if rc.resumed {
					r.count("resumed")
				}
				if i < 1 && k == nw/2 {
					r.sample(map[string]any{"spec": ps, "cut": k, "writes": nw, "resumed": rc.resumed})
				}
				// double crash on small runs
				if double && rc.res != nil && len(rc.recs) > 0 && (cfg.Tier == "thorough" || i == -2 || (k%5 == 2 && len(rc.recs) < 40)) {
					step := 1
					if cfg.Tier == "quick" && i != -2 {
						step = 3
					}
					for j := 1; j < len(rc.recs) && !expired(); j += step {
						w2 := append(append([]writeRec{}, rr.recs[:k]...), rc.recs[:j]...)
						desc2 := map[string]any{"spec": ps, "cut": k, "cut2": j, "of": nw}
						rc2 := recoverFrom(rr, ps, w2, 15*time.Second)
						checkRecovery(r, rr, ps, w2, rc2, desc2, true, rr.res.Final)
						// a plan that was Running at the first crash must still be driven to a terminal state
						if durableAt(rr.ix, rr.recs[:k])[0].Status == "running" && rc2.err == "" && rc2.res != nil && !rc2.res.TimedOut {
							st := "unreadable"
							if rc2.res.Final != nil {
								st = rc2.res.Final.Status
							}
							if st != "completed" && st != "failed" {
								r.finding(Finding{Kind: "monitor", Clause: "C10.running_plan_stranded", Features: map[string]any{"status": st},
									Text: "a plan that was Running at the first crash is left " + st + " after the second recovery and will never be resumed", Case: desc2})
							}
						}
						r.eval(map[string]any{"spec": ps, "cut": k, "cut2": j}, true)
						r.count("double-crash recoveries")
					}
				}
			}
		}
	})
	var keep []Finding
	for _, f := range r.Findings {
		own := len(f.Clause) >= 3 && f.Clause[:3] == prop
		for _, p := range propClauses[prop] {
			if strings.HasPrefix(f.Clause, p) {
				own = true
			}
		}
		if own {
			keep = append(keep, f)
		} else {
			r.Distribution["other-property-finding:"+f.Clause]++
		}
	}
	r.Findings = keep
	r.Validated = r.Evaluations
}

func init() {
	campaigns["C09"] = func(r *Result) {
		r.Rule = "random plans (1-2 blocks, 1-3 sequences, 1-2 actions, optional check groups, retries 0-2, failing actions, action-only outcome scripts) executed once on a recording vault; for EVERY prefix of the durable write sequence a fresh store is built (Create + prefix) and a new Workstream recovers it; second cuts inside recovery runs on a subset; monitors: no plugin call for a sequence action with a durable result, no re-run of a durably terminal sequence/block/plan, only NotStarted or in-flight actions are invoked; non-trivial = cut strictly inside the run; distinct by (spec, cut[, cut2])"
		phase(0.8)
		crashCampaign("C09", r, 40, 2000, true)
		phase(1)
		// function-level tie of the repair itself: fixAction / fixSeq / fixChecks on arbitrary object states vs Model/Fix, Model/FixFull
		fixDiffCampaign(r, 3000, 150000)
		r.Validated = r.Evaluations
		r.Notes = append(r.Notes, "includes the function-level differential of fixAction/fixSeq/fixChecks (hook coercion.VerifFix*, harness/fixdiff_test.go): random object states incl. Stopped and unended attempts, complete images compared with Model/Fix.fixAction, Model/FixFull.fixSeqFull, Model/FixFull.fixChecks")
	}
	campaigns["C10"] = func(r *Result) {
		r.Rule = "same crash enumeration as C09 (every write prefix; double crashes on a subset); monitors: the recovered plan reaches Completed/Failed within the watchdog, nothing is left Running in the store, deferred checks of entered non-bypassed scopes have a verdict, and (scripts being action-only, configuration schedule-independent) the plan's outcome equals that of the uninterrupted run (differences of inner statuses are counted, not judged); stored corpus plans (D21, D27, D29, C03-A, C03-D witnesses) run first; non-trivial = cut strictly inside the run; distinct by (spec, cut[, cut2])"
		crashCampaign("C10", r, 40, 2000, true)
	}
}

// replayCrashCase re-runs one stored (spec, cut[, cut2]) case and prints both observations.
func replayCrashCase(c map[string]any) map[string]any {
	quietLogs()
	b, _ := json.Marshal(c["spec"])
	var ps PlanSpec
	json.Unmarshal(b, &ps)
	cut := int(c["cut"].(float64))
	rr, err := recordRun(&ps)
	if err != nil {
		return map[string]any{"error": err.Error()}
	}
	out := map[string]any{"writes": len(rr.recs), "uninterrupted": rr.res.Final}
	if cut > len(rr.recs) {
		cut = len(rr.recs)
	}
	writes := rr.recs[:cut]
	rc := recoverFrom(rr, &ps, writes, 15*time.Second)
	if c2, ok := c["cut2"].(float64); ok && int(c2) <= len(rc.recs) {
		writes = append(append([]writeRec{}, writes...), rc.recs[:int(c2)]...)
		rc = recoverFrom(rr, &ps, writes, 15*time.Second)
	}
	d := durableAt(rr.ix, writes)
	dur := map[string]string{}
	for i, o := range rr.ix.Objs {
		dur[fmt.Sprintf("%d:%s:%s", i, o.Kind, o.GKind)] = fmt.Sprintf("%s/%d", d[i].Status, d[i].Attempts)
	}
	out["durable_at_cut"] = dur
	if rc.res != nil {
		out["recovered"] = rc.res.Final
		var evs []string
		for _, e := range rc.res.Trace {
			s := fmt.Sprintf("%d %s obj=%d %s", e.N, e.L, e.Obj, e.Phase)
			if e.Img != nil {
				s += " " + e.Img.Status
			}
			evs = append(evs, s)
		}
		out["recovery_trace"] = evs
	}
	r := newResult("replay")
	checkRecovery(r, rr, &ps, writes, rc, c, true, rr.res.Final)
	out["findings"] = r.Findings
	return out
}

func init() {
	campaigns["REPLAY"] = func(r *Result) {
		b, err := os.ReadFile(cfg.Replay)
		if err != nil {
			r.Notes = append(r.Notes, err.Error())
			return
		}
		var rep struct {
			Finding struct {
				Case json.RawMessage `json:"case"`
			} `json:"finding"`
		}
		json.Unmarshal(b, &rep)
		var c map[string]any
		json.Unmarshal(rep.Finding.Case, &c)
		if _, ok := c["cut"]; ok {
			r.Samples = append(r.Samples, replayCrashCase(c))
			return
		}
		// an engine case: the case is the spec itself
		var ps PlanSpec
		if json.Unmarshal(rep.Finding.Case, &ps) == nil && len(ps.Blocks) > 0 {
			quietLogs()
			m := getModel()
			env, err := newEngineEnv("")
			if err != nil {
				return
			}
			defer env.close()
			_, res := runEngineSpec(r, m, env, &ps, engineOpts{settle: 3 * time.Millisecond})
			r.Samples = append(r.Samples, map[string]any{"spec": ps, "observed": res})
			return
		}
		r.Notes = append(r.Notes, "this replay file holds a case kind that the generic replayer does not re-execute; re-run the check with the same VERIF_SEED")
	}
}
