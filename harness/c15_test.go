package harness

// C15 — Exists / Search / List on the real sqlite vault against Model/Search: stores of 0-8 plans
// with chosen ids, group ids, statuses and distinct submit times; every filter shape; limits;
// present / absent / deleted ids; every result stream must be closed.

import (
	"fmt"
	"time"

	"github.com/element-of-surprise/coercion/workflow"
	"github.com/element-of-surprise/coercion/workflow/context"
	"github.com/element-of-surprise/coercion/workflow/storage"
	"github.com/element-of-surprise/coercion/workflow/storage/sqlite"
)

type sRow struct {
	ID     int    `json:"id"`
	Group  int    `json:"group"`
	Status string `json:"status"`
	Submit int    `json:"submit"`
}

type sFilters struct {
	IDs      []int    `json:"ids"`
	Groups   []int    `json:"groups"`
	Statuses []string `json:"statuses"`
}

// storablePlan builds a minimal, fully defaulted plan with chosen identity for direct Create.
func storablePlan(id, group int, st workflow.Status, submit time.Time, tag string) *workflow.Plan {
	mk := func() *workflow.State { return &workflow.State{Status: workflow.NotStarted} }
	a := &workflow.Action{ID: workflow.NewV7(), Name: "a", Descr: "a", Plugin: "act", Timeout: 30 * time.Second, Req: Req{T: tag}, State: mk()}
	q := &workflow.Sequence{ID: workflow.NewV7(), Name: "s", Descr: "s", Actions: []*workflow.Action{a}, State: mk()}
	b := &workflow.Block{ID: workflow.NewV7(), Name: "b", Descr: "b", Concurrency: 1, Sequences: []*workflow.Sequence{q}, State: mk()}
	p := &workflow.Plan{ID: intUUID(id), GroupID: intUUID(group), Name: fmt.Sprintf("p%d", id), Descr: "d", Blocks: []*workflow.Block{b},
		State: &workflow.State{Status: st}, SubmitTime: submit}
	if st != workflow.NotStarted {
		p.State.Start = submit.Add(time.Second)
	}
	return p
}

// drain reads a result stream to its end; closed=false if it was not closed within the deadline.
func drain(ch chan storage.Stream[storage.ListResult], err error) (ids []int, closed bool, serr string) {
	ids = []int{}
	if err != nil {
		return ids, true, err.Error()
	}
	d := newIder()
	t := time.After(2 * time.Second)
	for {
		select {
		case r, ok := <-ch:
			if !ok {
				return ids, true, serr
			}
			if r.Err != nil {
				serr = r.Err.Error()
				continue
			}
			ids = append(ids, d.id(r.Result.ID))
		case <-t:
			return ids, false, serr
		}
	}
}

var allStatuses = []workflow.Status{workflow.NotStarted, workflow.Running, workflow.Completed, workflow.Failed, workflow.Stopped}

func c15Case(r *Result, m *Model, rng randLike, n int) {
	ctx := context.Background()
	reg := newRegistry(newTracer(), &scripts{tags: map[string]*tagState{}})
	v, err := sqlite.New(ctx, "", reg, sqlite.WithInMemory())
	if err != nil {
		r.finding(Finding{Kind: "crash", Clause: "C15.env", Text: err.Error()})
		return
	}
	wedged := false
	defer func() {
		if !wedged { // a vault that stopped answering would hang in Close as well
			v.Close(ctx)
		}
	}()
	np := rng.IntN(9)
	base := time.Now().Add(-time.Hour).UTC()
	var store []sRow
	perm := make([]int, np)
	for i := range perm {
		perm[i] = i
	}
	for i := np - 1; i > 0; i-- { // submit times in an order unrelated to ids
		j := rng.IntN(i + 1)
		perm[i], perm[j] = perm[j], perm[i]
	}
	deleted := -1
	for i := 0; i < np; i++ {
		st := allStatuses[rng.IntN(4)]
		row := sRow{ID: i + 1, Group: 100 + rng.IntN(3), Status: statusStr(st), Submit: perm[i] + 1}
		p := storablePlan(row.ID, row.Group, st, base.Add(time.Duration(row.Submit)*time.Minute), fmt.Sprintf("q%d.%d", n, i))
		if err := v.Create(ctx, p); err != nil {
			r.finding(Finding{Kind: "crash", Clause: "C15.create", Text: err.Error()})
			return
		}
		store = append(store, row)
	}
	if np > 2 && rng.IntN(3) == 0 {
		deleted = rng.IntN(np)
		if err := v.Delete(ctx, intUUID(store[deleted].ID)); err != nil {
			r.finding(Finding{Kind: "crash", Clause: "C15.delete", Text: err.Error()})
			return
		}
		store = append(store[:deleted], store[deleted+1:]...)
	}
	if store == nil {
		store = []sRow{}
	}
	desc := func(extra map[string]any) map[string]any {
		extra["store"] = store
		return extra
	}
	ask := func(q map[string]any, dst any) bool {
		q["cmd"], q["store"] = "search", store
		if err := m.Ask(q, dst); err != nil {
			r.finding(Finding{Kind: "disagreement", Clause: "C15.driver", Text: err.Error(), Case: q})
			return false
		}
		return true
	}
	nontrivial := false
	// Exists: every stored id, the deleted one, an unknown one
	probe := []int{np + 5}
	for _, row := range store {
		probe = append(probe, row.ID)
	}
	if deleted >= 0 {
		probe = append(probe, deleted+1)
	}
	for _, id := range probe {
		var want bool
		if !ask(map[string]any{"op": "exists", "id": id}, &want) {
			return
		}
		got, err := v.Exists(ctx, intUUID(id))
		if err != nil || got != want {
			r.finding(Finding{Kind: "monitor", Clause: "C15.exists", Features: map[string]any{"got": got, "want": want, "err": err != nil},
				Text: fmt.Sprintf("Exists(%d) = %v (err %v), the store says %v", id, got, err, want), Case: desc(map[string]any{"id": id})})
		}
		r.count("exists")
	}
	// Search: all filter shapes
	for k := 0; k < 14; k++ {
		f := sFilters{IDs: []int{}, Groups: []int{}, Statuses: []string{}}
		shape := 1 + rng.IntN(7) // bit0 ids, bit1 groups, bit2 statuses
		if shape&1 != 0 {
			for i := 1 + rng.IntN(3); i > 0; i-- {
				f.IDs = append(f.IDs, 1+rng.IntN(np+2))
			}
		}
		if shape&2 != 0 {
			for i := 1 + rng.IntN(2); i > 0; i-- {
				f.Groups = append(f.Groups, 100+rng.IntN(4))
			}
		}
		if shape&4 != 0 {
			for i := 1 + rng.IntN(3); i > 0; i-- {
				f.Statuses = append(f.Statuses, statusStr(allStatuses[rng.IntN(4)]))
			}
		}
		var want []int
		if !ask(map[string]any{"op": "search", "filters": f}, &want) {
			return
		}
		sf := storage.Filters{}
		for _, id := range f.IDs {
			sf.ByIDs = append(sf.ByIDs, intUUID(id))
		}
		for _, g := range f.Groups {
			sf.ByGroupIDs = append(sf.ByGroupIDs, intUUID(g))
		}
		for _, s := range f.Statuses {
			sf.ByStatus = append(sf.ByStatus, statusFromStr(s))
		}
		ch, err := v.Search(ctx, sf)
		got, closed, serr := drain(ch, err)
		if want == nil {
			want = []int{}
		}
		feat := map[string]any{"ids": len(f.IDs) > 0, "groups": len(f.Groups) > 0, "statuses": len(f.Statuses)}
		if !closed {
			r.finding(Finding{Kind: "monitor", Clause: "C15.stream_closed", Features: map[string]any{"op": "search"}, Text: "the Search result stream was never closed", Case: desc(map[string]any{"filters": f})})
		} else if serr != "" || !jsonEq(got, want) {
			feat["err"] = serr != ""
			feat["sameSet"] = sameSet(got, want)
			r.finding(Finding{Kind: "monitor", Clause: "C15.search", Features: feat,
				Text: fmt.Sprintf("Search returned %v (err %q), the store and filters say %v", got, serr, want), Case: desc(map[string]any{"filters": f}), Observed: got, Model: want})
		}
		if len(want) > 0 && len(want) < len(store) {
			nontrivial = true
		}
		r.count(fmt.Sprintf("search:shape%d", shape))
	}
	// the empty filter is not a query (Search refuses it); refusing it must cost nothing: the next call still answers
	if n%2 == 0 {
		ectx, ecancel := context.WithTimeout(ctx, 3*time.Second)
		ch, err := v.Search(ectx, storage.Filters{})
		if err == nil && ch != nil {
			drain(ch, nil)
		}
		ecancel()
		xctx, xcancel := context.WithTimeout(ctx, 3*time.Second)
		id := 1
		if len(store) > 0 {
			id = store[0].ID
		}
		got, xerr := v.Exists(xctx, intUUID(id))
		xcancel()
		r.count("search:empty filter, then exists")
		if xerr != nil {
			wedged = true
			r.finding(Finding{Kind: "monitor", Clause: "C15.exists", Features: map[string]any{"after": "refused empty-filter search", "err": true},
				Text: fmt.Sprintf("after a Search with an empty filter, Exists(%d) did not answer within 3 s: %v", id, xerr), Case: desc(map[string]any{"id": id, "after": "Search(Filters{})"})})
			return
		}
		_ = got
	}
	// List
	for _, limit := range []int{0, 1, 2, np, np + 3, -1} {
		var want []int
		if !ask(map[string]any{"op": "list", "limit": limit}, &want) {
			return
		}
		ch, err := v.List(ctx, limit)
		got, closed, serr := drain(ch, err)
		if want == nil {
			want = []int{}
		}
		if !closed {
			r.finding(Finding{Kind: "monitor", Clause: "C15.stream_closed", Features: map[string]any{"op": "list"}, Text: "the List result stream was never closed", Case: desc(map[string]any{"limit": limit})})
		} else if serr != "" || !jsonEq(got, want) {
			r.finding(Finding{Kind: "monitor", Clause: "C15.list", Features: map[string]any{"limit": limit > 0, "err": serr != "", "sameSet": sameSet(got, want)},
				Text: fmt.Sprintf("List(%d) returned %v (err %q), want %v", limit, got, serr, want), Case: desc(map[string]any{"limit": limit}), Observed: got, Model: want})
		}
		if limit > 0 && limit < len(store) {
			nontrivial = true
		}
		r.count("list")
	}
	r.eval(desc(map[string]any{"n": n}), nontrivial && len(store) >= 2)
	if n < 2 {
		r.sample(desc(map[string]any{}))
	}
}

func sameSet(a, b []int) bool {
	if len(a) != len(b) {
		return false
	}
	m := map[int]int{}
	for _, x := range a {
		m[x]++
	}
	for _, x := range b {
		m[x]--
	}
	for _, c := range m {
		if c != 0 {
			return false
		}
	}
	return true
}

func init() {
	campaigns["C15"] = func(r *Result) {
		quietLogs()
		r.Rule = "sqlite stores of 0-8 plans (ids, 3 group ids, 4 statuses, distinct submit times in an order unrelated to the ids, optionally one deleted) x Exists on stored/deleted/unknown ids, 14 random Search filters over all 7 filter shapes with multi-valued filters, List with limits 0,1,2,n,n+3,-1; ordered id lists and stream closure compared with Model/Search; non-trivial = >=2 plans and a filter selecting a strict non-empty subset or a limit below the population; distinct by store"
		m := getModel()
		defer putModel(m)
		rng := newRand(15)
		for i := 0; i < tierN(120, 6000) && !expired(); i++ {
			c15Case(r, m, rng, i)
		}
		r.Validated = r.Evaluations
	}
}
