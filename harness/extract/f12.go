package main

import (
	"fmt"
	"go/ast"
	"strings"
)

// F12: control-flow skeletons (same reduction as F10) of the remaining hand-modelled code, one list per
// model: the validate methods (Model/Validate), the builder (Model/Builder), the scrubber
// (Model/Secure), clone (Model/Clone), walk (Model/Walk) and the start-up recovery filter (Model/Startup).
// These models are tied dynamically by exact differentials; the skeletons add the static tie: a change of
// shape is reported even if no generated input happens to exercise it.
func f12() {
	type src struct {
		file  string
		names map[string]bool // nil: every function of the file
	}
	set := func(xs ...string) map[string]bool {
		m := map[string]bool{}
		for _, x := range xs {
			m[x] = true
		}
		return m
	}
	groups := []struct {
		lean string
		srcs []src
	}{
		{"validate", []src{{"workflow/workflow.go", set("validate", "Validate", "addOrErrKey")}, {"coercion.go", set("Submit", "populate")}}},
		{"builder", []src{{"workflow/builder/builder.go", nil}}},
		{"secure", []src{{"workflow/utils/clone/secure.go", nil}, {"plugins/registry/registry.go", set("Register", "findSecrets", "hasTag", "getTags")}}},
		{"clone", []src{{"workflow/utils/clone/clone.go", set("Plan", "Checks", "Block", "Sequence", "Action", "cloneState", "cloneAttempts", "cloneErr")}}},
		{"walk", []src{{"workflow/utils/walk/walk.go", nil}}},
		{"startup", []src{{"internal/execute/recovery.go", nil}}},
	}
	var b strings.Builder
	b.WriteString("namespace Coercion.Generated.F12\n\n")
	for _, g := range groups {
		var toks []string
		for _, s := range g.srcs {
			_, f := parseFile(s.file)
			if f == nil {
				toks = append(toks, "<file not found: "+s.file+">")
				continue
			}
			for _, d := range f.Decls {
				fn, ok := d.(*ast.FuncDecl)
				if !ok || fn.Body == nil || (s.names != nil && !s.names[fn.Name.Name]) {
					continue
				}
				recv := ""
				if fn.Recv != nil && len(fn.Recv.List) == 1 {
					recv = exprStr(fn.Recv.List[0].Type) + "."
				}
				k := &skel{ren: localNames(fn)}
				k.block(fn.Body)
				toks = append(toks, "func "+s.file+":"+recv+fn.Name.Name+" {")
				toks = append(toks, k.toks...)
				toks = append(toks, "}")
			}
		}
		fmt.Fprintf(&b, "def %s : List String := [\n", g.lean)
		for i, tok := range toks {
			fmt.Fprintf(&b, "  %s", leanStr(tok))
			if i < len(toks)-1 {
				b.WriteString(",")
			}
			b.WriteString("\n")
		}
		b.WriteString("]\n\n")
	}
	b.WriteString("end Coercion.Generated.F12\n")
	write("F12.lean", b.String())
}
