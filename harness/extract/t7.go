package main

// T7: translator for the state functions of `finalStates` (internal/execute/sm/final.go): `start`, `bypassChecks`,
// `planChecks`, `blocks`, `end` — the little state machine `End` runs to derive the plan's final status and failure reason.
//
// A state function `func (f finalStates) X(req statemachine.Request[Data]) statemachine.Request[Data]` becomes
//   def X (plan : Plan) : Plan × Bool × Next        -- the plan afterwards, whether req.Err was set, req.Next
// where `Next` is the enumeration of the translated state names plus `stop` (req.Next left nil). Recognised statements:
// `plan := req.Data.Plan` (alias), `v := f.examineBypasses(plan.F)`, `r, err := f.examineChecks([4]*workflow.Checks{…})`
// (both go to the functions T1 translates), `if cond { … return req }`, `req.Next = f.Y`, `req.Err = …` (any value: set),
// `plan.State.Status = workflow.S`, `plan.Reason = workflow.FRx | r`, `return req`, and the loop of `blocks`:
// `for _, b := range req.Data.Plan.Blocks { switch b.State.Status { case …: … return req; default: … return req } }` —
// a fold whose state carries a "returned" flag. `run` (emitted at the end) is gostdlib's statemachine.Run as read:
// call the state, stop when req.Err is set or req.Next is nil, else continue with req.Next.
// Anything else: an unsupported marker that fails the Lean build.

import (
	"fmt"
	"go/ast"
	"go/token"
	"go/types"
	"strings"
)

var t7Reasons = map[string]string{"FRUnknown": "Reason.unknown", "FRPreCheck": "Reason.preCheck", "FRBlock": "Reason.block", "FRPostCheck": "Reason.postCheck",
	"FRContCheck": "Reason.contCheck", "FRDeferredCheck": "Reason.deferredCheck", "FRStopped": "Reason.stopped", "FRExceedRecovery": "Reason.exceedRecovery"}

type t7ctx struct {
	names   map[string]bool // translated state names
	planVar string          // alias of req.Data.Plan ("" if none)
	bools   map[string]string
	reasons map[string]string
	elem    string // loop element
	err     *string
	recv    string
}

func (c *t7ctx) fail(format string, a ...any) string {
	if *c.err == "" {
		*c.err = fmt.Sprintf(format, a...)
	}
	return "unsupported_go_construct"
}

func (c *t7ctx) isPlan(e ast.Expr) bool {
	s := types.ExprString(e)
	return s == "req.Data.Plan" || (c.planVar != "" && s == c.planVar)
}

// group field of the plan: plan.PreChecks -> "plan.pre"
func (c *t7ctx) group(e ast.Expr) (string, bool) {
	sel, ok := e.(*ast.SelectorExpr)
	if !ok || !c.isPlan(sel.X) {
		return "", false
	}
	lf, ok := t6CheckFields[sel.Sel.Name]
	return "plan." + lf, ok
}

func (c *t7ctx) expr(e ast.Expr) string {
	switch x := e.(type) {
	case *ast.ParenExpr:
		return "(" + c.expr(x.X) + ")"
	case *ast.Ident:
		if v, ok := c.bools[x.Name]; ok {
			return v
		}
		if v, ok := c.reasons[x.Name]; ok {
			return v
		}
	case *ast.SelectorExpr:
		if id, ok := x.X.(*ast.Ident); ok && id.Name == "workflow" {
			if s, ok := t1Status[x.Sel.Name]; ok {
				return "Status" + s
			}
			if s, ok := t7Reasons[x.Sel.Name]; ok {
				return s
			}
		}
		if c.elem != "" && types.ExprString(x) == c.elem+".State.Status" {
			return c.elem + ".status"
		}
	case *ast.BinaryExpr:
		if types.ExprString(x.Y) == "nil" {
			if id, ok := x.X.(*ast.Ident); ok {
				if v, ok := c.bools[id.Name]; ok { // err == nil / err != nil
					if x.Op == token.EQL {
						return "(!" + v + ")"
					}
					if x.Op == token.NEQ {
						return v
					}
				}
			}
		}
		if x.Op == token.EQL || x.Op == token.NEQ {
			op := map[token.Token]string{token.EQL: "==", token.NEQ: "!="}[x.Op]
			return "(" + c.expr(x.X) + " " + op + " " + c.expr(x.Y) + ")"
		}
	case *ast.UnaryExpr:
		if x.Op == token.NOT {
			return "(!" + c.expr(x.X) + ")"
		}
	}
	return c.fail("expression %s", types.ExprString(e))
}

// stmts: the value is `(plan, err, next)`; `done` wraps the value of a `return req` (inside the loop it adds the flag)
func (c *t7ctx) stmts(ss []ast.Stmt, ind string, tail func() string, ret func() string) string {
	if len(ss) == 0 {
		return tail()
	}
	s, rest := ss[0], ss[1:]
	next := func(ind string) string { return c.stmts(rest, ind, tail, ret) }
	switch x := s.(type) {
	case *ast.ReturnStmt:
		if len(x.Results) != 1 || types.ExprString(x.Results[0]) != "req" {
			return c.fail("return form")
		}
		return ret()
	case *ast.AssignStmt:
		lhs := make([]string, len(x.Lhs))
		for i, l := range x.Lhs {
			lhs[i] = types.ExprString(l)
		}
		if x.Tok == token.DEFINE && len(x.Rhs) == 1 {
			rhs := x.Rhs[0]
			if len(lhs) == 1 && c.isPlan(rhs) && c.planVar == "" {
				c.planVar = lhs[0]
				return next(ind)
			}
			if call, ok := rhs.(*ast.CallExpr); ok {
				switch types.ExprString(call.Fun) {
				case c.recv + ".examineBypasses":
					if g, ok := c.group(call.Args[0]); ok && len(lhs) == 1 && len(call.Args) == 1 {
						c.bools[lhs[0]] = lhs[0]
						return "let " + lhs[0] + " := T1.examineBypassesOpt " + g + "\n" + ind + next(ind)
					}
				case c.recv + ".examineChecks":
					if cl, ok := call.Args[0].(*ast.CompositeLit); ok && len(lhs) == 2 && len(cl.Elts) == 4 && types.ExprString(cl.Type) == "[4]*workflow.Checks" {
						var gs []string
						for _, e := range cl.Elts {
							g, ok := c.group(e)
							if !ok {
								return c.fail("examineChecks argument %s", types.ExprString(e))
							}
							gs = append(gs, g)
						}
						c.reasons[lhs[0]] = "rr.1"
						c.bools[lhs[1]] = "rr.2"
						return "let rr := T1.examineChecks [" + strings.Join(gs, ", ") + "]\n" + ind + next(ind)
					}
				}
			}
			return c.fail("definition %s", types.ExprString(x.Rhs[0]))
		}
		if x.Tok != token.ASSIGN || len(lhs) != 1 || len(x.Rhs) != 1 {
			return c.fail("assignment form")
		}
		switch {
		case lhs[0] == "req.Next":
			sel, ok := x.Rhs[0].(*ast.SelectorExpr)
			if !ok || types.ExprString(sel.X) != c.recv || !c.names[sel.Sel.Name] {
				return c.fail("req.Next = %s", types.ExprString(x.Rhs[0]))
			}
			return "let next := Next." + sel.Sel.Name + "\n" + ind + next(ind)
		case lhs[0] == "req.Err":
			return "let err := true\n" + ind + next(ind)
		}
		if sel, ok := x.Lhs[0].(*ast.SelectorExpr); ok {
			if sel.Sel.Name == "Reason" && c.isPlan(sel.X) {
				return "let plan := { plan with reason := " + c.expr(x.Rhs[0]) + " }\n" + ind + next(ind)
			}
			if inner, ok := sel.X.(*ast.SelectorExpr); ok && sel.Sel.Name == "Status" && inner.Sel.Name == "State" && c.isPlan(inner.X) {
				return "let plan := { plan with status := " + c.expr(x.Rhs[0]) + " }\n" + ind + next(ind)
			}
		}
		return c.fail("assignment to %s", lhs[0])
	case *ast.IfStmt:
		if x.Init != nil || x.Else != nil || !hasReturn(x.Body.List) {
			return c.fail("if form (only `if … { …; return req }`)")
		}
		cond := c.expr(x.Cond)
		return "if " + cond + " then\n" + ind + "  " + c.stmts(x.Body.List, ind+"  ", tail, ret) + "\n" + ind + "else\n" + ind + "  " + next(ind+"  ")
	case *ast.RangeStmt:
		val, ok := x.Value.(*ast.Ident)
		sel, ok2 := x.X.(*ast.SelectorExpr)
		if !ok || !ok2 || sel.Sel.Name != "Blocks" || !c.isPlan(sel.X) || c.elem != "" || len(x.Body.List) != 1 {
			return c.fail("range form")
		}
		sw, ok := x.Body.List[0].(*ast.SwitchStmt)
		if !ok || sw.Init != nil || sw.Tag == nil {
			return c.fail("loop body is not a switch")
		}
		c.elem = val.Name
		tag := c.expr(sw.Tag)
		var out strings.Builder
		deflt := "(plan, err, next, false)"
		cont := func() string { return "(plan, err, next, false)" }
		brk := func() string { return "(plan, err, next, true)" }
		for _, cl := range sw.Body.List {
			cc := cl.(*ast.CaseClause)
			body := c.stmts(cc.Body, "      ", cont, brk)
			if cc.List == nil {
				deflt = body
				continue
			}
			var cs []string
			for _, e := range cc.List {
				cs = append(cs, "("+tag+" == "+c.expr(e)+")")
			}
			out.WriteString("if " + strings.Join(cs, " || ") + " then\n      " + body + "\n    else ")
		}
		out.WriteString("\n      " + deflt)
		c.elem = ""
		loop := "let r := plan.blocks.foldl (fun (acc : Plan × Bool × Next × Bool) (" + val.Name + " : Block) =>\n" + ind + "    let (plan, err, next, returned) := acc\n" + ind + "    if returned then acc else\n" + ind + "    " + out.String() + ") (plan, err, next, false)\n"
		return loop + ind + "let (plan, err, next, returned) := r\n" + ind + "if returned then " + ret() + " else\n" + ind + next(ind)
	}
	return c.fail("statement %T", s)
}

func t7() {
	var b strings.Builder
	b.WriteString("import CoercionModel.Generated.T1\nset_option linter.unusedVariables false\nnamespace Coercion.Generated.T7\nopen Coercion\nopen Coercion.Generated\n\n")
	_, f := parseFile("internal/execute/sm/final.go")
	states := []string{"start", "bypassChecks", "planChecks", "blocks", "end"}
	if f == nil {
		b.WriteString("def finalGoMissing : Unit := source_file_not_found\n")
	} else {
		b.WriteString("/-- `req.Next` of the finalStates machine -/\ninductive Next where\n  | stop")
		for _, s := range states {
			b.WriteString(" | " + leanName(s))
		}
		b.WriteString("\n  deriving DecidableEq, Repr\n\n")
		names := map[string]bool{}
		for _, s := range states {
			names[s] = true
		}
		for _, s := range states {
			var decl *ast.FuncDecl
			for _, d := range f.Decls {
				if fd, ok := d.(*ast.FuncDecl); ok && fd.Name.Name == s && fd.Recv != nil && fd.Body != nil && types.ExprString(fd.Recv.List[0].Type) == "finalStates" {
					decl = fd
				}
			}
			errMsg := ""
			body := ""
			if decl == nil || len(decl.Recv.List[0].Names) != 1 {
				errMsg = "state function not found"
			} else {
				c := &t7ctx{names: names, bools: map[string]string{}, reasons: map[string]string{}, err: &errMsg, recv: decl.Recv.List[0].Names[0].Name}
				val := func() string { return "(plan, err, next)" }
				body = c.stmts(decl.Body.List, "  ", func() string { return c.fail("state function falls off its end") }, val)
			}
			if errMsg != "" {
				fmt.Fprintf(&b, "-- UNSUPPORTED by the translator (finalStates.%s): %s\ndef %s : Unit := unsupported_go_construct\n\n", s, errMsg, leanName(s))
				continue
			}
			body = strings.ReplaceAll(body, "Next.end", "Next.end_")
			fmt.Fprintf(&b, "/-- translated from `func (f finalStates) %s` (internal/execute/sm/final.go): the plan afterwards, whether req.Err was set, req.Next -/\ndef %s (plan : Plan) : Plan × Bool × Next :=\n  let err := false\n  let next := Next.stop\n  %s\n\n", s, leanName(s), body)
		}
		b.WriteString("/-- the state a `Next` value names -/\ndef state : Next → Option (Plan → Plan × Bool × Next)\n  | .stop => none\n")
		for _, s := range states {
			fmt.Fprintf(&b, "  | .%s => some %s\n", leanName(s), leanName(s))
		}
		b.WriteString("\n/-- statemachine.Run as read: call the state; stop when req.Err is set or req.Next is nil; else go on with req.Next -/\n")
		b.WriteString("def run : Nat → Next → Plan → Plan × Bool\n  | 0, _, plan => (plan, true)\n  | fuel + 1, n, plan =>\n    match state n with\n    | none => (plan, false)\n    | some f =>\n      let r := f plan\n      if r.2.1 then (r.1, true) else if r.2.2 == Next.stop then (r.1, false) else run fuel r.2.2 r.1\n\n")
	}
	b.WriteString("end Coercion.Generated.T7\n")
	write("T7.lean", b.String())
}

func leanName(s string) string {
	if s == "end" {
		return "end_"
	}
	return s
}
