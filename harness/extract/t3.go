package main

// T3: translation of the chain methods of workflow/builder/builder.go (Up, AddChecks, AddBlock, AddSequence,
// AddAction, Plan) into Lean functions over Model/Builder's state `B`, written with the chain primitives of
// Model/BuilderPrims (curKind, chainLen, popChain, curGrp, setGrpPush, appendBlockPush, appendSeqPush,
// appendActCur). Recognised statement forms are listed at each case below; anything else makes the generated
// file fail to build. Error values are classified by their message text exactly as the harness classifies the
// errors the real builder returns (errClass in harness/c20_test.go).

import (
	"fmt"
	"go/ast"
	"go/token"
	"go/types"
	"strconv"
	"strings"
)

func t3ErrClass(msg string) string {
	switch {
	case strings.Contains(msg, "after Plan() has been called"), strings.Contains(msg, "more than once"):
		return ".afterEmit"
	case strings.Contains(msg, "must not be nil"):
		return ".nilArg"
	case strings.Contains(msg, "with existing"):
		return ".dupGroup"
	case strings.Contains(msg, "unknown check type"):
		return ".badType"
	case strings.Contains(msg, "non-Plan or non-Block"), strings.Contains(msg, "invalid type for"):
		return ".wrongLevel"
	case strings.Contains(msg, "cannot go up from root"):
		return ".upFromRoot"
	case strings.Contains(msg, "must be provided"), strings.Contains(msg, "must not be empty"):
		return ".missingField"
	}
	return ""
}

var t3GKinds = map[string]string{"BypassChecks": ".bypass", "PreChecks": ".pre", "ContChecks": ".cont", "PostChecks": ".post", "DeferredChecks": ".deferred"}
var t3CurKinds = map[string]string{"*workflow.Plan": ".plan", "*workflow.Block": ".block", "*workflow.Sequence": ".seq", "*workflow.Checks": ".checks"}
var t3ArgFields = map[string]string{"Name": "name", "Descr": "descr", "Plugin": "plugin", "Key": "key", "EntranceDelay": "entrance", "ExitDelay": "exit",
	"Concurrency": "conc", "ToleratedFailures": "tol"}

type t3ctx struct {
	err     string
	recv    string            // receiver name (b)
	isPlan  bool              // translating Plan(): returns (plan, error) and does not record errors
	args    map[string]string // Go parameter -> kind: "optSeq", "optAction", "optChecks", "ctype", "blockArgs"
	tvar    string            // type-switch binding (t)
	tkind   string            // current case of the type switch: .plan / .block / …
	ctCase  string            // current case of `switch cType`: the GKind
	unwraps map[string]bool   // pointer arguments already known non-nil
}

func (c *t3ctx) fail(format string, a ...any) string {
	if c.err == "" {
		c.err = fmt.Sprintf(format, a...)
	}
	return "unsupported"
}

// errorOf extracts the message of errors.New("…") / fmt.Errorf("…", …)
func errorMsg(e ast.Expr) (string, bool) {
	call, ok := e.(*ast.CallExpr)
	if !ok || len(call.Args) == 0 {
		return "", false
	}
	fn := types.ExprString(call.Fun)
	if fn != "errors.New" && fn != "fmt.Errorf" {
		return "", false
	}
	lit, ok := call.Args[0].(*ast.BasicLit)
	if !ok || lit.Kind != token.STRING {
		return "", false
	}
	s, err := strconv.Unquote(lit.Value)
	return s, err == nil
}

// setErrReturn recognises `b.setErr(ERR); return b` (chain methods) and returns the class
func (c *t3ctx) setErrReturn(ss []ast.Stmt) (string, bool) {
	if len(ss) != 2 {
		return "", false
	}
	es, ok := ss[0].(*ast.ExprStmt)
	if !ok {
		return "", false
	}
	call, ok := es.X.(*ast.CallExpr)
	if !ok || types.ExprString(call.Fun) != c.recv+".setErr" || len(call.Args) != 1 {
		return "", false
	}
	msg, ok := errorMsg(call.Args[0])
	if !ok {
		return "", false
	}
	r, ok := ss[1].(*ast.ReturnStmt)
	if !ok || len(r.Results) != 1 || types.ExprString(r.Results[0]) != c.recv {
		return "", false
	}
	cls := t3ErrClass(msg)
	if cls == "" {
		c.fail("unclassified error message %q", msg)
		return "", false
	}
	return cls, true
}

func isReturnRecv(s ast.Stmt, recv string) bool {
	r, ok := s.(*ast.ReturnStmt)
	return ok && len(r.Results) == 1 && types.ExprString(r.Results[0]) == recv
}

func (c *t3ctx) stmts(ss []ast.Stmt, ind string) string {
	if len(ss) == 0 {
		return c.fail("method body falls off its end")
	}
	s, rest := ss[0], ss[1:]
	switch x := s.(type) {
	case *ast.ReturnStmt:
		if isReturnRecv(x, c.recv) {
			return "(s, .ok)"
		}
		// Plan(): return b.chain[0].(*workflow.Plan), nil
		if c.isPlan && len(x.Results) == 2 && types.ExprString(x.Results[1]) == "nil" && types.ExprString(x.Results[0]) == c.recv+".chain[0].(*workflow.Plan)" {
			return "if chainLen s = 0 then (s, .panic) else (s, .planOut s.plan)"
		}
		return c.fail("return %s", types.ExprString(x.Results[0]))
	case *ast.AssignStmt:
		if len(x.Lhs) != 1 || len(x.Rhs) != 1 {
			return c.fail("assignment form")
		}
		lhs, rhs := types.ExprString(x.Lhs[0]), types.ExprString(x.Rhs[0])
		switch {
		case lhs == c.recv+".emitted" && rhs == "true":
			// b.emitted = true (Plan()): the model's state after; the chain must not be empty for what follows
			return "let s0 := s\n" + ind + "let s := { s with emitted := true }\n" + ind + strings.Replace(c.stmts(rest, ind), "(s, .panic)", "(s0, .panic)", 1)
		case lhs == c.recv+".chain" && strings.ReplaceAll(rhs, " ", "") == c.recv+".chain[:len("+c.recv+".chain)-1]":
			return "let s := popChain s\n" + ind + c.stmts(rest, ind)
		}
		// inside the type switch
		if c.tvar != "" {
			t := c.tvar
			// t.<K>Checks = check ; b.chain = append(b.chain, check)
			for f, k := range t3GKinds {
				if lhs == t+"."+f {
					if c.ctCase != k {
						return c.fail("case %s assigns %s", c.ctCase, lhs)
					}
					if c.args[rhs] != "optChecks" || !c.unwraps[rhs] || len(rest) == 0 {
						return c.fail("group assignment %s = %s", lhs, rhs)
					}
					if as, ok := rest[0].(*ast.AssignStmt); !ok || types.ExprString(as.Lhs[0]) != c.recv+".chain" || types.ExprString(as.Rhs[0]) != "append("+c.recv+".chain, "+rhs+")" {
						return c.fail("group assignment not followed by the chain push")
					}
					return "let s := setGrpPush s " + k + " " + rhs + "\n" + ind + c.stmts(rest[1:], ind)
				}
			}
			// t.Sequences = append(t.Sequences, seq); b.chain = append(b.chain, seq)
			if lhs == t+".Sequences" && c.tkind == ".block" {
				arg := strings.TrimSuffix(strings.TrimPrefix(rhs, "append("+t+".Sequences, "), ")")
				if c.args[arg] == "optSeq" && c.unwraps[arg] && len(rest) > 0 {
					if as, ok := rest[0].(*ast.AssignStmt); ok && types.ExprString(as.Lhs[0]) == c.recv+".chain" && types.ExprString(as.Rhs[0]) == "append("+c.recv+".chain, "+arg+")" {
						return "let s := appendSeqPush s " + arg + "\n" + ind + c.stmts(rest[1:], ind)
					}
				}
				return c.fail("sequence append form")
			}
			// t.Actions = append(t.Actions, action)
			if lhs == t+".Actions" && (c.tkind == ".seq" || c.tkind == ".checks") {
				arg := strings.TrimSuffix(strings.TrimPrefix(rhs, "append("+t+".Actions, "), ")")
				if c.args[arg] == "optAction" && c.unwraps[arg] {
					return "let s := appendActCur s " + arg + "\n" + ind + c.stmts(rest, ind)
				}
				return c.fail("action append form")
			}
			// block := &workflow.Block{…}; t.Blocks = append(t.Blocks, block); b.chain = append(b.chain, block)
			if x.Tok == token.DEFINE && c.tkind == ".plan" {
				if u, ok := x.Rhs[0].(*ast.UnaryExpr); ok && u.Op == token.AND {
					if cl, ok := u.X.(*ast.CompositeLit); ok && types.ExprString(cl.Type) == "workflow.Block" && len(rest) >= 2 {
						var fs []string
						for _, el := range cl.Elts {
							kv, ok := el.(*ast.KeyValueExpr)
							if !ok {
								return c.fail("block literal")
							}
							key := types.ExprString(kv.Key)
							lf, ok := t3ArgFields[key]
							val := types.ExprString(kv.Value)
							argName := ""
							for a, kind := range c.args {
								if kind == "blockArgs" {
									argName = a
								}
							}
							if !ok || val != argName+"."+key {
								return c.fail("block literal field %s: %s", key, val)
							}
							fs = append(fs, lf+" := "+argName+"."+lf)
						}
						a1, ok1 := rest[0].(*ast.AssignStmt)
						a2, ok2 := rest[1].(*ast.AssignStmt)
						if ok1 && ok2 && types.ExprString(a1.Lhs[0]) == t+".Blocks" && types.ExprString(a1.Rhs[0]) == "append("+t+".Blocks, "+lhs+")" &&
							types.ExprString(a2.Lhs[0]) == c.recv+".chain" && types.ExprString(a2.Rhs[0]) == "append("+c.recv+".chain, "+lhs+")" {
							// field order of the model's structure literal
							order := []string{"key", "name", "descr", "entrance", "exit", "conc", "tol"}
							var ordered []string
							for _, o := range order {
								for _, f := range fs {
									if strings.HasPrefix(f, o+" := ") {
										ordered = append(ordered, f)
									}
								}
							}
							if len(ordered) != len(fs) {
								return c.fail("block literal fields")
							}
							return "let s := appendBlockPush s { " + strings.Join(ordered, ", ") + " }\n" + ind + c.stmts(rest[2:], ind)
						}
						return c.fail("block construction not followed by the two appends")
					}
				}
			}
		}
		return c.fail("assignment %s = %s", lhs, rhs)
	case *ast.RangeStmt:
		// for _, action := range check.Actions { if action == nil { setErr; return b } }: the model's "has a nil action" flag
		owner := strings.TrimSuffix(types.ExprString(x.X), ".Actions")
		if c.args[owner] == "optChecks" && c.unwraps[owner] && len(x.Body.List) == 1 {
			if ifs, ok := x.Body.List[0].(*ast.IfStmt); ok && types.ExprString(ifs.Cond) == types.ExprString(x.Value)+" == nil" {
				if cls, ok := c.setErrReturn(ifs.Body.List); ok {
					return "if " + owner + "HasNil then fail s " + cls + " else\n" + ind + c.stmts(rest, ind)
				}
			}
		}
		return c.fail("loop over %s", types.ExprString(x.X))
	case *ast.IfStmt:
		if x.Init != nil || x.Else != nil {
			return c.fail("if with init/else")
		}
		cond := types.ExprString(x.Cond)
		// if b.emitted { … }
		if cond == c.recv+".emitted" {
			if c.isPlan {
				if r, ok := x.Body.List[0].(*ast.ReturnStmt); ok && len(x.Body.List) == 1 && len(r.Results) == 2 {
					if msg, ok := errorMsg(r.Results[1]); ok && t3ErrClass(msg) != "" {
						return "if s.emitted then (s, .err " + t3ErrClass(msg) + ") else\n" + ind + c.stmts(rest, ind)
					}
				}
				return c.fail("emitted branch of Plan()")
			}
			if cls, ok := c.setErrReturn(x.Body.List); ok {
				return "if s.emitted then fail s " + cls + " else\n" + ind + c.stmts(rest, ind)
			}
			return c.fail("emitted branch")
		}
		// if b.err != nil { return b }
		if cond == c.recv+".err != nil" {
			okForm := len(x.Body.List) == 1 && isReturnRecv(x.Body.List[0], c.recv)
			if c.isPlan {
				if r, ok := x.Body.List[0].(*ast.ReturnStmt); ok && len(x.Body.List) == 1 && len(r.Results) == 2 && types.ExprString(r.Results[0]) == "nil" && types.ExprString(r.Results[1]) == c.recv+".err" {
					okForm = true
				}
			}
			if okForm {
				return "match s.err with\n" + ind + "| some e => (s, .err e)\n" + ind + "| none =>\n" + ind + "  " + c.stmts(rest, ind+"  ")
			}
			return c.fail("err branch")
		}
		// if len(b.chain) < 2 { … }
		if cond == "len("+c.recv+".chain) < 2" {
			if cls, ok := c.setErrReturn(x.Body.List); ok {
				return "if chainLen s < 2 then fail s " + cls + " else\n" + ind + c.stmts(rest, ind)
			}
		}
		// if arg == nil { … }
		if b, ok := x.Cond.(*ast.BinaryExpr); ok && b.Op == token.EQL && types.ExprString(b.Y) == "nil" {
			arg := types.ExprString(b.X)
			if kind, ok := c.args[arg]; ok && strings.HasPrefix(kind, "opt") {
				if cls, ok := c.setErrReturn(x.Body.List); ok {
					c.unwraps[arg] = true
					return "match " + arg + "? with\n" + ind + "| none => fail s " + cls + "\n" + ind + "| some " + arg + " =>\n" + ind + "  " + c.stmts(rest, ind+"  ")
				}
			}
		}
		// if arg.Field == "" { … }
		if b, ok := x.Cond.(*ast.BinaryExpr); ok && b.Op == token.EQL && types.ExprString(b.Y) == `""` {
			if sel, ok := b.X.(*ast.SelectorExpr); ok {
				arg := types.ExprString(sel.X)
				kind := c.args[arg]
				if lf, ok := t3ArgFields[sel.Sel.Name]; ok && (kind == "blockArgs" || (strings.HasPrefix(kind, "opt") && c.unwraps[arg])) {
					if cls, ok := c.setErrReturn(x.Body.List); ok {
						return "if " + arg + "." + lf + " = \"\" then fail s " + cls + " else\n" + ind + c.stmts(rest, ind)
					}
				}
			}
		}
		// inside `switch cType` case K: if t.<K>Checks != nil { dup }
		if c.tvar != "" && c.ctCase != "" {
			for f, k := range t3GKinds {
				if cond == c.tvar+"."+f+" != nil" {
					if k != c.ctCase {
						return c.fail("case %s tests %s", c.ctCase, cond)
					}
					if cls, ok := c.setErrReturn(x.Body.List); ok {
						return "if (curGrp s " + k + ").isSome then fail s " + cls + " else\n" + ind + c.stmts(rest, ind)
					}
				}
			}
		}
		return c.fail("if %s", cond)
	case *ast.TypeSwitchStmt:
		// switch t := b.current().(type) { case *workflow.X: … [default: …] } TRAILING
		as, ok := x.Assign.(*ast.AssignStmt)
		if !ok || len(as.Lhs) != 1 {
			return c.fail("type switch form")
		}
		ta, ok := as.Rhs[0].(*ast.TypeAssertExpr)
		if !ok || ta.Type != nil || types.ExprString(ta.X) != c.recv+".current()" {
			return c.fail("type switch on %s", types.ExprString(as.Rhs[0]))
		}
		tv := types.ExprString(as.Lhs[0])
		var b strings.Builder
		b.WriteString("match curKind s with\n" + ind + "| .empty => (s, .panic)\n")
		seen := map[string]bool{}
		var def []ast.Stmt
		hasDef := false
		for _, cl := range x.Body.List {
			cc := cl.(*ast.CaseClause)
			if cc.List == nil {
				def, hasDef = cc.Body, true
				continue
			}
			if len(cc.List) != 1 {
				return c.fail("type switch case list")
			}
			k, ok := t3CurKinds[types.ExprString(cc.List[0])]
			if !ok {
				return c.fail("type switch case %s", types.ExprString(cc.List[0]))
			}
			seen[k] = true
			inner := &t3ctx{recv: c.recv, isPlan: c.isPlan, args: c.args, tvar: tv, tkind: k, unwraps: c.unwraps}
			body := inner.stmts(append(append([]ast.Stmt{}, cc.Body...), rest...), ind+"  ")
			if inner.err != "" && c.err == "" {
				c.err = inner.err
			}
			b.WriteString(ind + "| " + k + " =>\n" + ind + "  " + body + "\n")
		}
		// the other dynamic types: default clause, or the statements after the switch
		var other string
		if hasDef {
			other = c.stmts(append(append([]ast.Stmt{}, def...), rest...), ind+"  ")
		} else {
			other = c.stmts(rest, ind+"  ")
		}
		missing := 0
		for _, k := range []string{".plan", ".block", ".seq", ".checks"} {
			if !seen[k] {
				missing++
			}
		}
		if missing > 0 {
			b.WriteString(ind + "| _ =>\n" + ind + "  " + other)
		}
		return "(" + strings.TrimRight(b.String(), "\n") + ")"
	case *ast.SwitchStmt:
		// switch cType { case BypassChecks: … default: … }
		if x.Init != nil || x.Tag == nil || c.args[types.ExprString(x.Tag)] != "ctype" {
			return c.fail("switch form")
		}
		tag := types.ExprString(x.Tag)
		var b strings.Builder
		b.WriteString("match " + tag + " with\n")
		var def []ast.Stmt
		hasDef := false
		for _, cl := range x.Body.List {
			cc := cl.(*ast.CaseClause)
			if cc.List == nil {
				def, hasDef = cc.Body, true
				continue
			}
			if len(cc.List) != 1 {
				return c.fail("switch case list")
			}
			k, ok := t3GKinds[types.ExprString(cc.List[0])]
			if !ok {
				return c.fail("switch case %s", types.ExprString(cc.List[0]))
			}
			inner := &t3ctx{recv: c.recv, args: c.args, tvar: c.tvar, tkind: c.tkind, ctCase: k, unwraps: c.unwraps}
			body := inner.stmts(append(append([]ast.Stmt{}, cc.Body...), rest...), ind+"  ")
			if inner.err != "" && c.err == "" {
				c.err = inner.err
			}
			b.WriteString(ind + "| some " + k + " =>\n" + ind + "  " + body + "\n")
		}
		if !hasDef {
			return c.fail("switch without default")
		}
		b.WriteString(ind + "| none =>\n" + ind + "  " + c.stmts(append(append([]ast.Stmt{}, def...), rest...), ind+"  "))
		return "(" + b.String() + ")"
	case *ast.ExprStmt:
		// trailing: b.setErr(fmt.Errorf("invalid type …")); return b
		if cls, ok := c.setErrReturn(ss); ok {
			return "fail s " + cls
		}
		if len(ss) >= 2 {
			// whatever follows a `return` is unreachable
			if cls, ok := c.setErrReturn(ss[:2]); ok {
				return "fail s " + cls
			}
		}
		return c.fail("expression statement %s", types.ExprString(x.X))
	}
	return c.fail("statement %T", s)
}

func t3Translate(f *ast.File) string {
	type target struct {
		goName, lean, params, doc string
		args                      map[string]string
	}
	targets := []target{
		{"Up", "up", "", "Up()", map[string]string{}},
		{"AddChecks", "addChecks", "(cType : Option GKind) (check? : Option Checks) (checkHasNil : Bool) ", "AddChecks(cType, check)", map[string]string{"cType": "ctype", "check": "optChecks"}},
		{"AddBlock", "addBlock", "(args : BlockArgs) ", "AddBlock(args)", map[string]string{"args": "blockArgs"}},
		{"AddSequence", "addSequence", "(seq? : Option Sequence) ", "AddSequence(seq)", map[string]string{"seq": "optSeq"}},
		{"AddAction", "addAction", "(action? : Option Action) ", "AddAction(action)", map[string]string{"action": "optAction"}},
		{"Plan", "plan", "", "Plan()", map[string]string{}},
	}
	var out strings.Builder
	for _, t := range targets {
		var decl *ast.FuncDecl
		for _, d := range f.Decls {
			if fd, ok := d.(*ast.FuncDecl); ok && fd.Name.Name == t.goName && fd.Recv != nil && len(fd.Recv.List) == 1 && len(fd.Recv.List[0].Names) == 1 {
				decl = fd
			}
		}
		hdr := fmt.Sprintf("/-- translated from `func (b *BuildPlan) %s` (workflow/builder/builder.go) -/\n", t.doc)
		c := &t3ctx{args: map[string]string{}, unwraps: map[string]bool{}, isPlan: t.goName == "Plan"}
		body := ""
		if decl == nil {
			c.err = "method not found"
		} else {
			c.recv = decl.Recv.List[0].Names[0].Name
			// bind the Go parameter names (positional) to the expected kinds
			var names []string
			for _, p := range decl.Type.Params.List {
				for _, n := range p.Names {
					names = append(names, n.Name)
				}
			}
			want := map[string][]string{"Up": {}, "Plan": {}, "AddChecks": {"ctype", "optChecks"}, "AddBlock": {"blockArgs"}, "AddSequence": {"optSeq"}, "AddAction": {"optAction"}}[t.goName]
			if len(names) != len(want) {
				c.err = "parameter list"
			} else {
				for i, n := range names {
					c.args[n] = want[i]
				}
				body = c.stmts(decl.Body.List, "  ")
			}
		}
		if c.err != "" {
			fmt.Fprintf(&out, "%s-- UNSUPPORTED by the translator: %s\ndef %s : Unit := unsupported_go_construct\n\n", hdr, c.err, t.lean)
			continue
		}
		// Lean parameter list uses the Go parameter names
		params := ""
		for n, kind := range c.args {
			_ = n
			_ = kind
		}
		var ps []string
		for _, p := range decl.Type.Params.List {
			for _, n := range p.Names {
				switch c.args[n.Name] {
				case "ctype":
					ps = append(ps, "("+n.Name+" : Option GKind)")
				case "optChecks":
					ps = append(ps, "("+n.Name+"? : Option Checks) ("+n.Name+"HasNil : Bool)")
				case "optSeq":
					ps = append(ps, "("+n.Name+"? : Option Sequence)")
				case "optAction":
					ps = append(ps, "("+n.Name+"? : Option Action)")
				case "blockArgs":
					ps = append(ps, "("+n.Name+" : BlockArgs)")
				}
			}
		}
		params = strings.Join(ps, " ")
		if params != "" {
			params += " "
		}
		fmt.Fprintf(&out, "%sdef %s (s : B) %s: B × Ret :=\n  %s\n\n", hdr, t.lean, params, body)
	}
	return out.String()
}

// t3 writes Generated/T3.lean: the chain methods of builder.go translated over Model/BuilderPrims.
func t3() {
	var b strings.Builder
	b.WriteString("import CoercionModel.Model.BuilderPrims\nnamespace Coercion.Generated.T3\nopen Coercion Coercion.Builder\n\n")
	if _, f := parseFile("workflow/builder/builder.go"); f != nil {
		b.WriteString(t3Translate(f))
	} else {
		b.WriteString("def builderGoMissing : Unit := source_file_not_found\n")
	}
	b.WriteString("end Coercion.Generated.T3\n")
	write("T3.lean", b.String())
}
