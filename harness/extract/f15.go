package main

import (
	"fmt"
	"go/ast"
	"strings"
)

// F15: skeletons of the glue no model mirrors and no other fact lists — option forwarding and the public API wrappers of
// coercion.go, the validator list of Start, error-wrapping and type-test helpers of the attempt loop, writeEverything and
// the completed-tests of recovery, the key-set helpers of Validate, the scrub entry points, clone options, vault
// construction. Seeded changes C04-K (writeEverything), C01-J (the permanent-error wrapper) and C12-B (option forwarding)
// lived in exactly this kind of code. One group per property whose campaigns would have to notice a change there:
//
//	apiGlue (C12), attemptGlue (C05), flushGlue (C04), keysGlue (C16), secureGlue (C17), cloneGlue (C18), storeGlue (C13).
func f15() {
	type src struct {
		file  string
		names []string
	}
	groups := []struct {
		lean string
		srcs []src
	}{
		{"apiGlue", []src{{"coercion.go", []string{"WithMaxLastUpdate", "WithMaxSubmit", "WithNoRecovery", "New", "Start", "Plan", "Wait", "Status"}},
			{"internal/execute/execute.go", []string{"WithMaxLastUpdate", "WithMaxSubmit", "WithNoRecovery", "addValidators", "initPlugins"}}}},
		{"attemptGlue", []src{{"internal/execute/sm/actions/actions.go", []string{"errPermanent", "isType", "pluginNotFoundErr", "unexpectedTypeMsg"}},
			{"internal/execute/sm/sm.go", []string{"isType", "after"}}}},
		{"flushGlue", []src{{"internal/execute/sm/sm.go", []string{"writeEverything", "New"}}, {"internal/execute/sm/recovery.go", []string{"skipBlock", "isCompleted"}}}},
		{"keysGlue", []src{{"workflow/workflow.go", []string{"push", "pop", "getKeySet", "NewV7"}}, {"coercion.go", []string{"requestDefaults", "populateRegistry"}}}},
		{"secureGlue", []src{{"workflow/workflow.go", []string{"Secure", "secure", "hasTag", "getTags"}}, {"workflow/utils/html/reports/reports.go", []string{"Render", "defaults"}},
			{"plugins/registry/registry.go", []string{"validatePolicy", "Plugin", "MustRegister"}}}},
		{"cloneGlue", []src{{"workflow/utils/clone/clone.go", []string{"WithKeepSecrets", "WithRemoveCompletedSequences", "WithKeepState", "withOptions", "hasTag", "getTags"}}}},
		{"storeGlue", []src{{"workflow/storage/sqlite/sqlite.go", []string{"New", "createTables"}}, {"workflow/storage/sqlite/closer.go", []string{"Close"}}}},
	}
	files := map[string]*ast.File{}
	var b strings.Builder
	b.WriteString("namespace Coercion.Generated.F15\n\n")
	for _, g := range groups {
		var toks []string
		for _, s := range g.srcs {
			f, ok := files[s.file]
			if !ok {
				_, f = parseFile(s.file)
				files[s.file] = f
			}
			for _, name := range s.names {
				fn := findFunc(f, name)
				toks = append(toks, "func "+s.file+":"+name+" {")
				if fn == nil {
					toks = append(toks, "<function not found>")
				} else {
					k := &skel{ren: localNames(fn), args: true, full: true}
					k.block(fn.Body)
					toks = append(toks, k.toks...)
				}
				toks = append(toks, "}")
			}
		}
		fmt.Fprintf(&b, "def %s : List String := [\n", g.lean)
		for i, tok := range toks {
			fmt.Fprintf(&b, "  %s", leanStr(tok))
			if i < len(toks)-1 {
				b.WriteString(",")
			}
			b.WriteString("\n")
		}
		b.WriteString("]\n\n")
	}
	b.WriteString("end Coercion.Generated.F15\n")
	write("F15.lean", b.String())
}
