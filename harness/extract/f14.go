package main

import (
	"fmt"
	"go/ast"
	"strings"
)

// F14: skeletons (same reduction as F10) of the engine functions the hand-written models mirror only through their
// effects — the stage functions of sm.go that F10 does not list, the helpers that run a check group or an action, the
// rest of actions.go and of execute.go — grouped by the property whose model depends on them:
//
//	orderRest    (C01): Start, ExecuteBlock, Plan/BlockBypassChecks, Plan/BlockStartContChecks, BlockPostChecks
//	gatesRest    (C06): runBypasses, runPreChecks
//	deferredRest (C07): BlockDeferredChecks, PlanDeferredChecks, runChecksOnce
//	actionRest   (C08): runAction, runActionsParallel, resetActions (sm.go); Runner.Start, GetPlugin, End, run (actions.go)
//	apiRest      (C12): New, recover, Wait, validateStartState, validatePlan, validateAction, validateID, validateState (execute.go)
//
// A change of shape in one of them, also one no campaign happens to exercise, breaks that property's obligation.
func f14() {
	type src struct {
		file  string
		names []string
	}
	sm := "internal/execute/sm/sm.go"
	groups := []struct {
		lean string
		srcs []src
	}{
		{"orderRest", []src{{sm, []string{"Start", "ExecuteBlock", "PlanBypassChecks", "BlockBypassChecks", "PlanStartContChecks", "BlockStartContChecks", "BlockPostChecks"}}}},
		{"gatesRest", []src{{sm, []string{"runBypasses", "runPreChecks"}}}},
		{"deferredRest", []src{{sm, []string{"BlockDeferredChecks", "PlanDeferredChecks", "runChecksOnce"}}}},
		{"actionRest", []src{{sm, []string{"runAction", "runActionsParallel", "resetActions"}}, {"internal/execute/sm/actions/actions.go", []string{"Start", "GetPlugin", "End", "run"}}}},
		{"apiRest", []src{{"internal/execute/execute.go", []string{"New", "recover", "Wait", "validateStartState", "validatePlan", "validateAction", "validateID", "validateState"}}}},
	}
	files := map[string]*ast.File{}
	var b strings.Builder
	b.WriteString("namespace Coercion.Generated.F14\n\n")
	for _, g := range groups {
		var toks []string
		for _, s := range g.srcs {
			f, ok := files[s.file]
			if !ok {
				_, f = parseFile(s.file)
				files[s.file] = f
			}
			for _, name := range s.names {
				fn := findFunc(f, name)
				toks = append(toks, "func "+s.file+":"+name+" {")
				if fn == nil {
					toks = append(toks, "<function not found>")
				} else {
					k := &skel{ren: localNames(fn)}
					k.block(fn.Body)
					toks = append(toks, k.toks...)
				}
				toks = append(toks, "}")
			}
		}
		fmt.Fprintf(&b, "def %s : List String := [\n", g.lean)
		for i, tok := range toks {
			fmt.Fprintf(&b, "  %s", leanStr(tok))
			if i < len(toks)-1 {
				b.WriteString(",")
			}
			b.WriteString("\n")
		}
		b.WriteString("]\n\n")
	}
	b.WriteString("end Coercion.Generated.F14\n")
	write("F14.lean", b.String())
}
