package main

import (
	"fmt"
	"go/ast"
	"regexp"
	"strings"
)

// F13: the static tie of F11, for the SQLite vault (workflow/storage/sqlite). The SQLite backend IS compared dynamically
// (exact differentials of C13–C15 against Model/Store and Model/Search), but a differential only sees the inputs it
// generates; the skeletons — and the SQL text, which is where this backend's behaviour lives — add "unchanged since it
// was read against the model". Per group: the control-flow skeleton of every function of the listed files, then every
// string literal of those files that is SQL (a statement keyword or a `$parameter`), whitespace-normalised.
var reSQL = regexp.MustCompile(`(?i)\b(select|insert|update|delete|create table|create index|where|order by|pragma|values)\b|^\$[a-z_]+$`)
var reWS = regexp.MustCompile(`\s+`)

func f13() {
	groups := []struct {
		lean  string
		files []string
		only  map[string]bool // nil: every function
	}{
		{"roundtrip", []string{"creator_plan.go", "reader_plan.go", "reader_blocks.go", "reader_checks.go", "reader_sequences.go", "reader_actions.go", "reader_stmts.go",
			"updater.go", "updater_plan.go", "updater_blocks.go", "updater_checks.go", "updater_sequence.go", "updater_actions.go", "updater_stmts.go"}, nil},
		{"createDelete", []string{"creator.go", "creator_plan.go", "deleter.go", "deleter_stmts.go", "schema.go"}, nil},
		{"query", []string{"reader.go"}, nil},
	}
	var b strings.Builder
	b.WriteString("namespace Coercion.Generated.F13\n\n")
	for _, g := range groups {
		var toks []string
		for _, fl := range g.files {
			rel := "workflow/storage/sqlite/" + fl
			_, f := parseFile(rel)
			if f == nil {
				toks = append(toks, "<file not found: "+fl+">")
				continue
			}
			for _, d := range f.Decls {
				fn, ok := d.(*ast.FuncDecl)
				if !ok || fn.Body == nil {
					continue
				}
				k := &skel{ren: localNames(fn), args: true}
				k.block(fn.Body)
				toks = append(toks, "func "+fl+":"+fn.Name.Name+" {")
				toks = append(toks, k.toks...)
				toks = append(toks, "}")
			}
			for _, s := range constStrings(rel) {
				if reSQL.MatchString(s) {
					toks = append(toks, "sql "+fl+": "+strings.TrimSpace(reWS.ReplaceAllString(s, " ")))
				}
			}
		}
		fmt.Fprintf(&b, "def %s : List String := [\n", g.lean)
		for i, tok := range toks {
			fmt.Fprintf(&b, "  %s", leanStr(tok))
			if i < len(toks)-1 {
				b.WriteString(",")
			}
			b.WriteString("\n")
		}
		b.WriteString("]\n\n")
	}
	b.WriteString("end Coercion.Generated.F13\n")
	write("F13.lean", b.String())
}
