package main

// T4: translation of the decision tail of Runner.exec (internal/execute/sm/actions/actions.go): from
// `if plugResp.timeout {` to the end of the function — what is recorded in the attempt (error kind, whether a
// response is kept) and what exec returns (nil / a permanent error / a retryable error), as a function of
// what the plugin call did: timed out or not, response nil / of the declared type / of another type, error
// nil / transient / permanent.
//
// Symbolic state: attempt.Resp ∈ RespKind, attempt.Err ∈ ErrKind. Abstractions (trusted):
//   plugResp.timeout                      the Outcome's overrun flag
//   attempt.Resp = plugResp.Resp          resp
//   attempt.Err  = plugResp.Err           err (none / transient / permanent)
//   &plugins.Error{Message: pluginTimeoutMsg, Permanent: false}   ErrKind.timeout
//   &plugins.Error{Message: unexpectedTypeMsg(..), Permanent: true}   ErrKind.typeErr
//   attempt.Resp != nil                   resp ≠ none ; isType(attempt.Resp, expect)   resp = good
//   attempt.Err == nil / attempt.Err.Permanent      on the ErrKind
//   return nil / errPermanent(..) / attempt.Err     Ret.ok / Ret.permanent / Ret.retry

import (
	"fmt"
	"go/ast"
	"go/token"
	"go/types"
	"strings"
)

type t4ctx struct {
	err string
}

func (c *t4ctx) fail(format string, a ...any) string {
	if c.err == "" {
		c.err = fmt.Sprintf(format, a...)
	}
	return "unsupported"
}

// errLit classifies a &plugins.Error{...} literal
func t4ErrLit(e ast.Expr) (string, bool) {
	u, ok := e.(*ast.UnaryExpr)
	if !ok || u.Op != token.AND {
		return "", false
	}
	cl, ok := u.X.(*ast.CompositeLit)
	if !ok || types.ExprString(cl.Type) != "plugins.Error" {
		return "", false
	}
	msg, perm := "", ""
	for _, el := range cl.Elts {
		kv, ok := el.(*ast.KeyValueExpr)
		if !ok {
			return "", false
		}
		switch types.ExprString(kv.Key) {
		case "Message":
			msg = types.ExprString(kv.Value)
		case "Permanent":
			perm = types.ExprString(kv.Value)
		}
	}
	switch {
	case msg == "pluginTimeoutMsg" && perm == "false":
		return "ErrKind.timeout", true
	case strings.HasPrefix(msg, "unexpectedTypeMsg(") && perm == "true":
		return "ErrKind.typeErr", true
	}
	return "", false
}

func (c *t4ctx) cond(e ast.Expr) string {
	s := strings.ReplaceAll(types.ExprString(e), " ", "")
	switch s {
	case "plugResp.timeout":
		return "timeout"
	case "attempt.Resp!=nil":
		return "(resp != RespKind.none)"
	case "attempt.Resp==nil":
		return "(resp == RespKind.none)"
	case "attempt.Err==nil":
		return "(err == ErrKind.none)"
	case "attempt.Err!=nil":
		return "(err != ErrKind.none)"
	case "attempt.Err.Permanent":
		return "(err == ErrKind.permanent || err == ErrKind.typeErr)"
	case "!attempt.Err.Permanent":
		return "(!(err == ErrKind.permanent || err == ErrKind.typeErr))"
	case "isType(attempt.Resp,expect)":
		return "(resp == RespKind.good)"
	case "!isType(attempt.Resp,expect)":
		return "(resp != RespKind.good)"
	}
	if b, ok := e.(*ast.BinaryExpr); ok && (b.Op == token.LAND || b.Op == token.LOR) {
		op := map[token.Token]string{token.LAND: "&&", token.LOR: "||"}[b.Op]
		return "(" + c.cond(b.X) + " " + op + " " + c.cond(b.Y) + ")"
	}
	if p, ok := e.(*ast.ParenExpr); ok {
		return c.cond(p.X)
	}
	return c.fail("condition %s", types.ExprString(e))
}

func (c *t4ctx) stmts(ss []ast.Stmt, ind string) string {
	if len(ss) == 0 {
		return c.fail("falls off the end")
	}
	s, rest := ss[0], ss[1:]
	switch x := s.(type) {
	case *ast.ReturnStmt:
		if len(x.Results) != 1 {
			return c.fail("return arity")
		}
		switch strings.ReplaceAll(types.ExprString(x.Results[0]), " ", "") {
		case "nil":
			return "(err, resp, Ret.ok)"
		case "attempt.Err":
			return "(err, resp, Ret.retry)"
		case "errPermanent(attempt.Err)":
			return "(err, resp, Ret.permanent)"
		}
		return c.fail("return %s", types.ExprString(x.Results[0]))
	case *ast.AssignStmt:
		if len(x.Lhs) != 1 || len(x.Rhs) != 1 {
			return c.fail("assignment form")
		}
		lhs, rhs := types.ExprString(x.Lhs[0]), strings.ReplaceAll(types.ExprString(x.Rhs[0]), " ", "")
		switch {
		case lhs == "expect" && rhs == "plugin.Response()":
			return c.stmts(rest, ind)
		case lhs == "attempt.Resp" && rhs == "plugResp.Resp":
			return "let resp := resp0\n" + ind + c.stmts(rest, ind)
		case lhs == "attempt.Err" && rhs == "plugResp.Err":
			return "let err := err0\n" + ind + c.stmts(rest, ind)
		case lhs == "attempt.Resp" && rhs == "nil":
			return "let resp := RespKind.none\n" + ind + c.stmts(rest, ind)
		case lhs == "attempt.Err":
			if k, ok := t4ErrLit(x.Rhs[0]); ok {
				return "let err := " + k + "\n" + ind + c.stmts(rest, ind)
			}
		}
		return c.fail("assignment %s = %s", lhs, rhs)
	case *ast.IfStmt:
		if x.Init != nil {
			return c.fail("if with init")
		}
		cond := c.cond(x.Cond)
		thenEnds := false
		if n := len(x.Body.List); n > 0 {
			_, thenEnds = x.Body.List[n-1].(*ast.ReturnStmt)
		}
		thenPart := x.Body.List
		if !thenEnds {
			thenPart = append(append([]ast.Stmt{}, x.Body.List...), rest...)
		}
		var elsePart []ast.Stmt
		if x.Else != nil {
			eb, ok := x.Else.(*ast.BlockStmt)
			if !ok {
				return c.fail("else form")
			}
			elsePart = append(append([]ast.Stmt{}, eb.List...), rest...)
		} else {
			elsePart = rest
		}
		return "if " + cond + " then\n" + ind + "  " + c.stmts(thenPart, ind+"  ") + "\n" + ind + "else\n" + ind + "  " + c.stmts(elsePart, ind+"  ")
	}
	return c.fail("statement %T", s)
}

func t4Translate(f *ast.File) string {
	hdr := "/-- translated from the decision tail of `func (r Runner) exec` (internal/execute/sm/actions/actions.go): what is recorded and returned,\n    given that the call timed out or not, the kind of response and the kind of error it returned -/\n"
	var decl *ast.FuncDecl
	for _, d := range f.Decls {
		if fd, ok := d.(*ast.FuncDecl); ok && fd.Name.Name == "exec" && fd.Recv != nil {
			decl = fd
		}
	}
	c := &t4ctx{}
	body := ""
	if decl == nil {
		c.err = "exec not found"
	} else {
		// the tail starts at `if plugResp.timeout`
		start := -1
		for i, s := range decl.Body.List {
			if ifs, ok := s.(*ast.IfStmt); ok && strings.ReplaceAll(types.ExprString(ifs.Cond), " ", "") == "plugResp.timeout" {
				start = i
			}
		}
		if start < 0 {
			c.err = "`if plugResp.timeout` not found"
		} else {
			body = c.stmts(decl.Body.List[start:], "  ")
		}
	}
	if c.err != "" {
		return hdr + "-- UNSUPPORTED by the translator: " + c.err + "\ndef execTail : Unit := unsupported_go_construct\n\n"
	}
	return "/-- what exec returns to exponential.Retry -/\ninductive Ret where\n  | ok | permanent | retry\n  deriving DecidableEq, Repr\n\n" + hdr +
		"def execTail (timeout : Bool) (resp0 : RespKind) (err0 : ErrKind) : ErrKind × RespKind × Ret :=\n  let err := ErrKind.none\n  let resp := RespKind.none\n  " + body + "\n\n"
}

// t4 writes Generated/T4.lean: the decision tail of Runner.exec.
func t4() {
	var b strings.Builder
	b.WriteString("import CoercionModel.Model.Attempts\nnamespace Coercion.Generated.T4\nopen Coercion Coercion.Attempts\n\n")
	if _, f := parseFile("internal/execute/sm/actions/actions.go"); f != nil {
		b.WriteString(t4Translate(f))
	} else {
		b.WriteString("def actionsGoMissing : Unit := source_file_not_found\n")
	}
	b.WriteString("end Coercion.Generated.T4\n")
	write("T4.lean", b.String())
}
