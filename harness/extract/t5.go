package main

// T5: translation of the five `validate` methods of workflow/workflow.go (Plan, Checks, Block, Sequence, Action)
// into the node rules of Model/Validate over the harness's observation flags:
//   checkX (keys) (x) : Except Err (List Nat)   the guards, in source order, first error wins
//   kidsX  (x) : List Node                       the validators the method returns (what is validated next)
// Recognised forms (anything else: the generated file does not build):
//   if COND { return nil, ERR }      COND over the receiver, ERR an errors.New / fmt.Errorf with a literal message
//   var err error; ctx, err = addOrErrKey(ctx, r.Key); if err != nil { return nil, fmt.Errorf(.. %w ..) }     addKey
//   if r.Timeout == 0 { r.Timeout = 30 * time.Second }     the default, on a symbolic timeout in ms
//   if r.Retries < 0 { r.Retries = 0 }                      normalisation, no rule
//   plug := r.register.Plugin(r.Plugin); if plug == nil { … }; if err := plug.ValidateReq(r.Req); err != nil { … }
//   vals := []validator{r.BypassChecks, …}; for … { vals = append(vals, e) }; vals := make(…); for … ; return vals, nil
// Conditions are mapped to the flags the harness computes with the Go standard library (nameBlank =
// strings.TrimSpace(Name) == "" …); error messages are classified as the harness classifies the real errors.

import (
	"fmt"
	"go/ast"
	"go/token"
	"go/types"
	"strconv"
	"strings"
)

var t5Msgs = [][2]string{
	{"plan is nil", "nilPlan"}, {"cannot have a nil Plan", "nilPlan"}, {"id should not be set", "idSet"}, {"state should not be set", "stateSet"},
	{"internal settings should not be set", "stateSet"}, {"name is required", "nameBlank"}, {"description is required", "descrBlank"},
	{"at least one block", "noBlocks"}, {"reason should not be set", "reasonSet"}, {"submit time should not", "submitSet"},
	{"at least one action is required", "noActions"}, {"at least one Action is required", "noActions"}, {"cannot have a nil Block", "nilBlock"},
	{"at least one sequence", "noSeqs"}, {"nil Sequence", "nilSeq"}, {"nil Action", "nilAction"}, {"timeout must be at least", "timeoutLow"},
	{"plugin is required", "pluginBlank"}, {"attempts should not be set", "attemptsSet"}, {"not found", "pluginUnknown"},
}

func t5ErrClass(msg string) string {
	for _, kv := range t5Msgs {
		if strings.Contains(msg, kv[0]) {
			return "." + kv[1]
		}
	}
	return ""
}

type t5ctx struct {
	err   string
	recv  string
	typ   string // Plan | Checks | Block | Sequence | Action
	tvar  string // symbolic timeout (Action)
	plug  string // local holding the plugin
	kids  string
	seenK bool
}

func (c *t5ctx) fail(format string, a ...any) string {
	if c.err == "" {
		c.err = fmt.Sprintf(format, a...)
	}
	return "unsupported"
}

func nospace(e ast.Expr) string { return strings.ReplaceAll(types.ExprString(e), " ", "") }

// returned error of `return nil, ERR`
func (c *t5ctx) retErr(b *ast.BlockStmt) (string, bool) {
	if len(b.List) != 1 {
		return "", false
	}
	r, ok := b.List[0].(*ast.ReturnStmt)
	if !ok || len(r.Results) != 2 || types.ExprString(r.Results[0]) != "nil" {
		return "", false
	}
	call, ok := r.Results[1].(*ast.CallExpr)
	if !ok || len(call.Args) == 0 {
		return "", false
	}
	if fn := types.ExprString(call.Fun); fn != "errors.New" && fn != "fmt.Errorf" {
		return "", false
	}
	lit, ok := call.Args[0].(*ast.BasicLit)
	if !ok || lit.Kind != token.STRING {
		return "", false
	}
	msg, err := strconv.Unquote(lit.Value)
	if err != nil {
		return "", false
	}
	return msg, true
}

func (c *t5ctx) cond(e ast.Expr) string {
	r := c.recv
	s := nospace(e)
	m := map[string]string{
		r + ".ID!=uuid.Nil":                         "x.idSet",
		r + ".State!=nil":                           "x.stateSet",
		"strings.TrimSpace(" + r + ".Name)==\"\"":   "x.nameBlank",
		"strings.TrimSpace(" + r + ".Descr)==\"\"":  "x.descrBlank",
		"strings.TrimSpace(" + r + ".Plugin)==\"\"": "x.pluginBlank",
		"len(" + r + ".Blocks)==0":                  "x.blocks.isEmpty",
		"len(" + r + ".Sequences)==0":               "x.seqs.isEmpty",
		"len(" + r + ".Actions)==0":                 "x.actions.isEmpty",
		r + ".Reason!=FRUnknown":                    "x.reasonSet",
		"!" + r + ".SubmitTime.IsZero()":            "x.submitSet",
		r + ".Attempts!=nil":                        "x.attemptsSet",
	}
	if v, ok := m[s]; ok {
		return v
	}
	if c.typ == "Action" {
		switch s {
		case r + ".Timeout<5*time.Second":
			return "decide (" + c.tvar + " < 5000)"
		case r + ".Timeout<=5*time.Second":
			return "decide (" + c.tvar + " ≤ 5000)"
		}
		if c.plug != "" && s == c.plug+"==nil" {
			return "!x.pluginKnown"
		}
	}
	return c.fail("condition %s", types.ExprString(e))
}

func (c *t5ctx) stmts(ss []ast.Stmt, ind string) string {
	if len(ss) == 0 {
		return c.fail("falls off the end")
	}
	s, rest := ss[0], ss[1:]
	r := c.recv
	switch x := s.(type) {
	case *ast.DeclStmt:
		// var err error
		if nospace2(x) == "varerrerror" {
			return c.stmts(rest, ind)
		}
		return c.fail("declaration")
	case *ast.ReturnStmt:
		if len(x.Results) == 2 && types.ExprString(x.Results[1]) == "nil" {
			switch types.ExprString(x.Results[0]) {
			case "nil":
				c.kids = "[]"
				return ".ok keys"
			case "vals":
				if c.kids == "" {
					return c.fail("vals not built")
				}
				return ".ok keys"
			}
		}
		return c.fail("return")
	case *ast.AssignStmt:
		// ctx, err = addOrErrKey(ctx, r.Key) ; if err != nil { return nil, fmt.Errorf("… %w", err) }
		if len(x.Lhs) == 2 && len(x.Rhs) == 1 && nospace(x.Rhs[0]) == "addOrErrKey(ctx,"+r+".Key)" && len(rest) > 0 {
			if ifs, ok := rest[0].(*ast.IfStmt); ok && nospace(ifs.Cond) == "err!=nil" {
				if msg, ok := c.retErr(ifs.Body); ok && strings.Contains(msg, "%w") {
					return "match addKey keys x.key x.keyV7 with\n" + ind + "| .error e => .error e\n" + ind + "| .ok keys =>\n" + ind + "  " + c.stmts(rest[1:], ind+"  ")
				}
			}
			return c.fail("key test form")
		}
		if len(x.Lhs) == 1 && len(x.Rhs) == 1 {
			lhs, rhs := types.ExprString(x.Lhs[0]), nospace(x.Rhs[0])
			// plug := r.register.Plugin(r.Plugin)
			if x.Tok == token.DEFINE && rhs == r+".register.Plugin("+r+".Plugin)" {
				c.plug = lhs
				return c.stmts(rest, ind)
			}
			// vals := []validator{r.BypassChecks, r.PreChecks, r.ContChecks, r.PostChecks, r.DeferredChecks}
			if lhs == "vals" && x.Tok == token.DEFINE {
				if cl, ok := x.Rhs[0].(*ast.CompositeLit); ok && types.ExprString(cl.Type) == "[]validator" {
					var els []string
					for _, el := range cl.Elts {
						els = append(els, nospace(el))
					}
					want := r + ".BypassChecks," + r + ".PreChecks," + r + ".ContChecks," + r + ".PostChecks," + r + ".DeferredChecks"
					if strings.Join(els, ",") == want {
						c.kids = "x.groups.map .checks"
						return c.stmts(rest, ind)
					}
					return c.fail("validator list %s", strings.Join(els, ","))
				}
				if strings.HasPrefix(rhs, "make([]validator,") {
					c.kids = "#make"
					return c.stmts(rest, ind)
				}
			}
		}
		return c.fail("assignment %s", types.ExprString(x.Lhs[0]))
	case *ast.RangeStmt:
		// for _, e := range r.Fs { vals = append(vals, e) }
		field := strings.TrimPrefix(nospace(x.X), r+".")
		lf, node := map[string]string{"Blocks": "blocks", "Sequences": "seqs", "Actions": "actions"}[field], map[string]string{"Blocks": ".block", "Sequences": ".seq", "Actions": ".action"}[field]
		if lf != "" && x.Value != nil && len(x.Body.List) == 1 {
			if as, ok := x.Body.List[0].(*ast.AssignStmt); ok && nospace(as.Lhs[0]) == "vals" && nospace(as.Rhs[0]) == "append(vals,"+types.ExprString(x.Value)+")" {
				part := "x." + lf + ".map " + node
				switch {
				case c.kids == "#make" || c.kids == "":
					c.kids = part
				default:
					c.kids += " ++ " + part
				}
				return c.stmts(rest, ind)
			}
		}
		return c.fail("loop over %s", types.ExprString(x.X))
	case *ast.ForStmt:
		// for i := 0; i < len(r.Actions); i++ { vals[i] = r.Actions[i] }
		if c.kids == "#make" && nospace(x.Cond) == "i<len("+r+".Actions)" && len(x.Body.List) == 1 {
			if as, ok := x.Body.List[0].(*ast.AssignStmt); ok && nospace(as.Lhs[0]) == "vals[i]" && nospace(as.Rhs[0]) == r+".Actions[i]" {
				c.kids = "x.actions.map .action"
				return c.stmts(rest, ind)
			}
		}
		return c.fail("for loop")
	case *ast.IfStmt:
		if x.Else != nil {
			return c.fail("if with else")
		}
		s := nospace(x.Cond)
		// if r == nil { return nil, ERR } / { return nil, nil }
		if s == r+"==nil" && x.Init == nil {
			if c.typ == "Plan" {
				return c.stmts(rest, ind) // a nil *Plan is `validate none`
			}
			if c.typ == "Checks" {
				// return nil, nil: handled by the Option wrapper
				if len(x.Body.List) == 1 {
					if rs, ok := x.Body.List[0].(*ast.ReturnStmt); ok && len(rs.Results) == 2 && types.ExprString(rs.Results[0]) == "nil" && types.ExprString(rs.Results[1]) == "nil" {
						return c.stmts(rest, ind)
					}
				}
				return c.fail("nil Checks branch")
			}
			if msg, ok := c.retErr(x.Body); ok && t5ErrClass(msg) != "" {
				return "if x.isNil then .error " + t5ErrClass(msg) + " else\n" + ind + c.stmts(rest, ind)
			}
			return c.fail("nil receiver branch")
		}
		if c.typ == "Action" && x.Init == nil {
			// if r.Timeout == 0 { r.Timeout = 30 * time.Second }   (or any other comparison with 0: translated as written)
			if len(x.Body.List) == 1 {
				if as, ok := x.Body.List[0].(*ast.AssignStmt); ok && nospace(as.Lhs[0]) == r+".Timeout" && nospace(as.Rhs[0]) == "30*time.Second" {
					op := ""
					for _, o := range []string{"==", "<=", "<"} {
						if s == r+".Timeout"+o+"0" {
							op = map[string]string{"==": "=", "<=": "≤", "<": "<"}[o]
						}
					}
					if op != "" {
						old := c.tvar
						c.tvar = old + "'"
						return "let " + c.tvar + " : Int := if " + old + " " + op + " 0 then 30000 else " + old + "\n" + ind + c.stmts(rest, ind)
					}
				}
				// if r.Retries < 0 { r.Retries = 0 }
				if as, ok := x.Body.List[0].(*ast.AssignStmt); ok && nospace(as.Lhs[0]) == r+".Retries" && s == r+".Retries<0" && nospace(as.Rhs[0]) == "0" {
					return c.stmts(rest, ind)
				}
			}
		}
		// if err := plug.ValidateReq(r.Req); err != nil { return nil, fmt.Errorf("plugin %q: %w", …) }
		if x.Init != nil && c.plug != "" {
			if as, ok := x.Init.(*ast.AssignStmt); ok && nospace(as.Rhs[0]) == c.plug+".ValidateReq("+r+".Req)" && s == "err!=nil" {
				if _, ok := c.retErr(x.Body); ok {
					return "if !x.reqOk then .error .badReq else\n" + ind + c.stmts(rest, ind)
				}
			}
			return c.fail("if with init")
		}
		if msg, ok := c.retErr(x.Body); ok {
			cls := t5ErrClass(msg)
			if cls == "" {
				return c.fail("unclassified message %q", msg)
			}
			return "if " + c.cond(x.Cond) + " then .error " + cls + " else\n" + ind + c.stmts(rest, ind)
		}
		return c.fail("if %s", types.ExprString(x.Cond))
	}
	return c.fail("statement %T", s)
}

func nospace2(d *ast.DeclStmt) string {
	gd, ok := d.Decl.(*ast.GenDecl)
	if !ok || len(gd.Specs) != 1 {
		return ""
	}
	vs, ok := gd.Specs[0].(*ast.ValueSpec)
	if !ok || len(vs.Names) != 1 {
		return ""
	}
	return "var" + vs.Names[0].Name + nospace(vs.Type)
}

func t5Translate(f *ast.File) string {
	var out strings.Builder
	for _, t := range []struct{ typ, vtyp, lean string }{{"Plan", "VPlan", "Plan"}, {"Checks", "VChecks", "Checks"}, {"Block", "VBlock", "Block"},
		{"Sequence", "VSeq", "Seq"}, {"Action", "VAction", "Action"}} {
		var decl *ast.FuncDecl
		for _, d := range f.Decls {
			if fd, ok := d.(*ast.FuncDecl); ok && fd.Name.Name == "validate" && fd.Recv != nil && len(fd.Recv.List) == 1 &&
				types.ExprString(fd.Recv.List[0].Type) == "*"+t.typ && len(fd.Recv.List[0].Names) == 1 {
				decl = fd
			}
		}
		hdr := fmt.Sprintf("/-- translated from `func (x *%s) validate` (workflow/workflow.go): the rules, in source order -/\n", t.typ)
		c := &t5ctx{typ: t.typ, tvar: "t"}
		body := ""
		if decl == nil {
			c.err = "method not found"
		} else {
			c.recv = decl.Recv.List[0].Names[0].Name
			body = c.stmts(decl.Body.List, "  ")
		}
		if c.err != "" {
			fmt.Fprintf(&out, "%s-- UNSUPPORTED by the translator: %s\ndef check%s : Unit := unsupported_go_construct\n\n", hdr, c.err, t.lean)
			continue
		}
		pre := ""
		if t.typ == "Action" {
			pre = "let t : Int := x.timeoutMs\n  "
		}
		fmt.Fprintf(&out, "%sdef check%s (keys : List Nat) (x : %s) : Except Err (List Nat) :=\n  %s%s\n\n", hdr, t.lean, t.vtyp, pre, body)
		fmt.Fprintf(&out, "/-- … and the validators it returns: what is validated next -/\ndef kids%s (x : %s) : List Node :=\n  %s\n\n", t.lean, t.vtyp, c.kids)
	}
	return out.String()
}

// t5 writes Generated/T5.lean: the validate methods of workflow.go as node rules and children lists.
func t5() {
	var b strings.Builder
	b.WriteString("import CoercionModel.Model.Validate\nnamespace Coercion.Generated.T5\nopen Coercion Coercion.Validate\n\n")
	if _, f := parseFile("workflow/workflow.go"); f != nil {
		b.WriteString(t5Translate(f))
	} else {
		b.WriteString("def workflowGoMissing : Unit := source_file_not_found\n")
	}
	b.WriteString("end Coercion.Generated.T5\n")
	write("T5.lean", b.String())
}
