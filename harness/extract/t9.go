package main

// T9: translator for the five `Defaults` methods of workflow/workflow.go (Plan, Checks, Block, Sequence, Action) — what
// Submit's `populate` applies to every object before the plan is stored. Statement forms: the leading nil guard of the
// receiver, `x.ID = NewV7()` (the fresh id is the parameter `newId`), `x.State = &State{Status: NotStarted}` (status
// NotStarted, zero Start/End), `if x.F < n { x.F = n }` on an integer field (Concurrency), `return`. A receiver method
// that mutates in place becomes a function returning the object. Anything else fails the Lean build.

import (
	"fmt"
	"go/ast"
	"go/token"
	"go/types"
	"strings"
)

var t9IntFields = map[string]string{"Concurrency": "conc", "ToleratedFailures": "tol", "Retries": "retries"}

func t9Method(f *ast.File, typ string) string {
	var decl *ast.FuncDecl
	for _, d := range f.Decls {
		if fd, ok := d.(*ast.FuncDecl); ok && fd.Name.Name == "Defaults" && fd.Recv != nil && fd.Body != nil && len(fd.Recv.List) == 1 &&
			types.ExprString(fd.Recv.List[0].Type) == "*"+typ && len(fd.Recv.List[0].Names) == 1 {
			decl = fd
		}
	}
	name := strings.ToLower(typ[:1]) + typ[1:] + "Defaults"
	errMsg := ""
	fail := func(format string, a ...any) {
		if errMsg == "" {
			errMsg = fmt.Sprintf(format, a...)
		}
	}
	var lines []string
	if decl == nil {
		fail("method not found")
	} else {
		x := decl.Recv.List[0].Names[0].Name
		ss := decl.Body.List
		if len(ss) > 0 {
			if ifs, ok := ss[0].(*ast.IfStmt); ok && types.ExprString(ifs.Cond) == x+" == nil" && len(ifs.Body.List) == 1 {
				if _, ok := ifs.Body.List[0].(*ast.ReturnStmt); ok {
					ss = ss[1:] // nil receiver: nothing to default (the model's lists hold no nil objects)
				}
			}
		}
		for _, s := range ss {
			switch st := s.(type) {
			case *ast.ReturnStmt:
				if len(st.Results) != 0 {
					fail("return with a value")
				}
			case *ast.AssignStmt:
				if len(st.Lhs) != 1 || len(st.Rhs) != 1 || st.Tok != token.ASSIGN {
					fail("assignment form")
					continue
				}
				l, r := types.ExprString(st.Lhs[0]), types.ExprString(st.Rhs[0])
				switch {
				case l == x+".ID" && r == "NewV7()":
					lines = append(lines, fmt.Sprintf("let %s := { %s with id := newId }", x, x))
				case l == x+".State" && isFreshState(st.Rhs[0]):
					lines = append(lines, fmt.Sprintf("let %s := { %s with status := Status.notStarted, tStart := 0, tEnd := 0 }", x, x))
				default:
					fail("assignment %s = %s", l, r)
				}
			case *ast.IfStmt:
				// if x.F < n { x.F = n }
				b, ok := st.Cond.(*ast.BinaryExpr)
				if !ok || st.Init != nil || st.Else != nil || len(st.Body.List) != 1 || b.Op != token.LSS {
					fail("if form")
					continue
				}
				sel, ok := b.X.(*ast.SelectorExpr)
				lit, ok2 := b.Y.(*ast.BasicLit)
				as, ok3 := st.Body.List[0].(*ast.AssignStmt)
				if !ok || !ok2 || !ok3 || types.ExprString(sel.X) != x || lit.Kind != token.INT || len(as.Lhs) != 1 || len(as.Rhs) != 1 ||
					types.ExprString(as.Lhs[0]) != types.ExprString(sel) {
					fail("if form")
					continue
				}
				fld, ok := t9IntFields[sel.Sel.Name]
				v, ok2 := as.Rhs[0].(*ast.BasicLit)
				if !ok || !ok2 || v.Kind != token.INT {
					fail("defaulted field %s", sel.Sel.Name)
					continue
				}
				lines = append(lines, fmt.Sprintf("let %s := if decide (%s.%s < %s) then { %s with %s := %s } else %s", x, x, fld, lit.Value, x, fld, v.Value, x))
			default:
				fail("statement %T", s)
			}
		}
		if errMsg == "" {
			var b strings.Builder
			fmt.Fprintf(&b, "/-- translated from `func (%s *%s) Defaults()` (workflow/workflow.go) -/\ndef %s (newId : Nat) (%s : %s) : %s :=\n", x, typ, name, x, typ, typ)
			for _, l := range lines {
				b.WriteString("  " + l + "\n")
			}
			b.WriteString("  " + x + "\n\n")
			return b.String()
		}
	}
	return fmt.Sprintf("-- UNSUPPORTED by the translator (%s.Defaults): %s\ndef %s : Unit := unsupported_go_construct\n\n", typ, errMsg, name)
}

func t9() {
	var b strings.Builder
	b.WriteString("import CoercionModel.Model.Types\nset_option linter.unusedVariables false\nnamespace Coercion.Generated.T9\nopen Coercion\n\n")
	if _, f := parseFile("workflow/workflow.go"); f != nil {
		for _, typ := range []string{"Plan", "Checks", "Block", "Sequence", "Action"} {
			b.WriteString(t9Method(f, typ))
		}
	} else {
		b.WriteString("def workflowGoMissing : Unit := source_file_not_found\n")
	}
	b.WriteString("end Coercion.Generated.T9\n")
	write("T9.lean", b.String())
}

// &State{Status: NotStarted}
func isFreshState(e ast.Expr) bool {
	u, ok := e.(*ast.UnaryExpr)
	if !ok || u.Op != token.AND {
		return false
	}
	cl, ok := u.X.(*ast.CompositeLit)
	if !ok || types.ExprString(cl.Type) != "State" || len(cl.Elts) != 1 {
		return false
	}
	kv, ok := cl.Elts[0].(*ast.KeyValueExpr)
	return ok && types.ExprString(kv.Key) == "Status" && types.ExprString(kv.Value) == "NotStarted"
}
