package main

// T1x: translation of finalStates.examineChecks (final.go): a `for i, check := range checks` over a fixed
// array of four *workflow.Checks whose body selects on the constant index, skips nil / Completed groups with
// `continue` and returns (reason, error) otherwise. The loop is unrolled; `switch i` is resolved statically;
// an error value becomes `true` (its text is not modelled); the result is `Reason × Bool`.

import (
	"fmt"
	"go/ast"
	"go/token"
	"go/types"
	"strings"
)

var t1Reasons = map[string]string{"FRUnknown": "Reason.unknown", "FRPreCheck": "Reason.preCheck", "FRContCheck": "Reason.contCheck",
	"FRPostCheck": "Reason.postCheck", "FRDeferredCheck": "Reason.deferredCheck", "FRBlock": "Reason.block"}

type t1x struct {
	err    string
	elem   string            // loop value variable
	idx    string            // loop index variable
	i      int               // current (constant) index
	locals map[string]string // Go local -> current Lean expression (reason locals), "" for ignored (strings / errors)
	next   func() string     // translation of "go on with the next iteration"
}

func (c *t1x) fail(format string, a ...any) string {
	if c.err == "" {
		c.err = fmt.Sprintf(format, a...)
	}
	return "unsupported"
}

func (c *t1x) reason(e ast.Expr) string {
	switch x := e.(type) {
	case *ast.Ident:
		if v, ok := c.locals[x.Name]; ok && v != "" {
			return v
		}
	case *ast.SelectorExpr:
		if id, ok := x.X.(*ast.Ident); ok && id.Name == "workflow" {
			if r, ok := t1Reasons[x.Sel.Name]; ok {
				return r
			}
		}
	}
	return c.fail("reason expression %s", types.ExprString(e))
}

func (c *t1x) isErrExpr(e ast.Expr) (isNil bool, ok bool) {
	switch x := e.(type) {
	case *ast.Ident:
		if x.Name == "nil" {
			return true, true
		}
		if v, known := c.locals[x.Name]; known && v == "" {
			return false, true
		}
	case *ast.CallExpr:
		if s := types.ExprString(x.Fun); s == "fmt.Errorf" || s == "errors.New" {
			return false, true
		}
	}
	return false, false
}

func (c *t1x) stmts(ss []ast.Stmt, ind string) string {
	if len(ss) == 0 {
		return c.next()
	}
	s, rest := ss[0], ss[1:]
	switch x := s.(type) {
	case *ast.BranchStmt:
		if x.Tok == token.CONTINUE {
			return c.next()
		}
		return c.fail("branch %s", x.Tok)
	case *ast.DeclStmt:
		gd, ok := x.Decl.(*ast.GenDecl)
		if !ok || gd.Tok != token.VAR {
			return c.fail("declaration")
		}
		for _, sp := range gd.Specs {
			vs := sp.(*ast.ValueSpec)
			for _, n := range vs.Names {
				switch types.ExprString(vs.Type) {
				case "string":
					c.locals[n.Name] = ""
				case "workflow.FailureReason":
					c.locals[n.Name] = "Reason.unknown"
				default:
					return c.fail("local of type %s", types.ExprString(vs.Type))
				}
			}
		}
		return c.stmts(rest, ind)
	case *ast.AssignStmt:
		if len(x.Lhs) != 1 || len(x.Rhs) != 1 {
			return c.fail("assignment form")
		}
		id, ok := x.Lhs[0].(*ast.Ident)
		if !ok {
			return c.fail("assignment target")
		}
		if x.Tok == token.DEFINE {
			if _, ok := c.isErrExpr(x.Rhs[0]); ok {
				c.locals[id.Name] = "" // an error value
				return c.stmts(rest, ind)
			}
			return c.fail("definition of %s", id.Name)
		}
		v, known := c.locals[id.Name]
		if !known {
			return c.fail("assignment to %s", id.Name)
		}
		if v == "" || isStringLit(x.Rhs[0]) {
			return c.stmts(rest, ind) // strings only feed error texts
		}
		c.locals[id.Name] = c.reason(x.Rhs[0])
		return c.stmts(rest, ind)
	case *ast.IfStmt:
		if x.Init != nil || x.Else != nil {
			return c.fail("if with init/else")
		}
		// if check == nil { continue }
		if b, ok := x.Cond.(*ast.BinaryExpr); ok && b.Op == token.EQL && types.ExprString(b.X) == c.elem && types.ExprString(b.Y) == "nil" {
			save := copyMap(c.locals)
			thenPart := c.stmts(x.Body.List, ind+"  ")
			c.locals = save
			elsePart := c.stmts(rest, ind+"  ")
			return "(match " + c.elem + "? with\n" + ind + "| none =>\n" + ind + "  " + thenPart + "\n" + ind + "| some " + c.elem + " =>\n" + ind + "  " + elsePart + ")"
		}
		return c.fail("if condition %s", types.ExprString(x.Cond))
	case *ast.SwitchStmt:
		if x.Init != nil || x.Tag == nil {
			return c.fail("switch form")
		}
		// switch i { case K: ... }: resolved statically
		if types.ExprString(x.Tag) == c.idx {
			for _, cl := range x.Body.List {
				cc := cl.(*ast.CaseClause)
				for _, e := range cc.List {
					if types.ExprString(e) == fmt.Sprint(c.i) {
						return c.stmts(append(append([]ast.Stmt{}, cc.Body...), rest...), ind)
					}
				}
			}
			return c.stmts(rest, ind)
		}
		// switch check.State.Status { case workflow.X: ...; default: ... }
		if types.ExprString(x.Tag) == c.elem+".State.Status" {
			var out strings.Builder
			var def []ast.Stmt
			hasDef := false
			for _, cl := range x.Body.List {
				cc := cl.(*ast.CaseClause)
				if cc.List == nil {
					def, hasDef = cc.Body, true
					continue
				}
				var conds []string
				for _, e := range cc.List {
					se, ok := e.(*ast.SelectorExpr)
					if !ok {
						return c.fail("case expression")
					}
					st, ok := t1Status[se.Sel.Name]
					if !ok {
						return c.fail("case status %s", se.Sel.Name)
					}
					conds = append(conds, "("+c.elem+".status == Status"+st+")")
				}
				save := copyMap(c.locals)
				body := c.stmts(append(append([]ast.Stmt{}, cc.Body...), rest...), ind+"  ")
				c.locals = save
				out.WriteString("if " + strings.Join(conds, " || ") + " then\n" + ind + "  " + body + "\n" + ind + "else ")
			}
			save := copyMap(c.locals)
			var last string
			if hasDef {
				last = c.stmts(append(append([]ast.Stmt{}, def...), rest...), ind+"  ")
			} else {
				last = c.stmts(rest, ind+"  ")
			}
			c.locals = save
			out.WriteString("\n" + ind + "  " + last)
			return out.String()
		}
		return c.fail("switch tag %s", types.ExprString(x.Tag))
	case *ast.ReturnStmt:
		if len(x.Results) != 2 {
			return c.fail("return arity")
		}
		isNil, ok := c.isErrExpr(x.Results[1])
		if !ok {
			return c.fail("returned error %s", types.ExprString(x.Results[1]))
		}
		return "(" + c.reason(x.Results[0]) + ", " + fmt.Sprint(!isNil) + ")"
	}
	return c.fail("statement %T", s)
}

func isStringLit(e ast.Expr) bool {
	b, ok := e.(*ast.BasicLit)
	return ok && b.Kind == token.STRING
}

func copyMap(m map[string]string) map[string]string {
	n := map[string]string{}
	for k, v := range m {
		n[k] = v
	}
	return n
}

func t1ExamineChecks(f *ast.File) string {
	var decl *ast.FuncDecl
	for _, d := range f.Decls {
		if fd, ok := d.(*ast.FuncDecl); ok && fd.Name.Name == "examineChecks" {
			decl = fd
		}
	}
	hdr := "/-- translated from `func examineChecks` (internal/execute/sm/final.go): loop over the four groups unrolled, `switch i` resolved, an error value is `true` -/\n"
	bad := func(msg string) string {
		return hdr + "-- UNSUPPORTED by the translator: " + msg + "\ndef examineChecks : Unit := unsupported_go_construct\n\n"
	}
	if decl == nil || len(decl.Type.Params.List) != 1 || types.ExprString(decl.Type.Params.List[0].Type) != "[4]*workflow.Checks" {
		return bad("examineChecks not found or its parameter is not [4]*workflow.Checks")
	}
	param := decl.Type.Params.List[0].Names[0].Name
	body := decl.Body.List
	if len(body) != 2 {
		return bad("body is not `for … { … }; return …`")
	}
	loop, ok := body[0].(*ast.RangeStmt)
	ret, ok2 := body[1].(*ast.ReturnStmt)
	if !ok || !ok2 || types.ExprString(loop.X) != param || loop.Key == nil || loop.Value == nil {
		return bad("body is not `for i, check := range checks { … }; return …`")
	}
	elem, idx := types.ExprString(loop.Value), types.ExprString(loop.Key)
	firstErr := ""
	note := func(e string) {
		if e != "" && firstErr == "" {
			firstErr = e
		}
	}
	// after the last iteration: the final return
	final := func() string {
		cc := &t1x{locals: map[string]string{}}
		s := cc.stmts([]ast.Stmt{ret}, "")
		note(cc.err)
		return s
	}
	// one definition per iteration, last first: examineChecks_4 is the code after the loop
	var defs strings.Builder
	fmt.Fprintf(&defs, "/-- `examineChecks`: after the loop -/\ndef examineChecks_4 (%s : List (Option Checks)) : Reason × Bool :=\n  %s\n\n", param, final())
	for i := 3; i >= 0; i-- {
		// a fresh context per iteration: the locals of the body are per iteration, the index is the constant i
		c := &t1x{elem: elem, idx: idx, i: i, locals: map[string]string{}}
		c.next = func() string { return fmt.Sprintf("examineChecks_%d %s", i+1, param) }
		inner := c.stmts(loop.Body.List, "  ")
		note(c.err)
		fmt.Fprintf(&defs, "/-- `examineChecks`: iteration %d of the loop and everything after it -/\ndef examineChecks_%d (%s : List (Option Checks)) : Reason × Bool :=\n  let %s? := %s.getD %d none\n  %s\n\n", i, i, param, elem, param, i, inner)
	}
	text := "examineChecks_0 " + param
	if firstErr != "" {
		return bad(firstErr)
	}
	return defs.String() + hdr + "def examineChecks (" + param + " : List (Option Checks)) : Reason × Bool :=\n  " + text + "\n\n"
}
