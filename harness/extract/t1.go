package main

// T1: a translator from a small imperative subset of Go to Lean 4 definitions over Model/Types.
//
// It handles functions of the form `func f(x *workflow.T)` that mutate x in place (T = Action, Checks)
// and `func f(x *workflow.T) bool`, whose bodies consist of: `if cond { ... }` (no else), assignments to
// fields of x, calls `g(x)` / `g(a)` of other translated functions, `for _, a := range x.Actions { g(a) }`
// and `return` (with a bool literal for predicates). A pointer parameter becomes a value that is
// returned; a leading `if x == nil { return ... }` becomes the `none` case of the Option wrapper;
// recursion gets a fuel argument. Anything outside the subset makes the translator emit
// `-- UNSUPPORTED: ...` in place of the definition, which fails the Lean build (deliberately).

import (
	"fmt"
	"go/ast"
	"go/token"
	"go/types"
	"strings"
)

type t1Fn struct {
	name     string
	param    string // parameter name
	typ      string // Action | Checks | Sequence
	usesNow  bool
	nloops   int
	loopDefs []string
	pred     bool   // returns bool
	rec      bool   // calls itself
	nilGuard string // result for nil argument ("" = none): for mutators "none", for predicates "true"/"false"
	body     string
	err      string
}

var t1Fields = map[string]string{"State.Status": "status", "State.Start": "tStart", "State.End": "tEnd", "Attempts": "attempts", "Actions": "actions"}
var t1Status = map[string]string{"NotStarted": ".notStarted", "Running": ".running", "Completed": ".completed", "Failed": ".failed", "Stopped": ".stopped"}

type t1ctx struct {
	fn     *t1Fn
	known  map[string]*t1Fn
	v      string   // the object variable statements currently mutate
	locals []string // local Nat counters in scope
	term   func() string
}

func (c *t1ctx) isLocal(n string) bool {
	for _, l := range c.locals {
		if l == n {
			return true
		}
	}
	return false
}

func tupleType(n int) string {
	switch n {
	case 0:
		return "Unit"
	case 1:
		return "Nat"
	}
	return "(" + strings.Repeat("Nat × ", n-1) + "Nat)"
}

func tuplePat(names []string) string {
	if len(names) == 0 {
		return "_"
	}
	return tupleOf(names)
}

func tupleOf(names []string) string {
	switch len(names) {
	case 0:
		return "()"
	case 1:
		return names[0]
	}
	return "(" + strings.Join(names, ", ") + ")"
}

func (c *t1ctx) fail(format string, a ...any) string {
	if c.fn.err == "" {
		c.fn.err = fmt.Sprintf(format, a...)
	}
	return "sorry_unsupported"
}

// selector path below the parameter: x.State.Status -> "State.Status"
func (c *t1ctx) path(e ast.Expr) (string, bool) {
	switch x := e.(type) {
	case *ast.Ident:
		if x.Name == c.v {
			return "", true
		}
	case *ast.SelectorExpr:
		if p, ok := c.path(x.X); ok {
			if p == "" {
				return x.Sel.Name, true
			}
			return p + "." + x.Sel.Name, true
		}
	}
	return "", false
}

func isLenOf(e ast.Expr, what string) bool {
	c, ok := e.(*ast.CallExpr)
	if !ok || len(c.Args) != 1 {
		return false
	}
	id, ok := c.Fun.(*ast.Ident)
	return ok && id.Name == "len" && types.ExprString(c.Args[0]) == what
}

// lastAttempt recognises x.Attempts[len(x.Attempts)-1]
func (c *t1ctx) isLastAttempt(e ast.Expr) bool {
	ix, ok := e.(*ast.IndexExpr)
	if !ok {
		return false
	}
	if p, ok := c.path(ix.X); !ok || p != "Attempts" {
		return false
	}
	b, ok := ix.Index.(*ast.BinaryExpr)
	if !ok || b.Op != token.SUB || types.ExprString(b.Y) != "1" {
		return false
	}
	return isLenOf(b.X, c.v+".Attempts")
}

func (c *t1ctx) expr(e ast.Expr) string {
	switch x := e.(type) {
	case *ast.ParenExpr:
		return "(" + c.expr(x.X) + ")"
	case *ast.BasicLit:
		return x.Value
	case *ast.Ident:
		switch x.Name {
		case "true", "false":
			return x.Name
		case "nil":
			return "[]" // only used for slices here
		}
		if c.isLocal(x.Name) {
			return x.Name
		}
		return c.fail("identifier %s", x.Name)
	case *ast.CompositeLit:
		if types.ExprString(x.Type) == "time.Time" && len(x.Elts) == 0 {
			return "0"
		}
		return c.fail("composite literal %s", types.ExprString(x))
	case *ast.SelectorExpr:
		if id, ok := x.X.(*ast.Ident); ok && id.Name == "workflow" {
			if s, ok := t1Status[x.Sel.Name]; ok {
				return "Status" + s
			}
		}
		// x.Attempts[len-1].End / .Err
		if c.isLastAttempt(x.X) {
			switch x.Sel.Name {
			case "End":
				return "(" + c.v + ".attempts.getLast?.map (·.tEnd)).getD 0"
			case "Err":
				return "(" + c.v + ".attempts.getLast?.map (·.err)).getD ErrKind.none"
			}
		}
		if p, ok := c.path(x); ok {
			if f, ok := t1Fields[p]; ok {
				return c.v + "." + f
			}
		}
		return c.fail("selector %s", types.ExprString(x))
	case *ast.CallExpr:
		if isLenOf(x, c.v+".Attempts") {
			return c.v + ".attempts.length"
		}
		if isLenOf(x, c.v+".Actions") {
			return c.v + ".actions.length"
		}
		if types.ExprString(x) == "time.Now()" {
			c.fn.usesNow = true
			return "now"
		}
		// t.IsZero()
		if s, ok := x.Fun.(*ast.SelectorExpr); ok && s.Sel.Name == "IsZero" && len(x.Args) == 0 {
			return "(" + c.expr(s.X) + " == 0)"
		}
		return c.fail("call %s", types.ExprString(x))
	case *ast.SliceExpr:
		// x.Attempts[:len(x.Attempts)-1]
		if p, ok := c.path(x.X); ok && p == "Attempts" && x.Low == nil && x.High != nil {
			if b, ok := x.High.(*ast.BinaryExpr); ok && b.Op == token.SUB && types.ExprString(b.Y) == "1" && isLenOf(b.X, c.v+".Attempts") {
				return c.v + ".attempts.dropLast"
			}
		}
		return c.fail("slice %s", types.ExprString(x))
	case *ast.BinaryExpr:
		// comparisons with nil on the error of the last attempt
		if id, ok := x.Y.(*ast.Ident); ok && id.Name == "nil" {
			if s, ok := x.X.(*ast.SelectorExpr); ok && s.Sel.Name == "Err" && c.isLastAttempt(s.X) {
				op := "=="
				if x.Op == token.NEQ {
					op = "!="
				}
				return "(" + c.expr(x.X) + " " + op + " ErrKind.none)"
			}
			return c.fail("nil comparison %s", types.ExprString(x))
		}
		ops := map[token.Token]string{token.EQL: "==", token.NEQ: "!=", token.LSS: "<", token.GTR: ">", token.LEQ: "<=", token.GEQ: ">=", token.LAND: "&&", token.LOR: "||", token.ADD: "+", token.SUB: "-"}
		op, ok := ops[x.Op]
		if !ok {
			return c.fail("operator %s", x.Op)
		}
		l, r := c.expr(x.X), c.expr(x.Y)
		switch x.Op {
		case token.LSS, token.GTR, token.LEQ, token.GEQ:
			return "(decide (" + l + " " + op + " " + r + "))"
		}
		return "(" + l + " " + op + " " + r + ")"
	case *ast.UnaryExpr:
		if x.Op == token.NOT {
			return "(!" + c.expr(x.X) + ")"
		}
	}
	return c.fail("expression %s", types.ExprString(e))
}

func endsWithReturn(b []ast.Stmt) bool {
	if len(b) == 0 {
		return false
	}
	_, ok := b[len(b)-1].(*ast.ReturnStmt)
	return ok
}

// stmts compiles a statement list to a Lean expression of the result type; `ind` is the indentation.
func (c *t1ctx) stmts(ss []ast.Stmt, ind string) string {
	if len(ss) == 0 {
		if c.term != nil {
			return c.term()
		}
		if c.fn.pred {
			return c.fail("predicate falls off its end")
		}
		return c.v
	}
	s, rest := ss[0], ss[1:]
	switch x := s.(type) {
	case *ast.ReturnStmt:
		if c.term != nil {
			return c.fail("return inside a loop body")
		}
		if c.fn.pred {
			if len(x.Results) != 1 {
				return c.fail("return arity")
			}
			return c.expr(x.Results[0])
		}
		return c.v
	case *ast.IfStmt:
		if x.Init != nil || x.Else != nil {
			return c.fail("if with init/else")
		}
		body := x.Body.List
		var thenPart string
		if endsWithReturn(body) {
			thenPart = c.stmts(body, ind+"  ")
		} else {
			thenPart = c.stmts(append(append([]ast.Stmt{}, body...), rest...), ind+"  ")
		}
		return "if " + c.expr(x.Cond) + " then\n" + ind + "  " + thenPart + "\n" + ind + "else\n" + ind + "  " + c.stmts(rest, ind+"  ")
	case *ast.IncDecStmt:
		id, ok := x.X.(*ast.Ident)
		if !ok || !c.isLocal(id.Name) || x.Tok != token.INC {
			return c.fail("inc/dec of %s", types.ExprString(x.X))
		}
		return "let " + id.Name + " := " + id.Name + " + 1\n" + ind + c.stmts(rest, ind)
	case *ast.SwitchStmt:
		if x.Init != nil {
			return c.fail("switch with init")
		}
		var out strings.Builder
		closeN := 0
		for _, cl := range x.Body.List {
			cc := cl.(*ast.CaseClause)
			if cc.List == nil {
				return c.fail("switch default")
			}
			var conds []string
			for _, e := range cc.List {
				if x.Tag != nil {
					conds = append(conds, "("+c.expr(x.Tag)+" == "+c.expr(e)+")")
				} else {
					conds = append(conds, c.expr(e))
				}
			}
			cond := strings.Join(conds, " || ")
			var thenPart string
			if endsWithReturn(cc.Body) {
				thenPart = c.stmts(cc.Body, ind+"  ")
			} else {
				thenPart = c.stmts(append(append([]ast.Stmt{}, cc.Body...), rest...), ind+"  ")
			}
			out.WriteString("if " + cond + " then\n" + ind + "  " + thenPart + "\n" + ind + "else ")
			closeN++
		}
		out.WriteString("\n" + ind + "  " + c.stmts(rest, ind+"  "))
		return out.String()
	case *ast.AssignStmt:
		if len(x.Lhs) == 1 && len(x.Rhs) == 1 && x.Tok == token.DEFINE {
			id, ok := x.Lhs[0].(*ast.Ident)
			lit, ok2 := x.Rhs[0].(*ast.BasicLit)
			if !ok || !ok2 || lit.Kind != token.INT {
				return c.fail("local definition %s", types.ExprString(x.Lhs[0]))
			}
			c.locals = append(c.locals, id.Name)
			return "let " + id.Name + " : Nat := " + lit.Value + "\n" + ind + c.stmts(rest, ind)
		}
		if len(x.Lhs) != 1 || len(x.Rhs) != 1 || x.Tok != token.ASSIGN {
			return c.fail("assignment form")
		}
		p, ok := c.path(x.Lhs[0])
		if !ok {
			return c.fail("assignment target %s", types.ExprString(x.Lhs[0]))
		}
		f, ok := t1Fields[p]
		if !ok {
			return c.fail("assignment to field %s", p)
		}
		return "let " + c.v + " := { " + c.v + " with " + f + " := " + c.expr(x.Rhs[0]) + " }\n" + ind + c.stmts(rest, ind)
	case *ast.ExprStmt:
		call, ok := x.X.(*ast.CallExpr)
		if !ok || len(call.Args) != 1 {
			return c.fail("expression statement")
		}
		id, ok := call.Fun.(*ast.Ident)
		if !ok {
			return c.fail("call target")
		}
		if a, ok := call.Args[0].(*ast.Ident); !ok || a.Name != c.v {
			return c.fail("call argument")
		}
		callee := id.Name
		if callee == c.fn.name {
			return "let " + c.v + " := " + callee + " fuel " + c.v + "\n" + ind + c.stmts(rest, ind)
		}
		g, ok := c.known[callee]
		if !ok || g.pred || (c.term == nil && g.typ != c.fn.typ) || (c.term != nil && g.typ != "Action") {
			return c.fail("call of %s", callee)
		}
		return "let " + c.v + " := " + c.callOf(g, c.v) + "\n" + ind + c.stmts(rest, ind)
	case *ast.RangeStmt:
		// for _, a := range x.Actions { body }: a fold over the actions whose state is the local counters and the rebuilt list
		p, ok := c.path(x.X)
		val, ok2 := x.Value.(*ast.Ident)
		if !ok || p != "Actions" || !ok2 {
			return c.fail("range form")
		}
		locals := append([]string{}, c.locals...)
		inner := &t1ctx{fn: c.fn, known: c.known, v: val.Name, locals: append([]string{}, c.locals...)}
		inner.term = func() string { return "(" + tupleOf(locals) + ", acc.2 ++ [" + val.Name + "])" }
		body := inner.stmts(x.Body.List, ind+"    ")
		// the loop body becomes a definition of its own (a step function for List.foldl)
		c.fn.nloops++
		lname := fmt.Sprintf("%s_loop%d", c.fn.name, c.fn.nloops)
		usesNow := strings.Contains(body, "now")
		accT := tupleType(len(locals)) + " × List Action"
		var d strings.Builder
		fmt.Fprintf(&d, "/-- body of loop %d of `func %s` -/\ndef %s ", c.fn.nloops, c.fn.name, lname)
		if usesNow {
			d.WriteString("(now : Nat) ")
		}
		fmt.Fprintf(&d, "(acc : %s) (%s : Action) : %s :=\n  let %s := acc.1\n  %s\n\n", accT, val.Name, accT, tuplePat(locals), strings.ReplaceAll(body, "\n"+ind+"    ", "\n  "))
		c.fn.loopDefs = append(c.fn.loopDefs, d.String())
		call := lname
		if usesNow {
			call = "(" + lname + " now)"
		}
		var b strings.Builder
		b.WriteString("let r := " + c.v + ".actions.foldl " + call + " (" + tupleOf(locals) + ", [])\n")
		b.WriteString(ind + "let " + tuplePat(locals) + " := r.1\n")
		b.WriteString(ind + "let " + c.v + " := { " + c.v + " with actions := r.2 }\n")
		b.WriteString(ind + c.stmts(rest, ind))
		return b.String()
	}
	return c.fail("statement %T", s)
}

func (c *t1ctx) callOf(g *t1Fn, arg string) string {
	if g.rec {
		return g.name + " (" + arg + ".attempts.length + 1) " + arg
	}
	return g.name + " " + arg
}

func t1Translate(f *ast.File, names []string, src string) string {
	known := map[string]*t1Fn{}
	var order []*t1Fn
	for _, name := range names {
		fn := &t1Fn{name: name}
		known[name] = fn
		order = append(order, fn)
	}
	var out strings.Builder
	for _, fn := range order {
		var decl *ast.FuncDecl
		for _, d := range f.Decls {
			if fd, ok := d.(*ast.FuncDecl); ok && fd.Name.Name == fn.name {
				decl = fd
			}
		}
		if decl == nil || len(decl.Type.Params.List) != 1 || len(decl.Type.Params.List[0].Names) != 1 {
			fn.err = "function not found or wrong arity"
		} else {
			fn.param = decl.Type.Params.List[0].Names[0].Name
			switch types.ExprString(decl.Type.Params.List[0].Type) {
			case "*workflow.Action":
				fn.typ = "Action"
			case "*workflow.Checks":
				fn.typ = "Checks"
			case "*workflow.Sequence":
				fn.typ = "Sequence"
			default:
				fn.err = "parameter type " + types.ExprString(decl.Type.Params.List[0].Type)
			}
			if decl.Type.Results != nil {
				if len(decl.Type.Results.List) == 1 && types.ExprString(decl.Type.Results.List[0].Type) == "bool" {
					fn.pred = true
				} else {
					fn.err = "result type"
				}
			}
			ast.Inspect(decl.Body, func(n ast.Node) bool {
				if c, ok := n.(*ast.CallExpr); ok {
					if id, ok := c.Fun.(*ast.Ident); ok && id.Name == fn.name {
						fn.rec = true
					}
				}
				return true
			})
		}
		if fn.err == "" {
			body := decl.Body.List
			// leading nil guard
			if len(body) > 0 {
				if ifs, ok := body[0].(*ast.IfStmt); ok && ifs.Init == nil && ifs.Else == nil {
					if b, ok := ifs.Cond.(*ast.BinaryExpr); ok && b.Op == token.EQL && types.ExprString(b.X) == fn.param && types.ExprString(b.Y) == "nil" && len(ifs.Body.List) == 1 {
						if r, ok := ifs.Body.List[0].(*ast.ReturnStmt); ok {
							if fn.pred && len(r.Results) == 1 {
								fn.nilGuard = types.ExprString(r.Results[0])
							} else if !fn.pred {
								fn.nilGuard = "none"
							}
							body = body[1:]
						}
					}
				}
			}
			c := &t1ctx{fn: fn, known: known, v: fn.param}
			fn.body = c.stmts(body, "  ")
		}
		if fn.err != "" {
			fmt.Fprintf(&out, "/-- translated from `func %s` (%s) -/\n", fn.name, src)
			fmt.Fprintf(&out, "-- UNSUPPORTED by the translator: %s\ndef %s : Unit := unsupported_go_construct\n\n", fn.err, fn.name)
			continue
		}
		ret := fn.typ
		if fn.pred {
			ret = "Bool"
		}
		for _, d := range fn.loopDefs {
			out.WriteString(d)
		}
		fmt.Fprintf(&out, "/-- translated from `func %s` (%s) -/\n", fn.name, src)
		if fn.rec {
			fmt.Fprintf(&out, "def %s : Nat → %s → %s\n  | 0, %s => %s\n  | fuel + 1, %s =>\n  %s\n\n", fn.name, fn.typ, ret, fn.param, map[bool]string{true: "false", false: fn.param}[fn.pred], fn.param, strings.ReplaceAll(fn.body, "\n", "\n  "))
		} else {
			now := ""
			if fn.usesNow {
				now = "(now : Nat) "
			}
			fmt.Fprintf(&out, "def %s %s(%s : %s) : %s :=\n  %s\n\n", fn.name, now, fn.param, fn.typ, ret, fn.body)
		}
		if fn.nilGuard != "" {
			if fn.pred {
				fmt.Fprintf(&out, "/-- … with the nil case of the pointer argument -/\ndef %sOpt : Option %s → Bool\n  | none => %s\n  | some %s => %s %s\n\n", fn.name, fn.typ, fn.nilGuard, fn.param, fn.name, fn.param)
			} else {
				fmt.Fprintf(&out, "/-- … with the nil case of the pointer argument -/\ndef %sOpt : Option %s → Option %s\n  | none => none\n  | some %s => some (%s %s)\n\n", fn.name, fn.typ, fn.typ, fn.param, fn.name, fn.param)
			}
		}
	}
	return out.String()
}

// t1 writes Generated/T1.lean: the translated recovery helpers (recovery.go) and examineBypasses (final.go).
func t1() {
	var b strings.Builder
	b.WriteString("import CoercionModel.Model.Types\nnamespace Coercion.Generated.T1\nopen Coercion\n\n")
	if _, f := parseFile("internal/execute/sm/recovery.go"); f != nil {
		b.WriteString(t1Translate(f, []string{"resetAction", "fixAction", "fixChecks", "checksFailed", "checksCompleted", "skipRecoveredChecks", "fixSeq"}, "internal/execute/sm/recovery.go"))
	} else {
		b.WriteString("def recoveryGoMissing : Unit := source_file_not_found\n")
	}
	if _, f := parseFile("internal/execute/sm/final.go"); f != nil {
		b.WriteString(t1Translate(f, []string{"examineBypasses"}, "internal/execute/sm/final.go"))
		b.WriteString(t1ExamineChecks(f))
	} else {
		b.WriteString("def finalGoMissing : Unit := source_file_not_found\n")
	}
	b.WriteString("end Coercion.Generated.T1\n")
	write("T1.lean", b.String())
}
