package main

import (
	"fmt"
	"go/ast"
	"go/token"
	"go/types"
	"strings"
)

// F10: control-flow skeletons of the functions the hand-written models mirror. A skeleton is the
// function body in source order reduced to: conditions (verbatim), loops, switch/select arms, returns,
// branch statements, defers/go, channel sends/receives, counter updates, assignments to the fields the
// models track (Status, Next, Start, End, Attempts, err, Reason ...) and calls (minus formatting /
// logging / conversion noise). Comments, error texts and local plumbing do not appear, so the
// skeleton changes exactly when the shape the model mirrors changes.

var skelIgnoreCalls = map[string]bool{
	"fmt.Errorf": true, "fmt.Sprintf": true, "context.WithoutCancel": true, "len": true, "int64": true, "make": true,
	"errors.New": true, "errors.E": true, "time.Now": true, "context.Log": true, "append": true, "int": true,
	"log.Fatalf": true, "Error": true, "Log.Error": true, "e.Error": true, "err.Error": true, "errors.Is": true,
	// logger methods reached through context.Log(ctx).X(...) and the like: logging is not behaviour the models mirror
	"Info": true, "Warn": true, "Debug": true, "Infof": true, "Warnf": true, "Debugf": true, "Errorf": true, "Printf": true, "Println": true,
}

var skelTrackedFields = map[string]bool{
	"Status": true, "Next": true, "Start": true, "End": true, "Attempts": true, "err": true, "Reason": true, "Err": true, "Resp": true,
	"contCheckResult": true, "contCancel": true,
}

type skel struct {
	toks []string
	ren  map[string]string // local name -> v<k> (alpha-normalisation, see alpha.go)
	args bool              // calls are emitted with their arguments (storage code: which value goes into which column)
	full bool              // every assignment is emitted, not only those to tracked fields (glue code no model mirrors)
}

func (k *skel) emit(s string) { k.toks = append(k.toks, alphaToken(s, k.ren)) }

func exprStr(e ast.Expr) string {
	if e == nil {
		return ""
	}
	s := types.ExprString(e)
	if len(s) > 120 {
		s = s[:117] + "..."
	}
	return s
}

// expr scans an expression in source order for calls, receives and function literals.
func (k *skel) expr(e ast.Node) {
	if e == nil {
		return
	}
	ast.Inspect(e, func(n ast.Node) bool {
		switch x := n.(type) {
		case *ast.FuncLit:
			k.emit("func {")
			k.block(x.Body)
			k.emit("}")
			return false
		case *ast.UnaryExpr:
			if x.Op == token.ARROW {
				k.emit("recv " + exprStr(x.X))
			}
		case *ast.CallExpr:
			name := callName(x)
			if name != "" && !skelIgnoreCalls[name] && !strings.HasPrefix(name, "log.") && !strings.HasPrefix(name, "slog.") {
				if k.args {
					var as []string
					for _, a := range x.Args {
						if _, isFn := a.(*ast.FuncLit); isFn {
							as = append(as, "func")
						} else {
							as = append(as, exprStr(a))
						}
					}
					k.emit("call " + name + "(" + strings.Join(as, ", ") + ")")
				} else {
					k.emit("call " + name)
				}
			}
		}
		return true
	})
}

func (k *skel) block(b *ast.BlockStmt) {
	if b == nil {
		return
	}
	for _, s := range b.List {
		k.stmt(s)
	}
}

func trackedLHS(e ast.Expr) bool {
	switch x := e.(type) {
	case *ast.SelectorExpr:
		return skelTrackedFields[x.Sel.Name]
	case *ast.Ident:
		return false
	}
	return false
}

func (k *skel) stmt(s ast.Stmt) {
	switch x := s.(type) {
	case *ast.BlockStmt:
		k.block(x)
	case *ast.IfStmt:
		if x.Init != nil {
			k.stmt(x.Init)
		}
		k.emit("if " + exprStr(x.Cond) + " {")
		k.block(x.Body)
		if x.Else != nil {
			k.emit("} else {")
			k.stmt(x.Else)
		}
		k.emit("}")
	case *ast.ForStmt:
		k.emit("for " + exprStr(x.Cond) + " {")
		k.block(x.Body)
		k.emit("}")
	case *ast.RangeStmt:
		k.emit("range " + exprStr(x.X) + " {")
		k.block(x.Body)
		k.emit("}")
	case *ast.SwitchStmt:
		if x.Init != nil {
			k.stmt(x.Init)
		}
		k.emit("switch " + exprStr(x.Tag) + " {")
		for _, c := range x.Body.List {
			cc := c.(*ast.CaseClause)
			var es []string
			for _, e := range cc.List {
				es = append(es, exprStr(e))
			}
			if cc.List == nil {
				k.emit("default:")
			} else {
				k.emit("case " + strings.Join(es, ", ") + ":")
			}
			for _, b := range cc.Body {
				k.stmt(b)
			}
		}
		k.emit("}")
	case *ast.TypeSwitchStmt:
		k.emit("typeswitch {")
		for _, c := range x.Body.List {
			cc := c.(*ast.CaseClause)
			var es []string
			for _, e := range cc.List {
				es = append(es, exprStr(e))
			}
			if cc.List == nil {
				k.emit("default:")
			} else {
				k.emit("case " + strings.Join(es, ", ") + ":")
			}
			for _, b := range cc.Body {
				k.stmt(b)
			}
		}
		k.emit("}")
	case *ast.SelectStmt:
		k.emit("select {")
		for _, c := range x.Body.List {
			cc := c.(*ast.CommClause)
			if cc.Comm == nil {
				k.emit("default:")
			} else {
				k.emit("comm:")
				k.stmt(cc.Comm)
			}
			for _, b := range cc.Body {
				k.stmt(b)
			}
		}
		k.emit("}")
	case *ast.ReturnStmt:
		for _, r := range x.Results {
			k.expr(r)
		}
		k.emit("return")
	case *ast.BranchStmt:
		k.emit(x.Tok.String())
	case *ast.DeferStmt:
		k.emit("defer {")
		k.expr(x.Call)
		k.emit("}")
	case *ast.GoStmt:
		k.emit("go {")
		k.expr(x.Call)
		k.emit("}")
	case *ast.SendStmt:
		k.expr(x.Value)
		k.emit("send " + exprStr(x.Chan))
	case *ast.IncDecStmt:
		k.emit(exprStr(x.X) + x.Tok.String())
	case *ast.AssignStmt:
		for _, r := range x.Rhs {
			k.expr(r)
		}
		for i, l := range x.Lhs {
			if trackedLHS(l) || k.full {
				rhs := ""
				if len(x.Rhs) == len(x.Lhs) {
					rhs = exprStr(x.Rhs[i])
					if strings.Contains(rhs, "fmt.") || strings.Contains(rhs, "errors.") {
						rhs = "<error>"
					}
				}
				k.emit("set " + exprStr(l) + " " + x.Tok.String() + " " + rhs)
			}
		}
	case *ast.ExprStmt:
		k.expr(x.X)
	case *ast.DeclStmt:
		k.expr(x)
	case *ast.LabeledStmt:
		k.stmt(x.Stmt)
	}
}

func findFunc(f *ast.File, name string) *ast.FuncDecl {
	if f == nil {
		return nil
	}
	for _, d := range f.Decls {
		if fn, ok := d.(*ast.FuncDecl); ok && fn.Name.Name == name && fn.Body != nil {
			return fn
		}
	}
	return nil
}

func f10() {
	targets := []struct{ file, fn, lean string }{
		{"internal/execute/sm/sm.go", "ExecuteSequences", "executeSequences"},
		{"internal/execute/sm/sm.go", "runContChecks", "runContChecks"},
		{"internal/execute/sm/sm.go", "BlockPreChecks", "blockPreChecks"},
		{"internal/execute/sm/sm.go", "PlanPreChecks", "planPreChecks"},
		{"internal/execute/sm/sm.go", "BlockEnd", "blockEnd"},
		{"internal/execute/sm/sm.go", "PlanPostChecks", "planPostChecks"},
		{"internal/execute/sm/sm.go", "End", "smEnd"},
		{"internal/execute/sm/sm.go", "execSeq", "execSeq"},
		{"internal/execute/sm/sm.go", "contChecksPassing", "contChecksPassing"},
		{"internal/execute/sm/recovery.go", "Recovery", "recovery"},
		{"internal/execute/sm/recovery.go", "fixAction", "fixAction"},
		{"internal/execute/sm/recovery.go", "resetAction", "resetAction"},
		{"internal/execute/sm/recovery.go", "fixChecks", "fixChecks"},
		{"internal/execute/sm/recovery.go", "fixSeq", "fixSeq"},
		{"internal/execute/sm/actions/actions.go", "exec", "actionsExec"},
		{"internal/execute/sm/actions/actions.go", "Execute", "actionsExecute"},
		{"internal/execute/sm/final.go", "examineChecks", "examineChecks"},
		{"internal/execute/sm/final.go", "examineBypasses", "examineBypasses"},
		{"internal/execute/execute.go", "Start", "plansStart"},
		{"internal/execute/execute.go", "runPlan", "runPlan"},
	}
	files := map[string]*ast.File{}
	var b strings.Builder
	b.WriteString("namespace Coercion.Generated.F10\n\n")
	for _, t := range targets {
		f, ok := files[t.file]
		if !ok {
			_, f = parseFile(t.file)
			files[t.file] = f
		}
		k := &skel{}
		if fn := findFunc(f, t.fn); fn != nil {
			k.ren = localNames(fn)
			k.block(fn.Body)
		} else {
			k.emit("<function not found>")
		}
		fmt.Fprintf(&b, "/-- skeleton of %s in %s -/\ndef %s : List String := [\n", t.fn, t.file, t.lean)
		for i, tok := range k.toks {
			fmt.Fprintf(&b, "  %s", leanStr(tok))
			if i < len(k.toks)-1 {
				b.WriteString(",")
			}
			b.WriteString("\n")
		}
		b.WriteString("]\n\n")
	}
	b.WriteString("end Coercion.Generated.F10\n")
	write("F10.lean", b.String())
	f11()
}

// F11: the same skeletons for every function of the CosmosDB vault (workflow/storage/cosmosdb, minus its
// fake client and test helpers), grouped by what they implement. The repository's fake Cosmos client
// cannot judge updates, queries or paging (DESIGN 0.2), so for this backend the shape of the code is the
// only thing a check can tie to: any change of shape is reported.
func f11() {
	groups := []struct {
		lean  string
		files []string
	}{
		{"roundtrip", []string{"creator_plan.go", "reader_plan.go", "reader_blocks.go", "reader_checks.go", "reader_sequences.go", "reader_actions.go",
			"updater.go", "updater_plan.go", "updater_blocks.go", "updater_checks.go", "updater_sequence.go", "updater_actions.go"}},
		{"createDelete", []string{"creator.go", "creator_plan.go", "deleter.go"}},
		{"query", []string{"reader.go", "recovery.go"}},
	}
	var b strings.Builder
	b.WriteString("namespace Coercion.Generated.F11\n\n")
	for _, g := range groups {
		var toks []string
		for _, fl := range g.files {
			_, f := parseFile("workflow/storage/cosmosdb/" + fl)
			if f == nil {
				toks = append(toks, "<file not found: "+fl+">")
				continue
			}
			for _, d := range f.Decls {
				fn, ok := d.(*ast.FuncDecl)
				if !ok || fn.Body == nil {
					continue
				}
				k := &skel{ren: localNames(fn)}
				k.block(fn.Body)
				toks = append(toks, "func "+fl+":"+fn.Name.Name+" {")
				toks = append(toks, k.toks...)
				toks = append(toks, "}")
			}
		}
		fmt.Fprintf(&b, "def %s : List String := [\n", g.lean)
		for i, tok := range toks {
			fmt.Fprintf(&b, "  %s", leanStr(tok))
			if i < len(toks)-1 {
				b.WriteString(",")
			}
			b.WriteString("\n")
		}
		b.WriteString("]\n\n")
	}
	b.WriteString("end Coercion.Generated.F11\n")
	write("F11.lean", b.String())
}
