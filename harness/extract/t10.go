package main

// T10: translator for what `Plans.Start` requires of the plan it read from storage (internal/execute/execute.go):
//   * `validateState` — the per-object test applied to every item of the walk: the body of its `if get, ok := i.Value.(getStater); ok { … }`
//     is a list of `if <cond> { return <error> }` ending in `return nil`; `state == nil` cannot occur in the model (every object
//     carries its state) and is skipped; `state.Status != workflow.X`, `!state.Start.IsZero()`, `!state.End.IsZero()` become
//     tests on (status, tStart, tEnd). The translation is `validateStateOk : Status → Nat → Nat → Bool` (no error returned).
//   * the staleness test of `validateStartState`: the first `if` whose condition mentions `p.maxSubmit` and `time.Now()`,
//     translated over time values like T8 (`plan.SubmitTime.Add(p.maxSubmit).Before(time.Now())` → submit + maxSubmit < now).
// Anything else makes the generated file fail to build.

import (
	"fmt"
	"go/ast"
	"go/token"
	"go/types"
	"strings"
)

func t10() {
	var b strings.Builder
	b.WriteString("import CoercionModel.Model.Types\nset_option linter.unusedVariables false\nnamespace Coercion.Generated.T10\nopen Coercion\n\n")
	_, f := parseFile("internal/execute/execute.go")
	errMsg := ""
	fail := func(format string, a ...any) {
		if errMsg == "" {
			errMsg = fmt.Sprintf(format, a...)
		}
	}
	var conds []string
	stale := ""
	if f == nil {
		fail("execute.go not found")
	} else {
		// validateState
		fn := findFunc(f, "validateState")
		if fn == nil || len(fn.Body.List) != 2 {
			fail("validateState: not found or unexpected shape")
		} else {
			ifs, ok := fn.Body.List[0].(*ast.IfStmt)
			if !ok || ifs.Init == nil || types.ExprString(ifs.Cond) != "ok" || stmtStr(ifs.Init) != "get, ok := i.Value.(getStater)" {
				fail("validateState: outer type test")
			} else {
				body := ifs.Body.List
				stateVar := ""
				for k, s := range body {
					switch x := s.(type) {
					case *ast.AssignStmt:
						if k == 0 && x.Tok == token.DEFINE && len(x.Lhs) == 1 && types.ExprString(x.Rhs[0]) == "get.GetState()" {
							stateVar = types.ExprString(x.Lhs[0])
						} else {
							fail("validateState: statement %s", stmtStr(s))
						}
					case *ast.IfStmt:
						if x.Init != nil || x.Else != nil || len(x.Body.List) != 1 {
							fail("validateState: if form")
							continue
						}
						if r, ok := x.Body.List[0].(*ast.ReturnStmt); !ok || len(r.Results) != 1 || types.ExprString(r.Results[0]) == "nil" {
							fail("validateState: a test must return an error")
							continue
						}
						c := types.ExprString(x.Cond)
						switch {
						case c == stateVar+" == nil":
							// cannot occur in the model
						case strings.HasPrefix(c, stateVar+".Status != workflow."):
							st, ok := t1Status[strings.TrimPrefix(c, stateVar+".Status != workflow.")]
							if !ok {
								fail("validateState: status %s", c)
							}
							conds = append(conds, "(st != Status"+st+")")
						case c == "!"+stateVar+".Start.IsZero()":
							conds = append(conds, "(!(tStart == 0))")
						case c == "!"+stateVar+".End.IsZero()":
							conds = append(conds, "(!(tEnd == 0))")
						default:
							fail("validateState: condition %s", c)
						}
					case *ast.ReturnStmt:
						if k != len(body)-1 || len(x.Results) != 1 || types.ExprString(x.Results[0]) != "nil" {
							fail("validateState: return form")
						}
					default:
						fail("validateState: statement %T", s)
					}
				}
			}
		}
		// staleness test of validateStartState
		if fn := findFunc(f, "validateStartState"); fn == nil {
			fail("validateStartState not found")
		} else {
			c := &t8ctx{elem: "plan"}
			for _, s := range fn.Body.List {
				ifs, ok := s.(*ast.IfStmt)
				if !ok {
					continue
				}
				cs := types.ExprString(ifs.Cond)
				if strings.Contains(cs, "p.maxSubmit") && strings.Contains(cs, "time.Now()") {
					stale = c10cond(c, ifs.Cond)
					if len(ifs.Body.List) != 1 {
						fail("validateStartState: stale branch form")
					} else if r, ok := ifs.Body.List[0].(*ast.ReturnStmt); !ok || len(r.Results) != 1 || types.ExprString(r.Results[0]) == "nil" {
						fail("validateStartState: the stale branch must return an error")
					}
				}
			}
			if stale == "" {
				fail("validateStartState: staleness test not found")
			}
			if c.err != "" {
				fail("%s", c.err)
			}
		}
	}
	if errMsg != "" {
		fmt.Fprintf(&b, "-- UNSUPPORTED by the translator: %s\ndef validateStateOk : Unit := unsupported_go_construct\n", errMsg)
	} else {
		b.WriteString("/-- translated from `func (e *Plans) validateState` (internal/execute/execute.go): true iff no error is returned -/\n")
		b.WriteString("def validateStateOk (st : Status) (tStart tEnd : Nat) : Bool :=\n")
		for _, c := range conds {
			b.WriteString("  if " + c + " then false else\n")
		}
		b.WriteString("  true\n\n")
		b.WriteString("/-- translated from the staleness test of `func (p *Plans) validateStartState`: true iff Start refuses the plan as stale -/\n")
		b.WriteString("def staleSubmission (maxSubmit now submit : Nat) : Bool :=\n  " + stale + "\n")
	}
	b.WriteString("\nend Coercion.Generated.T10\n")
	write("T10.lean", b.String())
}

// the staleness condition over (submit, maxSubmit, now)
func c10cond(c *t8ctx, e ast.Expr) string {
	s := c.cond(e)
	return s
}
