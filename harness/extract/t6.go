package main

// T6: translator for the block- and plan-level repair of internal/execute/sm/recovery.go (`fixBlock`, `fixPlan`).
//
// Same idea as T1 (a pointer receiver/parameter that is mutated in place becomes a value that is returned; a range loop
// becomes a List.foldl whose state is the enclosing object, an "already returned" flag, the local counters and the rebuilt
// list), extended by what these two functions need:
//   * optional check groups: `if x.F != nil { … }` becomes `if x.f.isSome then … else …`; `x.F.State.Status` is only accepted
//     under such a guard and reads `(x.f.map (·.status)).getD Status.notStarted`; `fixChecks(x.F)`, `checksFailed(x.F)`,
//     `checksCompleted(x.F)` go to the Option versions of the functions T1 translates (their own nil guards);
//   * `return` inside a loop body (sets the flag: later elements are passed through untouched, the function returns after the loop);
//   * `var failed atomic.Int32` / `failed.Add(1)` / `failed.Load()`: a counter;
//   * the worker group of fixBlock: `g := context.Pool(…).Group()`, `g.Go(ctx, func(ctx) error { err := s.execSeq(ctx, seq);
//     if err != nil { … }; return err })`, `g.Wait(…)`. Executing a sequence is the parameter
//     `exec : Sequence → Sequence × Bool` (the sequence afterwards, and whether an error came back); the goroutines are joined before
//     anything reads the counter, every one touches its own sequence only, and the counter is atomic, so the translation runs
//     them in list order (an assumption recorded in the trusted base);
//   * a slice that is only appended to and never read (`seqs`) is dropped.
// Anything else makes the translator emit an unsupported marker, which fails the Lean build (a broken obligation).

import (
	"fmt"
	"go/ast"
	"go/token"
	"go/types"
	"strings"
)

var t6ObjFields = map[string]string{"State.Status": "status", "State.Start": "tStart", "State.End": "tEnd"}
var t6CheckFields = map[string]string{"BypassChecks": "bypass", "PreChecks": "pre", "ContChecks": "cont", "PostChecks": "post", "DeferredChecks": "deferred"}
var t6ListFields = map[string]struct{ lean, elem string }{"Blocks": {"blocks", "Block"}, "Sequences": {"seqs", "Sequence"}}

type t6ctx struct {
	fname    string
	recv     string            // receiver name (States)
	objs     map[string]string // object variables in scope: Go name -> Lean type
	outer    string            // the function's object
	elem     string            // loop element ("" outside loops)
	locals   []string          // counters, in order of declaration
	nonNil   map[string]bool   // "x.F" known to be non-nil here
	ignored  map[string]bool   // write-only locals (group handle, appended slice)
	errVar   string            // name bound to exec's error inside the worker closure
	loopDefs *[]string
	nloops   *int
	err      *string
}

func (c *t6ctx) fail(format string, a ...any) string {
	if *c.err == "" {
		*c.err = fmt.Sprintf(format, a...)
	}
	return "unsupported_go_construct"
}

func (c *t6ctx) isLocal(n string) bool {
	for _, l := range c.locals {
		if l == n {
			return true
		}
	}
	return false
}

func (c *t6ctx) fork() *t6ctx {
	d := *c
	d.objs = map[string]string{}
	for k, v := range c.objs {
		d.objs[k] = v
	}
	d.nonNil = map[string]bool{}
	for k, v := range c.nonNil {
		d.nonNil[k] = v
	}
	d.locals = append([]string{}, c.locals...)
	return &d
}

// root and path of a selector chain: p.BypassChecks.State.Status -> ("p", "BypassChecks.State.Status")
func selPath(e ast.Expr) (string, string, bool) {
	switch x := e.(type) {
	case *ast.Ident:
		return x.Name, "", true
	case *ast.SelectorExpr:
		r, p, ok := selPath(x.X)
		if !ok {
			return "", "", false
		}
		if p == "" {
			return r, x.Sel.Name, true
		}
		return r, p + "." + x.Sel.Name, true
	}
	return "", "", false
}

func (c *t6ctx) expr(e ast.Expr) string {
	switch x := e.(type) {
	case *ast.ParenExpr:
		return "(" + c.expr(x.X) + ")"
	case *ast.BasicLit:
		if x.Kind == token.INT {
			return x.Value
		}
	case *ast.Ident:
		if x.Name == "true" || x.Name == "false" {
			return x.Name
		}
		if c.isLocal(x.Name) {
			return x.Name
		}
		return c.fail("identifier %s", x.Name)
	case *ast.CompositeLit:
		if types.ExprString(x.Type) == "time.Time" && len(x.Elts) == 0 {
			return "0"
		}
	case *ast.SelectorExpr:
		root, p, ok := selPath(x)
		if !ok {
			break
		}
		if root == "workflow" {
			if s, ok := t1Status[p]; ok {
				return "Status" + s
			}
			break
		}
		if _, isObj := c.objs[root]; isObj {
			if f, ok := t6ObjFields[p]; ok {
				return root + "." + f
			}
			// x.F.State.Status under a non-nil guard
			for gf, lf := range t6CheckFields {
				if p == gf+".State.Status" {
					if !c.nonNil[root+"."+gf] {
						return c.fail("%s read without a nil guard", types.ExprString(x))
					}
					return "((" + root + "." + lf + ".map (·.status)).getD Status.notStarted)"
				}
			}
		}
	case *ast.CallExpr:
		s := types.ExprString(x)
		if s == "time.Now()" {
			return "now"
		}
		if id, ok := x.Fun.(*ast.Ident); ok && len(x.Args) == 1 {
			root, p, ok := selPath(x.Args[0])
			_, isObj := c.objs[root]
			switch id.Name {
			case "len":
				if lf, ok2 := t6ListFields[p]; ok && isObj && ok2 {
					return root + "." + lf.lean + ".length"
				}
			case "checksFailed", "checksCompleted":
				if lf, ok2 := t6CheckFields[p]; ok && isObj && ok2 {
					return "(T1." + id.Name + "Opt " + root + "." + lf + ")"
				}
			}
		}
		// failed.Load()
		if sel, ok := x.Fun.(*ast.SelectorExpr); ok && sel.Sel.Name == "Load" && len(x.Args) == 0 {
			if id, ok := sel.X.(*ast.Ident); ok && c.isLocal(id.Name) {
				return id.Name
			}
		}
	case *ast.BinaryExpr:
		if id, ok := x.Y.(*ast.Ident); ok && id.Name == "nil" {
			if l, ok := x.X.(*ast.Ident); ok && c.errVar != "" && l.Name == c.errVar && x.Op == token.NEQ {
				return "r.2"
			}
			root, p, ok := selPath(x.X)
			if lf, ok2 := t6CheckFields[p]; ok && ok2 && c.objs[root] != "" {
				if x.Op == token.NEQ {
					return root + "." + lf + ".isSome"
				}
				return "(!" + root + "." + lf + ".isSome)"
			}
			return c.fail("nil comparison %s", types.ExprString(x))
		}
		ops := map[token.Token]string{token.EQL: "==", token.NEQ: "!=", token.LSS: "<", token.GTR: ">", token.LEQ: "<=", token.GEQ: ">=", token.LAND: "&&", token.LOR: "||", token.ADD: "+"}
		op, ok := ops[x.Op]
		if !ok {
			return c.fail("operator %s", x.Op)
		}
		l, r := c.expr(x.X), c.expr(x.Y)
		switch x.Op {
		case token.LSS, token.GTR, token.LEQ, token.GEQ:
			return "(decide (" + l + " " + op + " " + r + "))"
		}
		return "(" + l + " " + op + " " + r + ")"
	case *ast.UnaryExpr:
		if x.Op == token.NOT {
			return "(!" + c.expr(x.X) + ")"
		}
	}
	return c.fail("expression %s", types.ExprString(e))
}

// guardField: cond is `x.F != nil` → "x.F"
func (c *t6ctx) guardField(cond ast.Expr) string {
	b, ok := cond.(*ast.BinaryExpr)
	if !ok || b.Op != token.NEQ || types.ExprString(b.Y) != "nil" {
		return ""
	}
	root, p, ok := selPath(b.X)
	if _, isF := t6CheckFields[p]; ok && isF && c.objs[root] != "" {
		return root + "." + p
	}
	return ""
}

func hasReturn(ss []ast.Stmt) bool {
	return len(ss) > 0 && func() bool { _, ok := ss[len(ss)-1].(*ast.ReturnStmt); return ok }()
}

func containsReturn(ss []ast.Stmt) bool {
	found := false
	for _, s := range ss {
		ast.Inspect(s, func(n ast.Node) bool {
			switch n.(type) {
			case *ast.FuncLit:
				return false
			case *ast.ReturnStmt:
				found = true
			}
			return true
		})
	}
	return found
}

// the state a statement can change: the object variables in scope and the counters
func (c *t6ctx) stateNames() []string {
	names := []string{c.outer}
	if c.elem != "" {
		names = append(names, c.elem)
	}
	return append(names, c.locals...)
}

// stmts compiles a statement list to a Lean expression. `tail` is the value when control falls off the end of the list,
// `ret` the value of a `return`. Both are small (a variable or a tuple), so they may be repeated; the statements that
// follow a conditional are never duplicated: a conditional that can fall through and is followed by more statements
// yields the changed state (and, if it contains a `return`, a flag) which is then rebound.
func (c *t6ctx) stmts(ss []ast.Stmt, ind string, tail, ret func() string) string {
	if len(ss) == 0 {
		return tail()
	}
	s, rest := ss[0], ss[1:]
	next := func(ind string) string { return c.stmts(rest, ind, tail, ret) }
	// scoped compilation of a branch body
	scoped := func(body []ast.Stmt, ind, guard string, tail, ret func() string) string {
		saveL, saveN := append([]string{}, c.locals...), c.nonNil
		nn := map[string]bool{}
		for k2, v := range saveN {
			nn[k2] = v
		}
		if guard != "" {
			nn[guard] = true
		}
		c.nonNil = nn
		out := c.stmts(body, ind, tail, ret)
		c.locals, c.nonNil = saveL, saveN
		return out
	}
	// cond/body pairs (one for an if, one per case for a switch) followed by `rest`
	branches := func(conds []string, bodies [][]ast.Stmt, guards []string) string {
		allReturn, anyReturn := true, false
		for _, b := range bodies {
			if !hasReturn(b) {
				allReturn = false
			}
			if containsReturn(b) {
				anyReturn = true
			}
		}
		chain := func(ind string, tail, ret func() string, final string) string {
			var out strings.Builder
			for i := range conds {
				out.WriteString("if " + conds[i] + " then\n" + ind + "  " + scoped(bodies[i], ind+"  ", guards[i], tail, ret) + "\n" + ind + "else ")
			}
			out.WriteString(final)
			return out.String()
		}
		if len(rest) == 0 {
			return chain(ind, tail, ret, "\n"+ind+"  "+tail())
		}
		if allReturn {
			return chain(ind, tail, ret, "\n"+ind+"  "+next(ind+"  "))
		}
		st := tupleOf(c.stateNames())
		if !anyReturn {
			fall := func() string { return st }
			return "let " + st + " := (" + chain(ind+"  ", fall, ret, st) + ")\n" + ind + next(ind)
		}
		fall := func() string { return "(" + st + ", false)" }
		early := func() string { return "(" + st + ", true)" }
		return "let r := (" + chain(ind+"  ", fall, early, fall()) + ")\n" + ind + "let " + st + " := r.1\n" + ind + "if r.2 then " + ret() + " else\n" + ind + next(ind)
	}
	switch x := s.(type) {
	case *ast.ReturnStmt:
		if len(x.Results) != 0 {
			return c.fail("return with a value")
		}
		return ret()
	case *ast.IfStmt:
		if x.Init != nil || x.Else != nil {
			return c.fail("if with init/else")
		}
		return branches([]string{c.expr(x.Cond)}, [][]ast.Stmt{x.Body.List}, []string{c.guardField(x.Cond)})
	case *ast.SwitchStmt:
		if x.Init != nil {
			return c.fail("switch with init")
		}
		var conds, guards []string
		var bodies [][]ast.Stmt
		for _, cl := range x.Body.List {
			cc := cl.(*ast.CaseClause)
			if cc.List == nil {
				return c.fail("switch default")
			}
			var cs []string
			for _, e := range cc.List {
				if x.Tag != nil {
					cs = append(cs, "("+c.expr(x.Tag)+" == "+c.expr(e)+")")
				} else {
					cs = append(cs, c.expr(e))
				}
			}
			conds = append(conds, strings.Join(cs, " || "))
			bodies = append(bodies, cc.Body)
			guards = append(guards, "")
		}
		return branches(conds, bodies, guards)
	case *ast.IncDecStmt:
		id, ok := x.X.(*ast.Ident)
		if !ok || !c.isLocal(id.Name) || x.Tok != token.INC {
			return c.fail("inc/dec of %s", types.ExprString(x.X))
		}
		return "let " + id.Name + " := " + id.Name + " + 1\n" + ind + next(ind)
	case *ast.DeclStmt:
		// var failed atomic.Int32
		gd, ok := x.Decl.(*ast.GenDecl)
		if ok && gd.Tok == token.VAR && len(gd.Specs) == 1 {
			vs := gd.Specs[0].(*ast.ValueSpec)
			if len(vs.Names) == 1 && len(vs.Values) == 0 && types.ExprString(vs.Type) == "atomic.Int32" {
				c.locals = append(c.locals, vs.Names[0].Name)
				return "let " + vs.Names[0].Name + " : Nat := 0\n" + ind + next(ind)
			}
		}
		return c.fail("declaration in %s", c.fname)
	case *ast.AssignStmt:
		if len(x.Lhs) != 1 || len(x.Rhs) != 1 {
			return c.fail("assignment form")
		}
		if x.Tok == token.DEFINE {
			id, ok := x.Lhs[0].(*ast.Ident)
			if !ok {
				return c.fail("definition target")
			}
			if lit, ok := x.Rhs[0].(*ast.BasicLit); ok && lit.Kind == token.INT {
				c.locals = append(c.locals, id.Name)
				return "let " + id.Name + " : Nat := " + lit.Value + "\n" + ind + next(ind)
			}
			rhs := types.ExprString(x.Rhs[0])
			if rhs == "context.Pool(context.Background()).Group()" || rhs == "make([]*workflow.Sequence, 0)" {
				if !c.ignored[id.Name] {
					return c.fail("%s is read somewhere", id.Name)
				}
				return next(ind)
			}
			return c.fail("local definition %s := %s", id.Name, rhs)
		}
		if x.Tok != token.ASSIGN {
			return c.fail("assignment operator")
		}
		// seqs = append(seqs, seq)
		if id, ok := x.Lhs[0].(*ast.Ident); ok && c.ignored[id.Name] {
			if call, ok := x.Rhs[0].(*ast.CallExpr); ok && types.ExprString(call.Fun) == "append" && len(call.Args) == 2 && types.ExprString(call.Args[0]) == id.Name {
				return next(ind)
			}
			return c.fail("assignment to %s", id.Name)
		}
		root, p, ok := selPath(x.Lhs[0])
		f, ok2 := t6ObjFields[p]
		if !ok || !ok2 || c.objs[root] == "" {
			return c.fail("assignment target %s", types.ExprString(x.Lhs[0]))
		}
		return "let " + root + " := { " + root + " with " + f + " := " + c.expr(x.Rhs[0]) + " }\n" + ind + next(ind)
	case *ast.ExprStmt:
		call, ok := x.X.(*ast.CallExpr)
		if !ok {
			return c.fail("expression statement")
		}
		fun := types.ExprString(call.Fun)
		// failed.Add(1)
		if sel, ok := call.Fun.(*ast.SelectorExpr); ok && sel.Sel.Name == "Add" && len(call.Args) == 1 && types.ExprString(call.Args[0]) == "1" {
			if id, ok := sel.X.(*ast.Ident); ok && c.isLocal(id.Name) {
				return "let " + id.Name + " := " + id.Name + " + 1\n" + ind + next(ind)
			}
		}
		if sel, ok := call.Fun.(*ast.SelectorExpr); ok {
			if id, ok := sel.X.(*ast.Ident); ok && c.ignored[id.Name] && c.objs[id.Name] == "" {
				switch sel.Sel.Name {
				case "Wait": // g.Wait(ctx): the join; workers were already run in order
					return next(ind)
				case "Go":
					return c.worker(call, ind, rest, tail, ret)
				}
			}
		}
		if len(call.Args) == 1 {
			root, p, ok := selPath(call.Args[0])
			typ := c.objs[root]
			switch {
			case fun == "fixChecks" && ok && typ != "" && t6CheckFields[p] != "":
				lf := t6CheckFields[p]
				return "let " + root + " := { " + root + " with " + lf + " := T1.fixChecksOpt " + root + "." + lf + " }\n" + ind + next(ind)
			case fun == "fixSeq" && ok && p == "" && typ == "Sequence":
				return "let " + root + " := T1.fixSeq now " + root + "\n" + ind + next(ind)
			case fun == c.recv+".fixBlock" && c.objs[c.recv] == "" && ok && p == "" && typ == "Block":
				return "let " + root + " := fixBlock exec now " + root + "\n" + ind + next(ind)
			}
		}
		return c.fail("call %s", types.ExprString(call))
	case *ast.RangeStmt:
		root, p, ok := selPath(x.X)
		lf, ok2 := t6ListFields[p]
		val, ok3 := x.Value.(*ast.Ident)
		if !ok || !ok2 || !ok3 || root != c.outer || c.elem != "" {
			return c.fail("range form")
		}
		if key, ok := x.Key.(*ast.Ident); !ok || key.Name != "_" {
			return c.fail("range key")
		}
		locals := append([]string{}, c.locals...)
		inner := c.fork()
		inner.elem = val.Name
		inner.objs[val.Name] = lf.elem
		outer := c.outer
		term := func(done bool) func() string {
			return func() string {
				return fmt.Sprintf("((%s, %v), %s, acc.2.2 ++ [%s])", outer, done, tupleOf(locals), val.Name)
			}
		}
		body := inner.stmts(x.Body.List, "  ", term(false), term(true))
		*c.nloops++
		lname := fmt.Sprintf("%s_loop%d", c.fname, *c.nloops)
		accT := fmt.Sprintf("(%s × Bool) × %s × List %s", c.objs[c.outer], tupleType(len(locals)), lf.elem)
		var d strings.Builder
		fmt.Fprintf(&d, "/-- body of loop %d of `%s` (state: the %s and whether the function has returned, the counters, the rebuilt list) -/\n", *c.nloops, c.fname, c.objs[c.outer])
		fmt.Fprintf(&d, "def %s (exec : Sequence → Sequence × Bool) (now : Nat) (acc : %s) (%s : %s) : %s :=\n", lname, accT, val.Name, lf.elem, accT)
		fmt.Fprintf(&d, "  let %s := acc.1.1\n  let %s := acc.2.1\n", outer, tuplePat(locals))
		fmt.Fprintf(&d, "  if acc.1.2 then ((%s, true), %s, acc.2.2 ++ [%s]) else\n  %s\n\n", outer, tupleOf(locals), val.Name, body)
		*c.loopDefs = append(*c.loopDefs, d.String())
		var b strings.Builder
		fmt.Fprintf(&b, "let r := %s.%s.foldl (%s exec now) ((%s, false), %s, [])\n", outer, lf.lean, lname, outer, tupleOf(locals))
		fmt.Fprintf(&b, "%slet %s := r.1.1\n", ind, outer)
		fmt.Fprintf(&b, "%slet %s := r.2.1\n", ind, tuplePat(locals))
		fmt.Fprintf(&b, "%slet %s := { %s with %s := r.2.2 }\n", ind, outer, outer, lf.lean)
		fmt.Fprintf(&b, "%sif r.1.2 then %s else\n%s%s", ind, ret(), ind, next(ind))
		return b.String()
	}
	return c.fail("statement %T", s)
}

// worker: g.Go(ctx, func(ctx context.Context) error { err := s.execSeq(ctx, seq); if err != nil { … }; return err })
func (c *t6ctx) worker(call *ast.CallExpr, ind string, rest []ast.Stmt, tail, ret func() string) string {
	if len(call.Args) != 2 || c.elem == "" {
		return c.fail("worker call form")
	}
	fl, ok := call.Args[1].(*ast.FuncLit)
	if !ok || len(fl.Body.List) != 3 {
		return c.fail("worker closure form")
	}
	as, ok := fl.Body.List[0].(*ast.AssignStmt)
	if !ok || as.Tok != token.DEFINE || len(as.Lhs) != 1 || len(as.Rhs) != 1 {
		return c.fail("worker closure: first statement")
	}
	errName := types.ExprString(as.Lhs[0])
	ec, ok := as.Rhs[0].(*ast.CallExpr)
	if !ok || types.ExprString(ec.Fun) != c.recv+".execSeq" || c.objs[c.recv] != "" || len(ec.Args) != 2 || types.ExprString(ec.Args[1]) != c.elem {
		return c.fail("worker closure: not execSeq of the loop element")
	}
	ifs, ok := fl.Body.List[1].(*ast.IfStmt)
	rs, ok2 := fl.Body.List[2].(*ast.ReturnStmt)
	if !ok || !ok2 || len(rs.Results) != 1 || types.ExprString(rs.Results[0]) != errName || containsReturn(ifs.Body.List) {
		return c.fail("worker closure: tail")
	}
	save := c.errVar
	c.errVar = errName
	cond := c.expr(ifs.Cond)
	c.errVar = save
	// the closure's `if err != nil { … }` followed by the statements after g.Go in the loop body
	st := tupleOf(c.stateNames())
	saveL := append([]string{}, c.locals...)
	body := c.stmts(ifs.Body.List, ind+"  ", func() string { return st }, ret)
	c.locals = saveL
	return "let r := exec " + c.elem + "\n" + ind + "let " + c.elem + " := r.1\n" + ind + "let " + st + " := (if " + cond + " then\n" + ind + "  " + body + "\n" + ind + "else " + st + ")\n" + ind + c.stmts(rest, ind, tail, ret)
}

// write-only locals: the worker group and slices that are only appended to
func t6Ignored(fd *ast.FuncDecl) map[string]bool {
	cand := map[string]bool{}
	ast.Inspect(fd.Body, func(n ast.Node) bool {
		if as, ok := n.(*ast.AssignStmt); ok && as.Tok == token.DEFINE && len(as.Lhs) == 1 && len(as.Rhs) == 1 {
			rhs := types.ExprString(as.Rhs[0])
			if rhs == "context.Pool(context.Background()).Group()" || rhs == "make([]*workflow.Sequence, 0)" {
				cand[types.ExprString(as.Lhs[0])] = true
			}
		}
		return true
	})
	// a slice candidate must only occur as `x = append(x, …)`: count identifier uses
	for name := range cand {
		uses, okUses := 0, 0
		ast.Inspect(fd.Body, func(n ast.Node) bool {
			switch x := n.(type) {
			case *ast.Ident:
				if x.Name == name {
					uses++
				}
			case *ast.AssignStmt:
				if len(x.Lhs) == 1 && len(x.Rhs) == 1 && types.ExprString(x.Lhs[0]) == name {
					if x.Tok == token.DEFINE {
						okUses++
					} else if call, ok := x.Rhs[0].(*ast.CallExpr); ok && types.ExprString(call.Fun) == "append" && len(call.Args) == 2 && types.ExprString(call.Args[0]) == name {
						okUses += 2
					}
				}
			case *ast.CallExpr: // g.Go / g.Wait
				if sel, ok := x.Fun.(*ast.SelectorExpr); ok && types.ExprString(sel.X) == name && (sel.Sel.Name == "Go" || sel.Sel.Name == "Wait") {
					okUses++
				}
			}
			return true
		})
		if uses != okUses {
			delete(cand, name)
		}
	}
	return cand
}

func t6Func(f *ast.File, name, typ string) string {
	var decl *ast.FuncDecl
	for _, d := range f.Decls {
		if fd, ok := d.(*ast.FuncDecl); ok && fd.Name.Name == name && fd.Body != nil {
			decl = fd
		}
	}
	errMsg := ""
	var loopDefs []string
	nloops := 0
	body := ""
	param := ""
	if decl == nil || decl.Recv == nil || len(decl.Recv.List) != 1 || len(decl.Recv.List[0].Names) != 1 || len(decl.Type.Params.List) != 1 ||
		len(decl.Type.Params.List[0].Names) != 1 || types.ExprString(decl.Type.Params.List[0].Type) != "*workflow."+typ || decl.Type.Results != nil {
		errMsg = "function not found or unexpected signature"
	} else {
		param = decl.Type.Params.List[0].Names[0].Name
		c := &t6ctx{fname: name, recv: decl.Recv.List[0].Names[0].Name, objs: map[string]string{param: typ}, outer: param, nonNil: map[string]bool{},
			ignored: t6Ignored(decl), loopDefs: &loopDefs, nloops: &nloops, err: &errMsg}
		body = c.stmts(decl.Body.List, "  ", func() string { return param }, func() string { return param })
	}
	var out strings.Builder
	if errMsg != "" {
		fmt.Fprintf(&out, "/-- translated from `%s` (internal/execute/sm/recovery.go) -/\n-- UNSUPPORTED by the translator: %s\ndef %s : Unit := unsupported_go_construct\n\n", name, errMsg, name)
		return out.String()
	}
	for _, d := range loopDefs {
		out.WriteString(d)
	}
	fmt.Fprintf(&out, "/-- translated from `func (s *States) %s` (internal/execute/sm/recovery.go) -/\ndef %s (exec : Sequence → Sequence × Bool) (now : Nat) (%s : %s) : %s :=\n  %s\n\n", name, name, param, typ, typ, body)
	return out.String()
}

// t6 writes Generated/T6.lean
func t6() {
	var b strings.Builder
	b.WriteString("import CoercionModel.Generated.T1\nset_option linter.unusedVariables false\nnamespace Coercion.Generated.T6\nopen Coercion\nopen Coercion.Generated\n\n")
	if _, f := parseFile("internal/execute/sm/recovery.go"); f != nil {
		b.WriteString(t6Func(f, "fixBlock", "Block"))
		b.WriteString(t6Func(f, "fixPlan", "Plan"))
	} else {
		b.WriteString("def recoveryGoMissing : Unit := source_file_not_found\n")
	}
	b.WriteString("end Coercion.Generated.T6\n")
	write("T6.lean", b.String())
}
