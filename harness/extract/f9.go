package main

import (
	"fmt"
	"go/ast"
	"go/token"
	"strings"
)

// callName renders the callee of a call as the last two components of its selector chain
// (e.startMu.Lock -> "startMu.Lock", e.runPlan -> "e.runPlan", close -> "close").
func callName(c *ast.CallExpr) string {
	switch f := c.Fun.(type) {
	case *ast.Ident:
		return f.Name
	case *ast.SelectorExpr:
		switch x := f.X.(type) {
		case *ast.SelectorExpr:
			return x.Sel.Name + "." + f.Sel.Name
		case *ast.Ident:
			return x.Name + "." + f.Sel.Name
		}
		return f.Sel.Name
	}
	return ""
}

func findMethod(f *ast.File, name string) *ast.FuncDecl {
	if f == nil {
		return nil
	}
	for _, d := range f.Decls {
		if fn, ok := d.(*ast.FuncDecl); ok && fn.Recv != nil && fn.Name.Name == name && fn.Body != nil {
			return fn
		}
	}
	return nil
}

// F9: order facts about Start / runPlan (internal/execute/execute.go) and writeEverything (sm.go):
//   - startOrder: the calls of interest in Start's body, in source order (straight-line code)
//   - registerBeforeSpawn: runPlan calls waiters.Set before it submits the goroutine
//   - releaseDeferred: in the goroutine, close(waiter)/waiters.Del happen in a deferred function while
//     the state machine (e.runner) is called from the body, i.e. the waiter is released after the run
//   - flushOrder: "reverse-walk" if the loop of writeEverything that performs the Update* calls counts
//     down over the collected walk items, "walk" if it ranges over walk.Plan directly
func f9() {
	_, ef := parseFile("internal/execute/execute.go")
	// matched by the last component(s) only, so that renaming the receiver does not matter
	interesting := func(name string) (string, bool) {
		for _, suf := range []string{"startMu.Lock", "waiters.Get", "store.Read"} {
			if name == suf {
				return suf, true
			}
		}
		for _, m := range []string{"validateStartState", "runPlan"} {
			if strings.HasSuffix(name, "."+m) {
				return m, true
			}
		}
		return "", false
	}
	var startOrder []string
	if fn := findMethod(ef, "Start"); fn != nil {
		ast.Inspect(fn.Body, func(n ast.Node) bool {
			if _, ok := n.(*ast.DeferStmt); ok {
				return false
			}
			if c, ok := n.(*ast.CallExpr); ok {
				if v, ok := interesting(callName(c)); ok {
					startOrder = append(startOrder, v)
				}
			}
			return true
		})
	}
	registerBeforeSpawn, releaseDeferred := false, false
	if fn := findMethod(ef, "runPlan"); fn != nil {
		var setPos, submitPos token.Pos
		var lit *ast.FuncLit
		ast.Inspect(fn.Body, func(n ast.Node) bool {
			if c, ok := n.(*ast.CallExpr); ok {
				switch {
				case callName(c) == "waiters.Set" && setPos == 0:
					setPos = c.Pos()
				case (callName(c) == "Submit" || strings.HasSuffix(callName(c), ".Submit")) && submitPos == 0:
					submitPos = c.Pos()
					for _, a := range c.Args {
						if l, ok := a.(*ast.FuncLit); ok {
							lit = l
						}
					}
				}
			}
			return true
		})
		registerBeforeSpawn = setPos != 0 && submitPos != 0 && setPos < submitPos
		if lit != nil {
			inDefer := map[string]bool{}
			inBody := map[string]bool{}
			for _, st := range lit.Body.List {
				target := inBody
				if _, ok := st.(*ast.DeferStmt); ok {
					target = inDefer
				}
				ast.Inspect(st, func(n ast.Node) bool {
					if c, ok := n.(*ast.CallExpr); ok {
						target[callName(c)] = true
					}
					return true
				})
			}
			hasSuffix := func(m map[string]bool, suf string) bool {
				for k := range m {
					if strings.HasSuffix(k, suf) {
						return true
					}
				}
				return false
			}
			releaseDeferred = inDefer["close"] && inDefer["waiters.Del"] && !inBody["close"] && !inBody["waiters.Del"] && hasSuffix(inBody, ".runner") && !hasSuffix(inDefer, ".runner")
		}
	}
	flushOrder := "unknown"
	_, sf := parseFile("internal/execute/sm/sm.go")
	if fn := findMethod(sf, "writeEverything"); fn != nil {
		hasUpdate := func(n ast.Node) bool {
			found := false
			ast.Inspect(n, func(m ast.Node) bool {
				if c, ok := m.(*ast.CallExpr); ok && strings.HasSuffix(callName(c), ".UpdatePlan") {
					found = true
				}
				return true
			})
			return found
		}
		ast.Inspect(fn.Body, func(n ast.Node) bool {
			switch l := n.(type) {
			case *ast.RangeStmt:
				if hasUpdate(l.Body) {
					flushOrder = "walk"
				}
			case *ast.ForStmt:
				if hasUpdate(l.Body) {
					if p, ok := l.Post.(*ast.IncDecStmt); ok && p.Tok == token.DEC {
						flushOrder = "reverse-walk"
					} else {
						flushOrder = "other-loop"
					}
				}
			}
			return true
		})
	}
	var b strings.Builder
	b.WriteString("namespace Coercion.Generated.F9\n\n")
	fmt.Fprintf(&b, "/-- calls of interest in the body of (*Plans).Start, in source order -/\ndef startOrder : List String := %s\n\n", leanStrList(startOrder))
	fmt.Fprintf(&b, "/-- runPlan registers the waiter before it submits the goroutine -/\ndef registerBeforeSpawn : Bool := %v\n\n", registerBeforeSpawn)
	fmt.Fprintf(&b, "/-- the goroutine releases (close + Del) the waiter in a deferred function, the state machine runs in its body -/\ndef releaseDeferred : Bool := %v\n\n", releaseDeferred)
	fmt.Fprintf(&b, "/-- order in which writeEverything issues its Update* calls relative to walk.Plan -/\ndef flushOrder : String := %s\n\n", leanStr(flushOrder))
	b.WriteString("end Coercion.Generated.F9\n")
	write("F9.lean", b.String())
}
