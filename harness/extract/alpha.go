package main

import (
	"fmt"
	"go/ast"
	"go/token"
	"strings"
	"unicode"
)

// localNames maps every name declared inside fn (receiver, parameters, results, :=, var, range, function
// literal parameters, type-switch bindings) to v0, v1, … in order of first declaration, so that skeletons do
// not depend on how locals are called. Fields, methods, packages and package-level names keep their names.
func localNames(fn *ast.FuncDecl) map[string]string {
	m := map[string]string{}
	add := func(id *ast.Ident) {
		if id == nil || id.Name == "_" {
			return
		}
		if _, ok := m[id.Name]; !ok {
			m[id.Name] = fmt.Sprintf("v%d", len(m))
		}
	}
	fields := func(fl *ast.FieldList) {
		if fl == nil {
			return
		}
		for _, f := range fl.List {
			for _, n := range f.Names {
				add(n)
			}
		}
	}
	fields(fn.Recv)
	fields(fn.Type.Params)
	fields(fn.Type.Results)
	ast.Inspect(fn.Body, func(n ast.Node) bool {
		switch x := n.(type) {
		case *ast.AssignStmt:
			if x.Tok == token.DEFINE {
				for _, l := range x.Lhs {
					if id, ok := l.(*ast.Ident); ok {
						add(id)
					}
				}
			}
		case *ast.RangeStmt:
			if x.Tok == token.DEFINE {
				if id, ok := x.Key.(*ast.Ident); ok {
					add(id)
				}
				if id, ok := x.Value.(*ast.Ident); ok {
					add(id)
				}
			}
		case *ast.ValueSpec:
			for _, id := range x.Names {
				add(id)
			}
		case *ast.FuncLit:
			fields(x.Type.Params)
			fields(x.Type.Results)
		}
		return true
	})
	return m
}

// renameIdents replaces whole identifiers of s that are keys of m, except after a '.' (fields, methods,
// package members) and inside string / rune literals.
func renameIdents(s string, m map[string]string) string {
	if len(m) == 0 {
		return s
	}
	var b strings.Builder
	rs := []rune(s)
	i := 0
	for i < len(rs) {
		r := rs[i]
		if r == '"' || r == '`' || r == '\'' {
			q := r
			j := i + 1
			for j < len(rs) && rs[j] != q {
				if rs[j] == '\\' && q != '`' {
					j++
				}
				j++
			}
			if j >= len(rs) {
				j = len(rs) - 1
			}
			b.WriteString(string(rs[i : j+1]))
			i = j + 1
			continue
		}
		if unicode.IsLetter(r) || r == '_' {
			j := i
			for j < len(rs) && (unicode.IsLetter(rs[j]) || unicode.IsDigit(rs[j]) || rs[j] == '_') {
				j++
			}
			word := string(rs[i:j])
			// previous non-space rune
			k := i - 1
			for k >= 0 && rs[k] == ' ' {
				k--
			}
			if nv, ok := m[word]; ok && !(k >= 0 && rs[k] == '.') {
				b.WriteString(nv)
			} else {
				b.WriteString(word)
			}
			i = j
			continue
		}
		b.WriteRune(r)
		i++
	}
	return b.String()
}

var skelKeywords = []string{"if ", "for ", "range ", "switch ", "case ", "call ", "set ", "send ", "recv "}

// alphaToken renames the locals in one skeleton token, leaving its leading keyword alone.
func alphaToken(tok string, m map[string]string) string {
	for _, kw := range skelKeywords {
		if strings.HasPrefix(tok, kw) {
			return kw + renameIdents(tok[len(kw):], m)
		}
	}
	if strings.HasSuffix(tok, "++") || strings.HasSuffix(tok, "--") {
		return renameIdents(tok, m)
	}
	return tok
}
