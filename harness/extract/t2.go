package main

// T2: translation of workflow/utils/walk/walk.go (Plan, walkChecks, walkBlock, walkSequence) into the
// walker combinators of Model/Walk (`yield`, `andThen`, `forEach`, `whenSome`, `done`).
//
// Recognised statements (anything else: the generated file does not build):
//   if x == nil { return }                              the argument is a value in the model: dropped
//   i := Item{Chain: c, Value: v}; if !yield(i) { return [false] }     |  yield cons ⟨kind v, v.id, c⟩
//   if !yield(Item{...}) { return [false] }                           |
//   chain := []workflow.Object{p}          /  chain = append(chain, v)   let chain := [p.id] / chain ++ [v.id]
//   if x.F != nil { <guarded call of walkT(yield, chain, x.F)> }         whenSome (walkT cons chain) x.f
//   if x.Fs != nil { for _, e := range x.Fs { if e == nil { continue }; <guarded call or guarded yield> } }
//                                                                         forEach (fun e => …) x.fs
//   return true / end of the closure                                      done
// A "guarded call" is `if ok := f(...); !ok { return [false] }` or `if !f(...) { return [false] }`.
// nil elements of slices are skipped by the code; the model's lists have no nil elements.

import (
	"fmt"
	"go/ast"
	"go/token"
	"go/types"
	"strings"
)

var t2Fields = map[string]string{"BypassChecks": "bypass", "PreChecks": "pre", "ContChecks": "cont", "PostChecks": "post",
	"DeferredChecks": "deferred", "Blocks": "blocks", "Sequences": "seqs", "Actions": "actions"}
var t2ElemType = map[string]string{"Blocks": "Block", "Sequences": "Sequence", "Actions": "Action"}
var t2Kind = map[string]string{"Plan": ".plan", "Checks": ".checks", "Block": ".block", "Sequence": ".sequence", "Action": ".action"}
var t2Walkers = map[string]string{"walkChecks": "walkChecks", "walkBlock": "walkBlock", "walkSequence": "walkSequence"}

type t2ctx struct {
	err   string
	vars  map[string]string // Go variable -> model type (Plan, Checks, Block, Sequence, Action)
	items map[string]string // local Item variables -> Lean item expression
}

func (c *t2ctx) fail(format string, a ...any) string {
	if c.err == "" {
		c.err = fmt.Sprintf(format, a...)
	}
	return "unsupported"
}

// item translates Item{Chain: chain, Value: v} (Chain optional: the plan's item has none)
func (c *t2ctx) item(e ast.Expr) string {
	if id, ok := e.(*ast.Ident); ok {
		if s, ok := c.items[id.Name]; ok {
			return s
		}
	}
	cl, ok := e.(*ast.CompositeLit)
	if !ok || types.ExprString(cl.Type) != "Item" {
		return c.fail("item expression %s", types.ExprString(e))
	}
	chain, val := "[]", ""
	for _, el := range cl.Elts {
		kv, ok := el.(*ast.KeyValueExpr)
		if !ok {
			return c.fail("item literal")
		}
		switch types.ExprString(kv.Key) {
		case "Chain":
			if types.ExprString(kv.Value) != "chain" {
				return c.fail("item chain %s", types.ExprString(kv.Value))
			}
			chain = "chain"
		case "Value":
			val = types.ExprString(kv.Value)
		default:
			return c.fail("item field %s", types.ExprString(kv.Key))
		}
	}
	t, ok := c.vars[val]
	if !ok {
		return c.fail("item value %s", val)
	}
	return "⟨" + t2Kind[t] + ", " + val + ".id, " + chain + "⟩"
}

func isReturnOnly(b *ast.BlockStmt) bool {
	if len(b.List) != 1 {
		return false
	}
	r, ok := b.List[0].(*ast.ReturnStmt)
	if !ok {
		return false
	}
	return len(r.Results) == 0 || (len(r.Results) == 1 && types.ExprString(r.Results[0]) == "false")
}

// guarded recognises `if ok := CALL; !ok { return }` and `if !CALL { return false }` and returns CALL
func guarded(s ast.Stmt) (*ast.CallExpr, bool) {
	ifs, ok := s.(*ast.IfStmt)
	if !ok || ifs.Else != nil || !isReturnOnly(ifs.Body) {
		return nil, false
	}
	if ifs.Init != nil {
		as, ok := ifs.Init.(*ast.AssignStmt)
		if !ok || len(as.Lhs) != 1 || len(as.Rhs) != 1 || as.Tok != token.DEFINE {
			return nil, false
		}
		u, ok := ifs.Cond.(*ast.UnaryExpr)
		if !ok || u.Op != token.NOT || types.ExprString(u.X) != types.ExprString(as.Lhs[0]) {
			return nil, false
		}
		call, ok := as.Rhs[0].(*ast.CallExpr)
		return call, ok
	}
	u, ok := ifs.Cond.(*ast.UnaryExpr)
	if !ok || u.Op != token.NOT {
		return nil, false
	}
	call, ok := u.X.(*ast.CallExpr)
	return call, ok
}

// step translates one guarded call: a yield or a call of another walker
func (c *t2ctx) step(call *ast.CallExpr) string {
	fn := types.ExprString(call.Fun)
	if fn == "yield" && len(call.Args) == 1 {
		return "yield cons " + c.item(call.Args[0])
	}
	if w, ok := t2Walkers[fn]; ok && len(call.Args) == 3 && types.ExprString(call.Args[0]) == "yield" && types.ExprString(call.Args[1]) == "chain" {
		return w + " cons chain " + c.arg(call.Args[2])
	}
	return c.fail("call %s", types.ExprString(call))
}

func (c *t2ctx) arg(e ast.Expr) string {
	switch x := e.(type) {
	case *ast.Ident:
		if _, ok := c.vars[x.Name]; ok {
			return x.Name
		}
	case *ast.SelectorExpr:
		if id, ok := x.X.(*ast.Ident); ok {
			if _, ok := c.vars[id.Name]; ok {
				if f, ok := t2Fields[x.Sel.Name]; ok {
					return id.Name + "." + f
				}
			}
		}
	}
	return c.fail("argument %s", types.ExprString(e))
}

func nilTest(e ast.Expr, op token.Token) (string, bool) {
	b, ok := e.(*ast.BinaryExpr)
	if !ok || b.Op != op || types.ExprString(b.Y) != "nil" {
		return "", false
	}
	return types.ExprString(b.X), true
}

func (c *t2ctx) stmts(ss []ast.Stmt, ind string) string {
	if len(ss) == 0 {
		return "done"
	}
	s, rest := ss[0], ss[1:]
	then := func(a string) string { return "andThen (" + a + ") <|\n" + ind + c.stmts(rest, ind) }
	switch x := s.(type) {
	case *ast.ReturnStmt:
		if len(x.Results) == 0 || types.ExprString(x.Results[0]) == "true" {
			if len(rest) != 0 {
				return c.fail("code after return")
			}
			return "done"
		}
		return c.fail("return %s", types.ExprString(x.Results[0]))
	case *ast.AssignStmt:
		if len(x.Lhs) != 1 || len(x.Rhs) != 1 {
			return c.fail("assignment form")
		}
		lhs, rhs := types.ExprString(x.Lhs[0]), x.Rhs[0]
		// i := Item{...}
		if cl, ok := rhs.(*ast.CompositeLit); ok && types.ExprString(cl.Type) == "Item" && x.Tok == token.DEFINE {
			c.items[lhs] = c.item(rhs)
			return c.stmts(rest, ind)
		}
		if lhs == "chain" {
			// chain := []workflow.Object{p}
			if cl, ok := rhs.(*ast.CompositeLit); ok && types.ExprString(cl.Type) == "[]workflow.Object" && len(cl.Elts) == 1 {
				v := types.ExprString(cl.Elts[0])
				if _, ok := c.vars[v]; ok {
					return "let chain := [" + v + ".id]\n" + ind + c.stmts(rest, ind)
				}
			}
			// chain = append(chain, v)
			if call, ok := rhs.(*ast.CallExpr); ok && types.ExprString(call.Fun) == "append" && len(call.Args) == 2 && types.ExprString(call.Args[0]) == "chain" {
				v := types.ExprString(call.Args[1])
				if _, ok := c.vars[v]; ok {
					return "let chain := chain ++ [" + v + ".id]\n" + ind + c.stmts(rest, ind)
				}
			}
		}
		return c.fail("assignment %s", types.ExprString(x.Lhs[0]))
	case *ast.IfStmt:
		// if x == nil { return }: the argument is a value
		if v, ok := nilTest(x.Cond, token.EQL); ok && x.Init == nil && x.Else == nil && isReturnOnly(x.Body) {
			if _, known := c.vars[v]; known {
				return c.stmts(rest, ind)
			}
		}
		if call, ok := guarded(x); ok {
			return then(c.step(call))
		}
		// if x.F != nil { ... }
		if v, ok := nilTest(x.Cond, token.NEQ); ok && x.Init == nil && x.Else == nil && len(x.Body.List) == 1 {
			sel, ok := x.Cond.(*ast.BinaryExpr).X.(*ast.SelectorExpr)
			if !ok {
				return c.fail("nil test on %s", v)
			}
			field := sel.Sel.Name
			owner := types.ExprString(sel.X)
			if _, known := c.vars[owner]; !known {
				return c.fail("nil test on %s", v)
			}
			lf, ok := t2Fields[field]
			if !ok {
				return c.fail("field %s", field)
			}
			inner := x.Body.List[0]
			if et, isList := t2ElemType[field]; isList {
				// for _, e := range x.Fs { if e == nil { continue }; guarded }
				loop, ok := inner.(*ast.RangeStmt)
				if !ok || types.ExprString(loop.X) != v || loop.Value == nil {
					return c.fail("loop over %s", v)
				}
				e := types.ExprString(loop.Value)
				body := loop.Body.List
				if len(body) == 2 {
					if ifn, ok := body[0].(*ast.IfStmt); ok {
						if nv, ok := nilTest(ifn.Cond, token.EQL); ok && nv == e && len(ifn.Body.List) == 1 {
							if br, ok := ifn.Body.List[0].(*ast.BranchStmt); ok && br.Tok == token.CONTINUE {
								body = body[1:]
							}
						}
					}
				}
				if len(body) != 1 {
					return c.fail("loop body over %s", v)
				}
				call, ok := guarded(body[0])
				if !ok {
					return c.fail("loop body over %s is not a guarded call", v)
				}
				c.vars[e] = et
				st := c.step(call)
				delete(c.vars, e)
				return then("forEach (fun (" + e + " : " + et + ") => " + st + ") " + owner + "." + lf)
			}
			call, ok := guarded(inner)
			if !ok || len(call.Args) != 3 || types.ExprString(call.Args[2]) != v {
				return c.fail("body of the nil test on %s", v)
			}
			w, ok := t2Walkers[types.ExprString(call.Fun)]
			if !ok || types.ExprString(call.Args[0]) != "yield" || types.ExprString(call.Args[1]) != "chain" {
				return c.fail("call in the nil test on %s", v)
			}
			return then("whenSome (" + w + " cons chain) " + owner + "." + lf)
		}
		return c.fail("if %s", types.ExprString(x.Cond))
	}
	return c.fail("statement %T", s)
}

func t2Translate(f *ast.File) string {
	var out strings.Builder
	type target struct {
		goName, leanName, param, typ string
	}
	targets := []target{{"walkChecks", "walkChecks", "", "Checks"}, {"walkSequence", "walkSequence", "", "Sequence"},
		{"walkBlock", "walkBlock", "", "Block"}, {"Plan", "walkPlan", "", "Plan"}}
	for _, t := range targets {
		var decl *ast.FuncDecl
		for _, d := range f.Decls {
			if fd, ok := d.(*ast.FuncDecl); ok && fd.Name.Name == t.goName && fd.Recv == nil {
				decl = fd
			}
		}
		c := &t2ctx{vars: map[string]string{}, items: map[string]string{}}
		text := ""
		hdr := fmt.Sprintf("/-- translated from `func %s` (workflow/utils/walk/walk.go) -/\n", t.goName)
		if decl == nil {
			c.err = "function not found"
		} else if t.goName == "Plan" {
			// func Plan(p *workflow.Plan) iter.Seq[Item] { return func(yield func(Item) bool) { … } }
			ps := decl.Type.Params.List
			if len(ps) != 1 || len(ps[0].Names) != 1 || len(decl.Body.List) != 1 {
				c.err = "shape of Plan"
			} else {
				t.param = ps[0].Names[0].Name
				c.vars[t.param] = "Plan"
				if r, ok := decl.Body.List[0].(*ast.ReturnStmt); ok && len(r.Results) == 1 {
					if lit, ok := r.Results[0].(*ast.FuncLit); ok {
						text = c.stmts(lit.Body.List, "  ")
					} else {
						c.err = "Plan does not return a function literal"
					}
				} else {
					c.err = "Plan does not return a function literal"
				}
			}
		} else {
			ps := decl.Type.Params.List
			if len(ps) != 3 || len(ps[2].Names) != 1 || types.ExprString(ps[2].Type) != "*workflow."+t.typ {
				c.err = "parameters"
			} else {
				t.param = ps[2].Names[0].Name
				c.vars[t.param] = t.typ
				text = c.stmts(decl.Body.List, "  ")
			}
		}
		if c.err != "" {
			fmt.Fprintf(&out, "%s-- UNSUPPORTED by the translator: %s\ndef %s : Unit := unsupported_go_construct\n\n", hdr, c.err, t.leanName)
			continue
		}
		if t.goName == "Plan" {
			fmt.Fprintf(&out, "%sdef %s (cons : Cons) (%s : Plan) : W :=\n  %s\n\n", hdr, t.leanName, t.param, text)
		} else {
			fmt.Fprintf(&out, "%sdef %s (cons : Cons) (chain : List Nat) (%s : %s) : W :=\n  %s\n\n", hdr, t.leanName, t.param, t.typ, text)
		}
	}
	return out.String()
}

// t2 writes Generated/T2.lean: walk.go translated into the walker combinators of Model/Walk.
func t2() {
	var b strings.Builder
	b.WriteString("import CoercionModel.Model.Walk\nnamespace Coercion.Generated.T2\nopen Coercion Coercion.Walk\n\n")
	if _, f := parseFile("workflow/utils/walk/walk.go"); f != nil {
		b.WriteString(t2Translate(f))
	} else {
		b.WriteString("def walkGoMissing : Unit := source_file_not_found\n")
	}
	b.WriteString("end Coercion.Generated.T2\n")
	write("T2.lean", b.String())
}
