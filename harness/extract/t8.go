package main

// T8: translator for `recover.filterPlans` (internal/execute/recovery.go) — which of the Running plans found at
// start-up are resumed and which are closed as stale. The function is two loops over `req.Data.plans`:
//   for i, plan := range req.Data.plans { if <stale test> { req.Data.agedOut = append(req.Data.agedOut, plan); req.Data.plans[i] = nil } }
//   plans := []*workflow.Plan{}; for i := 0; i < len(req.Data.plans); i++ { if req.Data.plans[i] != nil { plans = append(plans, req.Data.plans[i]) } }
//   req.Data.plans = plans
// A plan is Model/Startup.Stored (its `lastUpdate` field is what `lastUpdate(ctx, plan)` computes); the slice with nil
// holes is a `List (Option Stored)`. The stale test is translated as an expression over time values:
// `time.Now()` → now, `r.maxAge` → maxAge, `t.Add(d)` → t + d, `t.Before(u)` → t < u, `t.After(u)` → u < t,
// `now.Sub(t)` → now - t (truncated subtraction is flagged: only accepted as `u.Sub(t) > d`, read as t + d < u).
// Anything else makes the generated file fail to build.

import (
	"fmt"
	"go/ast"
	"go/token"
	"go/types"
	"strings"
)

type t8ctx struct {
	err    string
	nowVar string
	elem   string
}

func (c *t8ctx) fail(format string, a ...any) string {
	if c.err == "" {
		c.err = fmt.Sprintf(format, a...)
	}
	return "unsupported_go_construct"
}

// time-valued expression
func (c *t8ctx) timeExpr(e ast.Expr) string {
	s := types.ExprString(e)
	switch {
	case s == "time.Now()" || (c.nowVar != "" && s == c.nowVar):
		return "now"
	case s == "r.maxAge":
		return "maxAge"
	case s == "p.maxSubmit":
		return "maxSubmit"
	case s == c.elem+".SubmitTime":
		return "submit"
	}
	if call, ok := e.(*ast.CallExpr); ok {
		if id, ok := call.Fun.(*ast.Ident); ok && id.Name == "lastUpdate" && len(call.Args) == 2 && types.ExprString(call.Args[1]) == c.elem {
			return c.elem + ".lastUpdate"
		}
		if sel, ok := call.Fun.(*ast.SelectorExpr); ok && len(call.Args) == 1 && sel.Sel.Name == "Add" {
			return "(" + c.timeExpr(sel.X) + " + " + c.timeExpr(call.Args[0]) + ")"
		}
	}
	return c.fail("time expression %s", s)
}

func (c *t8ctx) cond(e ast.Expr) string {
	if call, ok := e.(*ast.CallExpr); ok {
		if sel, ok := call.Fun.(*ast.SelectorExpr); ok && len(call.Args) == 1 {
			switch sel.Sel.Name {
			case "Before":
				return "decide (" + c.timeExpr(sel.X) + " < " + c.timeExpr(call.Args[0]) + ")"
			case "After":
				return "decide (" + c.timeExpr(call.Args[0]) + " < " + c.timeExpr(sel.X) + ")"
			}
		}
	}
	if b, ok := e.(*ast.BinaryExpr); ok && b.Op == token.GTR {
		// u.Sub(t) > d
		if call, ok := b.X.(*ast.CallExpr); ok {
			if sel, ok := call.Fun.(*ast.SelectorExpr); ok && sel.Sel.Name == "Sub" && len(call.Args) == 1 {
				return "decide (" + c.timeExpr(call.Args[0]) + " + " + c.timeExpr(b.Y) + " < " + c.timeExpr(sel.X) + ")"
			}
		}
	}
	return c.fail("condition %s", types.ExprString(e))
}

func t8() {
	var b strings.Builder
	b.WriteString("import CoercionModel.Model.Startup\nset_option linter.unusedVariables false\nnamespace Coercion.Generated.T8\nopen Coercion Coercion.Startup\n\n")
	_, f := parseFile("internal/execute/recovery.go")
	c := &t8ctx{}
	body := ""
	var fn *ast.FuncDecl
	if f != nil {
		fn = findFunc(f, "filterPlans")
	}
	if fn == nil {
		c.fail("filterPlans not found")
	} else {
		ss := fn.Body.List
		i := 0
		// optional `now := time.Now()`
		if as, ok := ss[i].(*ast.AssignStmt); ok && as.Tok == token.DEFINE && len(as.Lhs) == 1 && len(as.Rhs) == 1 && types.ExprString(as.Rhs[0]) == "time.Now()" {
			c.nowVar = types.ExprString(as.Lhs[0])
			i++
		}
		// loop 1
		stale := ""
		if rs, ok := ss[i].(*ast.RangeStmt); ok && types.ExprString(rs.X) == "req.Data.plans" && rs.Key != nil && rs.Value != nil && len(rs.Body.List) == 1 {
			idx := types.ExprString(rs.Key)
			c.elem = types.ExprString(rs.Value)
			if ifs, ok := rs.Body.List[0].(*ast.IfStmt); ok && ifs.Init == nil && ifs.Else == nil && len(ifs.Body.List) == 2 {
				stale = c.cond(ifs.Cond)
				s0, s1 := stmtStr(ifs.Body.List[0]), stmtStr(ifs.Body.List[1])
				if s0 != "req.Data.agedOut = append(req.Data.agedOut, "+c.elem+")" || s1 != "req.Data.plans["+idx+"] = nil" {
					c.fail("loop 1 body: %s; %s", s0, s1)
				}
			} else {
				c.fail("loop 1 body form")
			}
			i++
		} else {
			c.fail("loop 1 form")
		}
		// plans := []*workflow.Plan{}
		acc := ""
		if i < len(ss) {
			if as, ok := ss[i].(*ast.AssignStmt); ok && as.Tok == token.DEFINE && len(as.Lhs) == 1 && types.ExprString(as.Rhs[0]) == "[]*workflow.Plan{}" {
				acc = types.ExprString(as.Lhs[0])
				i++
			} else {
				c.fail("accumulator definition")
			}
		}
		// loop 2: for i := 0; i < len(req.Data.plans); i++ { if req.Data.plans[i] != nil { acc = append(acc, req.Data.plans[i]) } }
		if i < len(ss) {
			fs, ok := ss[i].(*ast.ForStmt)
			if ok && fs.Init != nil && fs.Cond != nil && fs.Post != nil && len(fs.Body.List) == 1 {
				init, cond, post := stmtStr(fs.Init), types.ExprString(fs.Cond), stmtStr(fs.Post)
				var iv string
				if as, ok := fs.Init.(*ast.AssignStmt); ok && len(as.Lhs) == 1 {
					iv = types.ExprString(as.Lhs[0])
				}
				inner := stmtStr(fs.Body.List[0])
				want := "if req.Data.plans[" + iv + "] != nil { " + acc + " = append(" + acc + ", req.Data.plans[" + iv + "]) }"
				if init != iv+" := 0" || cond != iv+" < len(req.Data.plans)" || post != iv+"++" || normWS(inner) != normWS(want) {
					c.fail("loop 2: %s; %s; %s { %s }", init, cond, post, inner)
				}
				i++
			} else {
				c.fail("loop 2 form")
			}
		}
		// req.Data.plans = acc; req.Next = r.agedOut; return req
		rest := []string{}
		for ; i < len(ss); i++ {
			rest = append(rest, stmtStr(ss[i]))
		}
		if strings.Join(rest, "; ") != "req.Data.plans = "+acc+"; req.Next = r.agedOut; return req" {
			c.fail("tail: %s", strings.Join(rest, "; "))
		}
		if c.err == "" {
			e := c.elem
			body = fmt.Sprintf(`/-- loop 1: a stale plan is appended to agedOut and its slot set to nil -/
def filterPlans_loop1 (maxAge now : Nat) (acc : List Stored × List (Option Stored)) (%s : Stored) : List Stored × List (Option Stored) :=
  if %s then (acc.1 ++ [%s], acc.2 ++ [none]) else (acc.1, acc.2 ++ [some %s])

/-- loop 2: the non-nil slots, in order -/
def filterPlans_loop2 (acc : List Stored) (slot : Option Stored) : List Stored :=
  match slot with
  | some p => acc ++ [p]
  | none => acc

/-- translated from func (r *recover) filterPlans (internal/execute/recovery.go): (req.Data.plans, req.Data.agedOut) afterwards;
    req.Next = r.agedOut -/
def filterPlans (maxAge now : Nat) (plans : List Stored) : List Stored × List Stored :=
  let r := plans.foldl (filterPlans_loop1 maxAge now) ([], [])
  ((r.2.foldl filterPlans_loop2 []), r.1)
`, e, stale, e, e)
		}
	}
	if c.err != "" {
		fmt.Fprintf(&b, "-- UNSUPPORTED by the translator: %s\ndef filterPlans : Unit := unsupported_go_construct\n", c.err)
	} else {
		b.WriteString(body)
	}
	b.WriteString("\nend Coercion.Generated.T8\n")
	write("T8.lean", b.String())
}

func normWS(s string) string { return strings.Join(strings.Fields(s), " ") }

func stmtStr(s ast.Stmt) string {
	switch x := s.(type) {
	case *ast.AssignStmt:
		var l, r []string
		for _, e := range x.Lhs {
			l = append(l, types.ExprString(e))
		}
		for _, e := range x.Rhs {
			r = append(r, types.ExprString(e))
		}
		return strings.Join(l, ", ") + " " + x.Tok.String() + " " + strings.Join(r, ", ")
	case *ast.IncDecStmt:
		return types.ExprString(x.X) + x.Tok.String()
	case *ast.ReturnStmt:
		var r []string
		for _, e := range x.Results {
			r = append(r, types.ExprString(e))
		}
		return strings.TrimSpace("return " + strings.Join(r, ", "))
	case *ast.ExprStmt:
		return types.ExprString(x.X)
	case *ast.IfStmt:
		if x.Init == nil && x.Else == nil {
			var inner []string
			for _, st := range x.Body.List {
				inner = append(inner, stmtStr(st))
			}
			return "if " + types.ExprString(x.Cond) + " { " + strings.Join(inner, "; ") + " }"
		}
	}
	return fmt.Sprintf("<%T>", s)
}
