package main

// F3: for each sqlite table, the columns written by INSERT (creator_plan.go), by UPDATE
// (updater_stmts.go) and the columns consumed by the reader of that table (reader_<t>.go): string
// literals handed to stmt.GetText/GetInt64/GetBytes/GetLen, fieldTo*/timeFromField helpers and
// fieldToCheck; a call of fieldToState counts as reading the three state columns.

import (
	"fmt"
	"go/ast"
	"go/token"
	"regexp"
	"sort"
	"strconv"
	"strings"
)

var reInsert = regexp.MustCompile(`(?is)INSERT\s+INTO\s+(\w+)\s*\(([^)]*)\)`)
var reUpdate = regexp.MustCompile(`(?is)UPDATE\s+(\w+)\s+SET\s+(.*?)\s+WHERE`)

func constStrings(rel string) []string {
	_, f := parseFile(rel)
	var out []string
	if f == nil {
		return out
	}
	ast.Inspect(f, func(n ast.Node) bool {
		if bl, ok := n.(*ast.BasicLit); ok && bl.Kind == token.STRING {
			if s, err := strconv.Unquote(bl.Value); err == nil {
				out = append(out, s)
			}
		}
		return true
	})
	return out
}

func cols(s string) []string {
	var out []string
	for _, c := range strings.Split(s, ",") {
		c = strings.TrimSpace(c)
		if i := strings.Index(c, "="); i >= 0 {
			c = strings.TrimSpace(c[:i])
		}
		if c != "" {
			out = append(out, c)
		}
	}
	sort.Strings(out)
	return out
}

func readCols(rel string) []string {
	_, f := parseFile(rel)
	set := map[string]bool{}
	if f == nil {
		return nil
	}
	ast.Inspect(f, func(n ast.Node) bool {
		ce, ok := n.(*ast.CallExpr)
		if !ok {
			return true
		}
		name := ""
		switch fn := ce.Fun.(type) {
		case *ast.SelectorExpr:
			name = fn.Sel.Name
		case *ast.Ident:
			name = fn.Name
		}
		switch {
		case name == "fieldToState":
			set["state_status"], set["state_start"], set["state_end"] = true, true, true
		case name == "GetText" || name == "GetInt64" || name == "GetBytes" || name == "GetLen" || name == "GetFloat" || strings.HasPrefix(name, "fieldTo") || name == "timeFromField":
			for _, a := range ce.Args {
				if bl, ok := a.(*ast.BasicLit); ok && bl.Kind == token.STRING {
					s, _ := strconv.Unquote(bl.Value)
					set[s] = true
				}
			}
		}
		return true
	})
	var out []string
	for k := range set {
		out = append(out, k)
	}
	sort.Strings(out)
	return out
}

func f3() {
	ins := map[string][]string{}
	for _, s := range constStrings("workflow/storage/sqlite/creator_plan.go") {
		if m := reInsert.FindStringSubmatch(s); m != nil {
			ins[strings.ToLower(m[1])] = cols(m[2])
		}
	}
	upd := map[string][]string{}
	for _, s := range constStrings("workflow/storage/sqlite/updater_stmts.go") {
		if m := reUpdate.FindStringSubmatch(s); m != nil {
			upd[strings.ToLower(m[1])] = cols(m[2])
		}
	}
	readers := map[string]string{"plans": "reader_plan.go", "blocks": "reader_blocks.go", "checks": "reader_checks.go", "sequences": "reader_sequences.go", "actions": "reader_actions.go"}
	var b strings.Builder
	b.WriteString("namespace Coercion.Generated.F3\n\n")
	b.WriteString("/-- (table, columns written by INSERT, columns written by UPDATE, columns consumed by the reader) -/\n")
	b.WriteString("def tables : List (String × List String × List String × List String) := [\n")
	names := []string{"plans", "blocks", "checks", "sequences", "actions"}
	for i, t := range names {
		rd := readCols("workflow/storage/sqlite/" + readers[t])
		fmt.Fprintf(&b, "  (%s, %s, %s, %s)", leanStr(t), leanStrList(ins[t]), leanStrList(upd[t]), leanStrList(rd))
		if i < len(names)-1 {
			b.WriteString(",")
		}
		b.WriteString("\n")
	}
	b.WriteString("]\n\nend Coercion.Generated.F3\n")
	write("F3.lean", b.String())
}

// further fact families are registered here as they are built
func extra() { f3() }
