package main

// F3: for each sqlite table, the columns written by INSERT (creator_plan.go), by UPDATE
// (updater_stmts.go) and the columns consumed by the reader of that table (reader_<t>.go): string
// literals handed to stmt.GetText/GetInt64/GetBytes/GetLen, fieldTo*/timeFromField helpers and
// fieldToCheck; a call of fieldToState counts as reading the three state columns.

import (
	"fmt"
	"go/ast"
	"go/token"
	"regexp"
	"sort"
	"strconv"
	"strings"
)

var reInsert = regexp.MustCompile(`(?is)INSERT\s+INTO\s+(\w+)\s*\(([^)]*)\)`)
var reUpdate = regexp.MustCompile(`(?is)UPDATE\s+(\w+)\s+SET\s+(.*?)\s+WHERE`)

func constStrings(rel string) []string {
	_, f := parseFile(rel)
	var out []string
	if f == nil {
		return out
	}
	ast.Inspect(f, func(n ast.Node) bool {
		if bl, ok := n.(*ast.BasicLit); ok && bl.Kind == token.STRING {
			if s, err := strconv.Unquote(bl.Value); err == nil {
				out = append(out, s)
			}
		}
		return true
	})
	return out
}

func cols(s string) []string {
	var out []string
	for _, c := range strings.Split(s, ",") {
		c = strings.TrimSpace(c)
		if i := strings.Index(c, "="); i >= 0 {
			c = strings.TrimSpace(c[:i])
		}
		if c != "" {
			out = append(out, c)
		}
	}
	sort.Strings(out)
	return out
}

func readCols(rel string) []string {
	_, f := parseFile(rel)
	set := map[string]bool{}
	if f == nil {
		return nil
	}
	ast.Inspect(f, func(n ast.Node) bool {
		ce, ok := n.(*ast.CallExpr)
		if !ok {
			return true
		}
		name := ""
		switch fn := ce.Fun.(type) {
		case *ast.SelectorExpr:
			name = fn.Sel.Name
		case *ast.Ident:
			name = fn.Name
		}
		switch {
		case name == "fieldToState":
			set["state_status"], set["state_start"], set["state_end"] = true, true, true
		case name == "GetText" || name == "GetInt64" || name == "GetBytes" || name == "GetLen" || name == "GetFloat" || strings.HasPrefix(name, "fieldTo") || name == "timeFromField":
			for _, a := range ce.Args {
				if bl, ok := a.(*ast.BasicLit); ok && bl.Kind == token.STRING {
					s, _ := strconv.Unquote(bl.Value)
					set[s] = true
				}
			}
		}
		return true
	})
	var out []string
	for k := range set {
		out = append(out, k)
	}
	sort.Strings(out)
	return out
}

func f3() {
	ins := map[string][]string{}
	for _, s := range constStrings("workflow/storage/sqlite/creator_plan.go") {
		if m := reInsert.FindStringSubmatch(s); m != nil {
			ins[strings.ToLower(m[1])] = cols(m[2])
		}
	}
	upd := map[string][]string{}
	for _, s := range constStrings("workflow/storage/sqlite/updater_stmts.go") {
		if m := reUpdate.FindStringSubmatch(s); m != nil {
			upd[strings.ToLower(m[1])] = cols(m[2])
		}
	}
	readers := map[string]string{"plans": "reader_plan.go", "blocks": "reader_blocks.go", "checks": "reader_checks.go", "sequences": "reader_sequences.go", "actions": "reader_actions.go"}
	var b strings.Builder
	b.WriteString("namespace Coercion.Generated.F3\n\n")
	b.WriteString("/-- (table, columns written by INSERT, columns written by UPDATE, columns consumed by the reader) -/\n")
	b.WriteString("def tables : List (String × List String × List String × List String) := [\n")
	names := []string{"plans", "blocks", "checks", "sequences", "actions"}
	for i, t := range names {
		rd := readCols("workflow/storage/sqlite/" + readers[t])
		fmt.Fprintf(&b, "  (%s, %s, %s, %s)", leanStr(t), leanStrList(ins[t]), leanStrList(upd[t]), leanStrList(rd))
		if i < len(names)-1 {
			b.WriteString(",")
		}
		b.WriteString("\n")
	}
	b.WriteString("]\n\nend Coercion.Generated.F3\n")
	write("F3.lean", b.String())
}

// further fact families are registered here as they are built
func extra() {
	f2()
	f3()
	f7()
	f9()
	f10()
	t1()
	f12()
	t2()
	t3()
	t4()
	t5()
	t6()
	f13()
	t7()
	f14()
	t8()
	t9()
	t10()
	f15()
}

// F7: per clone function of workflow/utils/clone/clone.go, the fields that are always copied (keys of
// the composite literal + assignments `x.F = …` outside any `if opts.keepState`) and the fields copied
// only under `if opts.keepState`.
func f7() {
	_, f := parseFile("workflow/utils/clone/clone.go")
	type rec struct {
		always, state []string
	}
	out := map[string]*rec{}
	if f != nil {
		for _, d := range f.Decls {
			fn, ok := d.(*ast.FuncDecl)
			if !ok || fn.Recv != nil || fn.Body == nil {
				continue
			}
			switch fn.Name.Name {
			case "Plan", "Checks", "Block", "Sequence", "Action":
			default:
				continue
			}
			r := &rec{}
			out[fn.Name.Name] = r
			seen := map[string]bool{}
			add := func(l *[]string, s string) {
				if !seen[s] {
					seen[s] = true
					*l = append(*l, s)
				}
			}
			var cloneVar string
			var visit func(n ast.Node, inKeep bool)
			visit = func(n ast.Node, inKeep bool) {
				ast.Inspect(n, func(x ast.Node) bool {
					switch v := x.(type) {
					case *ast.IfStmt:
						if sel, ok := v.Cond.(*ast.SelectorExpr); ok && sel.Sel.Name == "keepState" {
							visit(v.Body, true)
							return false
						}
					case *ast.AssignStmt:
						// clone := &workflow.X{...}
						if len(v.Rhs) == 1 {
							if ue, ok := v.Rhs[0].(*ast.UnaryExpr); ok {
								if cl, ok := ue.X.(*ast.CompositeLit); ok {
									if se, ok := cl.Type.(*ast.SelectorExpr); ok && se.Sel.Name == fn.Name.Name && cloneVar == "" {
										if id, ok := v.Lhs[0].(*ast.Ident); ok {
											cloneVar = id.Name
										}
										for _, e := range cl.Elts {
											if kv, ok := e.(*ast.KeyValueExpr); ok {
												if k, ok := kv.Key.(*ast.Ident); ok {
													add(&r.always, k.Name)
												}
											}
										}
									}
								}
							}
						}
						for _, l := range v.Lhs {
							sel, ok := l.(*ast.SelectorExpr)
							if !ok {
								// clone.Actions[i] = …
								if ix, ok := l.(*ast.IndexExpr); ok {
									sel, _ = ix.X.(*ast.SelectorExpr)
								}
							}
							if sel == nil {
								continue
							}
							if id, ok := sel.X.(*ast.Ident); ok && id.Name == cloneVar && cloneVar != "" {
								if inKeep {
									add(&r.state, sel.Sel.Name)
								} else {
									add(&r.always, sel.Sel.Name)
								}
							}
						}
					}
					return true
				})
			}
			visit(fn.Body, false)
			sort.Strings(r.always)
			sort.Strings(r.state)
		}
	}
	var b strings.Builder
	b.WriteString("namespace Coercion.Generated.F7\n\n")
	b.WriteString("/-- (clone function, fields always copied, fields copied only with keep-state) -/\n")
	b.WriteString("def clones : List (String × List String × List String) := [\n")
	names := []string{"Plan", "Checks", "Block", "Sequence", "Action"}
	for i, n := range names {
		r := out[n]
		if r == nil {
			r = &rec{}
		}
		fmt.Fprintf(&b, "  (%s, %s, %s)", leanStr(n), leanStrList(r.always), leanStrList(r.state))
		if i < len(names)-1 {
			b.WriteString(",")
		}
		b.WriteString("\n")
	}
	b.WriteString("]\n\nend Coercion.Generated.F7\n")
	write("F7.lean", b.String())
}

// F2: routing of the engine state machines: for every state function (a method taking and returning
// statemachine.Request) in sm.go, final.go, sm/recovery.go, actions.go, execute/recovery.go, the set
// of states it assigns to req.Next ("nil" = explicit nil; the implicit "Next left nil" exit is not
// listed).
func f2() {
	files := []struct{ rel, tag string }{
		{"internal/execute/sm/sm.go", "sm"}, {"internal/execute/sm/final.go", "final"}, {"internal/execute/sm/recovery.go", "sm"},
		{"internal/execute/sm/actions/actions.go", "actions"}, {"internal/execute/recovery.go", "startup"},
	}
	type row struct {
		name string
		next []string
	}
	var rows []row
	for _, fl := range files {
		_, f := parseFile(fl.rel)
		if f == nil {
			continue
		}
		for _, d := range f.Decls {
			fn, ok := d.(*ast.FuncDecl)
			if !ok || fn.Recv == nil || fn.Body == nil || fn.Type.Params == nil || len(fn.Type.Params.List) != 1 {
				continue
			}
			// parameter type statemachine.Request[...]
			isState := false
			if ie, ok := fn.Type.Params.List[0].Type.(*ast.IndexExpr); ok {
				if se, ok := ie.X.(*ast.SelectorExpr); ok && se.Sel.Name == "Request" {
					isState = true
				}
			}
			if !isState {
				continue
			}
			set := map[string]bool{}
			ast.Inspect(fn.Body, func(n ast.Node) bool {
				as, ok := n.(*ast.AssignStmt)
				if !ok || len(as.Lhs) != 1 || len(as.Rhs) != 1 {
					return true
				}
				sel, ok := as.Lhs[0].(*ast.SelectorExpr)
				if !ok || sel.Sel.Name != "Next" {
					return true
				}
				switch r := as.Rhs[0].(type) {
				case *ast.SelectorExpr:
					set[r.Sel.Name] = true
				case *ast.Ident:
					set[r.Name] = true
				}
				return true
			})
			var next []string
			for k := range set {
				next = append(next, k)
			}
			sort.Strings(next)
			rows = append(rows, row{fl.tag + "|" + fn.Name.Name, next})
		}
	}
	sort.Slice(rows, func(i, j int) bool { return rows[i].name < rows[j].name })
	var b strings.Builder
	b.WriteString("namespace Coercion.Generated.F2\n\n")
	b.WriteString("/-- (machine, state function, states it may assign to req.Next) -/\n")
	b.WriteString("def succ : List (String × String × List String) := [\n")
	for i, r := range rows {
		parts := strings.SplitN(r.name, "|", 2)
		fmt.Fprintf(&b, "  (%s, %s, %s)", leanStr(parts[0]), leanStr(parts[1]), leanStrList(r.next))
		if i < len(rows)-1 {
			b.WriteString(",")
		}
		b.WriteString("\n")
	}
	b.WriteString("]\n\nend Coercion.Generated.F2\n")
	write("F2.lean", b.String())
}
