package main

// further fact families are registered here as they are built
func extra() {}
