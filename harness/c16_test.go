package harness

// C16 — Submit admits exactly the well-formed plans. Valid plans are generated from engine specs; 0-3
// structural mutations are applied at random objects; the observed input is abstracted to the
// flags Model/Validate reads; the real Submit's accept/reject (+ error class of the first failing
// object in validation order) must equal the model's; a reject must leave the store unchanged; an
// accept must store fresh pairwise-distinct v7 ids, pristine NotStarted state and a submit time.

import (
	"fmt"
	"math"
	"math/rand/v2"
	"strings"
	"time"

	"github.com/element-of-surprise/coercion/workflow"
	"github.com/element-of-surprise/coercion/workflow/context"
	"github.com/element-of-surprise/coercion/workflow/utils/walk"
	"github.com/google/uuid"
	"zombiezen.com/go/sqlite/sqlitex"
)

type vAction struct {
	IsNil       bool  `json:"isNil"`
	IDSet       bool  `json:"idSet"`
	Key         int   `json:"key"`
	KeyV7       bool  `json:"keyV7"`
	StateSet    bool  `json:"stateSet"`
	TimeoutMs   int64 `json:"timeoutMs"`
	NameBlank   bool  `json:"nameBlank"`
	DescrBlank  bool  `json:"descrBlank"`
	PluginBlank bool  `json:"pluginBlank"`
	AttemptsSet bool  `json:"attemptsSet"`
	PluginKnown bool  `json:"pluginKnown"`
	ReqOk       bool  `json:"reqOk"`
}
type vChecks struct {
	IDSet    bool      `json:"idSet"`
	Key      int       `json:"key"`
	KeyV7    bool      `json:"keyV7"`
	StateSet bool      `json:"stateSet"`
	Actions  []vAction `json:"actions"`
}
type vSeq struct {
	IsNil      bool      `json:"isNil"`
	IDSet      bool      `json:"idSet"`
	Key        int       `json:"key"`
	KeyV7      bool      `json:"keyV7"`
	NameBlank  bool      `json:"nameBlank"`
	DescrBlank bool      `json:"descrBlank"`
	StateSet   bool      `json:"stateSet"`
	Actions    []vAction `json:"actions"`
}
type vBlock struct {
	IsNil      bool       `json:"isNil"`
	IDSet      bool       `json:"idSet"`
	Key        int        `json:"key"`
	KeyV7      bool       `json:"keyV7"`
	NameBlank  bool       `json:"nameBlank"`
	DescrBlank bool       `json:"descrBlank"`
	StateSet   bool       `json:"stateSet"`
	Groups     []*vChecks `json:"groups"`
	Seqs       []vSeq     `json:"seqs"`
}
type vPlan struct {
	IDSet      bool       `json:"idSet"`
	StateSet   bool       `json:"stateSet"`
	NameBlank  bool       `json:"nameBlank"`
	DescrBlank bool       `json:"descrBlank"`
	ReasonSet  bool       `json:"reasonSet"`
	SubmitSet  bool       `json:"submitSet"`
	Groups     []*vChecks `json:"groups"`
	Blocks     []vBlock   `json:"blocks"`
}

// keyNum maps key uuids to small numbers (equal uuids -> equal numbers); v7 says whether the version is 7.
type keyer struct{ m map[uuid.UUID]int }

func (k *keyer) num(u uuid.UUID) (int, bool) {
	if u == uuid.Nil {
		return 0, true
	}
	n, ok := k.m[u]
	if !ok {
		n = len(k.m) + 1
		k.m[u] = n
	}
	return n, u.Version() == 7
}

func blank(s string) bool { return strings.TrimSpace(s) == "" }

func (k *keyer) action(a *workflow.Action, known map[string]bool) vAction {
	if a == nil {
		return vAction{IsNil: true, KeyV7: true, PluginKnown: true, ReqOk: true}
	}
	n, v7 := k.num(a.Key)
	_, reqOk := a.Req.(Req)
	return vAction{IDSet: a.ID != uuid.Nil, Key: n, KeyV7: v7, StateSet: a.State != nil, TimeoutMs: a.Timeout.Milliseconds(),
		NameBlank: blank(a.Name), DescrBlank: blank(a.Descr), PluginBlank: blank(a.Plugin), AttemptsSet: a.Attempts != nil,
		PluginKnown: known[a.Plugin], ReqOk: reqOk}
}

func (k *keyer) checks(c *workflow.Checks, known map[string]bool) *vChecks {
	if c == nil {
		return nil
	}
	n, v7 := k.num(c.Key)
	out := &vChecks{IDSet: c.ID != uuid.Nil, Key: n, KeyV7: v7, StateSet: c.State != nil, Actions: []vAction{}}
	for _, a := range c.Actions {
		out.Actions = append(out.Actions, k.action(a, known))
	}
	return out
}

func observePlan(p *workflow.Plan, known map[string]bool) *vPlan {
	if p == nil {
		return nil
	}
	k := &keyer{m: map[uuid.UUID]int{}}
	out := &vPlan{IDSet: p.ID != uuid.Nil, StateSet: p.State != nil, NameBlank: blank(p.Name), DescrBlank: blank(p.Descr),
		ReasonSet: p.Reason != workflow.FRUnknown, SubmitSet: !p.SubmitTime.IsZero(), Blocks: []vBlock{}}
	for _, c := range []*workflow.Checks{p.BypassChecks, p.PreChecks, p.ContChecks, p.PostChecks, p.DeferredChecks} {
		out.Groups = append(out.Groups, k.checks(c, known))
	}
	for _, b := range p.Blocks {
		if b == nil {
			out.Blocks = append(out.Blocks, vBlock{IsNil: true, KeyV7: true, Groups: []*vChecks{}, Seqs: []vSeq{}})
			continue
		}
		n, v7 := k.num(b.Key)
		vb := vBlock{IDSet: b.ID != uuid.Nil, Key: n, KeyV7: v7, NameBlank: blank(b.Name), DescrBlank: blank(b.Descr), StateSet: b.State != nil, Seqs: []vSeq{}}
		for _, c := range []*workflow.Checks{b.BypassChecks, b.PreChecks, b.ContChecks, b.PostChecks, b.DeferredChecks} {
			vb.Groups = append(vb.Groups, k.checks(c, known))
		}
		for _, q := range b.Sequences {
			if q == nil {
				vb.Seqs = append(vb.Seqs, vSeq{IsNil: true, KeyV7: true, Actions: []vAction{}})
				continue
			}
			n, v7 := k.num(q.Key)
			vq := vSeq{IDSet: q.ID != uuid.Nil, Key: n, KeyV7: v7, NameBlank: blank(q.Name), DescrBlank: blank(q.Descr), StateSet: q.State != nil, Actions: []vAction{}}
			for _, a := range q.Actions {
				vq.Actions = append(vq.Actions, k.action(a, known))
			}
			vb.Seqs = append(vb.Seqs, vq)
		}
		out.Blocks = append(out.Blocks, vb)
	}
	return out
}

func valErrClass(err error) string {
	if err == nil {
		return "ok"
	}
	m := err.Error()
	for _, kv := range [][2]string{
		{"cannot have a nil Plan", "nilPlan"}, {"id should not be set", "idSet"}, {"state should not be set", "stateSet"},
		{"internal settings should not be set", "stateSet"}, {"name is required", "nameBlank"}, {"description is required", "descrBlank"},
		{"at least one block", "noBlocks"}, {"reason should not be set", "reasonSet"}, {"submit time should not", "submitSet"},
		{"invalid version", "keyVersion"}, {"already exists on another object", "keyDup"}, {"at least one action is required", "noActions"},
		{"at least one Action is required", "noActions"}, {"cannot have a nil Block", "nilBlock"}, {"at least one sequence", "noSeqs"},
		{"nil Sequence", "nilSeq"}, {"nil Action", "nilAction"}, {"timeout must be at least", "timeoutLow"}, {"plugin is required", "pluginBlank"},
		{"attempts should not be set", "attemptsSet"}, {"not found", "pluginUnknown"}, {"bad request type", "badReq"},
	} {
		if strings.Contains(m, kv[0]) {
			return "err:" + kv[1]
		}
	}
	return "err:other"
}

// ---------------------------------------------------------------------------------------------
// generation of valid plans and mutations

func genGroupSpec(r *rand.Rand, tag func() string, p float64) *GroupSpec {
	if r.Float64() >= p {
		return nil
	}
	g := &GroupSpec{}
	for i := 1 + r.IntN(2); i > 0; i-- {
		g.Actions = append(g.Actions, ActSpec{Tag: tag(), Retries: r.IntN(3) - 1})
	}
	return g
}

func genValidSpec(r *rand.Rand, prefix string) *PlanSpec {
	n := 0
	tag := func() string { n++; return fmt.Sprintf("%s%d", prefix, n) }
	ps := &PlanSpec{}
	ps.Bypass, ps.Pre, ps.Cont, ps.Post, ps.Deferred = genGroupSpec(r, tag, 0.3), genGroupSpec(r, tag, 0.4), genGroupSpec(r, tag, 0.3), genGroupSpec(r, tag, 0.4), genGroupSpec(r, tag, 0.3)
	for b := 1 + r.IntN(2); b > 0; b-- {
		bs := BlockSpec{Conc: r.IntN(3), Tol: r.IntN(3) - 1}
		bs.Bypass, bs.Pre, bs.Cont, bs.Post, bs.Deferred = genGroupSpec(r, tag, 0.2), genGroupSpec(r, tag, 0.3), genGroupSpec(r, tag, 0.2), genGroupSpec(r, tag, 0.3), genGroupSpec(r, tag, 0.2)
		for s := 1 + r.IntN(2); s > 0; s-- {
			q := SeqSpec{}
			for a := 1 + r.IntN(2); a > 0; a-- {
				as := ActSpec{Tag: tag()}
				switch r.IntN(4) {
				case 0:
					as.TimeoutMs = 5000
				case 1:
					as.TimeoutMs = 5000 + r.IntN(100000)
				}
				q.Actions = append(q.Actions, as)
			}
			bs.Seqs = append(bs.Seqs, q)
		}
		ps.Blocks = append(ps.Blocks, bs)
	}
	return ps
}

type objRef struct {
	kind string
	plan *workflow.Plan
	chk  *workflow.Checks
	blk  *workflow.Block
	seq  *workflow.Sequence
	act  *workflow.Action
	// parent slots for nil-ing
	setNil func()
}

func collectObjs(p *workflow.Plan) []objRef {
	var out []objRef
	out = append(out, objRef{kind: "plan", plan: p})
	grp := func(c *workflow.Checks) {
		if c == nil {
			return
		}
		out = append(out, objRef{kind: "checks", chk: c})
		for i := range c.Actions {
			i := i
			if c.Actions[i] == nil {
				continue
			}
			out = append(out, objRef{kind: "action", act: c.Actions[i], setNil: func() { c.Actions[i] = nil }})
		}
	}
	for _, c := range []*workflow.Checks{p.BypassChecks, p.PreChecks, p.ContChecks, p.PostChecks, p.DeferredChecks} {
		grp(c)
	}
	for bi := range p.Blocks {
		bi := bi
		b := p.Blocks[bi]
		if b == nil {
			continue
		}
		out = append(out, objRef{kind: "block", blk: b, setNil: func() { p.Blocks[bi] = nil }})
		for _, c := range []*workflow.Checks{b.BypassChecks, b.PreChecks, b.ContChecks, b.PostChecks, b.DeferredChecks} {
			grp(c)
		}
		for si := range b.Sequences {
			si := si
			q := b.Sequences[si]
			if q == nil {
				continue
			}
			out = append(out, objRef{kind: "seq", seq: q, setNil: func() { b.Sequences[si] = nil }})
			for ai := range q.Actions {
				ai := ai
				if q.Actions[ai] == nil {
					continue
				}
				out = append(out, objRef{kind: "action", act: q.Actions[ai], setNil: func() { q.Actions[ai] = nil }})
			}
		}
	}
	return out
}

func v4UUID(n int) uuid.UUID {
	u := intUUID(n + 500000)
	u[6] = 0x40
	return u
}

// mutate applies one random mutation; returns its name ("" if not applicable).
func mutate(r *rand.Rand, p *workflow.Plan, allowNil bool) string {
	objs := collectObjs(p)
	o := objs[r.IntN(len(objs))]
	blankStr := []string{"", " ", "\t\n"}[r.IntN(3)]
	someKey := func() uuid.UUID {
		// an existing key of another object, if any, else a fresh one used twice later
		for _, x := range objs {
			switch {
			case x.chk != nil && x.chk.Key != uuid.Nil && x.chk != o.chk:
				return x.chk.Key
			case x.blk != nil && x.blk.Key != uuid.Nil && x.blk != o.blk:
				return x.blk.Key
			case x.seq != nil && x.seq.Key != uuid.Nil && x.seq != o.seq:
				return x.seq.Key
			case x.act != nil && x.act.Key != uuid.Nil && x.act != o.act:
				return x.act.Key
			}
		}
		return uuid.Nil
	}
	setKey := func(k uuid.UUID) bool {
		switch o.kind {
		case "checks":
			o.chk.Key = k
		case "block":
			o.blk.Key = k
		case "seq":
			o.seq.Key = k
		case "action":
			o.act.Key = k
		default:
			return false
		}
		return true
	}
	st := &workflow.State{}
	switch m := r.IntN(16); m {
	case 0: // id set
		id := workflow.NewV7()
		switch o.kind {
		case "plan":
			o.plan.ID = id
		case "checks":
			o.chk.ID = id
		case "block":
			o.blk.ID = id
		case "seq":
			o.seq.ID = id
		case "action":
			o.act.ID = id
		}
		return "idSet@" + o.kind
	case 1: // state set
		switch o.kind {
		case "plan":
			o.plan.State = st
		case "checks":
			o.chk.State = st
		case "block":
			o.blk.State = st
		case "seq":
			o.seq.State = st
		case "action":
			o.act.State = st
		}
		return "stateSet@" + o.kind
	case 2: // blank name
		switch o.kind {
		case "plan":
			o.plan.Name = blankStr
		case "block":
			o.blk.Name = blankStr
		case "seq":
			o.seq.Name = blankStr
		case "action":
			o.act.Name = blankStr
		default:
			return ""
		}
		return "nameBlank@" + o.kind
	case 3: // blank descr
		switch o.kind {
		case "plan":
			o.plan.Descr = blankStr
		case "block":
			o.blk.Descr = blankStr
		case "seq":
			o.seq.Descr = blankStr
		case "action":
			o.act.Descr = blankStr
		default:
			return ""
		}
		return "descrBlank@" + o.kind
	case 4: // no children
		switch o.kind {
		case "plan":
			if r.IntN(2) == 0 {
				o.plan.Blocks = nil
			} else {
				o.plan.Blocks = []*workflow.Block{}
			}
		case "checks":
			o.chk.Actions = nil
		case "block":
			o.blk.Sequences = []*workflow.Sequence{}
		case "seq":
			o.seq.Actions = nil
		default:
			return ""
		}
		return "noChildren@" + o.kind
	case 5: // non-v7 key
		if setKey(v4UUID(r.IntN(1000))) {
			return "keyVersion@" + o.kind
		}
		return ""
	case 6, 7: // duplicate key
		k := someKey()
		if k == uuid.Nil {
			return ""
		}
		if setKey(k) {
			return "keyDup@" + o.kind
		}
		return ""
	case 8:
		if o.kind == "plan" {
			if r.IntN(2) == 0 {
				o.plan.Reason = workflow.FRBlock
				return "reasonSet@plan"
			}
			o.plan.SubmitTime = time.Now()
			return "submitSet@plan"
		}
		return ""
	case 9: // timeout
		if o.kind == "action" {
			o.act.Timeout = []time.Duration{time.Millisecond, 4999 * time.Millisecond, 5 * time.Second, -time.Second, 2 * time.Second, 5001 * time.Millisecond}[r.IntN(6)]
			return "timeout@action"
		}
		return ""
	case 10:
		if o.kind == "action" {
			o.act.Plugin = blankStr
			return "pluginBlank@action"
		}
		return ""
	case 11:
		if o.kind == "action" {
			if r.IntN(2) == 0 {
				o.act.Attempts = []*workflow.Attempt{}
			} else {
				o.act.Attempts = []*workflow.Attempt{{}}
			}
			return "attemptsSet@action"
		}
		return ""
	case 12:
		if o.kind == "action" {
			o.act.Plugin = []string{"nope", "act ", " chk", "ACT"}[r.IntN(4)]
			return "pluginUnknown@action"
		}
		return ""
	case 13:
		if o.kind == "action" {
			switch r.IntN(3) {
			case 0:
				o.act.Req = nil
			case 1:
				o.act.Req = &Req{T: "ptr"}
			default:
				o.act.Req = "string"
			}
			return "badReq@action"
		}
		return ""
	case 14:
		if o.kind == "action" {
			o.act.Retries = -1 - r.IntN(3) // accepted: normalised to 0
			return "retriesNeg@action"
		}
		return ""
	case 15:
		if allowNil && o.setNil != nil {
			o.setNil()
			return "nil@" + o.kind
		}
		return ""
	}
	return ""
}

func tableCounts(env *engineEnv) map[string]int {
	out := map[string]int{}
	conn, err := env.inner.Pool().Take(context.Background())
	if err != nil {
		return out
	}
	defer env.inner.Pool().Put(conn)
	for _, t := range []string{"plans", "blocks", "checks", "sequences", "actions"} {
		sqlitex.ExecuteTransient(conn, "SELECT count(*) FROM "+t, &sqlitex.ExecOptions{ResultFunc: func(stmt *sqliteStmt) error {
			out[t] = stmt.ColumnInt(0)
			return nil
		}})
	}
	return out
}

func hasNilChild(p *workflow.Plan) bool {
	for _, b := range p.Blocks {
		if b == nil {
			return true
		}
		for _, q := range b.Sequences {
			if q == nil {
				return true
			}
			for _, a := range q.Actions {
				if a == nil {
					return true
				}
			}
		}
		for _, c := range []*workflow.Checks{b.BypassChecks, b.PreChecks, b.ContChecks, b.PostChecks, b.DeferredChecks} {
			if c != nil {
				for _, a := range c.Actions {
					if a == nil {
						return true
					}
				}
			}
		}
	}
	for _, c := range []*workflow.Checks{p.BypassChecks, p.PreChecks, p.ContChecks, p.PostChecks, p.DeferredChecks} {
		if c != nil {
			for _, a := range c.Actions {
				if a == nil {
					return true
				}
			}
		}
	}
	return false
}

func safeSubmit(env *engineEnv, p *workflow.Plan) (id uuid.UUID, err error, panicked string) {
	defer func() {
		if r := recover(); r != nil {
			panicked = fmt.Sprint(r)
		}
	}()
	id, err = env.ws.Submit(context.Background(), p)
	return
}

func c16Case(r *Result, m *Model, env *engineEnv, rng *rand.Rand, n int) {
	ps := genValidSpec(rng, fmt.Sprintf("v%d.", n))
	// keys: give ~half of the objects unique v7 keys
	k := 0
	ps.eachAction(func(a *ActSpec, _ bool) {
		if rng.IntN(2) == 0 {
			k++
			a.Key = 100 + k
		}
	})
	p := buildPlan(ps, fmt.Sprintf("c16-%d", n))
	for _, o := range collectObjs(p) {
		if rng.IntN(3) == 0 {
			k++
			switch o.kind {
			case "checks":
				o.chk.Key = intUUID(100 + k)
			case "block":
				o.blk.Key = intUUID(100 + k)
			case "seq":
				o.seq.Key = intUUID(100 + k)
			}
		}
	}
	var muts []string
	nm := []int{0, 1, 1, 1, 2, 3}[rng.IntN(6)]
	for i := 0; i < nm; i++ {
		if mu := mutate(rng, p, true); mu != "" {
			muts = append(muts, mu)
			r.count("mut:" + strings.Split(mu, "@")[0])
		}
	}
	// a request that passes the plugin's validation but cannot be serialised: the plan is well formed, the
	// store must refuse it, and Submit must then leave no trace
	unencodable := false
	if rng.IntN(12) == 0 && len(muts) == 0 {
		for _, o := range collectObjs(p) {
			if o.kind == "action" {
				if rq, ok := o.act.Req.(Req); ok {
					rq.N = math.NaN()
					o.act.Req = rq
					unencodable = true
					muts = append(muts, "unencodable@action")
					r.count("mut:unencodable")
					break
				}
			}
		}
	}
	var subject *workflow.Plan = p
	if rng.IntN(200) == 0 {
		subject = nil
		muts = append(muts, "nilPlan")
	}
	known := map[string]bool{"act": true, "chk": true}
	obs := observePlan(subject, known)
	var want string
	if err := m.Ask(map[string]any{"cmd": "validate", "plan": obs}, &want); err != nil {
		r.finding(Finding{Kind: "disagreement", Clause: "C16.driver", Text: err.Error(), Case: obs})
		return
	}
	before := tableCounts(env)
	var id uuid.UUID
	var err error
	var panicked string
	if subject == nil {
		id, err, panicked = safeSubmit(env, nil)
	} else {
		id, err, panicked = safeSubmit(env, subject)
	}
	after := tableCounts(env)
	got := valErrClass(err)
	caseDesc := map[string]any{"mutations": muts, "observed": obs}
	r.eval(caseDesc, len(muts) > 0)
	if n < 3 {
		r.sample(caseDesc)
	}
	if panicked != "" {
		r.finding(Finding{Kind: "monitor", Clause: "C16.submit_panics", Features: map[string]any{"nilChild": subject != nil && hasNilChild(subject), "nilPlan": subject == nil},
			Text: "Submit panicked instead of rejecting: " + panicked, Case: caseDesc, Model: want})
		return
	}
	if unencodable {
		if err == nil {
			r.finding(Finding{Kind: "monitor", Clause: "C16.unstorable_plan_rejected", Text: "Submit accepted a plan whose request cannot be serialised", Case: caseDesc})
		} else if !jsonEq(before, after) {
			r.finding(Finding{Kind: "monitor", Clause: "C16.reject_leaves_no_trace", Features: map[string]any{"cause": "storage"}, Text: "a Submit refused by the store left rows behind",
				Case: caseDesc, Observed: map[string]any{"before": before, "after": after}})
		}
		return
	}
	if got != want && !(got == "err:other" && strings.HasPrefix(want, "err:")) {
		r.finding(Finding{Kind: "monitor", Clause: "C16.accept_iff_wellformed", Features: map[string]any{"got": got, "want": want},
			Text: "Submit's verdict differs from the proved well-formedness model", Case: caseDesc, Observed: fmt.Sprint(err), Model: want})
		return
	}
	if err != nil {
		if !jsonEq(before, after) {
			r.finding(Finding{Kind: "monitor", Clause: "C16.reject_leaves_no_trace", Text: "a rejected Submit changed the store",
				Case: caseDesc, Observed: map[string]any{"before": before, "after": after}})
		}
		return
	}
	// accepted: stored plan must be pristine with fresh distinct v7 ids and a submit time
	stored, rerr := env.inner.Read(context.Background(), id)
	if rerr != nil {
		r.finding(Finding{Kind: "monitor", Clause: "C16.accepted_stored", Text: "accepted plan cannot be read back: " + rerr.Error(), Case: caseDesc})
		return
	}
	ids := map[uuid.UUID]bool{}
	bad := ""
	for it := range walk.Plan(stored) {
		var oid uuid.UUID
		var st *workflow.State
		switch v := it.Value.(type) {
		case *workflow.Plan:
			oid, st = v.ID, v.State
			if v.SubmitTime.IsZero() {
				bad = "submit time not set"
			}
			if v.Reason != workflow.FRUnknown {
				bad = "reason set"
			}
		case *workflow.Checks:
			oid, st = v.ID, v.State
		case *workflow.Block:
			oid, st = v.ID, v.State
			if v.Concurrency < 1 {
				bad = "block concurrency not defaulted to >= 1"
			}
		case *workflow.Sequence:
			oid, st = v.ID, v.State
		case *workflow.Action:
			oid, st = v.ID, v.State
			if len(v.Attempts) != 0 {
				bad = "attempts present"
			}
			if v.Timeout < 5*time.Second {
				bad = "timeout below 5s stored"
			}
			if v.Retries < 0 {
				bad = "negative retries stored"
			}
		}
		if oid == uuid.Nil || oid.Version() != 7 {
			bad = "id missing or not v7"
		}
		if ids[oid] {
			bad = "duplicate id"
		}
		ids[oid] = true
		if st == nil || st.Status != workflow.NotStarted || !st.Start.IsZero() || !st.End.IsZero() {
			bad = "state not pristine NotStarted"
		}
	}
	if bad != "" {
		r.finding(Finding{Kind: "monitor", Clause: "C16.accepted_pristine", Features: map[string]any{"what": bad}, Text: "accepted plan is not stored pristine: " + bad, Case: caseDesc})
	}
}

// c16StartRule: Start refuses a plan whose check action uses a non-check plugin, without running anything.
func c16StartRule(r *Result, env *engineEnv, rng *rand.Rand, n int) {
	newTracerInto(env)
	ps := genValidSpec(rng, fmt.Sprintf("s%d.", n))
	if ps.Pre == nil {
		ps.Pre = &GroupSpec{Actions: []ActSpec{{Tag: fmt.Sprintf("s%d.pre", n)}}}
	}
	env.loadScripts(ps)
	p := buildPlan(ps, fmt.Sprintf("c16s-%d", n))
	p.PreChecks.Actions[0].Plugin = "act" // non-check plugin inside a Checks object
	id, err, panicked := safeSubmit(env, p)
	if panicked != "" || err != nil {
		r.finding(Finding{Kind: "monitor", Clause: "C16.start_rule_submit", Text: fmt.Sprintf("Submit of a plan with a non-check plugin in a check failed: %v %s", err, panicked)})
		return
	}
	env.tr.register(p, 0)
	serr := env.ws.Start(context.Background(), id)
	time.Sleep(2 * time.Millisecond)
	calls := 0
	for _, e := range env.tr.snapshot() {
		if e.L == "enter" || strings.HasPrefix(e.L, "w") {
			calls++
		}
	}
	r.eval(map[string]any{"startRule": n}, true)
	if serr == nil || calls > 0 {
		r.finding(Finding{Kind: "monitor", Clause: "C16.start_refuses_noncheck", Features: map[string]any{"startErr": serr != nil, "activity": calls > 0},
			Text: "Start accepted (or acted on) a plan whose check action uses a non-check plugin"})
		if serr == nil {
			wctx, cancel := context.WithTimeout(context.Background(), 5*time.Second)
			env.ws.Wait(wctx, id)
			cancel()
		}
	}
}

func init() {
	campaigns["C16"] = func(r *Result) {
		quietLogs()
		r.Rule = "valid plans from random specs (1-2 blocks, 1-2 sequences, 1-2 actions, optional check groups, keys on ~half of the objects) with 0-3 mutations out of 16 kinds (id/state/reason/submit pre-set, blank name/descr/plugin, no children, non-v7 key, duplicate key, timeouts around 5s, attempts pre-set, unknown plugin incl. whitespace variants, bad request, negative retries, nil child) at random objects; plus Start's check-plugin rule; non-trivial = >=1 mutation; distinct by observed flags"
		m := getModel()
		defer putModel(m)
		env, err := newEngineEnv("")
		if err != nil {
			r.finding(Finding{Kind: "crash", Clause: "C16.env", Text: err.Error()})
			return
		}
		defer env.close()
		rng := newRand(16)
		n := tierN(1500, 50000)
		phase(0.85)
		for i := 0; i < n && !expired(); i++ {
			c16Case(r, m, env, rng, i)
		}
		phase(1)
		for i := 0; i < tierN(20, 300) && !expired(); i++ {
			c16StartRule(r, env, rng, i)
		}
		r.Validated = r.Evaluations
	}
}
