package harness

// C05 — attempts. Each case is one plan: a PreChecks group holding one check action X, and one block
// with one sequence holding the action Y under test followed by a sentinel action Z. X and Y get
// independent outcome scripts and retry budgets. The per-action event sequence (durable writes with
// status and attempt count, plugin enter/exit) and the stored attempts must equal Model/Attempts.

import (
	"fmt"
	"math/rand/v2"
	"runtime/debug"
	"time"
)

type modelAttempts struct {
	Status   string `json:"status"`
	Calls    int    `json:"calls"`
	Failed   bool   `json:"failed"`
	Attempts []struct {
		Err  string `json:"err"`
		Resp bool   `json:"resp"`
	} `json:"attempts"`
	Evs []struct {
		L        string `json:"l"`
		Status   string `json:"status,omitempty"`
		Attempts int    `json:"attempts"`
		Call     int    `json:"call"`
	} `json:"evs"`
}

type modelOutcome struct {
	Resp    string `json:"resp"`
	Err     string `json:"err"`
	Overrun bool   `json:"overrun"`
}

func toModelScript(sc []Outcome) []modelOutcome {
	out := []modelOutcome{}
	for _, o := range sc {
		r := o.Resp
		if r == "nil" {
			r = "none"
		}
		out = append(out, modelOutcome{Resp: r, Err: o.Err, Overrun: o.Overrun})
	}
	return out
}

func askAttempts(m *Model, retries int, pre bool, sc []Outcome) (*modelAttempts, error) {
	var out modelAttempts
	err := m.Ask(map[string]any{"cmd": "attempts", "retries": retries, "pre": pre, "script": toModelScript(sc)}, &out)
	return &out, err
}

func genOutcome(r *rand.Rand, allowOverrun bool) Outcome {
	o := Outcome{}
	switch x := r.IntN(100); {
	case x < 35:
		o = Outcome{Resp: "good", Err: "none"}
	case x < 60:
		o = Outcome{Resp: "nil", Err: "transient"}
	case x < 70:
		o = Outcome{Resp: "nil", Err: "permanent"}
	case x < 76:
		o = Outcome{Resp: "bad", Err: "none"}
	case x < 80:
		o = Outcome{Resp: "bad", Err: "transient"}
	case x < 83:
		o = Outcome{Resp: "bad", Err: "permanent"}
	case x < 88:
		o = Outcome{Resp: "good", Err: "transient"}
	case x < 91:
		o = Outcome{Resp: "good", Err: "permanent"}
	case x < 95:
		o = Outcome{Resp: "nil", Err: "none"}
	default:
		if allowOverrun {
			o = Outcome{Resp: "good", Err: "none", Overrun: true}
		} else {
			o = Outcome{Resp: "nil", Err: "transient"}
		}
	}
	return o
}

func genScript(r *rand.Rand, maxLen int, overruns *int) []Outcome {
	n := 1 + r.IntN(maxLen)
	sc := make([]Outcome, n)
	for i := range sc {
		sc[i] = genOutcome(r, *overruns > 0)
		if sc[i].Overrun {
			*overruns--
		}
	}
	// the last outcome repeats: never let an overrun repeat indefinitely
	if sc[n-1].Overrun {
		sc[n-1] = Outcome{Resp: "nil", Err: "transient"}
	}
	return sc
}

// scriptKey is the canonical description of a (retries, script) pair as far as it can matter:
// the outcomes up to the first non-retryable one, cut at retries+1.
func hasOverrun(sc []Outcome) bool {
	for _, o := range sc {
		if o.Overrun {
			return true
		}
	}
	return false
}

type actionObs struct {
	Evs   []string `json:"evs"`
	Final *ActionImg
}

// actionEvents projects the trace on one object: post-phase writes and enter/exit, as canonical strings.
func actionEvents(tr []Event, plan, obj int, dropExitOf map[int]bool) []string {
	out := []string{}
	for _, e := range tr {
		if e.Plan != plan || e.Obj != obj {
			continue
		}
		switch e.L {
		case "wAct":
			if e.Phase == "post" {
				out = append(out, fmt.Sprintf("write %s %d", e.Img.Status, e.Img.Attempts))
			}
		case "enter":
			out = append(out, fmt.Sprintf("enter %d", e.Call))
		case "exit":
			if !dropExitOf[e.Call] {
				out = append(out, fmt.Sprintf("exit %d", e.Call))
			}
		}
	}
	return out
}

func modelEvents(ma *modelAttempts, dropExitOf map[int]bool) []string {
	out := []string{}
	for _, e := range ma.Evs {
		switch e.L {
		case "write":
			out = append(out, fmt.Sprintf("write %s %d", e.Status, e.Attempts))
		case "enter":
			out = append(out, fmt.Sprintf("enter %d", e.Call))
		case "exit":
			if !dropExitOf[e.Call] {
				out = append(out, fmt.Sprintf("exit %d", e.Call))
			}
		}
	}
	return out
}

func findAction(p *PlanImg, idx int) *ActionImg {
	var found *ActionImg
	grp := func(c *ChecksImg) {
		if c != nil {
			for i := range c.Actions {
				if c.Actions[i].ID == idx {
					found = &c.Actions[i]
				}
			}
		}
	}
	grp(p.Bypass)
	grp(p.Pre)
	grp(p.Cont)
	grp(p.Post)
	grp(p.Deferred)
	for bi := range p.Blocks {
		b := &p.Blocks[bi]
		grp(b.Bypass)
		grp(b.Pre)
		grp(b.Cont)
		grp(b.Post)
		grp(b.Deferred)
		for si := range b.Seqs {
			for ai := range b.Seqs[si].Actions {
				if b.Seqs[si].Actions[ai].ID == idx {
					found = &b.Seqs[si].Actions[ai]
				}
			}
		}
	}
	return found
}

// spuriousTimeout: a call that was not scripted to overrun nevertheless saw its context cancelled
// (CPU starvation of the sandbox) — the case is inconclusive, not a finding.
func spuriousTimeout(tr []Event, scripts map[string][]Outcome) bool {
	for _, e := range tr {
		if e.L == "exit" && e.CtxDone {
			sc := scripts[e.Tag]
			k := e.Call
			if len(sc) == 0 {
				return true
			}
			if k >= len(sc) {
				k = len(sc) - 1
			}
			if !sc[k].Overrun {
				return true
			}
		}
	}
	return false
}

type c05Case struct {
	XRetries int       `json:"xRetries"`
	XScript  []Outcome `json:"xScript"`
	YRetries int       `json:"yRetries"`
	YScript  []Outcome `json:"yScript"`
}

func (c *c05Case) spec(prefix string) *PlanSpec {
	to := func(sc []Outcome) int {
		if hasOverrun(sc) {
			return 300
		}
		return 0
	}
	return &PlanSpec{
		Pre: &GroupSpec{Actions: []ActSpec{{Tag: prefix + "X", Retries: c.XRetries, Script: c.XScript, TimeoutMs: to(c.XScript)}}},
		Blocks: []BlockSpec{{Conc: 1, Seqs: []SeqSpec{{Actions: []ActSpec{
			{Tag: prefix + "Y", Retries: c.YRetries, Script: c.YScript, TimeoutMs: to(c.YScript)},
			{Tag: prefix + "Z", Script: []Outcome{okOutcome}},
		}}}}},
	}
}

// walk indices in this fixed shape: 0 plan, 1 pre group, 2 X, 3 block, 4 seq, 5 Y, 6 Z
const (
	c05X = 2
	c05Y = 5
	c05Z = 6
)

func c05Check(r *Result, m *Model, c *c05Case, res *runResult, prefix string) {
	if res.TimedOut || res.Final == nil {
		r.finding(Finding{Kind: "monitor", Clause: "C05.terminates", Text: "plan did not finish: " + res.WaitErr, Case: c})
		return
	}
	scripts := map[string][]Outcome{prefix + "X": c.XScript, prefix + "Y": c.YScript, prefix + "Z": {okOutcome}}
	if spuriousTimeout(res.Trace, scripts) {
		r.count("inconclusive:spurious-timeout")
		return
	}
	mx, err := askAttempts(m, c.XRetries, true, c.XScript)
	if err != nil {
		r.finding(Finding{Kind: "disagreement", Clause: "C05.driver", Text: err.Error(), Case: c})
		return
	}
	my, err := askAttempts(m, c.YRetries, false, c.YScript)
	if err != nil {
		r.finding(Finding{Kind: "disagreement", Clause: "C05.driver", Text: err.Error(), Case: c})
		return
	}
	overruns := func(sc []Outcome, calls int) map[int]bool {
		d := map[int]bool{}
		for k := 0; k < calls; k++ {
			i := k
			if i >= len(sc) {
				i = len(sc) - 1
			}
			if sc[i].Overrun {
				d[k] = true
			}
		}
		return d
	}
	check := func(name string, obj int, ma *modelAttempts, sc []Outcome, lead []string, ran bool) {
		drop := overruns(sc, ma.Calls+2)
		got := actionEvents(res.Trace, 0, obj, drop)
		var want []string
		if ran {
			want = append(append([]string{}, lead...), modelEvents(ma, drop)...)
			want = append(want, fmt.Sprintf("write %s %d", ma.Status, len(ma.Attempts))) // End's writeEverything
		} else {
			want = []string{"write notStarted 0"}
		}
		if !jsonEq(got, want) {
			r.finding(Finding{Kind: "monitor", Clause: "C05.events", Features: map[string]any{"action": name, "diff": diffKind(got, want)},
				Text: "per-action event sequence (durable writes with attempt counts, plugin calls) differs from Model/Attempts",
				Case: c, Observed: got, Model: want})
		}
		fa := findAction(res.Final, obj)
		if fa == nil {
			r.finding(Finding{Kind: "monitor", Clause: "C05.final", Text: "action missing from the stored plan", Case: c})
			return
		}
		type att struct {
			Err  string `json:"err"`
			Resp bool   `json:"resp"`
		}
		gotA := []att{}
		for _, a := range fa.Attempts {
			gotA = append(gotA, att{a.Err, a.Resp})
		}
		wantA := []att{}
		wantStatus := "notStarted"
		if ran {
			for _, a := range ma.Attempts {
				wantA = append(wantA, att{a.Err, a.Resp})
			}
			wantStatus = ma.Status
		}
		if !jsonEq(gotA, wantA) || fa.Status != wantStatus {
			r.finding(Finding{Kind: "monitor", Clause: "C05.record", Features: map[string]any{"action": name, "status": fa.Status != wantStatus},
				Text: "stored attempts / status differ from Model/Attempts", Case: c,
				Observed: map[string]any{"status": fa.Status, "attempts": gotA}, Model: map[string]any{"status": wantStatus, "attempts": wantA}})
		}
		// times: start <= end per attempt, attempts in chronological order, inside the action's own window
		prevEnd := 0
		for i, a := range fa.Attempts {
			if a.TStart == 0 || a.TEnd == 0 || a.TStart > a.TEnd || a.TStart < prevEnd || a.TStart < fa.TStart || (fa.TEnd != 0 && a.TEnd > fa.TEnd) {
				r.finding(Finding{Kind: "monitor", Clause: "C05.times", Features: map[string]any{"action": name},
					Text: fmt.Sprintf("attempt %d has inconsistent times", i), Case: c, Observed: fa})
				break
			}
			prevEnd = a.TEnd
		}
		// overrun: the plugin's context must have been cancelled when it returned
		for _, e := range res.Trace {
			if e.L == "exit" && e.Obj == obj && drop[e.Call] && !e.CtxDone {
				r.finding(Finding{Kind: "monitor", Clause: "C05.overrun_ctx", Text: "plugin context not cancelled after the timeout", Case: c})
			}
		}
	}
	check("X", c05X, mx, c.XScript, []string{"write running 0"}, true)
	check("Y", c05Y, my, c.YScript, nil, !mx.Failed)
	// the sentinel Z runs exactly when X and Y both succeeded (C01 territory, cheap to assert here)
	zcalls := 0
	for _, e := range res.Trace {
		if e.L == "enter" && e.Obj == c05Z {
			zcalls++
		}
	}
	wantZ := 0
	if !mx.Failed && !my.Failed {
		wantZ = 1
	}
	if zcalls != wantZ {
		r.finding(Finding{Kind: "monitor", Clause: "C05.next_action", Features: map[string]any{"got": zcalls, "want": wantZ},
			Text: "the action following Y was invoked although Y failed (or not invoked although it succeeded)", Case: c})
	}
}

func diffKind(got, want []string) string {
	for i := 0; i < len(got) && i < len(want); i++ {
		if got[i] != want[i] {
			return fmt.Sprintf("got %q want %q", got[i], want[i])
		}
	}
	if len(got) < len(want) {
		return "missing " + want[len(got)]
	}
	if len(got) > len(want) {
		return "extra " + got[len(want)]
	}
	return "none"
}

func runC05Case(r *Result, m *Model, env *engineEnv, c *c05Case, n int) {
	prefix := fmt.Sprintf("c%d.", n)
	env.tr = newTracerInto(env)
	ps := c.spec(prefix)
	p, err := env.submit(ps, 0)
	if err != nil {
		r.finding(Finding{Kind: "crash", Clause: "C05.submit", Text: err.Error(), Case: c})
		return
	}
	res := env.startAndWait(p, 0, 60*time.Second, 0)
	c05Check(r, m, c, res, prefix)
	nontrivial := len(c.XScript) >= 2 || len(c.YScript) >= 2 || c.XScript[0] != okOutcome || c.YScript[0] != okOutcome
	r.eval(c, nontrivial)
	r.sample(map[string]any{"case": c, "events_Y": actionEvents(res.Trace, 0, c05Y, nil)})
}

// newTracerInto replaces the tracer of an environment between cases (plugins and spy share it by pointer).
func newTracerInto(env *engineEnv) *tracer {
	t := env.tr
	t.mu.Lock()
	t.events = nil
	t.n = 0
	t.objIdx = map[uuidT]int{}
	t.planNo = map[uuidT]int{}
	t.mu.Unlock()
	return t
}

func init() {
	campaigns["C05"] = func(r *Result) {
		quietLogs()
		r.Rule = "one plan per case with a check action X (PreChecks) and a sequence action Y, each with its own retry budget (0-3) and outcome script (1-5 calls over resp in {good,bad,nil} x err in {none,transient,permanent} + overrun); thorough adds the exhaustive enumeration of all scripts of length <=3 over 6 outcome classes x budgets 0-2; non-trivial = a script of length >=2 or a non-ok outcome; distinct by (budgets, scripts)"
		workers := 8
		n := tierN(400, 12000)
		var cases []*c05Case
		rng := newRand(5)
		for i := 0; i < n && !expired(); i++ {
			ov := 0
			if i%8 == 0 {
				ov = 1
				if cfg.Tier == "thorough" {
					ov = 2
				}
			}
			c := &c05Case{XRetries: rng.IntN(4), YRetries: rng.IntN(4)}
			c.XScript = genScript(rng, 5, &ov)
			c.YScript = genScript(rng, 5, &ov)
			cases = append(cases, c)
		}
		// stored cases that run first: a call that overruns its timeout and returns late, followed by another attempt of the
		// same action or by the next action. Whatever the late call delivers belongs to the abandoned attempt and must
		// not show up in a later one. Where a late result lands depends on the scheduler and, if the code recycles
		// anything through a sync.Pool, on the garbage collector: each shape is repeated, spread over all workers, and the
		// collector is held off while they run.
		ovr := Outcome{Resp: "good", Err: "none", Overrun: true}
		tr := Outcome{Resp: "nil", Err: "transient"}
		var stored []*c05Case
		for rep := 0; rep < 8; rep++ {
			for ret := 1; ret <= 2; ret++ {
				stored = append(stored,
					&c05Case{XRetries: 0, XScript: []Outcome{okOutcome}, YRetries: ret, YScript: []Outcome{ovr, okOutcome}},
					&c05Case{XRetries: ret, XScript: []Outcome{ovr, okOutcome}, YRetries: 0, YScript: []Outcome{okOutcome}},
					&c05Case{XRetries: 0, XScript: []Outcome{okOutcome}, YRetries: ret + 1, YScript: []Outcome{ovr, tr, okOutcome}})
			}
			stored = append(stored, &c05Case{XRetries: 1, XScript: []Outcome{ovr, okOutcome}, YRetries: 1, YScript: []Outcome{ovr, okOutcome}})
		}
		gcWas := debug.SetGCPercent(-1)
		parallel(workers, workers, func(w int) {
			m := getModel()
			defer putModel(m)
			env, err := newEngineEnv("")
			if err != nil {
				return
			}
			defer env.close()
			for i := w; i < len(stored); i += workers {
				runC05Case(r, m, env, stored[i], 1000000+i)
				r.count("stored overrun case")
			}
		})
		debug.SetGCPercent(gcWas)
		if cfg.Tier == "thorough" {
			// exhaustive: all scripts of length <= 3 over 6 classes, budgets 0..2, as Y (X trivial) and as X (Y trivial)
			classes := []Outcome{{Resp: "good", Err: "none"}, {Resp: "nil", Err: "transient"}, {Resp: "nil", Err: "permanent"}, {Resp: "bad", Err: "transient"}, {Resp: "good", Err: "transient"}, {Resp: "nil", Err: "none"}}
			var rec func(pre []Outcome, depth int)
			rec = func(pre []Outcome, depth int) {
				if len(pre) > 0 {
					for ret := 0; ret <= 2; ret++ {
						sc := append([]Outcome{}, pre...)
						cases = append(cases, &c05Case{XRetries: 0, XScript: []Outcome{okOutcome}, YRetries: ret, YScript: sc})
						cases = append(cases, &c05Case{XRetries: ret, XScript: sc, YRetries: 0, YScript: []Outcome{okOutcome}})
					}
				}
				if depth == 0 {
					return
				}
				for _, c := range classes {
					rec(append(append([]Outcome{}, pre...), c), depth-1)
				}
			}
			rec(nil, 3)
			r.Exhaustive = false
			r.Notes = append(r.Notes, "exhaustive sub-space: all scripts of length 1..3 over 6 outcome classes x budgets 0..2, for a sequence action and for a check action")
		}
		per := (len(cases) + workers - 1) / workers
		parallel(workers, workers, func(w int) {
			lo, hi := w*per, (w+1)*per
			if hi > len(cases) {
				hi = len(cases)
			}
			if lo >= hi {
				return
			}
			m := getModel()
			defer putModel(m)
			env, err := newEngineEnv("")
			if err != nil {
				r.finding(Finding{Kind: "crash", Clause: "C05.env", Text: err.Error()})
				return
			}
			defer env.close()
			for i := lo; i < hi; i++ {
				c := cases[i]
				runC05Case(r, m, env, c, i)
				r.count(fmt.Sprintf("retries=%d", c.YRetries))
				r.count(fmt.Sprintf("scriptlen=%d", len(c.YScript)))
				for _, o := range c.YScript {
					k := o.Resp + "/" + o.Err
					if o.Overrun {
						k = "overrun"
					}
					r.count("outcome:" + k)
				}
			}
		})
		r.Validated = r.Evaluations
	}
}
