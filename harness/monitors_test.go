package harness

// Trace monitors for the engine properties (C01–C08). Each clause is named after the theorem /
// statement clause it checks (DESIGN §3.10); a violated clause yields a Finding with discriminating
// features. They are evaluated on every implementation trace, schedule-dependent or not.

import (
	"fmt"
	"sort"
)

type traceView struct {
	ix      *index
	tr      []Event
	plan    int
	final   *PlanImg
	release int64 // N of the release event (0 = none)
	// per object
	writes map[int][]Event // post-phase writes
	enters map[int][]Event
	exits  map[int][]Event
	first  map[int]int64 // first activity (enter) of a unit (group / seq) by walk idx
	lastW  map[int]*ObjImg
	fs     int64 // cached flushStart
}

func newTraceView(ix *index, tr []Event, plan int, final *PlanImg) *traceView {
	v := &traceView{ix: ix, tr: tr, plan: plan, final: final, writes: map[int][]Event{}, enters: map[int][]Event{}, exits: map[int][]Event{},
		first: map[int]int64{}, lastW: map[int]*ObjImg{}}
	for _, e := range tr {
		if e.L == "release" && e.Plan == plan {
			v.release = e.N
		}
		if e.Plan != plan || e.Obj < 0 || e.Obj >= len(ix.Objs) {
			continue
		}
		switch e.L {
		case "wPlan", "wBlock", "wSeq", "wChecks", "wAct":
			if e.Phase == "post" {
				v.writes[e.Obj] = append(v.writes[e.Obj], e)
				v.lastW[e.Obj] = e.Img
			}
		case "enter":
			v.enters[e.Obj] = append(v.enters[e.Obj], e)
			u := ix.Objs[e.Obj].Unit
			if _, ok := v.first[u]; !ok {
				v.first[u] = e.N
			}
		case "exit":
			v.exits[e.Obj] = append(v.exits[e.Obj], e)
		}
	}
	return v
}

func (v *traceView) status(obj int) string {
	if im := v.lastW[obj]; im != nil {
		return im.Status
	}
	return "notStarted"
}

// firstWrite returns N of the first post write of obj with the given status (0 = none).
func (v *traceView) firstWrite(obj int, status string) int64 {
	for _, e := range v.writes[obj] {
		if e.Img.Status == status {
			return e.N
		}
	}
	return 0
}

// lastTerminalWrite: N of the first write that carries a terminal status (the moment the object ended).
func (v *traceView) lastTerminalWrite(obj int) int64 {
	for _, e := range v.writes[obj] {
		if e.Img.Status == "completed" || e.Img.Status == "failed" {
			return e.N
		}
	}
	return 0
}

// flushStart: N of the first write of End's final flush (writeEverything). The flush writes every object
// once and nothing is written after it, in whatever order the engine chooses: it is the longest suffix of
// the write sequence in which no object is written twice. Activity comparisons ignore events at or after it.
func (v *traceView) flushStart() int64 {
	if v.fs != 0 {
		return v.fs
	}
	type w struct {
		n   int64
		obj int
	}
	var all []w
	for obj, ws := range v.writes {
		for _, e := range ws {
			if v.release == 0 || e.N < v.release { // writes after the release are judged by C08, they are not the flush
				all = append(all, w{e.N, obj})
			}
		}
	}
	sort.Slice(all, func(i, j int) bool { return all[i].n < all[j].n })
	v.fs = 1 << 62
	seen := map[int]bool{}
	for i := len(all) - 1; i >= 0; i-- {
		if seen[all[i].obj] {
			break
		}
		seen[all[i].obj] = true
		v.fs = all[i].n
	}
	return v.fs
}

// activity of a unit: enter events of its actions + its own non-flush writes
func (v *traceView) unitActivity(unit int) (first, last int64) {
	fs := v.flushStart()
	upd := func(n int64) {
		if n >= fs {
			return
		}
		if first == 0 || n < first {
			first = n
		}
		if n > last {
			last = n
		}
	}
	for _, a := range v.ix.actionsOf(unit) {
		for _, e := range v.enters[a] {
			upd(e.N)
		}
		for _, e := range v.exits[a] {
			upd(e.N)
		}
	}
	for _, e := range v.writes[unit] {
		upd(e.N)
	}
	return
}

// groupRuns: number of runs of a check group = number of its writes (outside the final flush) / 2.
func (v *traceView) groupRuns(g int) int {
	fs := v.flushStart()
	n := 0
	for _, e := range v.writes[g] {
		if e.N < fs {
			n++
		}
	}
	return n / 2
}

// spuriousTimeoutIn: in a plan with short action timeouts (overrun cases) a call that was NOT scripted to overrun
// nevertheless saw its context cancelled: the machine delayed it past its 3-6 ms timeout. The engine then rightly
// abandons it while the scripted plugin, which does not watch its context on that path, is still "in flight" for the
// tracer. Such a run says nothing about plugin-level overlap and the in-flight monitors do not judge it.
func spuriousTimeoutIn(ps *PlanSpec, v *traceView) bool {
	scripts := map[string][]Outcome{}
	short := false
	ps.eachAction(func(a *ActSpec, _ bool) {
		scripts[a.Tag] = a.Script
		if a.TimeoutMs > 0 {
			short = true
		}
	})
	if !short {
		return false
	}
	for _, e := range v.tr {
		if e.L == "exit" && e.CtxDone {
			sc := scripts[e.Tag]
			k := e.Call
			if k >= len(sc) {
				k = len(sc) - 1
			}
			if k < 0 || !sc[k].Overrun {
				return true
			}
		}
	}
	return false
}

// callIntervals: [start, end] (event numbers, end 0 = never ended) of every plugin call of action a. A call that was
// scripted to outlive its action's timeout is abandoned by the engine; the scripted plugin logs its exit when ITS goroutine
// notices the cancelled context, which on a loaded machine can be after the engine has moved on. For such a call the
// interval ends at the engine's own record of the attempt (the action's next write) if that comes first. Whether an
// abandoned call really ends is judged separately (C02.abandoned_call_ends).
func (v *traceView) callIntervals(a int, overrun func(tag string, call int) bool) [][2]int64 {
	var out [][2]int64
	for _, en := range v.enters[a] {
		var end int64
		for _, ex := range v.exits[a] {
			if ex.Call == en.Call && ex.N > en.N {
				end = ex.N
				break
			}
		}
		if overrun != nil && overrun(en.Tag, en.Call) {
			for _, w := range v.writes[a] {
				if w.N > en.N {
					if end == 0 || w.N < end {
						end = w.N
					}
					break
				}
			}
		}
		out = append(out, [2]int64{en.N, end})
	}
	return out
}

type monitorSet struct {
	r    *Result
	spec *PlanSpec
	desc any
}

func (m *monitorSet) fail(clause string, feat map[string]any, text string, obs any) {
	m.r.finding(Finding{Kind: "monitor", Clause: clause, Features: feat, Text: text, Case: m.desc, Observed: obs})
}

// runMonitors evaluates all engine clauses on one finished (or timed out) run.
func runMonitors(r *Result, ix *index, res *runResult, desc any) {
	m := &monitorSet{r: r, spec: ix.Spec, desc: desc}
	v := newTraceView(ix, res.Trace, 0, res.Final)
	ps := ix.Spec

	if res.TimedOut || res.Final == nil {
		m.fail("C04.terminates", map[string]any{"timedOut": res.TimedOut}, "Wait did not return a plan within the watchdog: "+res.WaitErr, tailEvents(res.Trace, 12))
		return
	}

	scripts := map[string][]Outcome{}
	ps.eachAction(func(a *ActSpec, _ bool) { scripts[a.Tag] = a.Script })
	overrunScripted := func(tag string, call int) bool {
		sc := scripts[tag]
		if len(sc) == 0 {
			return false
		}
		if call >= len(sc) {
			call = len(sc) - 1
		}
		return sc[call].Overrun
	}
	// every abandoned call must really end (its context must be cancelled): see startAndWait's grace period
	for _, u := range res.Unended {
		m.fail("C02.abandoned_call_ends", map[string]any{"overrunScripted": overrunScripted(u.Tag, u.Call)},
			"a plugin call that the engine had abandoned at its timeout was still executing long after the plan ended (its context was never cancelled)", u)
	}
	disturbed := spuriousTimeoutIn(ps, v)
	if disturbed {
		r.count("runs not judged for plugin-level overlap (spurious timeout on a loaded machine)")
	}

	// ---------------- C01.b / C05 gating inside sequences
	for bi := range ps.Blocks {
		for _, q := range ix.seqsOf(bi) {
			acts := ix.actionsOf(q)
			inflight := 0
			type ev struct {
				n     int64
				enter bool
				a     int
				call  int
			}
			var evs []ev
			for pos, a := range acts {
				for i, iv := range v.callIntervals(a, overrunScripted) {
					evs = append(evs, ev{iv[0], true, pos, i})
					if iv[1] != 0 {
						evs = append(evs, ev{iv[1], false, pos, i})
					}
				}
			}
			sort.Slice(evs, func(i, j int) bool { return evs[i].n < evs[j].n })
			cur := 0
			for _, e := range evs {
				if e.enter {
					if inflight > 0 && !disturbed {
						m.fail("C01.b_one_action_in_flight", map[string]any{}, "two plugin calls of one sequence in flight at once", nil)
					}
					inflight++
					if e.a < cur {
						m.fail("C01.b_declared_order", map[string]any{}, "a sequence action was invoked after a later one", nil)
					}
					if e.a > cur {
						// all actions before e.a must have a durable Completed write before this call
						for p := cur; p < e.a; p++ {
							w := v.firstWrite(acts[p], "completed")
							if w == 0 || w > e.n {
								m.fail("C01.b_gated_on_success", map[string]any{"prevStatus": v.status(acts[p])},
									"a sequence action was invoked before the previous action of the sequence had finished successfully", nil)
							}
						}
						cur = e.a
					}
				} else {
					inflight--
				}
			}
		}
	}

	// ---------------- C01.a / C02.one_block: blocks one at a time, in declared order
	type span struct{ first, last int64 }
	var spans []span
	for bi := range ps.Blocks {
		var s span
		for i, o := range ix.Objs {
			if o.Block != bi || o.Kind != "action" {
				continue
			}
			for _, iv := range v.callIntervals(i, overrunScripted) {
				for _, n := range iv {
					if n == 0 {
						continue
					}
					if s.first == 0 || n < s.first {
						s.first = n
					}
					if n > s.last {
						s.last = n
					}
				}
			}
		}
		spans = append(spans, s)
	}
	for i := 0; i < len(spans); i++ {
		for j := i + 1; j < len(spans); j++ {
			if spans[i].first != 0 && spans[j].first != 0 && spans[j].first < spans[i].last && !disturbed {
				m.fail("C01.a_blocks_in_order", map[string]any{}, "plugin activity of a later block overlaps or precedes that of an earlier block", map[string]any{"i": i, "j": j})
			}
			if spans[i].first == 0 && spans[j].first != 0 && v.status(ix.Blocks[i]) != "completed" {
				m.fail("C01.a_blocks_in_order", map[string]any{"skipped": true}, "a later block ran although an earlier block neither ran nor was bypassed", nil)
			}
		}
	}

	// ---------------- C01.c / C06.pre: no sequence action before the scope's pre (+initial cont) verdicts passed
	seqFirst := func(bi int) int64 {
		var f int64
		for _, q := range ix.seqsOf(bi) {
			if n, ok := v.first[q]; ok && (f == 0 || n < f) {
				f = n
			}
		}
		return f
	}
	gate := func(scope int, gk string, bi int, what string) {
		g := ix.group(scope, gk)
		if g < 0 {
			return
		}
		if gk == "cont" && ix.group(scope, "pre") < 0 {
			return // no PreChecks: the code makes no initial gating run of the cont group (reading: DESIGN §3.9)
		}
		sf := seqFirst(bi)
		if sf == 0 {
			return
		}
		w := v.firstWrite(g, "completed")
		if w == 0 || w > sf {
			m.fail("C01.c_prechecks_gate_sequences", map[string]any{"group": what, "verdictSeen": w != 0},
				"a sequence action was invoked before the "+what+" had passed", nil)
		}
	}
	for bi := range ps.Blocks {
		gate(-1, "pre", bi, "plan pre-checks")
		gate(-1, "cont", bi, "initial run of the plan continuous checks")
		gate(bi, "pre", bi, "block pre-checks")
		gate(bi, "cont", bi, "initial run of the block continuous checks")
	}

	// ---------------- C01.d / C01.e / C07.deferred: post after every started sequence finished, deferred last, exactly once
	scopeCheck := func(scope int, name string) {
		post, dfr := ix.group(scope, "post"), ix.group(scope, "deferred")
		var blocks []int
		if scope < 0 {
			for bi := range ps.Blocks {
				blocks = append(blocks, bi)
			}
		} else {
			blocks = []int{scope}
		}
		// end of every started sequence in the scope
		var seqEnd int64
		running := false
		for _, bi := range blocks {
			for _, q := range ix.seqsOf(bi) {
				if v.firstWrite(q, "running") == 0 {
					continue
				}
				t := v.lastTerminalWrite(q)
				if t == 0 {
					running = true
				}
				if t > seqEnd {
					seqEnd = t
				}
			}
		}
		for _, g := range []int{post, dfr} {
			if g < 0 {
				continue
			}
			f, _ := v.unitActivity(g)
			if f == 0 {
				continue
			}
			which := "post"
			if g == dfr {
				which = "deferred"
			}
			// every sequence that had begun before this group began must have finished before it began
			for _, bi := range blocks {
				for _, q := range ix.seqsOf(bi) {
					b := v.firstWrite(q, "running")
					if b == 0 || b > f {
						if b > f {
							m.fail("C01.d_"+which+"_after_sequences", map[string]any{"scope": name, "how": "seq began after"},
								"a sequence began after the scope's "+which+" checks had begun", nil)
						}
						continue
					}
					t := v.lastTerminalWrite(q)
					if t == 0 || t > f {
						m.fail("C01.d_"+which+"_after_sequences", map[string]any{"scope": name, "how": "seq still running"},
							"the scope's "+which+" checks began while a started sequence was still running", nil)
					}
				}
			}
		}
		_ = running
		_ = seqEnd
		// deferred is the last group begun in the scope
		if dfr >= 0 {
			df, _ := v.unitActivity(dfr)
			if df != 0 {
				for _, gk := range []string{"bypass", "pre", "post"} {
					g := ix.group(scope, gk)
					if g < 0 {
						continue
					}
					_, l := v.unitActivity(g)
					if l > df {
						m.fail("C01.e_deferred_last", map[string]any{"scope": name, "other": gk}, "a "+gk+" check group of the scope was active after its deferred checks had begun", nil)
					}
				}
				if scope < 0 {
					for _, bi := range blocks {
						if spans[bi].last > df {
							m.fail("C01.e_deferred_last", map[string]any{"scope": name, "other": "block"}, "a block was active after the plan's deferred checks had begun", nil)
						}
					}
				}
			}
			// exactly once iff the scope was entered and not bypassed
			entered, bypassed := false, false
			if scope < 0 {
				entered = v.firstWrite(0, "running") != 0
			} else {
				entered = v.firstWrite(ix.Blocks[scope], "running") != 0
			}
			if bg := ix.group(scope, "bypass"); bg >= 0 && v.firstWrite(bg, "completed") != 0 {
				bypassed = true
			}
			if scope >= 0 {
				if bg := ix.group(-1, "bypass"); bg >= 0 && v.firstWrite(bg, "completed") != 0 {
					entered = false
				}
			}
			runs := v.groupRuns(dfr)
			want := 0
			if entered && !bypassed {
				want = 1
			}
			if runs != want {
				m.fail("C07.deferred_exactly_once", map[string]any{"scope": name, "runs": runs, "want": want},
					fmt.Sprintf("deferred checks of the %s ran %d times, want %d (entered=%v bypassed=%v)", name, runs, want, entered, bypassed), nil)
			}
			// a deferred failure fails the scope
			if v.firstWrite(dfr, "failed") != 0 {
				st := ""
				if scope < 0 {
					st = res.Final.Status
				} else {
					st = v.status(ix.Blocks[scope])
				}
				if st != "failed" {
					m.fail("C07.deferred_failure_fails_scope", map[string]any{"scope": name}, "deferred checks failed but the scope ended "+st, nil)
				}
			}
		}
	}
	scopeCheck(-1, "plan")
	for bi := range ps.Blocks {
		scopeCheck(bi, "block")
	}

	// ---------------- C02: in-flight bound; C03: failure bound and stop
	for bi, b := range ps.Blocks {
		conc := b.Conc
		if conc < 1 {
			conc = 1
		}
		type ev struct {
			n     int64
			delta int
			q     int
		}
		var evs []ev
		for _, q := range ix.seqsOf(bi) {
			for _, a := range ix.actionsOf(q) {
				for _, iv := range v.callIntervals(a, overrunScripted) {
					evs = append(evs, ev{iv[0], 1, q})
					if iv[1] != 0 {
						evs = append(evs, ev{iv[1], -1, q})
					}
				}
			}
		}
		sort.Slice(evs, func(i, j int) bool { return evs[i].n < evs[j].n })
		in := map[int]int{}
		max := 0
		for _, e := range evs {
			in[e.q] += e.delta
			c := 0
			for _, x := range in {
				if x > 0 {
					c++
				}
			}
			if c > max {
				max = c
			}
		}
		if max > conc && !disturbed {
			m.fail("C02.concurrency_bound", map[string]any{"conc": conc, "observed": max}, fmt.Sprintf("%d sequences of one block had an action in flight at once, Concurrency is %d", max, conc), nil)
		}
		// sequences Running (between their Running write and their terminal write) also obey the bound
		var sv []ev
		for _, q := range ix.seqsOf(bi) {
			if s := v.firstWrite(q, "running"); s != 0 {
				sv = append(sv, ev{s, 1, q})
				if t := v.lastTerminalWrite(q); t != 0 {
					sv = append(sv, ev{t, -1, q})
				}
			}
		}
		sort.Slice(sv, func(i, j int) bool { return sv[i].n < sv[j].n })
		c, mx := 0, 0
		for _, e := range sv {
			c += e.delta
			if c > mx {
				mx = c
			}
		}
		if mx > conc {
			m.fail("C02.concurrency_bound", map[string]any{"conc": conc, "observed": mx, "level": "sequence"}, fmt.Sprintf("%d sequences of one block were Running at once, Concurrency is %d", mx, conc), nil)
		}
		// C03
		failed, begunAfter := 0, 0
		var crossed int64
		var fails []int64
		for _, q := range ix.seqsOf(bi) {
			if w := v.firstWrite(q, "failed"); w != 0 {
				failed++
				fails = append(fails, w)
			}
		}
		sort.Slice(fails, func(i, j int) bool { return fails[i] < fails[j] })
		if b.Tol >= 0 && len(fails) > b.Tol {
			crossed = fails[b.Tol]
			for _, q := range ix.seqsOf(bi) {
				if s := v.firstWrite(q, "running"); s != 0 && s > crossed {
					begunAfter++
				}
			}
			if failed > b.Tol+conc {
				m.fail("C03.failure_bound", map[string]any{"failed": failed, "tol": b.Tol, "conc": conc}, "more than ToleratedFailures+Concurrency sequences failed", nil)
			}
			if begunAfter > conc-1 {
				m.fail("C03.no_start_after_threshold", map[string]any{"begunAfter": begunAfter, "conc": conc},
					"sequences were started after the failure threshold had been exceeded (beyond those already past their in-goroutine test)", nil)
			}
		}
		// block outcome
		entered := v.firstWrite(ix.Blocks[bi], "running") != 0
		if entered {
			own := false
			for _, gk := range []string{"pre", "cont", "post", "deferred"} {
				if g := ix.group(bi, gk); g >= 0 && v.firstWrite(g, "failed") != 0 {
					own = true
				}
			}
			bypassed := false
			if g := ix.group(bi, "bypass"); g >= 0 && v.firstWrite(g, "completed") != 0 {
				bypassed = true
			}
			planCont := false
			if g := ix.group(-1, "cont"); g >= 0 && v.firstWrite(g, "failed") != 0 {
				planCont = true
			}
			over := b.Tol >= 0 && failed > b.Tol
			st := v.status(ix.Blocks[bi])
			if !bypassed && (over || own) && st != "failed" {
				m.fail("C03.block_failed_when_required", map[string]any{"over": over, "own": own, "status": st}, "block should have ended Failed (tolerance exceeded or one of its checks failed) but ended "+st, nil)
			}
			if st == "failed" && !(over || own || planCont) {
				m.fail("C03.block_failed_only_when_required", map[string]any{}, "block ended Failed although its tolerance was not exceeded and none of its checks failed", nil)
			}
			if st != "failed" && st != "completed" {
				m.fail("C04.R2_nothing_running", map[string]any{"kind": "block", "status": st}, "an entered block ended "+st, nil)
			}
			if st == "failed" {
				for bj := bi + 1; bj < len(ps.Blocks); bj++ {
					if spans[bj].first != 0 {
						m.fail("C03.nothing_after_failed_block", map[string]any{}, "a later block invoked a plugin after a block had failed", nil)
					}
				}
				if res.Final.Status != "failed" {
					m.fail("C03.plan_fails_with_block", map[string]any{"plan": res.Final.Status}, "a block ended Failed but the plan ended "+res.Final.Status, nil)
				}
			}
		}
	}

	// ---------------- C06: bypass gating
	bypassGate := func(scope int, name string) {
		bg := ix.group(scope, "bypass")
		if bg < 0 {
			return
		}
		ok := v.firstWrite(bg, "completed") != 0
		if !ok {
			return
		}
		_, bl := v.unitActivity(bg)
		for i, o := range ix.Objs {
			if o.Kind != "action" || i == bg || o.Unit == bg {
				continue
			}
			inScope := scope < 0 || o.Block == scope
			if !inScope {
				continue
			}
			for _, e := range v.enters[i] {
				if e.N > bl || true {
					if scope < 0 || e.N > bl {
						m.fail("C06.bypass_skips_scope", map[string]any{"scope": name, "what": o.Kind + ":" + o.GKind}, "something in the "+name+" was invoked although all its bypass checks passed", nil)
						return
					}
				}
			}
		}
		st := res.Final.Status
		if scope >= 0 {
			st = v.status(ix.Blocks[scope])
		}
		if st != "completed" {
			m.fail("C06.bypassed_scope_completed", map[string]any{"scope": name, "status": st}, "a bypassed "+name+" ended "+st, nil)
		}
	}
	bypassGate(-1, "plan")
	for bi := range ps.Blocks {
		if v.firstWrite(ix.Blocks[bi], "running") != 0 {
			bypassGate(bi, "block")
		}
	}
	// pre / initial cont failed => no sequence action, scope Failed
	preFail := func(scope int, name string) {
		bad := ""
		if g := ix.group(scope, "pre"); g >= 0 && v.firstWrite(g, "failed") != 0 {
			bad = "pre"
		}
		if g := ix.group(scope, "cont"); g >= 0 && ix.group(scope, "pre") >= 0 {
			// initial run = the first run of the cont group
			ws := v.writes[g]
			if len(ws) >= 2 && ws[1].Img.Status == "failed" {
				bad = "initial cont"
			}
		}
		if bad == "" {
			return
		}
		var blocks []int
		if scope < 0 {
			for bi := range ps.Blocks {
				blocks = append(blocks, bi)
			}
		} else {
			blocks = []int{scope}
		}
		for _, bi := range blocks {
			if seqFirst(bi) != 0 {
				m.fail("C06.failed_precheck_blocks_sequences", map[string]any{"scope": name, "which": bad}, "a sequence action was invoked although the "+name+"'s "+bad+" check failed", nil)
			}
		}
		st := res.Final.Status
		if scope >= 0 {
			st = v.status(ix.Blocks[scope])
		}
		if st != "failed" {
			m.fail("C06.failed_precheck_fails_scope", map[string]any{"scope": name, "which": bad, "status": st}, "the "+name+"'s "+bad+" check failed but it ended "+st, nil)
		}
	}
	preFail(-1, "plan")
	for bi := range ps.Blocks {
		preFail(bi, "block")
	}

	// ---------------- C07: a failed cont run fails the scope
	contFail := func(scope int, name string) {
		g := ix.group(scope, "cont")
		if g < 0 || v.firstWrite(g, "failed") == 0 {
			return
		}
		st := res.Final.Status
		if scope >= 0 {
			st = v.status(ix.Blocks[scope])
		}
		if st != "failed" {
			m.fail("C07.cont_failure_fails_scope", map[string]any{"scope": name, "status": st}, "a run of the "+name+"'s continuous checks failed but it ended "+st, nil)
		}
		if scope < 0 {
			pre := ix.group(-1, "pre")
			preOK := pre < 0 || v.firstWrite(pre, "failed") == 0
			last := v.lastW[0]
			if preOK && last != nil && last.Reason != "contCheck" && last.Status == "failed" {
				m.fail("C07.plan_reason_contcheck", map[string]any{"reason": last.Reason}, "plan continuous checks failed (pre-checks passed) but the failure reason is "+last.Reason, nil)
			}
		}
	}
	contFail(-1, "plan")
	for bi := range ps.Blocks {
		contFail(bi, "block")
	}

	// ---------------- C08: persist-before-act, monotone status
	for i, o := range ix.Objs {
		if o.Kind != "action" {
			continue
		}
		ws := v.writes[i]
		for _, e := range v.enters[i] {
			// before call k the store must hold this action Running with >= k attempts (k within this run)
			okRunning, maxAtt := false, -1
			for _, w := range ws {
				if w.N > e.N {
					break
				}
				if w.Img.Status == "running" {
					okRunning = true
				}
				if w.Img.Status == "notStarted" {
					okRunning, maxAtt = false, -1
				}
				if w.Img.Attempts > maxAtt {
					maxAtt = w.Img.Attempts
				}
			}
			if !okRunning {
				m.fail("C08.running_before_invoke", map[string]any{"check": o.Check}, "a plugin was invoked before its action was durably Running", nil)
				break
			}
		}
		// attempt k durable before call k+1 of the same run: count enters since the last reset
		if !o.Check {
			for k, e := range v.enters[i] {
				if k == 0 {
					continue
				}
				have := 0
				for _, w := range ws {
					if w.N > e.N {
						break
					}
					if w.Img.Attempts > have {
						have = w.Img.Attempts
					}
				}
				if have < k {
					m.fail("C08.attempt_before_next", map[string]any{"have": have, "call": k}, "an attempt's result was not durable before the next attempt began", nil)
					break
				}
			}
			// and before the next action of the sequence begins
			acts := ix.actionsOf(o.Unit)
			if o.SeqPos+1 < len(acts) {
				nx := acts[o.SeqPos+1]
				if len(v.enters[nx]) > 0 {
					n0 := v.enters[nx][0].N
					have, done := 0, false
					for _, w := range ws {
						if w.N > n0 {
							break
						}
						if w.Img.Attempts > have {
							have = w.Img.Attempts
						}
						if w.Img.Status == "completed" {
							done = true
						}
					}
					if have < len(v.enters[i]) || !done {
						m.fail("C08.result_before_next_action", map[string]any{"have": have, "calls": len(v.enters[i]), "completed": done}, "an action's result was not durable before the next action of the sequence was invoked", nil)
					}
				}
			}
		}
	}
	// monotone: blocks, sequences, sequence actions never leave a terminal status
	for i, o := range ix.Objs {
		if !(o.Kind == "block" || o.Kind == "seq" || (o.Kind == "action" && !o.Check)) {
			continue
		}
		term := ""
		for _, w := range v.writes[i] {
			if term != "" && w.Img.Status != term {
				m.fail("C08.no_regress", map[string]any{"kind": o.Kind, "from": term, "to": w.Img.Status}, "an object written as "+term+" was later written as "+w.Img.Status, nil)
				break
			}
			if w.Img.Status == "completed" || w.Img.Status == "failed" {
				term = w.Img.Status
			}
		}
	}
	// terminal plan state and the whole final flush durable before the waiter is released
	if v.release != 0 {
		lw := v.writes[0]
		if len(lw) == 0 || (lw[len(lw)-1].Img.Status != "completed" && lw[len(lw)-1].Img.Status != "failed") || lw[len(lw)-1].N > v.release {
			m.fail("C08.terminal_before_release", map[string]any{}, "the plan's terminal state was not durable before Wait was released", nil)
		}
		for i := range ix.Objs {
			// every object must have a write in the final flush that precedes the release
			fs := v.flushStart()
			ok := false
			for _, w := range v.writes[i] {
				if w.N >= fs && w.N < v.release {
					ok = true
				}
			}
			if !ok {
				m.fail("C08.flush_before_release", map[string]any{"kind": ix.Objs[i].Kind}, "an object was not written by the final flush before Wait was released", nil)
				break
			}
		}
	}

	// ---------------- C04: final plan
	checkFinal(m, v, res)
}

func tailEvents(tr []Event, n int) []Event {
	if len(tr) > n {
		return tr[len(tr)-n:]
	}
	return tr
}

// checkFinal: the consistency rules of C04 on the plan Wait returned, quiescence and stability.
func checkFinal(m *monitorSet, v *traceView, res *runResult) {
	p := res.Final
	if p.Status != "completed" && p.Status != "failed" {
		m.fail("C04.R1_terminal", map[string]any{"status": p.Status}, "Wait returned a plan that is "+p.Status, nil)
	}
	// quiescence: no plugin executing, nothing written after the release
	open := map[string]bool{}
	for _, e := range res.Trace {
		if int64(e.N) > v.release && v.release != 0 {
			break
		}
		k := fmt.Sprintf("%d/%s/%d", e.Obj, e.Tag, e.Call)
		if e.L == "enter" {
			open[k] = true
		}
		if e.L == "exit" {
			delete(open, k)
		}
	}
	if len(open) > 0 {
		m.fail("C04.quiescent_no_plugin_running", map[string]any{"n": len(open)}, "a plugin was still executing for the plan when Wait returned", sortedKeys(open))
	}
	late := 0
	kinds := map[string]bool{}
	for _, e := range res.Late {
		if e.L == "enter" || e.L == "exit" || (len(e.L) > 1 && e.L[0] == 'w') {
			late++
			kinds[e.L] = true
		}
	}
	if late > 0 {
		m.fail("C04.stable_after_wait", map[string]any{"kinds": sortedKeys(kinds)}, fmt.Sprintf("%d plugin/store events happened after Wait had returned", late), res.Late)
	}
	var bad []string
	add := func(clause, text string, feat map[string]any) {
		bad = append(bad, clause)
		m.fail(clause, feat, text, nil)
	}
	timeOK := func(s, e int) bool { return s == 0 || e == 0 || s <= e }
	chkAction := func(a *ActionImg, where string) {
		if a.Status == "running" {
			add("C04.R2_nothing_running", "an action is still Running in the final plan", map[string]any{"kind": "action", "where": where})
		}
		if !timeOK(a.TStart, a.TEnd) {
			add("C04.R7_start_le_end", "action start > end", map[string]any{"kind": "action"})
		}
		for _, at := range a.Attempts {
			if !timeOK(at.TStart, at.TEnd) {
				add("C04.R7_start_le_end", "attempt start > end", map[string]any{"kind": "attempt"})
			}
		}
		if a.Status == "completed" || a.Status == "failed" {
			n := len(a.Attempts)
			lastOK := n > 0 && a.Attempts[n-1].Err == "none"
			if (a.Status == "completed") != lastOK {
				add("C04.R6_action_status_matches_last_attempt", "action is "+a.Status+" but its final attempt says otherwise", map[string]any{"status": a.Status, "attempts": n, "where": where})
			}
		}
	}
	chkGroup := func(c *ChecksImg, where string) {
		if c == nil {
			return
		}
		if c.Status == "running" {
			add("C04.R2_nothing_running", "a checks group is still Running", map[string]any{"kind": "checks", "where": where})
		}
		if !timeOK(c.TStart, c.TEnd) && where != "cont" {
			add("C04.R7_start_le_end", "checks start > end", map[string]any{"kind": "checks", "where": where})
		}
		for i := range c.Actions {
			chkAction(&c.Actions[i], where)
		}
	}
	chkGroup(p.Bypass, "bypass")
	chkGroup(p.Pre, "pre")
	chkGroup(p.Cont, "cont")
	chkGroup(p.Post, "post")
	chkGroup(p.Deferred, "deferred")
	allBlocksCompleted := true
	for bi := range p.Blocks {
		b := &p.Blocks[bi]
		if b.Status == "running" {
			add("C04.R2_nothing_running", "a block is still Running", map[string]any{"kind": "block"})
		}
		if b.Status != "completed" {
			allBlocksCompleted = false
		}
		if !timeOK(b.TStart, b.TEnd) {
			add("C04.R7_start_le_end", "block start > end", map[string]any{"kind": "block"})
		}
		chkGroup(b.Bypass, "bypass")
		chkGroup(b.Pre, "pre")
		chkGroup(b.Cont, "cont")
		chkGroup(b.Post, "post")
		chkGroup(b.Deferred, "deferred")
		for si := range b.Seqs {
			q := &b.Seqs[si]
			if q.Status == "running" {
				add("C04.R2_nothing_running", "a sequence is still Running", map[string]any{"kind": "sequence"})
			}
			if !timeOK(q.TStart, q.TEnd) {
				add("C04.R7_start_le_end", "sequence start > end", map[string]any{"kind": "sequence"})
			}
			nFailed, firstFailed := 0, -1
			for ai := range q.Actions {
				a := &q.Actions[ai]
				chkAction(a, "sequence")
				if a.Status == "failed" {
					nFailed++
					if firstFailed < 0 {
						firstFailed = ai
					}
				}
			}
			switch q.Status {
			case "completed":
				for ai := range q.Actions {
					if q.Actions[ai].Status != "completed" {
						add("C04.R4_completed_sequence_all_completed", "a Completed sequence holds an action that is "+q.Actions[ai].Status, map[string]any{})
						break
					}
				}
			case "failed":
				ok := nFailed == 1
				if ok {
					for ai := 0; ai < firstFailed; ai++ {
						if q.Actions[ai].Status != "completed" {
							ok = false
						}
					}
					for ai := firstFailed + 1; ai < len(q.Actions); ai++ {
						a := q.Actions[ai]
						if a.Status != "notStarted" || len(a.Attempts) != 0 || a.TStart != 0 || a.TEnd != 0 {
							ok = false
						}
					}
				}
				if !ok {
					add("C04.R5_failed_sequence_shape", "a Failed sequence does not have exactly one Failed action, the last attempted, with untouched actions after it", map[string]any{"failedActions": nFailed})
				}
			}
		}
	}
	// R3 / R8
	grpFailed := func(c *ChecksImg) bool { return c != nil && c.Status == "failed" }
	bypassed := p.Bypass != nil && p.Bypass.Status == "completed"
	if p.Status == "completed" && !bypassed {
		if !allBlocksCompleted || grpFailed(p.Pre) || grpFailed(p.Cont) || grpFailed(p.Post) || grpFailed(p.Deferred) {
			add("C04.R3_completed_plan_consistent", "the plan is Completed but a block is not Completed or a check group failed", map[string]any{"allBlocksCompleted": allBlocksCompleted})
		}
	}
	if !timeOK(p.TStart, p.TEnd) {
		add("C04.R7_start_le_end", "plan start > end", map[string]any{"kind": "plan"})
	}
	// reason: judged on what the engine wrote last (the store reader's handling of `reason` is C13's business)
	if lw := v.lastW[0]; lw != nil {
		reason := lw.Reason
		if p.Status == "completed" && reason != "unknown" {
			add("C04.R8_reason", "plan Completed but a failure reason is set: "+reason, map[string]any{"got": reason, "status": "completed"})
		}
		if p.Status == "failed" {
			anyBlockFailed := false
			for bi := range p.Blocks {
				if p.Blocks[bi].Status == "failed" {
					anyBlockFailed = true
				}
			}
			truth := map[string]bool{"preCheck": grpFailed(p.Pre), "contCheck": grpFailed(p.Cont), "postCheck": grpFailed(p.Post),
				"deferredCheck": grpFailed(p.Deferred), "block": anyBlockFailed}
			if !truth[reason] {
				feat := map[string]any{"got": reason, "blockFailed": anyBlockFailed}
				st := func(c *ChecksImg) string {
					if c == nil {
						return "absent"
					}
					return c.Status
				}
				switch reason {
				case "postCheck":
					feat["stage_status"] = st(p.Post)
				case "deferredCheck":
					feat["stage_status"] = st(p.Deferred)
				case "contCheck":
					feat["stage_status"] = st(p.Cont)
				case "preCheck":
					feat["stage_status"] = st(p.Pre)
				}
				add("C04.R8_reason", "the failure reason "+reason+" names a stage that did not fail", feat)
			}
		}
	}
	_ = bad
}
