package harness

// C12 — public API histories: sequential and concurrent combinations of Submit / Start / Wait /
// Status / Plan on known and unknown ids. Executed in the campaign child process: a panic or
// log.Fatalf kills the child and is reported by the parent (C12.process_exit). Monitors: exactly one
// Start succeeds and every action is invoked as often as ONE execution invokes it; later Starts are
// refused without any activity; stale submissions cannot be started; unknown ids yield errors, never
// an empty plan; nothing panics.

import (
	"fmt"
	"sync"
	"time"

	coercion "github.com/element-of-surprise/coercion"
	"github.com/element-of-surprise/coercion/workflow/context"
	"github.com/google/uuid"
)

func safeCall(name string, f func()) (panicked string) {
	defer func() {
		if r := recover(); r != nil {
			panicked = fmt.Sprintf("%s: %v", name, r)
		}
	}()
	f()
	return ""
}

// gateVault delays the first write of a plan (the engine's "Running" write) to open the race window.
func c12Race(r *Result, env *engineEnv, rng randLike, n int) {
	newTracerInto(env)
	ps := genSmallSpec(rng, fmt.Sprintf("r%d.", n))
	delay := time.Duration(rng.IntN(400)) * time.Microsecond
	first := true
	var mu sync.Mutex
	// staged variant (1 in 3): the engine's first write waits (at most 15ms) until a second Start has read the plan,
	// and that Start then pauses after its read long enough for the plan to finish: the read-then-check window
	staged := n%3 == 2
	secondRead := make(chan struct{})
	reads := 0
	env.spy.hook = func(e *Event) {
		mu.Lock()
		f := first && e.L == "wPlan"
		if f {
			first = false
		}
		mu.Unlock()
		if f && staged {
			select {
			case <-secondRead:
			case <-time.After(15 * time.Millisecond):
			}
		} else if f {
			time.Sleep(delay) // the plan is not yet Running in storage while other Starts arrive
		}
	}
	if staged {
		env.spy.readHook = func(uuid.UUID) {
			mu.Lock()
			reads++
			nr := reads
			mu.Unlock()
			if nr == 2 {
				close(secondRead)
				time.Sleep(25 * time.Millisecond)
			}
		}
	}
	defer func() { env.spy.hook, env.spy.readHook = nil, nil }()
	p, err := env.submit(ps, 0)
	if err != nil {
		r.finding(Finding{Kind: "crash", Clause: "C12.submit", Text: err.Error()})
		return
	}
	k := 2 + rng.IntN(3)
	desc := map[string]any{"kind": "racing starts", "callers": k, "delayUs": delay.Microseconds(), "staged": staged, "spec": ps}
	if staged {
		r.count("race:staged read-then-finish window")
	}
	breadcrumb(desc)
	var wg sync.WaitGroup
	errs := make([]error, k)
	start := make(chan struct{})
	for i := 0; i < k; i++ {
		wg.Add(1)
		go func(i int) {
			defer wg.Done()
			<-start
			errs[i] = env.ws.Start(context.Background(), p.ID)
		}(i)
	}
	close(start)
	wg.Wait()
	ok := 0
	for _, e := range errs {
		if e == nil {
			ok++
		}
	}
	wctx, cancel := context.WithTimeout(context.Background(), 15*time.Second)
	_, werr := env.ws.Wait(wctx, p.ID)
	cancel()
	time.Sleep(time.Millisecond)
	// a late Start on the finished plan
	lateErr := env.ws.Start(context.Background(), p.ID)
	time.Sleep(time.Millisecond)
	tr := env.tr.snapshot()
	calls := map[string]int{}
	for _, e := range tr {
		if e.L == "enter" {
			calls[e.Tag]++
		}
	}
	multi := 0
	for _, c := range calls {
		if c > 1 {
			multi++
		}
	}
	if ok != 1 {
		r.finding(Finding{Kind: "monitor", Clause: "C12.exactly_one_start_succeeds", Features: map[string]any{"succeeded": ok}, Text: fmt.Sprintf("%d of %d concurrent Start calls succeeded", ok, k), Case: desc})
	}
	if multi > 0 {
		r.finding(Finding{Kind: "monitor", Clause: "C12.at_most_one_execution", Features: map[string]any{"startsSucceeded": ok}, Text: "racing Start calls executed the plan more than once (actions invoked twice)", Case: desc, Observed: calls})
	}
	if lateErr == nil {
		r.finding(Finding{Kind: "monitor", Clause: "C12.start_after_finish_rejected", Text: "Start on a finished plan was accepted", Case: desc})
	}
	if werr != nil {
		r.finding(Finding{Kind: "monitor", Clause: "C12.wait_after_start", Features: map[string]any{}, Text: "Wait failed after a successful Start: " + werr.Error(), Case: desc})
	}
	r.eval(desc, true)
	r.count("race")
}

func c12History(r *Result, env *engineEnv, rng randLike, n int) {
	newTracerInto(env)
	ctx := context.Background()
	ps := genSmallSpec(rng, fmt.Sprintf("h%d.", n))
	// make the plan slow enough that "Start while running" really is while running
	ps.eachAction(func(a *ActSpec, _ bool) {
		a.Script = []Outcome{{Resp: "good", Err: "none", DelayUs: 300 + rng.IntN(600)}}
	})
	var id uuid.UUID
	known := false
	started := false
	var hist []string
	desc := map[string]any{"kind": "history", "spec": ps}
	starts, rejectedWhileLive := 0, 0
	nc := 3 + rng.IntN(8)
	for i := 0; i < nc; i++ {
		var call string
		switch x := rng.IntN(10); {
		case x < 2 && !known:
			call = "submit"
		case x < 5:
			call = "start"
		case x < 6:
			call = "wait"
		case x < 7:
			call = "status"
		case x < 8:
			call = "plan"
		case x < 9:
			call = "start-unknown"
		default:
			call = []string{"wait-unknown", "status-unknown", "plan-unknown"}[rng.IntN(3)]
		}
		if !known && call != "submit" && call[len(call)-1] != 'n' {
			call = "submit"
		}
		hist = append(hist, call)
		desc["history"] = hist
		breadcrumb(desc)
		unknown := uuid.New()
		if rng.IntN(3) == 0 {
			unknown = uuid.Nil
		}
		var pan string
		switch call {
		case "submit":
			p, err := env.submit(ps, 0)
			if err == nil {
				id, known = p.ID, true
			}
		case "start":
			pan = safeCall(call, func() {
				before := len(env.tr.snapshot())
				err := env.ws.Start(ctx, id)
				if err == nil {
					starts++
					if started {
						r.finding(Finding{Kind: "monitor", Clause: "C12.second_start_rejected", Features: map[string]any{}, Text: "a second Start on the same plan was accepted", Case: desc})
					}
					started = true
				} else if started {
					rejectedWhileLive++
					_ = before
				}
			})
		case "wait":
			pan = safeCall(call, func() {
				wctx, cancel := context.WithTimeout(ctx, 15*time.Second)
				defer cancel()
				p, err := env.ws.Wait(wctx, id)
				if err == nil && (p == nil || p.State == nil) {
					r.finding(Finding{Kind: "monitor", Clause: "C12.no_empty_plan", Features: map[string]any{"call": "wait"}, Text: "Wait returned an empty plan without an error", Case: desc})
				}
			})
		case "status":
			pan = safeCall(call, func() {
				sctx, cancel := context.WithTimeout(ctx, 30*time.Millisecond)
				defer cancel()
				for res := range env.ws.Status(sctx, id, 200*time.Microsecond) {
					if res.Err == nil && (res.Data == nil || res.Data.State == nil) {
						r.finding(Finding{Kind: "monitor", Clause: "C12.no_empty_plan", Features: map[string]any{"call": "status"}, Text: "Status yielded an empty plan without an error", Case: desc})
					}
				}
			})
		case "plan":
			pan = safeCall(call, func() {
				p, err := env.ws.Plan(ctx, id)
				if err == nil && (p == nil || p.State == nil) {
					r.finding(Finding{Kind: "monitor", Clause: "C12.no_empty_plan", Features: map[string]any{"call": "plan"}, Text: "Plan returned an empty plan without an error", Case: desc})
				}
			})
		case "start-unknown":
			pan = safeCall(call, func() {
				if err := env.ws.Start(ctx, unknown); err == nil {
					r.finding(Finding{Kind: "monitor", Clause: "C12.unknown_id_is_error", Features: map[string]any{"call": "start"}, Text: "Start on an unknown id succeeded", Case: desc})
				}
			})
		case "wait-unknown":
			pan = safeCall(call, func() {
				wctx, cancel := context.WithTimeout(ctx, time.Second)
				defer cancel()
				p, err := env.ws.Wait(wctx, unknown)
				if err == nil {
					r.finding(Finding{Kind: "monitor", Clause: "C12.unknown_id_is_error", Features: map[string]any{"call": "wait", "empty": p == nil || p.State == nil}, Text: "Wait on an unknown id returned no error", Case: desc})
				}
			})
		case "status-unknown":
			pan = safeCall(call, func() {
				sctx, cancel := context.WithTimeout(ctx, 10*time.Millisecond)
				defer cancel()
				for res := range env.ws.Status(sctx, unknown, 200*time.Microsecond) {
					if res.Err == nil {
						r.finding(Finding{Kind: "monitor", Clause: "C12.unknown_id_is_error", Features: map[string]any{"call": "status"}, Text: "Status on an unknown id yielded a plan", Case: desc})
					}
				}
			})
		case "plan-unknown":
			pan = safeCall(call, func() {
				if p, err := env.ws.Plan(ctx, unknown); err == nil {
					r.finding(Finding{Kind: "monitor", Clause: "C12.unknown_id_is_error", Features: map[string]any{"call": "plan", "empty": p == nil || p.State == nil}, Text: "Plan on an unknown id returned no error", Case: desc})
				}
			})
		}
		if pan != "" {
			r.finding(Finding{Kind: "monitor", Clause: "C12.no_panic", Features: map[string]any{"call": call}, Text: "a public API call panicked: " + pan, Case: desc})
		}
		r.count("call:" + call)
	}
	if started {
		wctx, cancel := context.WithTimeout(ctx, 15*time.Second)
		env.ws.Wait(wctx, id)
		cancel()
		time.Sleep(time.Millisecond)
		calls := map[string]int{}
		for _, e := range env.tr.snapshot() {
			if e.L == "enter" {
				calls[e.Tag]++
			}
		}
		for tag, c := range calls {
			if c > 1 {
				r.finding(Finding{Kind: "monitor", Clause: "C12.at_most_one_execution", Features: map[string]any{"sequential": true}, Text: fmt.Sprintf("action %s was invoked %d times over the history", tag, c), Case: desc})
				break
			}
		}
	}
	r.eval(desc, len(hist) >= 2)
	if n < 2 {
		r.sample(desc)
	}
}

func c12Stale(r *Result, rng randLike, n int) {
	env, err := newEngineEnv("", coercion.WithMaxSubmit(60*time.Millisecond))
	if err != nil {
		r.finding(Finding{Kind: "crash", Clause: "C12.env", Text: err.Error()})
		return
	}
	defer env.close()
	ps := genSmallSpec(rng, fmt.Sprintf("st%d.", n))
	desc := map[string]any{"kind": "stale submission", "maxSubmit": "60ms", "spec": ps}
	breadcrumb(desc)
	t0 := time.Now()
	fresh, err1 := env.submit(ps, 0)
	ps2 := genSmallSpec(rng, fmt.Sprintf("st%d.b.", n))
	old, err2 := env.submit(ps2, 1)
	if err1 != nil || err2 != nil {
		r.finding(Finding{Kind: "crash", Clause: "C12.submit", Text: fmt.Sprint(err1, err2)})
		return
	}
	if err := env.ws.Start(context.Background(), fresh.ID); err != nil && time.Since(t0) > 40*time.Millisecond {
		r.count("fresh-start-too-late-to-judge") // a loaded machine took most of the 60ms between Submit and Start
	} else if err != nil {
		r.finding(Finding{Kind: "monitor", Clause: "C12.fresh_submission_startable", Text: "a fresh submission could not be started: " + err.Error(), Case: desc})
	}
	wctx, cancel := context.WithTimeout(context.Background(), 15*time.Second)
	env.ws.Wait(wctx, fresh.ID)
	cancel()
	time.Sleep(120 * time.Millisecond)
	err = env.ws.Start(context.Background(), old.ID)
	time.Sleep(2 * time.Millisecond)
	acted := false
	for _, e := range env.tr.snapshot() {
		if e.Plan == 1 && (e.L == "enter" || (len(e.L) > 1 && e.L[0] == 'w')) {
			acted = true
		}
	}
	if err == nil || acted {
		r.finding(Finding{Kind: "monitor", Clause: "C12.stale_submission_refused", Features: map[string]any{"startErr": err != nil, "acted": acted},
			Text: "a plan whose submission is older than the configured maximum was started", Case: desc})
		if err == nil {
			wctx, cancel := context.WithTimeout(context.Background(), 15*time.Second)
			env.ws.Wait(wctx, old.ID)
			cancel()
		}
	}
	r.eval(desc, true)
	r.count("stale")
}

// c12AbandonedWait: Start, then a Wait whose caller gives up (context already cancelled, or a very short timeout) while the
// engine has not yet written the plan Running — its first write is held back — then Start again. The plan is executing:
// the second Start must be refused, the plan must run once, and a later Wait must still find it.
func c12AbandonedWait(r *Result, env *engineEnv, rng randLike, n int) {
	newTracerInto(env)
	ps := genSmallSpec(rng, fmt.Sprintf("w%d.", n))
	release := make(chan struct{})
	first := true
	var mu sync.Mutex
	env.spy.hook = func(e *Event) {
		mu.Lock()
		f := first && e.L == "wPlan"
		if f {
			first = false
		}
		mu.Unlock()
		if f {
			select {
			case <-release:
			case <-time.After(50 * time.Millisecond):
			}
		}
	}
	defer func() { env.spy.hook = nil }()
	p, err := env.submit(ps, 0)
	if err != nil {
		r.finding(Finding{Kind: "crash", Clause: "C12.submit", Text: err.Error()})
		return
	}
	how := []string{"cancelled", "timeout"}[n%2]
	desc := map[string]any{"kind": "start, abandoned wait (" + how + "), start", "spec": ps}
	breadcrumb(desc)
	ctx := context.Background()
	err1 := env.ws.Start(ctx, p.ID)
	wctx, cancel := context.WithCancel(ctx)
	if how == "cancelled" {
		cancel()
	} else {
		var c2 context.CancelFunc
		wctx, c2 = context.WithTimeout(ctx, 200*time.Microsecond)
		defer c2()
	}
	pan := safeCall("wait", func() { env.ws.Wait(wctx, p.ID) })
	cancel()
	var err2 error
	pan2 := safeCall("start", func() { err2 = env.ws.Start(ctx, p.ID) })
	close(release)
	fctx, fcancel := context.WithTimeout(ctx, 15*time.Second)
	_, werr := env.ws.Wait(fctx, p.ID)
	fcancel()
	time.Sleep(time.Millisecond)
	if pan != "" || pan2 != "" {
		r.finding(Finding{Kind: "monitor", Clause: "C12.no_panic", Features: map[string]any{"call": "wait/start"}, Text: "a public API call panicked: " + pan + pan2, Case: desc})
	}
	if err1 == nil && err2 == nil {
		r.finding(Finding{Kind: "monitor", Clause: "C12.second_start_rejected", Features: map[string]any{"after": "abandoned wait"}, Text: "a second Start on an executing plan was accepted after a Wait whose caller had given up", Case: desc})
	}
	calls := map[string]int{}
	for _, e := range env.tr.snapshot() {
		if e.L == "enter" {
			calls[e.Tag]++
		}
	}
	for tag, c := range calls {
		if c > 1 {
			r.finding(Finding{Kind: "monitor", Clause: "C12.at_most_one_execution", Features: map[string]any{"after": "abandoned wait"}, Text: fmt.Sprintf("action %s was invoked %d times", tag, c), Case: desc})
			break
		}
	}
	if err1 == nil && werr != nil {
		r.finding(Finding{Kind: "monitor", Clause: "C12.wait_after_start", Features: map[string]any{"after": "abandoned wait"}, Text: "Wait failed on an executing plan after another Wait had been abandoned: " + werr.Error(), Case: desc})
	}
	r.eval(desc, true)
	r.count("abandoned wait")
}

func init() {
	campaigns["C12"] = func(r *Result) {
		quietLogs()
		r.Rule = "API-call histories of 3-10 calls (Submit, Start, Wait, Status, Plan on the plan's id; Start/Wait/Status/Plan on unknown and nil ids) on slow plans so that Starts arrive while the plan runs; racing Starts (2-4 goroutines released together, the engine's first Running write delayed 0-400us); Start / abandoned Wait (cancelled or timed-out context while the first Running write is held back) / Start again; stale submissions (WithMaxSubmit 60ms, Start after 120ms); all in a child process whose death is reported; non-trivial = history of >=2 calls; distinct by history/spec"
		env, err := newEngineEnv("")
		if err != nil {
			r.finding(Finding{Kind: "crash", Clause: "C12.env", Text: err.Error()})
			return
		}
		defer env.close()
		rng := newRand(12)
		phase(0.5)
		for i := 0; i < tierN(150, 4000) && !expired(); i++ {
			c12History(r, env, rng, i)
		}
		phase(0.9)
		for i := 0; i < tierN(120, 3000) && !expired(); i++ {
			c12Race(r, env, rng, i)
		}
		for i := 0; i < tierN(12, 200) && !expired(); i++ {
			c12AbandonedWait(r, env, rng, i)
		}
		phase(1)
		for i := 0; i < tierN(4, 40) && !expired(); i++ {
			c12Stale(r, rng, i)
		}
		r.Validated = r.Evaluations
	}
}
