package harness

// Engine case machinery shared by C01–C08: spec generator, spec -> model plan (walk indices),
// structural index of a spec (which unit every object belongs to), schedule-independence test.

import (
	"fmt"
	"math/rand/v2"
)

// ---------------------------------------------------------------------------------------------
// model plan (JSON for the driver's "engine" command); idx = walk index

type mAction struct {
	Idx     int            `json:"idx"`
	Retries int            `json:"retries"`
	Script  []modelOutcome `json:"script"`
}
type mGroup struct {
	Idx     int       `json:"idx"`
	Actions []mAction `json:"actions"`
}
type mSeq struct {
	Idx     int       `json:"idx"`
	Actions []mAction `json:"actions"`
}
type mBlock struct {
	Idx      int     `json:"idx"`
	Bypass   *mGroup `json:"bypass"`
	Pre      *mGroup `json:"pre"`
	Cont     *mGroup `json:"cont"`
	Post     *mGroup `json:"post"`
	Deferred *mGroup `json:"deferred"`
	Seqs     []mSeq  `json:"seqs"`
	Tol      int     `json:"tol"`
}
type mPlan struct {
	Bypass   *mGroup  `json:"bypass"`
	Pre      *mGroup  `json:"pre"`
	Cont     *mGroup  `json:"cont"`
	Post     *mGroup  `json:"post"`
	Deferred *mGroup  `json:"deferred"`
	Blocks   []mBlock `json:"blocks"`
}

type objInfo struct {
	Kind   string // plan, group, block, seq, action
	GKind  string // for groups and their actions: bypass, pre, cont, post, deferred
	Block  int    // index in Blocks (-1 = plan level)
	BlockI int    // walk idx of the block (-1)
	Unit   int    // for actions: walk idx of the owning group / sequence
	SeqPos int    // for sequences: position in the block; for seq actions: position in the sequence
	Tag    string
	Check  bool
}

// index describes the structure of a spec by walk index.
type index struct {
	Objs   []objInfo
	ByTag  map[string]int
	Spec   *PlanSpec
	Model  *mPlan
	Blocks []int // walk idx of each block
}

func buildIndex(ps *PlanSpec) *index {
	ix := &index{ByTag: map[string]int{}, Spec: ps, Model: &mPlan{Blocks: []mBlock{}}}
	add := func(o objInfo) int {
		ix.Objs = append(ix.Objs, o)
		return len(ix.Objs) - 1
	}
	add(objInfo{Kind: "plan", Block: -1, BlockI: -1})
	grp := func(g *GroupSpec, gk string, blk, blkI int) *mGroup {
		if g == nil {
			return nil
		}
		gi := add(objInfo{Kind: "group", GKind: gk, Block: blk, BlockI: blkI})
		mg := &mGroup{Idx: gi, Actions: []mAction{}}
		for _, a := range g.Actions {
			ai := add(objInfo{Kind: "action", GKind: gk, Block: blk, BlockI: blkI, Unit: gi, Tag: a.Tag, Check: true})
			ix.ByTag[a.Tag] = ai
			mg.Actions = append(mg.Actions, mAction{Idx: ai, Retries: a.Retries, Script: toModelScript(a.Script)})
		}
		return mg
	}
	ix.Model.Bypass = grp(ps.Bypass, "bypass", -1, -1)
	ix.Model.Pre = grp(ps.Pre, "pre", -1, -1)
	ix.Model.Cont = grp(ps.Cont, "cont", -1, -1)
	for bi, b := range ps.Blocks {
		bidx := add(objInfo{Kind: "block", Block: bi})
		ix.Objs[bidx].BlockI = bidx
		ix.Blocks = append(ix.Blocks, bidx)
		mb := mBlock{Idx: bidx, Tol: b.Tol, Seqs: []mSeq{}}
		mb.Bypass = grp(b.Bypass, "bypass", bi, bidx)
		mb.Pre = grp(b.Pre, "pre", bi, bidx)
		mb.Cont = grp(b.Cont, "cont", bi, bidx)
		for si, q := range b.Seqs {
			qi := add(objInfo{Kind: "seq", Block: bi, BlockI: bidx, SeqPos: si})
			mq := mSeq{Idx: qi, Actions: []mAction{}}
			for ai, a := range q.Actions {
				aidx := add(objInfo{Kind: "action", Block: bi, BlockI: bidx, Unit: qi, SeqPos: ai, Tag: a.Tag})
				ix.ByTag[a.Tag] = aidx
				mq.Actions = append(mq.Actions, mAction{Idx: aidx, Retries: a.Retries, Script: toModelScript(a.Script)})
			}
			mb.Seqs = append(mb.Seqs, mq)
		}
		mb.Post = grp(b.Post, "post", bi, bidx)
		mb.Deferred = grp(b.Deferred, "deferred", bi, bidx)
		ix.Model.Blocks = append(ix.Model.Blocks, mb)
	}
	ix.Model.Post = grp(ps.Post, "post", -1, -1)
	ix.Model.Deferred = grp(ps.Deferred, "deferred", -1, -1)
	return ix
}

// group returns the walk idx of group gk of block blk (-1 = plan), or -1.
func (ix *index) group(blk int, gk string) int {
	for i, o := range ix.Objs {
		if o.Kind == "group" && o.Block == blk && o.GKind == gk {
			return i
		}
	}
	return -1
}

func (ix *index) seqsOf(blk int) []int {
	var out []int
	for i, o := range ix.Objs {
		if o.Kind == "seq" && o.Block == blk {
			out = append(out, i)
		}
	}
	return out
}

func (ix *index) actionsOf(unit int) []int {
	var out []int
	for i, o := range ix.Objs {
		if o.Kind == "action" && o.Unit == unit {
			out = append(out, i)
		}
	}
	return out
}

// ---------------------------------------------------------------------------------------------
// generator

type engineGen struct {
	r         *rand.Rand
	prefix    string
	n         int
	MaxBlocks int
	MaxSeqs   int
	MaxActs   int
	PGroup    float64 // probability that a check group is present
	PFail     float64 // probability that an action's script ends in failure
	PCheckBad float64 // probability that a check action fails
	Retries   int     // max retries
	ContMode  string  // "none", "pass", "mixed" (may fail at run k)
	DelayUs   int     // max plugin latency
	ConcMax   int
	Overruns  bool
}

func (g *engineGen) tag() string { g.n++; return fmt.Sprintf("%s%d", g.prefix, g.n) }

func (g *engineGen) script(pfail float64, retries int) []Outcome {
	d := 0
	if g.DelayUs > 0 {
		d = g.r.IntN(g.DelayUs)
	}
	fail := g.r.Float64() < pfail
	var sc []Outcome
	// a few transient failures first
	nt := 0
	if retries > 0 && g.r.IntN(3) == 0 {
		nt = 1 + g.r.IntN(retries)
	}
	for i := 0; i < nt; i++ {
		sc = append(sc, Outcome{Resp: "nil", Err: "transient", DelayUs: d})
	}
	if fail {
		// failures come in all shapes: with or without a (valid or wrong-typed) response alongside the error
		resp := []string{"nil", "nil", "nil", "good", "good", "bad"}[g.r.IntN(6)]
		if g.r.IntN(2) == 0 {
			sc = append(sc, Outcome{Resp: resp, Err: "permanent", DelayUs: d})
		} else {
			sc = append(sc, Outcome{Resp: resp, Err: "transient", DelayUs: d}) // repeats: exhausts the budget
		}
	} else {
		sc = append(sc, Outcome{Resp: "good", Err: "none", DelayUs: d})
	}
	return sc
}

func (g *engineGen) group(p, pbad float64, cont bool) *GroupSpec {
	if g.r.Float64() >= p {
		return nil
	}
	gs := &GroupSpec{}
	for i := 1 + g.r.IntN(2); i > 0; i-- {
		ret := 0
		if !cont && g.Retries > 0 {
			ret = g.r.IntN(g.Retries + 1)
		}
		a := ActSpec{Tag: g.tag(), Retries: ret}
		if cont {
			a.Script = g.contScript()
		} else {
			a.Script = g.script(pbad, ret)
		}
		gs.Actions = append(gs.Actions, a)
	}
	if cont {
		gs.DelayUs = 200 + g.r.IntN(1500)
	}
	return gs
}

// contScript: one call per run (cont actions have no retries): passes forever, or fails at run k.
func (g *engineGen) contScript() []Outcome {
	ok := Outcome{Resp: "good", Err: "none"}
	bad := Outcome{Resp: "nil", Err: "permanent"}
	switch g.ContMode {
	case "fail0":
		if g.r.IntN(2) == 0 {
			return []Outcome{bad}
		}
	case "mixed":
		if g.r.IntN(3) == 0 {
			k := g.r.IntN(5)
			sc := make([]Outcome, k+1)
			for i := range sc {
				sc[i] = ok
			}
			sc[k] = bad
			return sc
		}
	}
	return []Outcome{ok}
}

func (g *engineGen) plan() *PlanSpec {
	ps := &PlanSpec{}
	pc := g.PGroup
	contP := pc
	if g.ContMode == "none" {
		contP = 0
	}
	ps.Bypass = g.group(pc*0.5, 0.6, false)
	ps.Pre = g.group(pc, g.PCheckBad, false)
	ps.Cont = g.group(contP, 0, true)
	nb := 1 + g.r.IntN(g.MaxBlocks)
	for b := 0; b < nb; b++ {
		bs := BlockSpec{}
		bs.Conc = g.r.IntN(g.ConcMax + 1) // 0 = unset
		if g.r.IntN(8) == 0 {
			bs.Conc = []int{-1, -3}[g.r.IntN(2)] // below 1 means 1 (Block.Defaults), however far below
		}
		bs.Tol = []int{-1, 0, 0, 1, 2, -2, 0, 1, -7, 2}[g.r.IntN(10)] // any negative value tolerates every failure, not only -1
		bs.Bypass = g.group(pc*0.4, 0.6, false)
		bs.Pre = g.group(pc, g.PCheckBad, false)
		bs.Cont = g.group(contP, 0, true)
		ns := 1 + g.r.IntN(g.MaxSeqs)
		for s := 0; s < ns; s++ {
			q := SeqSpec{}
			for a := 1 + g.r.IntN(g.MaxActs); a > 0; a-- {
				ret := 0
				if g.Retries > 0 {
					ret = g.r.IntN(g.Retries + 1)
				}
				q.Actions = append(q.Actions, ActSpec{Tag: g.tag(), Retries: ret, Script: g.script(g.PFail, ret)})
			}
			bs.Seqs = append(bs.Seqs, q)
		}
		bs.Post = g.group(pc, g.PCheckBad, false)
		bs.Deferred = g.group(pc, g.PCheckBad, false)
		ps.Blocks = append(ps.Blocks, bs)
	}
	ps.Post = g.group(pc, g.PCheckBad, false)
	ps.Deferred = g.group(pc, g.PCheckBad, false)
	if g.Overruns {
		// some sequence actions outlive a short timeout on their first call (the engine abandons the call: a
		// retryable timeout error); the plugin returns as soon as its context is cancelled
		ps.eachAction(func(a *ActSpec, check bool) {
			if !check && g.r.IntN(4) == 0 {
				a.TimeoutMs = 3 + g.r.IntN(4)
				a.Script = append([]Outcome{{Resp: "good", Err: "none", Overrun: true}}, a.Script...)
			}
		})
	}
	return ps
}

// scriptFails simulates whether an action with this budget and script ends failed (same closed form
// as Model/Attempts; used only to classify configurations, never as an oracle).
func scriptFails(a ActSpec) bool {
	n := a.Retries + 1
	if n < 1 {
		n = 1
	}
	for k := 0; k < n; k++ {
		i := k
		if len(a.Script) == 0 {
			return false
		}
		if i >= len(a.Script) {
			i = len(a.Script) - 1
		}
		o := a.Script[i]
		if o.Overrun {
			continue
		}
		if o.Resp == "bad" {
			return true
		}
		switch o.Err {
		case "none":
			return false
		case "permanent":
			return true
		}
	}
	return true
}

func seqFails(q SeqSpec) bool {
	for _, a := range q.Actions {
		if scriptFails(a) {
			return true
		}
	}
	return false
}

func contAlwaysPasses(g *GroupSpec) bool {
	if g == nil {
		return true
	}
	for _, a := range g.Actions {
		for _, o := range a.Script {
			if o.Err != "none" || o.Resp == "bad" || o.Overrun {
				return false
			}
		}
	}
	return true
}

func contFailsOnlyAtZero(g *GroupSpec) bool {
	// every action either always passes or fails at its very first call
	if g == nil {
		return true
	}
	for _, a := range g.Actions {
		ok := true
		for _, o := range a.Script {
			if o.Err != "none" {
				ok = false
			}
		}
		if ok {
			continue
		}
		if len(a.Script) == 0 || a.Script[0].Err == "none" {
			return false
		}
	}
	return true
}

// detConfig: the final outcome does not depend on the schedule (see Model/Engine.lean).
func detConfig(ps *PlanSpec) bool {
	// plan-level cont: needs PreChecks (initial run) and may only fail at run 0, else always pass
	if ps.Cont != nil {
		if ps.Pre == nil {
			return false // D22 territory: whether the first tick happens before the plan ends is timing
		}
		if !contFailsOnlyAtZero(ps.Cont) {
			return false
		}
	}
	for _, b := range ps.Blocks {
		if b.Cont != nil {
			if b.Pre == nil && !contAlwaysPasses(b.Cont) {
				return false
			}
			if !contFailsOnlyAtZero(b.Cont) {
				return false
			}
		}
		conc := b.Conc
		if conc < 1 {
			conc = 1
		}
		if conc > 1 && b.Tol >= 0 {
			nf := 0
			for _, q := range b.Seqs {
				if seqFails(q) {
					nf++
				}
			}
			if nf > b.Tol {
				return false // which sequences were already launched depends on the schedule
			}
		}
	}
	return true
}
