package harness

// Engine harness: plan specs with per-call outcome scripts, scripted plugins, a vault interposer that
// logs every write with its image, and a runner that drives the real engine through the public API
// (coercion.New / Submit / Start / Wait) and returns the merged, globally ordered event trace.

import (
	"fmt"
	"log"
	"log/slog"
	"os"
	"sort"
	"sync"
	"sync/atomic"
	"time"

	coercion "github.com/element-of-surprise/coercion"
	"github.com/element-of-surprise/coercion/plugins"
	"github.com/element-of-surprise/coercion/plugins/registry"
	"github.com/element-of-surprise/coercion/workflow"
	"github.com/element-of-surprise/coercion/workflow/context"
	"github.com/element-of-surprise/coercion/workflow/storage"
	"github.com/element-of-surprise/coercion/workflow/storage/sqlite"
	"github.com/element-of-surprise/coercion/workflow/utils/walk"
	"github.com/google/uuid"
	"github.com/gostdlib/base/retry/exponential"
)

// ---------------------------------------------------------------------------------------------
// specs

// Outcome of one plugin call. Resp: "good" (declared response type), "bad" (other type), "nil".
// Err: "none", "transient", "permanent". Overrun: the call outlives the action's timeout.
type Outcome struct {
	Resp    string `json:"resp"`
	Err     string `json:"err"`
	Overrun bool   `json:"overrun"`
	DelayUs int    `json:"delayUs,omitempty"`
}

var okOutcome = Outcome{Resp: "good", Err: "none"}

type ActSpec struct {
	Tag       string    `json:"tag"`
	Retries   int       `json:"retries"`
	TimeoutMs int       `json:"timeoutMs"` // 0 = default (30 s)
	Script    []Outcome `json:"script"`    // outcome of the k-th call for this tag; the last one repeats
	Key       int       `json:"key,omitempty"`
}

type GroupSpec struct {
	Actions []ActSpec `json:"actions"`
	DelayUs int       `json:"delayUs"` // cont checks only
}

type SeqSpec struct {
	Actions []ActSpec `json:"actions"`
}

type BlockSpec struct {
	Bypass   *GroupSpec `json:"bypass"`
	Pre      *GroupSpec `json:"pre"`
	Cont     *GroupSpec `json:"cont"`
	Post     *GroupSpec `json:"post"`
	Deferred *GroupSpec `json:"deferred"`
	Seqs     []SeqSpec  `json:"seqs"`
	Conc     int        `json:"conc"`
	Tol      int        `json:"tol"`
}

type PlanSpec struct {
	Bypass   *GroupSpec  `json:"bypass"`
	Pre      *GroupSpec  `json:"pre"`
	Cont     *GroupSpec  `json:"cont"`
	Post     *GroupSpec  `json:"post"`
	Deferred *GroupSpec  `json:"deferred"`
	Blocks   []BlockSpec `json:"blocks"`
}

// ---------------------------------------------------------------------------------------------
// request / response types of the scripted plugins

type Req struct {
	T string
	N float64 `json:",omitzero"` // NaN makes the request un-encodable (C14)
}

func (r Req) Tag() string { return r.T }

type Resp struct{ T string }
type BadResp struct{ X int }

// pointer-typed request/response for the storage round trip (C13)
type PReq struct {
	T    string
	Opts map[string]int
}
type PResp struct {
	T string
	L []int
}

// ---------------------------------------------------------------------------------------------
// events

type ObjImg struct {
	Status   string `json:"status"`
	Start    int64  `json:"start"`
	End      int64  `json:"end"`
	Reason   string `json:"reason,omitempty"`
	Attempts int    `json:"attempts"`
	LastErr  string `json:"lastErr,omitempty"`
	LastResp bool   `json:"lastResp,omitempty"`
}

// Event is one observation. L: wPlan|wBlock|wSeq|wChecks|wAct (store writes, Phase pre|post),
// enter|exit (plugin call), api (public API call/return), release, died, timeout.
type Event struct {
	N       int64   `json:"n"`
	L       string  `json:"l"`
	Obj     int     `json:"obj"`             // walk index of the object in its plan (-1 unknown)
	Plan    int     `json:"plan"`            // plan number within the case
	Phase   string  `json:"phase,omitempty"` // pre|post for writes, call|ret for api
	Img     *ObjImg `json:"img,omitempty"`
	Tag     string  `json:"tag,omitempty"`
	Call    int     `json:"call,omitempty"` // k-th call for this tag (0-based)
	Out     string  `json:"out,omitempty"`  // outcome summary on exit
	Err     string  `json:"err,omitempty"`
	CtxDone bool    `json:"ctxDone,omitempty"` // exit: the plugin's context was cancelled when it returned
}

type tracer struct {
	mu     sync.Mutex
	n      int64
	events []Event
	objIdx map[uuid.UUID]int // object uuid -> walk index
	planNo map[uuid.UUID]int // object uuid -> plan number
	closed bool
}

func newTracer() *tracer {
	return &tracer{objIdx: map[uuid.UUID]int{}, planNo: map[uuid.UUID]int{}}
}

func (t *tracer) add(e Event) {
	t.mu.Lock()
	t.n++
	e.N = t.n
	t.events = append(t.events, e)
	t.mu.Unlock()
}

func (t *tracer) idx(u uuid.UUID) (int, int) {
	t.mu.Lock()
	defer t.mu.Unlock()
	i, ok := t.objIdx[u]
	if !ok {
		return -1, -1
	}
	return i, t.planNo[u]
}

func (t *tracer) snapshot() []Event {
	t.mu.Lock()
	defer t.mu.Unlock()
	out := make([]Event, len(t.events))
	copy(out, t.events)
	return out
}

// register numbers the objects of a submitted plan in walk order.
func (t *tracer) register(p *workflow.Plan, planNo int) {
	t.mu.Lock()
	defer t.mu.Unlock()
	i := 0
	for it := range walk.Plan(p) {
		var id uuid.UUID
		switch v := it.Value.(type) {
		case *workflow.Plan:
			id = v.ID
		case *workflow.Checks:
			id = v.ID
		case *workflow.Block:
			id = v.ID
		case *workflow.Sequence:
			id = v.ID
		case *workflow.Action:
			id = v.ID
		}
		t.objIdx[id] = i
		t.planNo[id] = planNo
		i++
	}
}

// ---------------------------------------------------------------------------------------------
// scripted plugin

type tagState struct {
	script []Outcome
	calls  int
}

type scripts struct {
	mu   sync.Mutex
	tags map[string]*tagState
	// inflight per tag prefix is tracked through events; gates allow the schedule controller to hold calls
	gate func(tag string, call int) // called at entry, may block
}

func (s *scripts) next(tag string) (Outcome, int) {
	s.mu.Lock()
	defer s.mu.Unlock()
	ts := s.tags[tag]
	if ts == nil {
		ts = &tagState{}
		s.tags[tag] = ts
	}
	k := ts.calls
	ts.calls++
	if len(ts.script) == 0 {
		return okOutcome, k
	}
	if k < len(ts.script) {
		return ts.script[k], k
	}
	return ts.script[len(ts.script)-1], k
}

func (s *scripts) callsOf(tag string) int {
	s.mu.Lock()
	defer s.mu.Unlock()
	if ts := s.tags[tag]; ts != nil {
		return ts.calls
	}
	return 0
}

type scriptPlugin struct {
	name  string
	check bool
	sc    *scripts
	tr    *tracer
	ptr   bool
	sec   bool
}

func (p *scriptPlugin) Name() string { return p.name }
func (p *scriptPlugin) ValidateReq(req any) error {
	if p.sec {
		if _, ok := req.(SecReq); !ok {
			return fmt.Errorf("bad request type %T", req)
		}
		return nil
	}
	if p.ptr {
		if _, ok := req.(*PReq); !ok {
			return fmt.Errorf("bad request type %T", req)
		}
		return nil
	}
	if _, ok := req.(Req); !ok {
		return fmt.Errorf("bad request type %T", req)
	}
	return nil
}
func (p *scriptPlugin) Request() any {
	if p.sec {
		return SecReq{}
	}
	if p.ptr {
		return &PReq{}
	}
	return Req{}
}
func (p *scriptPlugin) Response() any {
	if p.ptr {
		return &PResp{}
	}
	return Resp{}
}
func (p *scriptPlugin) IsCheck() bool { return p.check }
func (p *scriptPlugin) Init() error   { return nil }
func (p *scriptPlugin) RetryPolicy() exponential.Policy {
	return exponential.Policy{InitialInterval: 200 * time.Microsecond, Multiplier: 1.01, RandomizationFactor: 0, MaxInterval: time.Millisecond}
}

func (p *scriptPlugin) Execute(ctx context.Context, req any) (any, *plugins.Error) {
	r, _ := req.(Req)
	o, k := p.sc.next(r.T)
	obj, plan := p.tr.idx(context.ActionID(ctx))
	p.tr.add(Event{L: "enter", Obj: obj, Plan: plan, Tag: r.T, Call: k})
	if g := p.sc.gate; g != nil {
		g(r.T, k)
	}
	if o.DelayUs > 0 {
		time.Sleep(time.Duration(o.DelayUs) * time.Microsecond)
	}
	if o.Overrun {
		<-ctx.Done() // outlive the action's timeout
		// the engine has abandoned this call: from here on it is no longer "in flight". The exit event is logged at
		// once (with CtxDone) and the call lingers a little longer, as a real plugin noticing its cancellation would.
		p.tr.add(Event{L: "exit", Obj: obj, Plan: plan, Tag: r.T, Call: k, Out: o.Resp + "/" + o.Err, CtxDone: ctx.Err() != nil})
		time.Sleep(200 * time.Microsecond)
		return nil, &plugins.Error{Code: 3, Message: "scripted overrun: context done"}
	}
	var resp any
	switch o.Resp {
	case "good":
		resp = Resp{T: r.T}
	case "bad":
		resp = BadResp{X: 1}
	}
	var perr *plugins.Error
	switch o.Err {
	case "transient":
		perr = &plugins.Error{Code: 1, Message: "scripted transient"}
	case "permanent":
		perr = &plugins.Error{Code: 2, Message: "scripted permanent", Permanent: true}
	}
	p.tr.add(Event{L: "exit", Obj: obj, Plan: plan, Tag: r.T, Call: k, Out: o.Resp + "/" + o.Err, CtxDone: ctx.Err() != nil})
	return resp, perr
}

// ---------------------------------------------------------------------------------------------
// vault interposer

type spyVault struct {
	storage.Vault
	tr *tracer
	// hook, if set, is called before each write reaches the store (may block or panic to cut)
	hook func(e *Event)
	// readHook, if set, is called after each Read of a plan has returned (may block)
	readHook func(id uuid.UUID)
	// fail, if set and returning an error, makes the write fail with that error without reaching the store
	fail func(e *Event) error
}

func (v *spyVault) Read(ctx context.Context, id uuid.UUID) (*workflow.Plan, error) {
	p, err := v.Vault.Read(ctx, id)
	if h := v.readHook; h != nil {
		h(id)
	}
	return p, err
}

func stateImg(s *workflow.State) *ObjImg {
	if s == nil {
		return &ObjImg{Status: "nil"}
	}
	im := &ObjImg{Status: statusStr(s.Status)}
	if !s.Start.IsZero() {
		im.Start = s.Start.UnixNano()
	}
	if !s.End.IsZero() {
		im.End = s.End.UnixNano()
	}
	return im
}

func (v *spyVault) write(l string, id uuid.UUID, img *ObjImg, f func() error) error {
	obj, plan := v.tr.idx(id)
	e := Event{L: l, Obj: obj, Plan: plan, Phase: "pre", Img: img}
	if v.hook != nil {
		v.hook(&e)
	}
	v.tr.add(e)
	var err error
	if v.fail != nil {
		err = v.fail(&e)
	}
	if err == nil {
		err = f()
	}
	e2 := Event{L: l, Obj: obj, Plan: plan, Phase: "post", Img: img}
	if err != nil {
		e2.Err = err.Error()
	}
	v.tr.add(e2)
	return err
}

func (v *spyVault) UpdatePlan(ctx context.Context, p *workflow.Plan) error {
	img := stateImg(p.State)
	img.Reason = reasonStr(p.Reason)
	return v.write("wPlan", p.ID, img, func() error { return v.Vault.UpdatePlan(ctx, p) })
}
func (v *spyVault) UpdateBlock(ctx context.Context, b *workflow.Block) error {
	return v.write("wBlock", b.ID, stateImg(b.State), func() error { return v.Vault.UpdateBlock(ctx, b) })
}
func (v *spyVault) UpdateChecks(ctx context.Context, c *workflow.Checks) error {
	return v.write("wChecks", c.ID, stateImg(c.State), func() error { return v.Vault.UpdateChecks(ctx, c) })
}
func (v *spyVault) UpdateSequence(ctx context.Context, s *workflow.Sequence) error {
	return v.write("wSeq", s.ID, stateImg(s.State), func() error { return v.Vault.UpdateSequence(ctx, s) })
}
func (v *spyVault) UpdateAction(ctx context.Context, a *workflow.Action) error {
	img := stateImg(a.State)
	img.Attempts = len(a.Attempts)
	if n := len(a.Attempts); n > 0 {
		img.LastErr = errKind(a.Attempts[n-1].Err)
		img.LastResp = a.Attempts[n-1].Resp != nil
	}
	return v.write("wAct", a.ID, img, func() error { return v.Vault.UpdateAction(ctx, a) })
}

// ---------------------------------------------------------------------------------------------
// building a workflow.Plan from a spec

type built struct {
	plan *workflow.Plan
	tags []string
}

func buildAction(a ActSpec, check bool) *workflow.Action {
	plug := "act"
	if check {
		plug = "chk"
	}
	w := &workflow.Action{Name: "a-" + a.Tag, Descr: "d-" + a.Tag, Plugin: plug, Retries: a.Retries, Req: Req{T: a.Tag}}
	if a.TimeoutMs > 0 {
		w.Timeout = time.Duration(a.TimeoutMs) * time.Millisecond
	}
	w.Key = intUUID(a.Key)
	return w
}

func buildGroup(g *GroupSpec) *workflow.Checks {
	if g == nil {
		return nil
	}
	c := &workflow.Checks{Delay: time.Duration(g.DelayUs) * time.Microsecond}
	for _, a := range g.Actions {
		c.Actions = append(c.Actions, buildAction(a, true))
	}
	return c
}

func buildPlan(ps *PlanSpec, name string) *workflow.Plan {
	p := &workflow.Plan{Name: name, Descr: "plan " + name}
	p.BypassChecks, p.PreChecks, p.ContChecks, p.PostChecks, p.DeferredChecks =
		buildGroup(ps.Bypass), buildGroup(ps.Pre), buildGroup(ps.Cont), buildGroup(ps.Post), buildGroup(ps.Deferred)
	for i, bs := range ps.Blocks {
		b := &workflow.Block{Name: fmt.Sprintf("b%d", i), Descr: fmt.Sprintf("block %d", i), Concurrency: bs.Conc, ToleratedFailures: bs.Tol}
		b.BypassChecks, b.PreChecks, b.ContChecks, b.PostChecks, b.DeferredChecks =
			buildGroup(bs.Bypass), buildGroup(bs.Pre), buildGroup(bs.Cont), buildGroup(bs.Post), buildGroup(bs.Deferred)
		for j, ss := range bs.Seqs {
			q := &workflow.Sequence{Name: fmt.Sprintf("s%d", j), Descr: fmt.Sprintf("seq %d", j)}
			for _, a := range ss.Actions {
				q.Actions = append(q.Actions, buildAction(a, false))
			}
			b.Sequences = append(b.Sequences, q)
		}
		p.Blocks = append(p.Blocks, b)
	}
	return p
}

func (ps *PlanSpec) eachAction(f func(a *ActSpec, check bool)) {
	grp := func(g *GroupSpec) {
		if g != nil {
			for i := range g.Actions {
				f(&g.Actions[i], true)
			}
		}
	}
	grp(ps.Bypass)
	grp(ps.Pre)
	grp(ps.Cont)
	for bi := range ps.Blocks {
		b := &ps.Blocks[bi]
		grp(b.Bypass)
		grp(b.Pre)
		grp(b.Cont)
		for si := range b.Seqs {
			for ai := range b.Seqs[si].Actions {
				f(&b.Seqs[si].Actions[ai], false)
			}
		}
		grp(b.Post)
		grp(b.Deferred)
	}
	grp(ps.Post)
	grp(ps.Deferred)
}

// needsDirectCreate: timeouts under 5 s cannot pass Submit's validation; such plans are stored with
// Vault.Create after applying by hand exactly what Submit applies (registry, plan ids, defaults).
func (ps *PlanSpec) needsDirectCreate() bool {
	need := false
	ps.eachAction(func(a *ActSpec, _ bool) {
		if a.TimeoutMs > 0 && a.TimeoutMs < 5000 {
			need = true
		}
	})
	return need
}

// ---------------------------------------------------------------------------------------------
// environment: registry + store + workstream

type engineEnv struct {
	tr    *tracer
	sc    *scripts
	reg   *registry.Register
	inner *sqlite.Vault
	spy   *spyVault
	ws    *coercion.Workstream
	dir   string

	startCancel int
}

func newRegistry(tr *tracer, sc *scripts) *registry.Register {
	reg := registry.New()
	reg.MustRegister(&scriptPlugin{name: "act", check: false, sc: sc, tr: tr})
	reg.MustRegister(&scriptPlugin{name: "chk", check: true, sc: sc, tr: tr})
	reg.MustRegister(&scriptPlugin{name: "pact", check: false, sc: sc, tr: tr, ptr: true})
	reg.MustRegister(&scriptPlugin{name: "pchk", check: true, sc: sc, tr: tr, ptr: true})
	reg.MustRegister(&scriptPlugin{name: "sact", check: false, sc: sc, tr: tr, sec: true})
	reg.MustRegister(&scriptPlugin{name: "schk", check: true, sc: sc, tr: tr, sec: true})
	return reg
}

// newEngineEnv creates a fresh in-memory sqlite vault (dir == "") or a file-backed one.
func newEngineEnv(dir string, opts ...coercion.Option) (*engineEnv, error) {
	tr := newTracer()
	sc := &scripts{tags: map[string]*tagState{}}
	reg := newRegistry(tr, sc)
	ctx := context.Background()
	var inner *sqlite.Vault
	var err error
	if dir == "" {
		inner, err = sqlite.New(ctx, "", reg, sqlite.WithInMemory())
	} else {
		inner, err = sqlite.New(ctx, dir, reg)
	}
	if err != nil {
		return nil, err
	}
	spy := &spyVault{Vault: inner, tr: tr}
	ws, err := coercion.New(ctx, reg, spy, opts...)
	if err != nil {
		return nil, err
	}
	return &engineEnv{tr: tr, sc: sc, reg: reg, inner: inner, spy: spy, ws: ws, dir: dir}, nil
}

func (e *engineEnv) close() {
	e.inner.Close(context.Background())
}

func (e *engineEnv) loadScripts(ps *PlanSpec) {
	e.sc.mu.Lock()
	defer e.sc.mu.Unlock()
	ps.eachAction(func(a *ActSpec, _ bool) {
		e.sc.tags[a.Tag] = &tagState{script: a.Script}
	})
}

// submit stores the plan (through Submit, or directly for sub-5s timeouts) and registers its objects.
func (e *engineEnv) submit(ps *PlanSpec, planNo int) (*workflow.Plan, error) {
	ctx := context.Background()
	e.loadScripts(ps)
	p := buildPlan(ps, fmt.Sprintf("p%d", planNo))
	if !ps.needsDirectCreate() {
		e.tr.add(Event{L: "api", Tag: "submit", Plan: planNo, Phase: "call"})
		_, err := e.ws.Submit(ctx, p)
		ev := Event{L: "api", Tag: "submit", Plan: planNo, Phase: "ret"}
		if err != nil {
			ev.Err = err.Error()
		}
		e.tr.add(ev)
		if err != nil {
			return nil, err
		}
	} else {
		// what Submit does, minus Validate's timeout floor
		for it := range walk.Plan(p) {
			if a, ok := it.Value.(*workflow.Action); ok {
				a.SetRegister(e.reg)
				if a.Timeout == 0 {
					a.Timeout = 30 * time.Second
				}
			}
		}
		for it := range walk.Plan(p) {
			if d, ok := it.Value.(interface{ Defaults() }); ok {
				d.Defaults()
			}
		}
		for it := range walk.Plan(p) {
			if s, ok := it.Value.(interface{ SetPlanID(uuid.UUID) }); ok {
				s.SetPlanID(p.ID)
			}
		}
		p.SubmitTime = time.Now().UTC()
		if err := e.spy.Create(ctx, p); err != nil {
			return nil, err
		}
	}
	e.tr.register(p, planNo)
	return p, nil
}

type runResult struct {
	Trace    []Event  `json:"trace"`
	Final    *PlanImg `json:"final"`
	WaitErr  string   `json:"waitErr,omitempty"`
	TimedOut bool     `json:"timedOut,omitempty"`
	Late     []Event  `json:"late,omitempty"`    // events observed after Wait returned (within the settle window)
	AtWait   int64    `json:"atWait"`            // sequence number of the release event
	Unended  []Event  `json:"unended,omitempty"` // plugin calls still executing 500 ms after the plan ended (short-timeout plans only)
}

// startAndWait starts plan p and waits for it (bounded); returns the trace and the stored final plan.
func (e *engineEnv) startAndWait(p *workflow.Plan, planNo int, maxWait, settle time.Duration) *runResult {
	ctx := context.Background()
	res := &runResult{}
	e.tr.add(Event{L: "api", Tag: "start", Plan: planNo, Phase: "call"})
	// Start documents that cancelling its context does not stop execution: cancel it after Start
	// returned (immediately or a little later) in a third of the cases.
	sctx, scancel := context.WithCancel(ctx)
	err := e.ws.Start(sctx, p.ID)
	switch e.startCancel % 3 {
	case 1:
		scancel()
	case 2:
		go func(d int) { time.Sleep(time.Duration(d) * time.Microsecond); scancel() }(50 + 37*(e.startCancel%11))
	default:
		defer scancel()
	}
	e.startCancel++
	ev := Event{L: "api", Tag: "start", Plan: planNo, Phase: "ret"}
	if err != nil {
		ev.Err = err.Error()
	}
	e.tr.add(ev)
	if err != nil {
		res.WaitErr = "start: " + err.Error()
		res.Trace = e.tr.snapshot()
		return res
	}
	wctx, cancel := context.WithTimeout(ctx, maxWait)
	defer cancel()
	e.tr.add(Event{L: "api", Tag: "wait", Plan: planNo, Phase: "call"})
	final, werr := e.ws.Wait(wctx, p.ID)
	rel := Event{L: "release", Plan: planNo}
	if werr != nil {
		rel.Err = werr.Error()
		res.WaitErr = werr.Error()
		if wctx.Err() != nil {
			res.TimedOut = true
		}
	}
	e.tr.add(rel)
	if final != nil {
		ids := newIder()
		// ids -> walk index
		e.tr.mu.Lock()
		for u, i := range e.tr.objIdx {
			if e.tr.planNo[u] == planNo {
				ids.m[u] = i
			}
		}
		e.tr.mu.Unlock()
		img := planImageRaw(final, ids)
		res.Final = &img
	}
	tr := e.tr.snapshot()
	res.AtWait = int64(len(tr))
	// plans with short action timeouts: calls the engine abandoned must end soon after (their context is cancelled). Give the
	// plugin goroutines up to 500 ms to be scheduled and log their exit; what has not ended by then never will.
	if hasShortTimeouts(p) {
		for i := 0; i < 100; i++ {
			if res.Unended = unendedCalls(e.tr.snapshot(), planNo); len(res.Unended) == 0 {
				break
			}
			time.Sleep(5 * time.Millisecond)
		}
	}
	if settle > 0 {
		time.Sleep(settle)
		all := e.tr.snapshot()
		res.Late = all[len(tr):]
		tr = all
	}
	res.Trace = tr
	return res
}

// planImageRaw: like planImage but ids are looked up verbatim in ids.m (walk indices) and times kept as ranks.
func planImageRaw(p *workflow.Plan, ids *ider) PlanImg {
	im := &imager{ids: &ider{m: ids.m, next: 100000}, times: collectTimes(p)}
	return im.plan(p)
}

func quietLogs() {
	// the engine logs through slog/stdlib log to stderr; keep the campaign output readable
	if os.Getenv("VERIF_VERBOSE") == "" {
		// keep errors and fatals (the engine's log.Fatalf kills the process: the parent reports the death)
		slog.SetDefault(slog.New(slog.NewTextHandler(os.Stderr, &slog.HandlerOptions{Level: slog.LevelError + 1})))
		log.SetOutput(os.Stderr)
	}
}

func hasShortTimeouts(p *workflow.Plan) bool {
	short := false
	for item := range walk.Plan(p) {
		if a, ok := item.Value.(*workflow.Action); ok && a.Timeout > 0 && a.Timeout < time.Second {
			short = true
		}
	}
	return short
}

// unendedCalls: enter events of the plan without a matching exit
func unendedCalls(tr []Event, planNo int) []Event {
	type key struct {
		tag  string
		call int
	}
	open := map[key]Event{}
	for _, e := range tr {
		if e.Plan != planNo {
			continue
		}
		switch e.L {
		case "enter":
			open[key{e.Tag, e.Call}] = e
		case "exit":
			delete(open, key{e.Tag, e.Call})
		}
	}
	var out []Event
	for _, e := range open {
		out = append(out, e)
	}
	sort.Slice(out, func(i, j int) bool { return out[i].N < out[j].N })
	return out
}

var inflightHigh atomic.Int64
