"""Per-property registry used by ./check: which theorems must exist (obligations), extra trusted-base
items and assumptions recorded in the evidence."""

COMMON_ASSUME = [
    "the hand-written Lean model agrees with the Go code on inputs not sampled by the correspondence campaign",
    "Go compiler/runtime; gostdlib statemachine/worker/sync.Group and exponential.Retry behave as read",
]

HOOK_COMMITS = []

PROPS = {
    "C19": {
        "theorems": ["any_consumer", "walk_spec", "stop", "head_is_plan", "count", "facts_walk_order"],
        "assumptions": COMMON_ASSUME + ["ids are opaque: the model identifies objects by the ids the harness assigns"],
        "trusted": ["modelled: workflow/utils/walk/walk.go (Model/Walk.lean); fact F5 = order of nil-guarded field visits"],
        "level_text": "Lean theorems over all plans and all consumers: the modelled walker (statement-by-statement image of walk.go) yields exactly the specified execution order with ancestor chains, stops exactly at the consumer's stop, never yields afterwards, one item per object. Tie: F5 order fact regenerated from walk.go + exact differential of walk.Plan vs the model on random shapes and every stop position.",
        "level_note": "Trusted: Lean kernel (propext, Quot.sound), the hand-written Model/Walk.lean being the image of walk.go (sampled by the differential, not proved), the fact extractor, the harness.",
        "technique": "structural induction in Lean 4 (walker = emit of spec list for every consumer) + exact differential correspondence",
    },
    "C05": {
        "theorems": ["calls_le", "no_call_after_final", "one_attempt_per_call", "attempt_times",
                     "overrun_recorded_as_retryable_timeout", "wrong_type_is_permanent_and_dropped", "plain_recorded_as_returned",
                     "completed_iff_last_ok", "events_shape", "events_shape_check"],
        "assumptions": COMMON_ASSUME + ["exponential.Retry calls op again iff it returned a non-permanent error and the run context is live (it is never cancelled inside one process)",
                                        "the wall clock does not run backwards (times are proved on a logical clock, observed as ranks)"],
        "trusted": ["modelled: internal/execute/sm/actions/actions.go + sm.runAction (Model/Attempts.lean)"],
        "level_text": "Lean theorems over every retry budget and every outcome oracle (scripts of any length over response kind x error kind x overrun): call bound Retries+1, no call after success/permanent, one attempt per call in order with the classified result, overrun = retryable timeout, wrong type = permanent and dropped, Completed iff last attempt has no error, persistence order of writes. Tie: exact differential of per-action event sequences (durable writes with attempt counts, plugin enter/exit) and stored attempts through the real engine, for sequence and check actions.",
        "level_note": "Trusted: Lean kernel (propext, Quot.sound), Model/Attempts.lean being the image of actions.go (sampled by the differential), Retry semantics as read, logical clock for times.",
        "technique": "induction over the retry loop in Lean 4 (loop = closed form over consumed outcomes) + exact differential correspondence on event sequences",
    },
    "C20": {
        "theorems": ["sticky", "sticky_run", "after_emit", "refused_keeps_plan", "step_wf", "no_panic", "new_wf"],
        "assumptions": COMMON_ASSUME + ["errors are compared by class (DESIGN 3.9); identity of the sticky error value is checked on the implementation",
                                        "caller-supplied *Checks/*Sequence/*Action values are fresh per call (re-using one pointer in two places is outside the statement)"],
        "trusted": ["modelled: workflow/builder/builder.go (Model/Builder.lean)"],
        "level_text": "Lean theorems over every call history: a recorded misuse is returned unchanged by every later non-Reset call and the plan is untouched (sticky, sticky_run); every use after emission is refused and leaves the emitted plan untouched; a refused call never changes the plan; no history panics (full statement, proved after the two fix: commits). Tie: exact differential of per-call results and of every emitted plan (at emission and at the end of the history) on random histories.",
        "level_note": "Trusted: Lean kernel (propext, Quot.sound, Classical.choice where simp uses it), Model/Builder.lean being the image of builder.go (sampled by the differential). The equivalence with an independent bottom-up reference construction is checked by the differential on emitted plans, not yet as a theorem.",
        "technique": "case analysis + induction over call histories in Lean 4 (inductive invariant WF) + exact differential correspondence",
    },
    "C16": {
        "theorems": ["accept_iff_wellFormed", "nil_rejected", "total", "duplicate_key_rejected"],
        "assumptions": COMMON_ASSUME + ["the input flags (blank name, key version, plugin registered, request accepted by the plugin) are observed with the Go standard library / the scripted plugin, not with coercion code",
                                        "error classes, not texts, are compared; an unknown error text is accepted wherever the model expects some error"],
        "trusted": ["modelled: workflow.Validate + the per-object validate methods (Model/Validate.lean); Submit's defaults and Start's validators are checked on the implementation only (monitors C16.accepted_pristine, C16.start_refuses_noncheck)"],
        "level_text": "Lean theorem over all plans: the modelled Validate (breadth-first walk = level order, per-object rules in source order, shared key set) accepts exactly the WellFormed plans (independent recursive predicate + pairwise distinct non-nil keys); nil plan rejected; duplicate keys rejected (full statement, proved after the fix: commit for D12). Tie: accept/reject + error class of real Submit vs the model on valid plans with 0-3 of 16 mutation kinds at random objects; store row counts after a reject; ids/state/submit time after an accept; Start's check-plugin rule.",
        "level_note": "Trusted: Lean kernel (propext, Quot.sound, Classical.choice), Model/Validate.lean being the image of workflow.go's validate methods (sampled), harness observation of input flags. 'No trace on reject' and 'pristine on accept' are checked on the implementation (row counts, read-back), not proved.",
        "technique": "Lean 4 proof of accept <-> WellFormed (list induction over the BFS order + per-node rule lemmas) + differential correspondence with mutation-based generator",
    },
}
