"""Per-property registry used by ./check: which theorems must exist (obligations), extra trusted-base
items and assumptions recorded in the evidence."""

COMMON_ASSUME = [
    "the hand-written Lean model agrees with the Go code on inputs not sampled by the correspondence campaign",
    "Go compiler/runtime; gostdlib statemachine/worker/sync.Group and exponential.Retry behave as read",
]

HOOK_COMMITS = []

PROPS = {
    "C19": {
        "theorems": ["any_consumer", "walk_spec", "stop", "head_is_plan", "count", "facts_walk_order"],
        "assumptions": COMMON_ASSUME + ["ids are opaque: the model identifies objects by the ids the harness assigns"],
        "trusted": ["modelled: workflow/utils/walk/walk.go (Model/Walk.lean); fact F5 = order of nil-guarded field visits"],
        "level_text": "Lean theorems over all plans and all consumers: the modelled walker (statement-by-statement image of walk.go) yields exactly the specified execution order with ancestor chains, stops exactly at the consumer's stop, never yields afterwards, one item per object. Tie: F5 order fact regenerated from walk.go + exact differential of walk.Plan vs the model on random shapes and every stop position.",
        "level_note": "Trusted: Lean kernel (propext, Quot.sound), the hand-written Model/Walk.lean being the image of walk.go (sampled by the differential, not proved), the fact extractor, the harness.",
        "technique": "structural induction in Lean 4 (walker = emit of spec list for every consumer) + exact differential correspondence",
    },
}
