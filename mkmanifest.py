#!/usr/bin/env python3
"""regenerate MANIFEST.json from props.py (claimed checks) and properties.jsonl (everything else -> not_applicable)"""
import json, os, subprocess
ROOT = os.path.dirname(os.path.abspath(__file__))
import sys; sys.path.insert(0, ROOT)
from props import PROPS, HOOK_COMMITS
ids = [json.loads(l)["id"] for l in open(os.path.join(ROOT, "properties.jsonl"))]
checks = []
for pid in ids:
    if pid not in PROPS:
        continue
    s = PROPS[pid]
    checks.append({
        "property_id": pid,
        "quick_cmd": f"./check {pid} --tier quick",
        "thorough_cmd": f"./check {pid} --tier thorough",
        "evidence_file": f"evidence/{pid}.json",
        "replay_cmd_template": f"./check {pid} --replay {{path}}",
        "engine": "lean-model+go-harness",
        "level_claimed": {"category": "proof", "text": s["level_text"], "design_ref": s.get("design_ref", "DESIGN.md section 5")},
        "level_note": s["level_note"],
        "technique": s.get("technique", "Lean 4 theorems over an executable model + differential correspondence check against the Go code"),
    })
m = {
    "version": 1,
    "setup_cmd": "./check --setup",
    "hooks": {"guard": "verif", "enable": "go test -c -tags verif (harness built against /repo via replace)",
              "baseline_off_cmd": "cd /repo && go test -mod=mod -vet=off -count=1 -timeout 25m ./...",
              "source_commits": HOOK_COMMITS, "add_only": True},
    "engines": [
        {"name": "lean-model", "path": "lean/", "serves_properties": [c["property_id"] for c in checks], "kind_free_text": "Lean 4 executable models, theorems (Props/Cxx.lean), compiled line-protocol driver"},
        {"name": "go-harness", "path": "harness/", "serves_properties": [c["property_id"] for c in checks], "kind_free_text": "Go test binary built against /repo with -tags verif: generators, scripted plugins, vault interposer, monitors, differential comparison with the Lean driver"},
        {"name": "fact-extractor", "path": "harness/extract/", "serves_properties": [c["property_id"] for c in checks], "kind_free_text": "go/ast translator regenerating lean/CoercionModel/Generated/F*.lean from /repo on every run"},
    ],
    "checks": checks,
    "notes": "All checks: ./check <id>. See DESIGN.md. Known defects of the unchanged tree are listed in known_findings.json and printed as KNOWN-FINDING lines.",
    "not_applicable": [{"property_id": pid, "reason": "check not built yet (work in progress; DESIGN.md section 8 gives the order of work)"} for pid in ids if pid not in PROPS],
}
json.dump(m, open(os.path.join(ROOT, "MANIFEST.json"), "w"), indent=1)
print("checks:", [c["property_id"] for c in checks])
