import Lean.Data.Json
import CoercionModel.Model.Types
import CoercionModel.Model.Walk
import CoercionModel.Model.Attempts
import CoercionModel.Model.Builder
import CoercionModel.Model.BuilderRef
import CoercionModel.Model.FixFull
import CoercionModel.Model.Validate
import CoercionModel.Model.Engine
import CoercionModel.Model.Startup
import CoercionModel.Model.Search
import CoercionModel.Model.Secure
open Lean
namespace Coercion

deriving instance FromJson, ToJson for Status
deriving instance FromJson, ToJson for Reason
deriving instance FromJson, ToJson for Kind
deriving instance FromJson, ToJson for ErrKind
deriving instance FromJson, ToJson for Attempt
deriving instance FromJson, ToJson for Action
deriving instance FromJson, ToJson for Checks
deriving instance FromJson, ToJson for Sequence
deriving instance FromJson, ToJson for Block
deriving instance FromJson, ToJson for Plan
deriving instance FromJson, ToJson for Walk.Item


deriving instance FromJson, ToJson for Attempts.RespKind
deriving instance FromJson, ToJson for Attempts.PErr
deriving instance FromJson, ToJson for Attempts.Outcome

instance : ToJson Attempts.Ev where
  toJson
    | .write st n => Json.mkObj [("l", "write"), ("status", toJson st), ("attempts", n)]
    | .enter k => Json.mkObj [("l", "enter"), ("call", k)]
    | .exit k => Json.mkObj [("l", "exit"), ("call", k)]

deriving instance FromJson, ToJson for GKind
deriving instance FromJson, ToJson for Builder.ErrClass
deriving instance FromJson, ToJson for Builder.BlockArgs

def parseCall (j : Json) : Except String Builder.Call := do
  let c ← j.getObjValAs? String "c"
  match c with
  | "up" => return .up
  | "plan" => return .plan
  | "err" => return .err
  | "reset" =>
    let g := (j.getObjValAs? Nat "group").toOption
    return .reset (← j.getObjValAs? Bool "blank") (← j.getObjValAs? String "name") (← j.getObjValAs? String "descr") g
  | "addBlock" => return .addBlock (← j.getObjValAs? Builder.BlockArgs "args")
  | "addSequence" =>
    match j.getObjVal? "seq" with
    | .ok .null | .error _ => return .addSequence none
    | .ok q => return .addSequence (some (← fromJson? q))
  | "addAction" =>
    match j.getObjVal? "action" with
    | .ok .null | .error _ => return .addAction none
    | .ok q => return .addAction (some (← fromJson? q))
  | "addChecks" =>
    let k : Option GKind := (j.getObjValAs? GKind "kind").toOption
    match j.getObjVal? "checks" with
    | .ok .null | .error _ => return .addChecks k none
    | .ok q => return .addChecks k (some (← fromJson? q, ← j.getObjValAs? Bool "hasNil"))
  | _ => throw s!"unknown call {c}"

instance : ToJson Builder.Ret where
  toJson
    | .ok => "ok"
    | .err c => Json.str ("err:" ++ (toJson c).compress.replace "\"" "")
    | .panic => "panic"
    | .planOut p => Json.mkObj [("plan", toJson p)]

deriving instance FromJson, ToJson for Validate.Err
deriving instance FromJson for Validate.VAction
deriving instance FromJson for Validate.VChecks
deriving instance FromJson for Validate.VSeq
deriving instance FromJson for Validate.VBlock
deriving instance FromJson for Validate.VPlan

deriving instance FromJson for Engine.MAction
deriving instance FromJson for Engine.MGroup
deriving instance FromJson for Engine.MSeq
deriving instance FromJson for Engine.MBlock
deriving instance FromJson for Engine.MPlan

instance : ToJson Engine.Ev where
  toJson
    | .group _ _ g ok => Json.mkObj [("k", "group"), ("idx", g), ("ok", ok)]
    | .seq _ q ok => Json.mkObj [("k", "seq"), ("idx", q), ("ok", ok)]
    | .blockEnd b st => Json.mkObj [("k", "blockEnd"), ("idx", b), ("status", toJson st)]

instance : ToJson Engine.Obj where
  toJson o := Json.mkObj [("idx", o.idx), ("status", toJson o.status), ("calls", o.calls)]

deriving instance FromJson for Startup.Stored
deriving instance ToJson for Startup.Fate

deriving instance FromJson for Search.Row
deriving instance FromJson for Search.Filters

namespace Secure
mutual
partial def parseV (j : Json) : Except String V := do
  let k ← j.getObjValAs? String "k"
  match k with
  | "leaf" => return .leaf (← j.getObjValAs? Nat "c")
  | "nil" => return .nil
  | "ptr" => return .ptr (← parseV (← j.getObjVal? "v"))
  | "iface" => return .iface (← parseV (← j.getObjVal? "v"))
  | "struct" => return .struct (← parseFs (← j.getObjValAs? (List Json) "fs"))
  | "slice" => return .slice (← parseVs (← j.getObjValAs? (List Json) "vs"))
  | "map" => return .map (← parseVs (← j.getObjValAs? (List Json) "vs"))
  | _ => throw s!"bad GoVal kind {k}"
partial def parseVs : List Json → Except String Vs
  | [] => return .nil
  | j :: r => return .cons (← parseV j) (← parseVs r)
partial def parseFs : List Json → Except String Fs
  | [] => return .nil
  | j :: r => return .cons (← j.getObjValAs? Bool "secure") (← parseV (← j.getObjVal? "v")) (← parseFs r)
end
end Secure

end Coercion
