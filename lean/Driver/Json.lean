import Lean.Data.Json
import CoercionModel.Model.Types
import CoercionModel.Model.Walk
import CoercionModel.Model.Attempts
open Lean
namespace Coercion

deriving instance FromJson, ToJson for Status
deriving instance FromJson, ToJson for Reason
deriving instance FromJson, ToJson for Kind
deriving instance FromJson, ToJson for ErrKind
deriving instance FromJson, ToJson for Attempt
deriving instance FromJson, ToJson for Action
deriving instance FromJson, ToJson for Checks
deriving instance FromJson, ToJson for Sequence
deriving instance FromJson, ToJson for Block
deriving instance FromJson, ToJson for Plan
deriving instance FromJson, ToJson for Walk.Item


deriving instance FromJson, ToJson for Attempts.RespKind
deriving instance FromJson, ToJson for Attempts.PErr
deriving instance FromJson, ToJson for Attempts.Outcome

instance : ToJson Attempts.Ev where
  toJson
    | .write st n => Json.mkObj [("l", "write"), ("status", toJson st), ("attempts", n)]
    | .enter k => Json.mkObj [("l", "enter"), ("call", k)]
    | .exit k => Json.mkObj [("l", "exit"), ("call", k)]

end Coercion
