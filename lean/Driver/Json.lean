import Lean.Data.Json
import CoercionModel.Model.Types
import CoercionModel.Model.Walk
open Lean
namespace Coercion

deriving instance FromJson, ToJson for Status
deriving instance FromJson, ToJson for Reason
deriving instance FromJson, ToJson for Kind
deriving instance FromJson, ToJson for ErrKind
deriving instance FromJson, ToJson for Attempt
deriving instance FromJson, ToJson for Action
deriving instance FromJson, ToJson for Checks
deriving instance FromJson, ToJson for Sequence
deriving instance FromJson, ToJson for Block
deriving instance FromJson, ToJson for Plan
deriving instance FromJson, ToJson for Walk.Item

end Coercion
