import Driver.Json
open Lean Coercion

def errJson (msg : String) : Json := Json.mkObj [("ok", false), ("why", msg)]
def okJson (out : Json) : Json := Json.mkObj [("ok", true), ("out", out)]

def cmdWalk (j : Json) : Except String Json := do
  let p : Plan ← j.getObjValAs? Plan "plan"
  let k := (j.getObjValAs? Nat "stopAt").toOption
  let st := match k with
    | some k => Walk.run (Walk.stopAt k) p
    | none => Walk.run (fun _ => true) p
  return Json.mkObj [("items", toJson st.out), ("bad", st.bad)]

def scriptFn (script : Array Attempts.Outcome) : Nat → Attempts.Outcome := fun k =>
  if script.size = 0 then {} else script[min k (script.size - 1)]!

def cmdAttempts (j : Json) : Except String Json := do
  let retries : Int ← j.getObjValAs? Int "retries"
  let pre : Bool ← j.getObjValAs? Bool "pre"
  let script : Array Attempts.Outcome ← j.getObjValAs? (Array Attempts.Outcome) "script"
  let r := Attempts.run retries pre (scriptFn script)
  return Json.mkObj [("status", toJson r.status), ("calls", r.calls), ("failed", r.failed),
    ("attempts", toJson (r.attempts.map fun a => Json.mkObj [("err", toJson a.err), ("resp", a.resp)])),
    ("evs", toJson r.evs)]

def cmdBuild (j : Json) : Except String Json := do
  let calls : Array Json ← j.getObjValAs? (Array Json) "calls"
  let cs ← calls.toList.mapM parseCall
  -- the first call is builder.New (= Reset on a fresh builder); if it fails there is no builder
  match cs with
  | [] => return Json.mkObj [("rets", Json.arr #[])]
  | c0 :: rest =>
    let (s0, r0) := Builder.step {} c0
    match r0 with
    | .ok =>
      let (_, rs) := Builder.run s0 rest
      -- `ref`: what the bottom-up reference (Model/BuilderRef) builds for the same history, at every first Plan()
      return Json.mkObj [("rets", toJson (r0 :: rs)), ("ref", toJson (Builder.track none false cs))]
    | _ => return Json.mkObj [("rets", toJson [r0])]

def cmdValidate (j : Json) : Except String Json := do
  let p : Option Validate.VPlan ← match j.getObjVal? "plan" with
    | .ok .null | .error _ => pure none
    | .ok q => some <$> fromJson? q
  match Validate.validate p with
  | .ok _ => return "ok"
  | .error e => return Json.str ("err:" ++ (toJson e).compress.replace "\"" "")

def cmdEngine (j : Json) : Except String Json := do
  let p : Engine.MPlan ← j.getObjValAs? Engine.MPlan "plan"
  let r := Engine.runPlan p
  return Json.mkObj [("status", toJson r.status), ("reason", toJson r.reason), ("evs", toJson r.out.evs), ("objs", toJson r.out.objs)]

def cmdStartup (j : Json) : Except String Json := do
  let recovery : Bool ← j.getObjValAs? Bool "recovery"
  let maxAge : Nat ← j.getObjValAs? Nat "maxAge"
  let now : Nat ← j.getObjValAs? Nat "now"
  let store : List Startup.Stored ← j.getObjValAs? (List Startup.Stored) "store"
  return toJson (store.map fun p =>
    let f := Startup.fate recovery maxAge now p
    Json.mkObj [("id", p.id), ("fate", toJson f),
      ("closedInner", toJson (if f == .closed then (Startup.close p).1.inner else p.inner))])

def cmdSearch (j : Json) : Except String Json := do
  let store : List Search.Row ← j.getObjValAs? (List Search.Row) "store"
  match j.getObjValAs? String "op" with
  | .ok "search" =>
    let f : Search.Filters ← j.getObjValAs? Search.Filters "filters"
    return toJson ((Search.search f store).map (·.id))
  | .ok "list" =>
    let limit : Int ← j.getObjValAs? Int "limit"
    return toJson ((Search.list limit store).map (·.id))
  | .ok "exists" =>
    let id : Nat ← j.getObjValAs? Nat "id"
    return toJson (Search.exists_ id store)
  | _ => throw "search: bad op"

def cmdSecure (j : Json) : Except String Json := do
  let fs ← Secure.parseFs (← j.getObjValAs? (List Json) "fs")
  match Secure.scrub fs with
  | .panic => return Json.mkObj [("panic", true), ("leaks", toJson ([] : List Nat)), ("handled", Secure.handledF fs)]
  | .ok fs' => return Json.mkObj [("panic", false), ("leaks", toJson (Secure.secretsF fs')), ("handled", Secure.handledF fs),
      ("secrets", toJson (Secure.secretsF fs))]

/-- the recovery repair of one object (function-level differential, hook coercion.VerifFix*) -/
def cmdFix (j : Json) : Except String Json := do
  let kind ← j.getObjValAs? String "kind"
  let now ← j.getObjValAs? Nat "now"
  match kind with
  | "action" => let a : Action ← j.getObjValAs? Action "obj"; return toJson (Fix.fixAction a)
  | "seq" => let q : Sequence ← j.getObjValAs? Sequence "obj"; return toJson (Fix.fixSeqFull now q)
  | "checks" => let c : Checks ← j.getObjValAs? Checks "obj"; return toJson (Fix.fixChecks c)
  | _ => throw s!"unknown kind {kind}"

def dispatch (j : Json) : Except String Json := do
  let cmd ← j.getObjValAs? String "cmd"
  match cmd with
  | "walk" => cmdWalk j
  | "attempts" => cmdAttempts j
  | "build" => cmdBuild j
  | "validate" => cmdValidate j
  | "engine" => cmdEngine j
  | "startup" => cmdStartup j
  | "search" => cmdSearch j
  | "secure" => cmdSecure j
  | "fix" => cmdFix j
  | "ping" => return "pong"
  | _ => throw s!"unknown cmd {cmd}"

partial def loop (hin hout : IO.FS.Stream) : IO Unit := do
  let line ← hin.getLine
  if line.isEmpty then return ()
  let ans := match Json.parse line with
    | .error e => errJson s!"parse: {e}"
    | .ok j => match dispatch j with
      | .ok out => okJson out
      | .error e => errJson e
  hout.putStrLn ans.compress
  hout.flush
  loop hin hout

def main : IO Unit := do
  loop (← IO.getStdin) (← IO.getStdout)
