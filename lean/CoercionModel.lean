import CoercionModel.Model.Types
import CoercionModel.Model.Walk
