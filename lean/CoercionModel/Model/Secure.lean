/-
  Model/Secure — workflow/utils/clone/secure.go: the reflective scrubber behind the default clone.

  Go values are modelled by their *shape* (mutual inductive `V / Vs / Fs`): a leaf carrying an
  identifiable value (canary), nil, pointer, interface, struct (exported fields with a `secure` flag),
  slice, map (values only; keys are not JSON values unless strings). The scrubber is the dispatch of
  secure.go position by position — including the positions it does NOT handle:
    * `securePtr` handles only pointer-to-struct; pointer-to-slice/map/interface calls a function that
      panics on its kind check; pointer-to-pointer and pointer-to-leaf are returned untouched;
    * `secureSlice` / `secureMap` handle elements of kind Ptr, Map, Slice, Struct — an element of kind
      Interface (`[]any`, `map[string]any`) is skipped;
    * `secureInterface` handles Ptr, Map, Slice, Struct inside the interface.
  A secure-tagged field is overwritten as a whole (string → "[secret hidden]", anything else → zero).
-/
namespace Coercion.Secure

mutual
inductive V where
  | leaf (canary : Nat)
  | nil
  | hidden                      -- what a scrubbed secure field holds
  | ptr (v : V)
  | iface (v : V)
  | struct (fs : Fs)
  | slice (vs : Vs)
  | map (vs : Vs)
inductive Vs where
  | nil
  | cons (v : V) (r : Vs)
inductive Fs where
  | nil
  | cons (secure : Bool) (v : V) (r : Fs)
end

inductive R (α : Type) where
  | ok (a : α)
  | panic
  deriving Repr

def R.bind {α β} (r : R α) (f : α → R β) : R β := match r with | .ok a => f a | .panic => .panic

def R.map {α β} (f : α → β) (r : R α) : R β := match r with | .ok a => .ok (f a) | .panic => .panic

mutual
/-- `securePtr` on a pointer whose element is `v` (reached through `securePtrOrRef`) -/
def scrubPtr : V → R V
  | .struct fs => (scrubFields fs).map fun fs' => .ptr (.struct fs')
  | .slice _ => .panic                           -- secureSlice(val) with val of kind Ptr: "val must be a slice"
  | .map _ => .panic
  | .iface _ => .panic
  | v => .ok (.ptr v)                            -- **T, *string, …: untouched
/-- the element loop of `secureSlice` / `secureMap` -/
def scrubElems : Vs → R Vs
  | .nil => .ok .nil
  | .cons v r =>
    (match v with
     | .ptr w => scrubPtr w                      -- Ptr / Map / Slice elements go through securePtrOrRef
     | .slice vs => (scrubElems vs).map V.slice
     | .map vs => (scrubElems vs).map V.map
     | .struct fs => (scrubFields fs).map V.struct
     | v => .ok v                                -- Interface elements (and leaves) are skipped
    ).bind fun v' => (scrubElems r).map fun r' => .cons v' r'
/-- `secureInterface` on an interface holding `v` -/
def scrubIface : V → R V
  | .ptr w => scrubPtr w
  | .slice vs => (scrubElems vs).map V.slice
  | .map vs => (scrubElems vs).map V.map
  | .struct fs => (scrubFields fs).map V.struct
  | v => .ok v
/-- the field loop of `secureStruct` -/
def scrubFields : Fs → R Fs
  | .nil => .ok .nil
  | .cons true _ r => (scrubFields r).map fun r' => .cons true .hidden r'   -- secure tag: overwritten whole
  | .cons false v r =>
    (match v with
     | .struct fs => (scrubFields fs).map V.struct
     | .ptr w => scrubPtr w
     | .iface w => (scrubIface w).map V.iface
     | .slice vs => (scrubElems vs).map V.slice
     | .map vs => (scrubElems vs).map V.map
     | v => .ok v
    ).bind fun v' => (scrubFields r).map fun r' => .cons false v' r'
end

/-- `clone.Secure(&s)` on a struct value -/
def scrub (fs : Fs) : R Fs := scrubFields fs

mutual
/-- canaries of all leaves below a secure-tagged field (what must not survive) -/
def secretsV : V → List Nat
  | .ptr v | .iface v => secretsV v
  | .struct fs => secretsF fs
  | .slice vs | .map vs => secretsVs vs
  | _ => []
def secretsVs : Vs → List Nat
  | .nil => []
  | .cons v r => secretsV v ++ secretsVs r
def secretsF : Fs → List Nat
  | .nil => []
  | .cons true v r => allV v ++ secretsF r
  | .cons false v r => secretsV v ++ secretsF r
/-- all canaries below a value -/
def allV : V → List Nat
  | .leaf c => [c]
  | .ptr v | .iface v => allV v
  | .struct fs => allF fs
  | .slice vs | .map vs => allVs vs
  | _ => []
def allVs : Vs → List Nat
  | .nil => []
  | .cons v r => allV v ++ allVs r
def allF : Fs → List Nat
  | .nil => []
  | .cons _ v r => allV v ++ allF r
end

mutual
/-- the shapes the dispatch handles completely: no interface element directly in a slice or map, and
    pointers only to structs -/
def handledV : V → Bool
  | .ptr (.struct fs) => handledF fs
  | .ptr _ => false
  | .iface (.iface _) => false               -- cannot occur in Go: an interface holds a concrete value
  | .iface v => handledV v
  | .struct fs => handledF fs
  | .slice vs | .map vs => handledVs vs
  | _ => true
def handledVs : Vs → Bool
  | .nil => true
  | .cons (.iface _) _ => false
  | .cons v r => handledV v && handledVs r
def handledF : Fs → Bool
  | .nil => true
  | .cons true _ r => handledF r            -- overwritten whatever it holds
  | .cons false v r => handledV v && handledF r
end

end Coercion.Secure
