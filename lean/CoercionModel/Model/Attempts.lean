import CoercionModel.Model.Types
/-
  Model/Attempts — internal/execute/sm/actions/actions.go (Runner.Start → GetPlugin → Execute →
  exec under exponential.Retry → End) together with sm.runAction's wrapper.

  The plugin is an oracle `sc : Nat → Outcome` (outcome of the k-th call for this action).
  `exponential.Retry(op)` is read as: call op; stop on nil or on an error wrapping ErrPermanent;
  otherwise call it again (the run context is never cancelled inside one process, Appendix E).
  Every `now()` is one tick of the logical clock.
-/
namespace Coercion.Attempts
open Coercion

inductive RespKind where
  | good | bad | none       -- declared response type / some other type / nil
  deriving DecidableEq, Repr, Inhabited, BEq, Hashable

inductive PErr where
  | none | transient | permanent
  deriving DecidableEq, Repr, Inhabited, BEq, Hashable

/-- what one plugin call does -/
structure Outcome where
  resp    : RespKind := .good
  err     : PErr := .none
  overrun : Bool := false    -- the call outlives the action's timeout
  deriving DecidableEq, Repr, Inhabited, BEq, Hashable

/-- observable events of one action, in order -/
inductive Ev where
  | write (status : Status) (attempts : Nat)   -- UpdateAction carrying this status and this many attempts
  | enter (call : Nat)                          -- plugin.Execute entered (k-th call)
  | exit (call : Nat)                           -- plugin.Execute returned / was abandoned at the timeout
  deriving DecidableEq, Repr, Inhabited, BEq, Hashable

/-- the (error kind, response stored) that `exec` records for an outcome -/
def classify (o : Outcome) : ErrKind × Bool :=
  if o.overrun then (.timeout, false)                       -- plugResp.timeout: Err := timeout msg, Resp untouched (nil)
  else match o.resp with
    | .bad => (.typeErr, false)                             -- non-nil response of the wrong type: permanent, response dropped
    | r => (match o.err with
            | .none => .none | .transient => .transient | .permanent => .permanent,
            r == .good)

def record (o : Outcome) (clk : Nat) : Attempt :=
  { err := (classify o).1, resp := (classify o).2, tStart := clk + 1, tEnd := clk + 2 }

structure St where
  attempts : List Attempt := []
  evs      : List Ev := []
  clk      : Nat := 0
  calls    : Nat := 0
  deriving Repr, Inhabited

/-- The Retry loop around `exec`. `fuel` is how many more calls the budget test
    `len(action.Attempts) > action.Retries` lets through; the boolean is `Data.err != nil`. -/
def loop (sc : Nat → Outcome) : Nat → St → St × Bool
  | 0, s => (s, true)                                        -- exec returns ErrPermanent without calling or writing
  | fuel + 1, s =>
    let o := sc s.calls
    let a := record o s.clk
    let s' : St :=
      { attempts := s.attempts ++ [a],
        evs := s.evs ++ [.enter s.calls, .exit s.calls, .write .running (s.attempts.length + 1)],
        clk := s.clk + 2, calls := s.calls + 1 }
    match a.err with
    | .none => (s', false)
    | .permanent | .typeErr => (s', true)
    | .transient | .timeout => loop sc fuel s'

/-- calls the budget test still allows: Retries + 1 - len(Attempts), floored at 0 -/
def budget (retries : Int) (have_ : Nat) : Nat := (retries + 1 - have_).toNat

structure Result where
  status   : Status
  attempts : List Attempt
  evs      : List Ev
  tStart   : Nat
  tEnd     : Nat
  calls    : Nat
  failed   : Bool           -- runAction returns an error
  deriving Repr, Inhabited

/-- `runAction` on an action that is NotStarted (sequence actions) or already marked Running by
    `runActionsParallel` (check actions; `preRunning = true`: no second Running write). -/
def run (retries : Int) (preRunning : Bool) (sc : Nat → Outcome) : Result :=
  let s0 : St := if preRunning then { clk := 1 } else { evs := [.write .running 0], clk := 1 }
  let (s, err) := loop sc (budget retries 0) s0
  let st : Status := if err then .failed else .completed
  { status := st, attempts := s.attempts,
    evs := s.evs ++ [.write st s.attempts.length, .write st s.attempts.length],   -- End's write, then runAction's deferred write
    tStart := 1, tEnd := s.clk + 1, calls := s.calls, failed := err }

/-- `runAction` on an action that recovery left terminal: nothing is invoked, one (idempotent) write. -/
def runTerminal (st : Status) (n : Nat) : List Ev := [.write st n]

end Coercion.Attempts
