import CoercionModel.Model.Fix
/-
  Model/FixFull — `fixSeq` and `fixChecks` of internal/execute/sm/recovery.go over EVERY input state,
  including the Stopped branches Model/Fix leaves out and the End times the code sets (`now` =
  `time.Now()` at the call). These are the functions the function-level differential (hook
  `coercion.VerifFix*`, harness/fixdiff_test.go) runs the real code against.
-/
namespace Coercion.Fix
open Coercion

/-- `fixSeq(s)` (the counters of the code are written as `any` / `filter` as in Model/Fix.fixSeq) -/
def fixSeqFull (now : Nat) (q : Sequence) : Sequence :=
  if q.status ≠ .running then q
  else if q.actions.any (·.status == .stopped) then
    -- something was stopped: whatever was still Running is Stopped now, and so is the sequence
    { q with status := .stopped, tEnd := now, actions := q.actions.map (fun a => if a.status == .running then { a with status := .stopped, tEnd := now } else a) }
  else
    let as := q.actions.map fixAction
    let failed := as.any (·.status == .failed)
    let completed := (as.filter (·.status == .completed)).length
    let running := as.any (·.status == .running)
    if as.any (·.status == .stopped) then { q with actions := as, status := .stopped, tEnd := now }
    else if failed then { q with actions := as, status := .failed, tEnd := now }
    else if completed == 0 && !running then { q with actions := as, status := .notStarted, tStart := 0, tEnd := 0 }
    else if completed == as.length then { q with actions := as, status := .completed, tEnd := now }
    else { q with actions := as }

/-- `fixChecks(c)` for a non-nil group: a Running group is reset together with all its actions -/
def fixChecks (c : Checks) : Checks :=
  if c.status ≠ .running then c
  else { c with status := .notStarted, tStart := 0, tEnd := 0, actions := c.actions.map resetAction }

end Coercion.Fix
