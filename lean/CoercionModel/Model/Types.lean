/-
  Model/Types — the data the engine works on, as plain structures.

  Mirrors workflow/workflow.go: Status, FailureReason, ObjectType, State (folded into each object
  as `status/tStart/tEnd`), Attempt, Action, Checks, Sequence, Block, Plan.
  Ids and keys are `Nat` (0 = uuid.Nil); times are a logical clock (`Nat`, 0 = zero time).
  Requests/responses are opaque tags.
-/
namespace Coercion

inductive Status where
  | notStarted | running | completed | failed | stopped
  deriving DecidableEq, Repr, Inhabited, BEq, Hashable

inductive Reason where
  | unknown | preCheck | block | postCheck | contCheck | deferredCheck | stopped | exceedRecovery
  deriving DecidableEq, Repr, Inhabited, BEq, Hashable

inductive Kind where
  | plan | checks | block | sequence | action
  deriving DecidableEq, Repr, Inhabited, BEq, Hashable

/-- numeric values as in workflow.go; tied to the source by Generated/F1. -/
def Status.code : Status → Nat
  | .notStarted => 0 | .running => 100 | .completed => 200 | .failed => 300 | .stopped => 400

def Reason.code : Reason → Nat
  | .unknown => 0 | .preCheck => 100 | .block => 200 | .postCheck => 300 | .contCheck => 400
  | .deferredCheck => 450 | .stopped => 500 | .exceedRecovery => 600

def Kind.code : Kind → Nat
  | .plan => 1 | .checks => 2 | .block => 5 | .sequence => 6 | .action => 7

instance : LawfulBEq Status where
  eq_of_beq {a b} h := by cases a <;> cases b <;> first | rfl | cases h
  rfl {a} := by cases a <;> rfl

@[simp] theorem status_beq (a b : Status) : (a == b) = decide (a = b) := by cases a <;> cases b <;> rfl

def Status.terminal : Status → Bool
  | .completed | .failed | .stopped => true
  | _ => false

/-- kind of error recorded in an attempt -/
inductive ErrKind where
  | none | transient | permanent | timeout | typeErr
  deriving DecidableEq, Repr, Inhabited, BEq, Hashable

@[simp] theorem errKind_beq (a b : ErrKind) : (a == b) = decide (a = b) := by cases a <;> cases b <;> rfl

/-- is the error one that `exponential.Retry` treats as permanent? -/
def ErrKind.isPermanent : ErrKind → Bool
  | .permanent | .typeErr => true
  | _ => false

structure Attempt where
  err    : ErrKind := .none
  resp   : Bool := false      -- a response value is stored
  tStart : Nat := 0
  tEnd   : Nat := 0
  deriving DecidableEq, Repr, Inhabited, BEq, Hashable

structure Action where
  id       : Nat := 0
  key      : Nat := 0
  name     : String := ""
  descr    : String := ""
  plugin   : String := ""
  timeout  : Int := 0         -- in milliseconds
  retries  : Int := 0
  req      : String := ""     -- opaque request tag
  status   : Status := .notStarted
  tStart   : Nat := 0
  tEnd     : Nat := 0
  attempts : List Attempt := []
  deriving DecidableEq, Repr, Inhabited, BEq, Hashable

structure Checks where
  id      : Nat := 0
  key     : Nat := 0
  delay   : Int := 0
  status  : Status := .notStarted
  tStart  : Nat := 0
  tEnd    : Nat := 0
  actions : List Action := []
  deriving DecidableEq, Repr, Inhabited, BEq, Hashable

structure Sequence where
  id      : Nat := 0
  key     : Nat := 0
  name    : String := ""
  descr   : String := ""
  status  : Status := .notStarted
  tStart  : Nat := 0
  tEnd    : Nat := 0
  actions : List Action := []
  deriving DecidableEq, Repr, Inhabited, BEq, Hashable

structure Block where
  id       : Nat := 0
  key      : Nat := 0
  name     : String := ""
  descr    : String := ""
  entrance : Int := 0
  exit     : Int := 0
  conc     : Int := 0
  tol      : Int := 0
  status   : Status := .notStarted
  tStart   : Nat := 0
  tEnd     : Nat := 0
  bypass   : Option Checks := none
  pre      : Option Checks := none
  cont     : Option Checks := none
  post     : Option Checks := none
  deferred : Option Checks := none
  seqs     : List Sequence := []
  deriving DecidableEq, Repr, Inhabited, BEq, Hashable

structure Plan where
  id       : Nat := 0
  name     : String := ""
  descr    : String := ""
  group    : Nat := 0
  pmeta    : String := ""
  status   : Status := .notStarted
  tStart   : Nat := 0
  tEnd     : Nat := 0
  reason   : Reason := .unknown
  submit   : Nat := 0
  bypass   : Option Checks := none
  pre      : Option Checks := none
  cont     : Option Checks := none
  post     : Option Checks := none
  deferred : Option Checks := none
  blocks   : List Block := []
  deriving DecidableEq, Repr, Inhabited, BEq, Hashable

end Coercion
