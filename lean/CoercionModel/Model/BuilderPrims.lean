import CoercionModel.Model.Builder
/-
  Model/BuilderPrims — the pointer operations of builder.go on the model's state: the Go builder keeps
  `chain []any` (pointers from the plan down to the current object); Model/Builder keeps the plan tree and a
  position. These primitives say what each chain operation is on (tree, position). The translator T3
  (harness/extract/t3.go) emits the builder's methods in terms of them; Proofs/TranslatedBuilder shows the
  result equal to `Builder.step`.
-/
namespace Coercion.Builder
open Coercion

/-- dynamic type of `b.current()` -/
inductive CurKind where
  | empty | plan | block | seq | checks
  deriving DecidableEq, Repr

def curKind (s : B) : CurKind :=
  match s.pos with
  | none => .empty
  | some .plan => .plan
  | some .block => .block
  | some .seq => .seq
  | some (.planGroup _) | some (.blockGroup _) => .checks

/-- `len(b.chain)` -/
def chainLen (s : B) : Nat :=
  match s.pos with
  | none => 0
  | some .plan => 1
  | some (.planGroup _) | some .block => 2
  | some (.blockGroup _) | some .seq => 3

/-- `b.chain = b.chain[:len(b.chain)-1]` -/
def popChain (s : B) : B :=
  match s.pos with
  | some (.planGroup _) | some .block => { s with pos := some .plan }
  | some (.blockGroup _) | some .seq => { s with pos := some .block }
  | _ => s

/-- `t.<K>Checks` where `t` is the current Plan or Block -/
def curGrp (s : B) (k : GKind) : Option Checks :=
  match s.pos with
  | some .plan => s.plan.grp k
  | some .block => (s.plan.blocks.getLast?.bind (·.grp k))
  | _ => none

/-- `t.<K>Checks = check; b.chain = append(b.chain, check)` -/
def setGrpPush (s : B) (k : GKind) (c : Checks) : B :=
  match s.pos with
  | some .plan => { s with plan := s.plan.setGrp k (some c), pos := some (.planGroup k) }
  | some .block => { s with plan := s.plan.modLastBlock (·.setGrp k (some c)), pos := some (.blockGroup k) }
  | _ => s

/-- `t.Blocks = append(t.Blocks, block); b.chain = append(b.chain, block)` (t the plan) -/
def appendBlockPush (s : B) (b : Block) : B :=
  { s with plan := { s.plan with blocks := s.plan.blocks ++ [b] }, pos := some .block }

/-- `t.Sequences = append(t.Sequences, seq); b.chain = append(b.chain, seq)` (t the current block) -/
def appendSeqPush (s : B) (q : Sequence) : B :=
  { s with plan := s.plan.modLastBlock (fun b => { b with seqs := b.seqs ++ [q] }), pos := some .seq }

/-- `t.Actions = append(t.Actions, action)` (t the current Sequence or Checks) -/
def appendActCur (s : B) (a : Action) : B :=
  match s.pos with
  | some .seq => { s with plan := s.plan.modLastBlock (fun b => { b with seqs := modLast (fun q => { q with actions := q.actions ++ [a] }) b.seqs }) }
  | some (.planGroup k) => { s with plan := s.plan.setGrp k ((s.plan.grp k).map (addAct a)) }
  | some (.blockGroup k) => { s with plan := s.plan.modLastBlock (fun b => b.setGrp k ((b.grp k).map (addAct a))) }
  | _ => s

end Coercion.Builder
