import CoercionModel.Model.Types
/-
  Model/Walk — workflow/utils/walk/walk.go.

  The Go code is a push iterator: `yield(item)` returns false when the consumer stops and the
  walker must then return at once (calling `yield` again would panic in Go).  The model threads a
  consumer state through the same control flow: every `if !yield(..) { return false }` of the
  source is one `andThen`.  The consumer is an arbitrary function of the prefix it has received
  (`cons : List Item → Bool`, true = keep going), so "every early-stop position" is "every cons".
-/
namespace Coercion.Walk
open Coercion

structure Item where
  kind  : Kind
  id    : Nat
  chain : List Nat          -- ids of the ancestors, plan first
  deriving DecidableEq, Repr, Inhabited, BEq, Hashable

/-- consumer-side state: what was received, whether the consumer is still listening, and whether
    the walker ever called `yield` after it had returned false (a Go runtime panic). -/
structure St where
  out  : List Item := []
  live : Bool := true
  bad  : Bool := false
  deriving DecidableEq, Repr, Inhabited

abbrev Cons := List Item → Bool

def yield (cons : Cons) (it : Item) (s : St) : Bool × St :=
  if s.live then
    let out := s.out ++ [it]
    let c := cons out
    (c, { s with out := out, live := c })
  else
    (false, { s with bad := true })

/-- a walker step: returns `ok` (the Go functions' bool result) and the new consumer state -/
abbrev W := St → Bool × St

def andThen (a b : W) : W := fun s =>
  let r := a s
  if r.1 then b r.2 else (false, r.2)

def done : W := fun s => (true, s)

/-- `for _, x := range xs { if !f(x) { return false } }` -/
def forEach {α} (f : α → W) : List α → W
  | [] => done
  | x :: xs => andThen (f x) (forEach f xs)

/-- `if g != nil { if !f(g) { return false } }` -/
def whenSome {α} (f : α → W) : Option α → W
  | none => done
  | some x => f x

def walkChecks (cons : Cons) (chain : List Nat) (c : Checks) : W :=
  andThen (yield cons ⟨.checks, c.id, chain⟩)
    (forEach (fun (a : Action) => yield cons ⟨.action, a.id, chain ++ [c.id]⟩) c.actions)

def walkSequence (cons : Cons) (chain : List Nat) (q : Sequence) : W :=
  andThen (yield cons ⟨.sequence, q.id, chain⟩)
    (forEach (fun (a : Action) => yield cons ⟨.action, a.id, chain ++ [q.id]⟩) q.actions)

def walkBlock (cons : Cons) (chain : List Nat) (b : Block) : W :=
  let ch := chain ++ [b.id]
  andThen (yield cons ⟨.block, b.id, chain⟩) <|
  andThen (whenSome (walkChecks cons ch) b.bypass) <|
  andThen (whenSome (walkChecks cons ch) b.pre) <|
  andThen (whenSome (walkChecks cons ch) b.cont) <|
  andThen (forEach (walkSequence cons ch) b.seqs) <|
  andThen (whenSome (walkChecks cons ch) b.post) <|
  (whenSome (walkChecks cons ch) b.deferred)

def walkPlan (cons : Cons) (p : Plan) : W :=
  let ch := [p.id]
  andThen (yield cons ⟨.plan, p.id, []⟩) <|
  andThen (whenSome (walkChecks cons ch) p.bypass) <|
  andThen (whenSome (walkChecks cons ch) p.pre) <|
  andThen (whenSome (walkChecks cons ch) p.cont) <|
  andThen (forEach (walkBlock cons ch) p.blocks) <|
  andThen (whenSome (walkChecks cons ch) p.post) <|
  (whenSome (walkChecks cons ch) p.deferred)

/-- what a consumer `cons` receives from `walk.Plan(p)` -/
def run (cons : Cons) (p : Plan) : St := (walkPlan cons p {}).2

/-- the consumer that never stops -/
def all (p : Plan) : List Item := (run (fun _ => true) p).out

/-- the consumer that stops when it has received `k` items (k = 0: stops at the first) -/
def stopAt (k : Nat) : Cons := fun out => decide (out.length < k)

/-! ### independent specification: execution order by plain recursion -/

def specChecks (chain : List Nat) (c : Checks) : List Item :=
  ⟨.checks, c.id, chain⟩ :: c.actions.map (fun a => ⟨.action, a.id, chain ++ [c.id]⟩)

def specOpt (chain : List Nat) : Option Checks → List Item
  | none => []
  | some c => specChecks chain c

def specSequence (chain : List Nat) (q : Sequence) : List Item :=
  ⟨.sequence, q.id, chain⟩ :: q.actions.map (fun a => ⟨.action, a.id, chain ++ [q.id]⟩)

def specBlock (chain : List Nat) (b : Block) : List Item :=
  let ch := chain ++ [b.id]
  ⟨.block, b.id, chain⟩ ::
    (specOpt ch b.bypass ++ specOpt ch b.pre ++ specOpt ch b.cont ++
     b.seqs.flatMap (specSequence ch) ++ specOpt ch b.post ++ specOpt ch b.deferred)

def specPlan (p : Plan) : List Item :=
  let ch := [p.id]
  ⟨.plan, p.id, []⟩ ::
    (specOpt ch p.bypass ++ specOpt ch p.pre ++ specOpt ch p.cont ++
     p.blocks.flatMap (specBlock ch) ++ specOpt ch p.post ++ specOpt ch p.deferred)

/-- what a consumer `cons` that has already received `pre` takes from the list `l` -/
def takeCons (cons : Cons) (pre : List Item) : List Item → List Item
  | [] => []
  | it :: r => if cons (pre ++ [it]) then it :: takeCons cons (pre ++ [it]) r else [it]

end Coercion.Walk

namespace Coercion.Walk
/-- the order in which `walkPlan` / `walkBlock` above visit the fields of their argument; compared
    with the order extracted from walk.go (Generated/F5) in Props/C19. -/
def planFieldOrder : List String := ["BypassChecks", "PreChecks", "ContChecks", "Blocks", "PostChecks", "DeferredChecks"]
def blockFieldOrder : List String := ["BypassChecks", "PreChecks", "ContChecks", "Sequences", "PostChecks", "DeferredChecks"]
end Coercion.Walk
