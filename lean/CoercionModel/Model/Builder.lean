import CoercionModel.Model.Types
/-
  Model/Builder — workflow/builder/builder.go.

  The Go builder keeps `chain []any` (pointers from the plan down to the current object) and mutates
  the innermost object in place. Because a child is linked into its parent when it is added, the
  current block is always the last block of the plan and the current sequence the last sequence of
  that block; the model therefore keeps the plan tree and a position, and every method edits the
  tree at that position. A panic of the real code is the explicit result `Ret.panic`.
-/
namespace Coercion

inductive GKind where
  | bypass | pre | cont | post | deferred
  deriving DecidableEq, Repr, Inhabited, BEq, Hashable

def getGroup (k : GKind) (b p c o d : Option Checks) : Option Checks :=
  match k with | .bypass => b | .pre => p | .cont => c | .post => o | .deferred => d

def Plan.grp (p : Plan) (k : GKind) : Option Checks := getGroup k p.bypass p.pre p.cont p.post p.deferred
def Block.grp (b : Block) (k : GKind) : Option Checks := getGroup k b.bypass b.pre b.cont b.post b.deferred

def Plan.setGrp (p : Plan) (k : GKind) (c : Option Checks) : Plan :=
  match k with
  | .bypass => { p with bypass := c } | .pre => { p with pre := c } | .cont => { p with cont := c }
  | .post => { p with post := c } | .deferred => { p with deferred := c }

def Block.setGrp (b : Block) (k : GKind) (c : Option Checks) : Block :=
  match k with
  | .bypass => { b with bypass := c } | .pre => { b with pre := c } | .cont => { b with cont := c }
  | .post => { b with post := c } | .deferred => { b with deferred := c }

/-- edit the last element of a list (the object the chain points at) -/
def modLast {α} (f : α → α) : List α → List α
  | [] => []
  | [x] => [f x]
  | x :: y :: r => x :: modLast f (y :: r)

def Plan.modLastBlock (p : Plan) (f : Block → Block) : Plan := { p with blocks := modLast f p.blocks }

end Coercion

namespace Coercion.Builder
open Coercion

inductive ErrClass where
  | afterEmit | nilArg | dupGroup | badType | wrongLevel | upFromRoot | missingField
  deriving DecidableEq, Repr, Inhabited, BEq, Hashable

inductive Pos where
  | plan | planGroup (k : GKind) | block | blockGroup (k : GKind) | seq
  deriving DecidableEq, Repr, Inhabited, BEq, Hashable

structure BlockArgs where
  key : Nat := 0
  name : String := ""
  descr : String := ""
  entrance : Int := 0
  exit : Int := 0
  conc : Int := 0
  tol : Int := 0
  deriving DecidableEq, Repr, Inhabited

inductive Call where
  /-- `AddChecks(cType, check)`: `k = none` is an unknown ChecksType; `c = none` a nil *Checks;
      an element `none` of the action list is a nil *Action inside the Checks -/
  | addChecks (k : Option GKind) (c : Option (Checks × Bool))   -- Bool: the Checks holds a nil action
  | addBlock (a : BlockArgs)
  | addSequence (s : Option Sequence)
  | addAction (a : Option Action)
  | up
  | plan
  | err
  /-- `Reset(name, descr, opts…)`; `blank` = strings.TrimSpace(name) or (descr) is empty (computed by the
      caller with Go's own TrimSpace); group: WithGroupID(id) given (0 = uuid.Nil) -/
  | reset (blank : Bool) (name descr : String) (group : Option Nat)
  deriving Repr, Inhabited

inductive Ret where
  | ok                       -- call returned, builder error is nil
  | err (c : ErrClass)       -- the builder's error after the call (what Err() would return) / error returned
  | planOut (p : Plan)
  | panic
  deriving Repr, Inhabited

structure B where
  plan    : Plan := {}
  pos     : Option Pos := some .plan      -- none: chain is empty (a failed Reset)
  emitted : Bool := false
  err     : Option ErrClass := none
  deriving Repr, Inhabited

def fail (s : B) (c : ErrClass) : B × Ret := ({ s with err := some c }, .err c)

/-- the common prologue of every Add*/Up method -/
def pre (s : B) (k : B → B × Ret) : B × Ret :=
  if s.emitted then fail s .afterEmit
  else match s.err with
    | some e => (s, .err e)
    | none => k s

def addAct (a : Action) (c : Checks) : Checks := { c with actions := c.actions ++ [a] }

def step (s : B) : Call → B × Ret
  | .err => (s, match s.err with | some e => .err e | none => .ok)
  | .plan =>
    if s.emitted then (s, .err .afterEmit)                 -- does not touch b.err
    else match s.err with
      | some e => (s, .err e)
      | none => match s.pos with
        | none => (s, .panic)                               -- b.chain[0] on an empty chain
        | some _ => ({ s with emitted := true }, .planOut s.plan)
  | .reset blank name descr group =>
    if blank then
      -- chain truncated; the error is recorded (fix 1a67d5b) so later calls return it instead of panicking
      ({ s with emitted := false, pos := none, err := some .missingField }, .err .missingField)
    else
      let s1 : B := { s with emitted := false, pos := some .plan, plan := { name := name, descr := descr } }
      match group with
      | none => ({ s1 with err := none }, .ok)
      | some g =>
        if g = 0 then (s1, .err .nilArg)                    -- option fails: err left as it was
        else ({ s1 with plan := { s1.plan with group := g }, err := none }, .ok)
  | .up => pre s fun s =>
    match s.pos with
    | none => fail s .upFromRoot                            -- len(chain) < 2 also covers the empty chain
    | some .plan => fail s .upFromRoot
    | some (.planGroup _) => ({ s with pos := some .plan }, .ok)
    | some .block => ({ s with pos := some .plan }, .ok)
    | some (.blockGroup _) => ({ s with pos := some .block }, .ok)
    | some .seq => ({ s with pos := some .block }, .ok)
  | .addChecks k c => pre s fun s =>
    match c with
    | none => fail s .nilArg
    | some (c, hasNil) =>
      if hasNil then fail s .nilArg else
      match s.pos with
      | none => (s, .panic)
      | some .plan =>
        (match k with
         | none => fail s .badType
         | some k => if (s.plan.grp k).isSome then fail s .dupGroup
                     else ({ s with plan := s.plan.setGrp k (some c), pos := some (.planGroup k) }, .ok))
      | some .block =>
        (match k with
         | none => fail s .badType
         | some k =>
           match s.plan.blocks.getLast? with
           | none => (s, .panic)                            -- unreachable: position block ⇒ a block exists
           | some b => if (b.grp k).isSome then fail s .dupGroup
                       else ({ s with plan := s.plan.modLastBlock (·.setGrp k (some c)), pos := some (.blockGroup k) }, .ok))
      | some _ => fail s .wrongLevel
  | .addBlock a => pre s fun s =>
    if a.name = "" then fail s .missingField
    else if a.descr = "" then fail s .missingField
    else match s.pos with
      | none => (s, .panic)
      | some .plan =>
        let b : Block := { key := a.key, name := a.name, descr := a.descr, entrance := a.entrance, exit := a.exit, conc := a.conc, tol := a.tol }
        ({ s with plan := { s.plan with blocks := s.plan.blocks ++ [b] }, pos := some .block }, .ok)
      | some _ => fail s .wrongLevel
  | .addSequence q => pre s fun s =>
    match q with
    | none => fail s .nilArg
    | some q =>
      if q.name = "" then fail s .missingField
      else if q.descr = "" then fail s .missingField
      else match s.pos with
        | none => (s, .panic)
        | some .block =>
          ({ s with plan := s.plan.modLastBlock (fun b => { b with seqs := b.seqs ++ [q] }), pos := some .seq }, .ok)
        | some _ => fail s .wrongLevel
  | .addAction a => pre s fun s =>
    match a with
    | none => fail s .nilArg                                -- nil *Action (fix f31c9f0; it used to panic)
    | some a =>
      if a.name = "" then fail s .missingField
      else if a.descr = "" then fail s .missingField
      else if a.plugin = "" then fail s .missingField
      else match s.pos with
        | none => (s, .panic)
        | some .seq =>
          ({ s with plan := s.plan.modLastBlock (fun b => { b with seqs := modLast (fun q => { q with actions := q.actions ++ [a] }) b.seqs }) }, .ok)
        | some (.planGroup k) =>
          ({ s with plan := s.plan.setGrp k ((s.plan.grp k).map (addAct a)) }, .ok)
        | some (.blockGroup k) =>
          ({ s with plan := s.plan.modLastBlock (fun b => b.setGrp k ((b.grp k).map (addAct a))) }, .ok)
        | some _ => fail s .wrongLevel

def isPanic : Ret → Bool
  | .panic => true
  | _ => false

/-- run a call history; a panic ends it (the Go process would be dead) -/
def run : B → List Call → B × List Ret
  | s, [] => (s, [])
  | s, c :: cs =>
    let (s', r) := step s c
    if isPanic r then (s', [r])
    else let (s'', rs) := run s' cs; (s'', r :: rs)

/-- `builder.New(name, descr, opts...)`: Reset, then the options once more; nil builder on error -/
def new (blank : Bool) (name descr : String) (group : Option Nat) : Option B :=
  match step {} (.reset blank name descr group) with
  | (s, .ok) => some s
  | _ => none

end Coercion.Builder
