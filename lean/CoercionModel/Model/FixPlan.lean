import CoercionModel.Model.FixFull
/-
  Model/FixPlan — `fixBlock` and `fixPlan` of internal/execute/sm/recovery.go in full: the repair of
  the optional check groups, the early exits on a durably Failed gate, the repair of every sequence of a
  Running block and — what `fixBlock` does on top of repairing — the *execution to the end* of every
  sequence that is still Running after its repair, the counters, the Stopped branches and the status
  the block / plan is left with.

  `exec : Sequence → Sequence × Bool` stands for `States.execSeq` (the sequence afterwards, and whether
  an error came back). The code starts one goroutine per Running sequence and joins them (`g.Wait`)
  before it reads the failure counter; the goroutines touch disjoint sequences and the counter is atomic,
  so the model runs them in list order.

  Proofs/TranslatedPlan proves these definitions equal to what translator T6 regenerates from the source
  on every run (Generated/T6.lean).
-/
namespace Coercion.Fix
open Coercion

def fixGroup (g : Option Checks) : Option Checks := g.map fixChecks
def grpStatus (g : Option Checks) : Option Status := g.map (·.status)

/-- a sequence of a Running block: repaired, then run to its end if it is still Running -/
def resumeSeq (exec : Sequence → Sequence × Bool) (now : Nat) (q : Sequence) : Sequence :=
  if (fixSeqFull now q).status == .running then (exec (fixSeqFull now q)).1 else fixSeqFull now q

def seqCompleted (now : Nat) (q : Sequence) : Bool := (fixSeqFull now q).status == .completed
def seqStopped (now : Nat) (q : Sequence) : Bool := (fixSeqFull now q).status == .stopped
/-- counted as a failure: durably Failed, or resumed and returned an error -/
def seqFailed (exec : Sequence → Sequence × Bool) (now : Nat) (q : Sequence) : Bool :=
  (fixSeqFull now q).status == .failed || ((fixSeqFull now q).status == .running && (exec (fixSeqFull now q)).2)

def stopRunning (q : Sequence) : Sequence := if q.status == .running then { q with status := .stopped } else q

/-- `fixBlock` -/
def fixBlockFull (exec : Sequence → Sequence × Bool) (now : Nat) (b : Block) : Block :=
  if b.status ≠ .running then b
  else if grpStatus b.bypass == some .completed then { b with bypass := fixGroup b.bypass, status := .completed }
  else if grpStatus b.pre == some .failed then { b with bypass := fixGroup b.bypass, status := .failed }
  else if grpStatus b.cont == some .failed then { b with bypass := fixGroup b.bypass, pre := fixGroup b.pre, status := .failed }
  else if grpStatus b.post == some .failed then { b with bypass := fixGroup b.bypass, pre := fixGroup b.pre, cont := fixGroup b.cont, status := .failed }
  else
    let seqs := b.seqs.map (resumeSeq exec now)
    if 0 < (b.seqs.filter (seqStopped now)).length then
      { b with bypass := fixGroup b.bypass, pre := fixGroup b.pre, cont := fixGroup b.cont, post := fixGroup b.post, seqs := seqs.map stopRunning, status := .stopped }
    else if (b.seqs.filter (seqCompleted now)).length == 0 && (b.seqs.filter (seqFailed exec now)).length == 0 then
      { b with bypass := fixGroup b.bypass, pre := fixGroup b.pre, cont := fixGroup b.cont, post := fixGroup b.post, seqs := seqs, status := .notStarted, tStart := 0, tEnd := 0 }
    else
      { b with bypass := fixGroup b.bypass, pre := fixGroup b.pre, cont := fixGroup b.cont, post := fixGroup b.post, seqs := seqs }

/-- the loop of `fixPlan` over the blocks: repair in order, stop at the first block that comes out Stopped
    (the blocks behind it are not touched) -/
def fixBlocksUntilStopped (exec : Sequence → Sequence × Bool) (now : Nat) : List Block → List Block × Bool
  | [] => ([], false)
  | b :: bs =>
    if (fixBlockFull exec now b).status == .stopped then (fixBlockFull exec now b :: bs, true)
    else ((fixBlockFull exec now b) :: (fixBlocksUntilStopped exec now bs).1, (fixBlocksUntilStopped exec now bs).2)

def cntStatus (st : Status) (bs : List Block) : Nat := (bs.filter (·.status == st)).length

def grpDone (g : Option Checks) : Bool := g.isNone || grpStatus g == some .completed

/-- `fixPlan` -/
def fixPlanFull (exec : Sequence → Sequence × Bool) (now : Nat) (p : Plan) : Plan :=
  if p.status ≠ .running then p
  else if grpStatus p.bypass == some .completed then { p with bypass := fixGroup p.bypass, status := .completed }
  else if grpStatus p.pre == some .failed then { p with bypass := fixGroup p.bypass, status := .failed }
  else if grpStatus p.post == some .failed then { p with bypass := fixGroup p.bypass, pre := fixGroup p.pre, status := .failed }
  else
    -- a Failed ContChecks sets Failed too, but the repair goes on and may overwrite it
    let s0 : Status := if grpStatus p.cont == some .failed then .failed else .running
    let r := fixBlocksUntilStopped exec now p.blocks
    if r.2 then
      { p with bypass := fixGroup p.bypass, pre := fixGroup p.pre, post := fixGroup p.post, cont := fixGroup p.cont, deferred := fixGroup p.deferred, blocks := r.1, status := .stopped }
    else if 0 < cntStatus .failed r.1 then
      { p with bypass := fixGroup p.bypass, pre := fixGroup p.pre, post := fixGroup p.post, cont := fixGroup p.cont, deferred := fixGroup p.deferred, blocks := r.1, status := .failed, tEnd := now }
    else if cntStatus .completed r.1 == 0 && cntStatus .running r.1 == 0 then
      { p with bypass := fixGroup p.bypass, pre := fixGroup p.pre, post := fixGroup p.post, cont := fixGroup p.cont, deferred := fixGroup p.deferred, blocks := r.1, status := .notStarted, tStart := 0, tEnd := 0 }
    else if cntStatus .completed r.1 == r.1.length && grpDone p.post && grpDone p.deferred then
      { p with bypass := fixGroup p.bypass, pre := fixGroup p.pre, post := fixGroup p.post, cont := fixGroup p.cont, deferred := fixGroup p.deferred, blocks := r.1, status := .completed, tEnd := now }
    else
      { p with bypass := fixGroup p.bypass, pre := fixGroup p.pre, post := fixGroup p.post, cont := fixGroup p.cont, deferred := fixGroup p.deferred, blocks := r.1, status := s0 }

/-- the summary Model/Fix.fixPlanStatus works on, computed from the plan as read from the store -/
def summaryOf (exec : Sequence → Sequence × Bool) (now : Nat) (p : Plan) : PlanSummary :=
  { bypass := grpStatus p.bypass, pre := grpStatus p.pre, cont := grpStatus p.cont, post := grpStatus p.post, deferred := grpStatus p.deferred,
    blocks := (p.blocks.map (fixBlockFull exec now)).map (·.status) }

end Coercion.Fix
