import CoercionModel.Model.Types
/-
  Model/Startup — internal/execute/recovery.go + execute.New: what a new Workstream does with the
  plans it finds in storage. Times are a logical clock; `lastUpdate` is the latest Start/End of any
  object of the plan (the code's `lastUpdate`); a plan is stale iff lastUpdate + maxAge < now
  (`Before`: the boundary itself is still live).
-/
namespace Coercion.Startup
open Coercion

structure Stored where
  id         : Nat
  status     : Status                 -- plan row
  lastUpdate : Nat
  inner      : List Status := []      -- statuses of all objects inside the plan
  deriving DecidableEq, Repr, Inhabited

inductive Fate where
  | untouched      -- not read for recovery, not written, nothing invoked
  | resumed        -- handed to the state machine (States.Recovery)
  | closed         -- written Failed / ExceedRecovery, nothing invoked
  deriving DecidableEq, Repr, Inhabited

def stale (maxAge now : Nat) (p : Stored) : Bool := decide (p.lastUpdate + maxAge < now)

/-- `Search(ByStatus Running)` → `filterPlans` → `agedOut` / `runPlan` -/
def fate (recovery : Bool) (maxAge now : Nat) (p : Stored) : Fate :=
  if !recovery then .untouched
  else if p.status ≠ .running then .untouched
  else if stale maxAge now p then .closed
  else .resumed

/-- `agedOut` + `runningToFailed`: the plan row and every Running object inside become Failed -/
def close (p : Stored) : Stored × Reason :=
  ({ p with status := .failed, inner := p.inner.map (fun s => if s == .running then .failed else s) }, .exceedRecovery)

end Coercion.Startup
