/-
  Model/Validate — workflow.Validate (workflow/workflow.go) as called by Workstream.Submit.

  `Validate` pops validators from a FIFO queue and pushes each one's children: a breadth-first walk.
  The tree has fixed depth, so breadth-first order is level order and the model lists the levels
  explicitly (`order`). Each node is checked by `checkNode` (the rules of the corresponding
  `validate` method in source order); the first error wins. Keys are collected in one set shared by
  the whole walk (fix: the key set used to be dropped after every object, D12).

  Inputs are *observations of the submitted plan* computed by the harness with the Go standard
  library only (e.g. `nameBlank = strings.TrimSpace(Name) == ""`).
-/
namespace Coercion.Validate

inductive Err where
  | nilPlan | idSet | stateSet | nameBlank | descrBlank | noBlocks | reasonSet | submitSet
  | keyVersion | keyDup | noActions | nilBlock | noSeqs | nilSeq | nilAction
  | timeoutLow | pluginBlank | attemptsSet | pluginUnknown | badReq
  deriving DecidableEq, Repr, Inhabited, BEq, Hashable

structure VAction where
  isNil       : Bool := false
  idSet       : Bool := false
  key         : Nat := 0          -- 0 = uuid.Nil
  keyV7       : Bool := true
  stateSet    : Bool := false
  timeoutMs   : Int := 0
  nameBlank   : Bool := false
  descrBlank  : Bool := false
  pluginBlank : Bool := false
  attemptsSet : Bool := false
  pluginKnown : Bool := true
  reqOk       : Bool := true
  deriving DecidableEq, Repr, Inhabited

structure VChecks where
  idSet    : Bool := false
  key      : Nat := 0
  keyV7    : Bool := true
  stateSet : Bool := false
  actions  : List VAction := []
  deriving DecidableEq, Repr, Inhabited

structure VSeq where
  isNil      : Bool := false
  idSet      : Bool := false
  key        : Nat := 0
  keyV7      : Bool := true
  nameBlank  : Bool := false
  descrBlank : Bool := false
  stateSet   : Bool := false
  actions    : List VAction := []
  deriving DecidableEq, Repr, Inhabited

structure VBlock where
  isNil      : Bool := false
  idSet      : Bool := false
  key        : Nat := 0
  keyV7      : Bool := true
  nameBlank  : Bool := false
  descrBlank : Bool := false
  stateSet   : Bool := false
  groups     : List (Option VChecks) := []     -- bypass, pre, cont, post, deferred (none = nil)
  seqs       : List VSeq := []
  deriving DecidableEq, Repr, Inhabited

structure VPlan where
  idSet      : Bool := false
  stateSet   : Bool := false
  nameBlank  : Bool := false
  descrBlank : Bool := false
  reasonSet  : Bool := false
  submitSet  : Bool := false
  groups     : List (Option VChecks) := []
  blocks     : List VBlock := []
  deriving DecidableEq, Repr, Inhabited

/-- a node of the validation walk, with only the data its own rules read -/
inductive Node where
  | plan (p : VPlan)
  | checks (c : Option VChecks)
  | block (b : VBlock)
  | seq (q : VSeq)
  | action (a : VAction)
  deriving Repr, Inhabited

/-- `addOrErrKey` on the shared key set -/
def addKey (keys : List Nat) (k : Nat) (v7 : Bool) : Except Err (List Nat) :=
  if k = 0 then .ok keys
  else if !v7 then .error .keyVersion
  else if k ∈ keys then .error .keyDup
  else .ok (k :: keys)

def timeoutLow (ms : Int) : Bool := ms != 0 && ms < 5000     -- 0 means "use the default (30 s)"

/-- the rules of Action.validate that follow the key test, in source order -/
def actionRest (a : VAction) : Option Err :=
  if a.stateSet then some .stateSet
  else if timeoutLow a.timeoutMs then some .timeoutLow
  else if a.nameBlank then some .nameBlank
  else if a.descrBlank then some .descrBlank
  else if a.pluginBlank then some .pluginBlank
  else if a.attemptsSet then some .attemptsSet
  else if !a.pluginKnown then some .pluginUnknown
  else if !a.reqOk then some .badReq
  else none

def checkAction (keys : List Nat) (a : VAction) : Except Err (List Nat) :=
  if a.isNil then .error .nilAction
  else if a.idSet then .error .idSet
  else match addKey keys a.key a.keyV7 with
    | .error e => .error e
    | .ok keys' => match actionRest a with
      | some e => .error e
      | none => .ok keys'

def checkChecks (keys : List Nat) : Option VChecks → Except Err (List Nat)
  | none => .ok keys                      -- a nil *Checks validates trivially
  | some c =>
    if c.idSet then .error .idSet
    else match addKey keys c.key c.keyV7 with
      | .error e => .error e
      | .ok keys' =>
        if c.actions.isEmpty then .error .noActions
        else if c.stateSet then .error .stateSet
        else .ok keys'

def checkBlock (keys : List Nat) (b : VBlock) : Except Err (List Nat) :=
  if b.isNil then .error .nilBlock
  else if b.idSet then .error .idSet
  else match addKey keys b.key b.keyV7 with
    | .error e => .error e
    | .ok keys' =>
      if b.nameBlank then .error .nameBlank
      else if b.descrBlank then .error .descrBlank
      else if b.stateSet then .error .stateSet
      else if b.seqs.isEmpty then .error .noSeqs
      else .ok keys'

def checkSeq (keys : List Nat) (q : VSeq) : Except Err (List Nat) :=
  if q.isNil then .error .nilSeq
  else if q.idSet then .error .idSet
  else match addKey keys q.key q.keyV7 with
    | .error e => .error e
    | .ok keys' =>
      if q.nameBlank then .error .nameBlank
      else if q.descrBlank then .error .descrBlank
      else if q.stateSet then .error .stateSet
      else if q.actions.isEmpty then .error .noActions
      else .ok keys'

def checkPlan (keys : List Nat) (p : VPlan) : Except Err (List Nat) :=
  if p.idSet then .error .idSet
  else if p.stateSet then .error .stateSet
  else if p.nameBlank then .error .nameBlank
  else if p.descrBlank then .error .descrBlank
  else if p.blocks.isEmpty then .error .noBlocks
  else if p.reasonSet then .error .reasonSet
  else if p.submitSet then .error .submitSet
  else .ok keys

def checkNode (keys : List Nat) : Node → Except Err (List Nat)
  | .plan p => checkPlan keys p
  | .checks c => checkChecks keys c
  | .block b => checkBlock keys b
  | .seq q => checkSeq keys q
  | .action a => checkAction keys a

def groupActions (g : Option VChecks) : List Node :=
  match g with
  | none => []
  | some c => c.actions.map .action

/-- children pushed by a block's validate: its five groups, then its sequences -/
def blockKids (b : VBlock) : List Node := b.groups.map .checks ++ b.seqs.map .seq
/-- children of those: actions of the groups, then actions of the sequences -/
def blockGrandKids (b : VBlock) : List Node :=
  b.groups.flatMap groupActions ++ b.seqs.flatMap (fun q => q.actions.map .action)

def level1 (p : VPlan) : List Node := p.groups.map .checks ++ p.blocks.map .block
def level2 (p : VPlan) : List Node := p.groups.flatMap groupActions ++ p.blocks.flatMap blockKids
def level3 (p : VPlan) : List Node := p.blocks.flatMap blockGrandKids

/-- breadth-first order of the validation queue. A nil block / nil sequence stops the walk with an
    error when it is itself checked, so its (non-existent) children never matter. -/
def order (p : VPlan) : List Node := .plan p :: (level1 p ++ level2 p ++ level3 p)

def validateFrom (keys : List Nat) : List Node → Except Err (List Nat)
  | [] => .ok keys
  | n :: ns => match checkNode keys n with
    | .error e => .error e
    | .ok keys' => validateFrom keys' ns

/-- `workflow.Validate(p)`: `none` is a nil *Plan -/
def validate : Option VPlan → Except Err Unit
  | none => .error .nilPlan
  | some p => match validateFrom [] (order p) with
    | .error e => .error e
    | .ok _ => .ok ()

/-! ### independent specification: well-formedness as a plain recursive predicate -/

def wfAction (a : VAction) : Bool :=
  !a.isNil && !a.idSet && !a.stateSet && !timeoutLow a.timeoutMs && !a.nameBlank && !a.descrBlank &&
  !a.pluginBlank && !a.attemptsSet && a.pluginKnown && a.reqOk && (a.key == 0 || a.keyV7)

def wfChecks : Option VChecks → Bool
  | none => true
  | some c => !c.idSet && !c.stateSet && !c.actions.isEmpty && (c.key == 0 || c.keyV7) && c.actions.all wfAction

def wfSeq (q : VSeq) : Bool :=
  !q.isNil && !q.idSet && !q.stateSet && !q.nameBlank && !q.descrBlank && !q.actions.isEmpty && (q.key == 0 || q.keyV7) &&
  q.actions.all wfAction

def wfBlock (b : VBlock) : Bool :=
  !b.isNil && !b.idSet && !b.stateSet && !b.nameBlank && !b.descrBlank && !b.seqs.isEmpty && (b.key == 0 || b.keyV7) &&
  b.groups.all wfChecks && b.seqs.all wfSeq

def wfPlanLocal (p : VPlan) : Bool :=
  !p.idSet && !p.stateSet && !p.nameBlank && !p.descrBlank && !p.blocks.isEmpty && !p.reasonSet && !p.submitSet &&
  p.groups.all wfChecks && p.blocks.all wfBlock

def nodeKey : Node → Nat
  | .plan _ => 0
  | .checks none => 0
  | .checks (some c) => c.key
  | .block b => b.key
  | .seq q => q.key
  | .action a => a.key

/-- the user-supplied keys of all objects of the plan (uuid.Nil omitted) -/
def allKeys (p : VPlan) : List Nat := ((order p).map nodeKey).filter (· ≠ 0)

/-- a plan is well formed when every object satisfies its own rules and the non-nil keys are
    pairwise distinct -/
def WellFormed (p : VPlan) : Prop := wfPlanLocal p = true ∧ (allKeys p).Nodup

end Coercion.Validate
