/-
  Model/Routing — the successor relation of the engine's state machines as Model/Engine, Model/Attempts,
  Model/Fix and Model/Startup implement it: for every state function the states it may hand control to
  (`nil` = explicit stop). Compared with the relation extracted from the sources on every run
  (Generated/F2, fact F2) by `C07.facts_routing`; graph lemmas about it are proved by `decide`.
-/
namespace Coercion.Routing

def table : List (String × String × List String) := [
  ("actions", "End", []),
  ("actions", "Execute", ["End"]),
  ("actions", "GetPlugin", ["End", "Execute"]),
  ("actions", "Start", ["GetPlugin", "nil"]),
  ("final", "blocks", ["end"]),
  ("final", "bypassChecks", ["end", "planChecks"]),
  ("final", "end", []),
  ("final", "planChecks", ["blocks", "end"]),
  ("final", "start", ["bypassChecks"]),
  ("sm", "BlockBypassChecks", ["BlockEnd", "BlockPreChecks"]),          -- Engine.blkBypassed
  ("sm", "BlockDeferredChecks", ["BlockEnd"]),
  ("sm", "BlockEnd", ["ExecuteBlock", "PlanDeferredChecks"]),           -- Engine.blkStatus: Completed → next block, Failed → plan deferred
  ("sm", "BlockPostChecks", ["BlockDeferredChecks"]),
  ("sm", "BlockPreChecks", ["BlockDeferredChecks", "BlockStartContChecks"]), -- Engine.blkPreOk
  ("sm", "BlockStartContChecks", ["ExecuteSequences"]),
  ("sm", "End", ["nil", "start"]),
  ("sm", "ExecuteBlock", ["BlockBypassChecks", "ExecuteBlock", "PlanDeferredChecks", "PlanPostChecks"]),
  ("sm", "ExecuteSequences", ["BlockDeferredChecks", "BlockPostChecks"]),   -- Engine.blkExceeded / blkPostRun
  ("sm", "PlanBypassChecks", ["End", "PlanPreChecks"]),                 -- Engine.planBypassed
  ("sm", "PlanDeferredChecks", ["End"]),
  ("sm", "PlanPostChecks", ["PlanDeferredChecks"]),
  ("sm", "PlanPreChecks", ["PlanDeferredChecks", "PlanStartContChecks"]),   -- Engine.planPreOk
  ("sm", "PlanStartContChecks", ["ExecuteBlock"]),
  ("sm", "Recovery", ["End", "PlanBypassChecks", "Start"]),            -- Fix.route
  ("sm", "Start", ["PlanBypassChecks"]),
  ("startup", "agedOut", ["done"]),
  ("startup", "done", []),
  ("startup", "fetchPlans", ["filterPlans"]),
  ("startup", "filterPlans", ["agedOut"]),
  ("startup", "start", ["fetchPlans"])
]

/-- the state functions of machine `m` that may hand control to state `s` -/
def preds (m s : String) : List String :=
  (table.filter (fun r => r.1 == m && r.2.2.contains s)).map (·.2.1)

end Coercion.Routing
