/-
  Model/Skeletons — the shape of the Go functions the hand-written models mirror, as the models'
  authors read it: for each function the control-flow skeleton (conditions verbatim, loops, switch and
  select arms, returns, defers, channel operations, counter updates, assignments to the tracked fields,
  calls); local names (receiver, parameters, results, :=, var, range and function-literal parameters) are replaced by
  v0, v1, … in order of declaration, so that renaming a local changes nothing; fields, methods and package-level names
  keep their names. `harness/extract` (f10.go, alpha.go) regenerates the same skeletons from /repo on every run
  (Generated/F10.lean) and the `facts_skeleton_*` lemmas in Props/ compare the two with `decide`: when
  one of these functions changes shape, the model that mirrors it is no longer known to be its image and
  the property's check says so. The notes say which model element each part corresponds to.

  ExecuteSequences ↔ Model/Sched: pre-count of Failed sequences (recovery); per iteration the cont test
    and the `exceeded` test (label `top` / `exitCont` / `exitExceeded`, each early exit preceded by
    g.Wait = `joined`, fix 4161c24), then the limiter send (`acquire`), the worker: deferred limiter
    receive (`release`), its own `exceeded` test (`pass` / `skip`), execSeq, failures.Add (`finish`);
    after the loop g.Wait and the re-test. Model/Engine.blkSeqsRun / blkExceeded use the same tests.
  runContChecks / contChecksPassing / BlockEnd / PlanPostChecks / End ↔ Model/Cont: producer closes the
    channel on exit (defer), one send per tick, stops after the first failing run; consumers poll without
    blocking (select/default) and the owners drain until close after cancelling (fixes 20268dd, f8bdf7c).
  BlockPreChecks / PlanPreChecks ↔ Model/Regate (which gate runs on entry, fresh or recovered) and
    Model/Engine.blkPreOk / planPreOk (pre + first cont run gate the scope).
  execSeq ↔ Model/Engine.runSeqActs: actions in order, stop at the first error, status written before
    the first action and on exit.
  exec / Execute (actions.go) ↔ Model/Attempts: attempt appended in a defer, timeout → retryable error,
    type check of the response, retry loop bounded by Retries.
  Recovery / fixAction / resetAction / fixChecks / fixSeq ↔ Model/Fix; examineChecks / examineBypasses ↔
    Model/Engine.final; Start / runPlan (execute.go) ↔ Model/Api, Model/ApiFine.
-/
namespace Coercion.Skeletons

/-- expected skeleton of ExecuteSequences in internal/execute/sm/sm.go -/
def executeSequences : List String := [
  "func {",
  "if v2.block.ToleratedFailures >= 0 && v3.Load() > int64(v2.block.ToleratedFailures) {",
  "return",
  "}",
  "return",
  "}",
  "range v2.block.Sequences {",
  "if v5.State.Status == workflow.Failed {",
  "call v3.Add",
  "}",
  "}",
  "call Limited",
  "call context.Pool",
  "call v7.Group",
  "for v9 < len(v2.block.Sequences) {",
  "if v5.State.Status == workflow.Completed || v5.State.Status == workflow.Failed {",
  "continue",
  "}",
  "call Data.contChecksPassing",
  "if v10 != nil {",
  "call v8.Wait",
  "set v2.block.State.Status = workflow.Failed",
  "set v1.Data.err = v10",
  "set v1.Next = v0.BlockDeferredChecks",
  "return",
  "}",
  "if v4() {",
  "call v8.Wait",
  "set v2.block.State.Status = workflow.Failed",
  "set v1.Data.err = <error>",
  "set v1.Next = v0.BlockDeferredChecks",
  "return",
  "}",
  "send v6",
  "call v8.Go",
  "func {",
  "defer {",
  "func {",
  "recv v6",
  "}",
  "}",
  "if v4() {",
  "return",
  "}",
  "call v0.execSeq",
  "if v10 != nil {",
  "call v3.Add",
  "}",
  "return",
  "}",
  "}",
  "call v8.Wait",
  "if v2.block.ToleratedFailures >= 0 && v3.Load() > int64(v2.block.ToleratedFailures) {",
  "set v2.block.State.Status = workflow.Failed",
  "set v1.Data.err = <error>",
  "set v1.Next = v0.BlockDeferredChecks",
  "return",
  "}",
  "set v1.Next = v0.BlockPostChecks",
  "return"
]

/-- expected skeleton of runContChecks in internal/execute/sm/sm.go -/
def runContChecks : List String := [
  "defer {",
  "call close",
  "}",
  "if v4 <= 0 {",
  "}",
  "call time.NewTicker",
  "defer {",
  "call v5.Stop",
  "}",
  "for  {",
  "call v5.Reset",
  "select {",
  "comm:",
  "recv v1.Done()",
  "call v1.Done",
  "return",
  "comm:",
  "recv v5.C",
  "call v0.runChecksOnce",
  "send v3",
  "if v6 != nil {",
  "return",
  "}",
  "}",
  "}"
]

/-- expected skeleton of BlockEnd in internal/execute/sm/sm.go -/
def blockEnd : List String := [
  "defer {",
  "func {",
  "call v0.now",
  "set v2.block.State.End = v0.now()",
  "call store.UpdateBlock",
  "if v3 != nil {",
  "}",
  "}",
  "}",
  "if v2.block.BypassChecks != nil && v2.block.BypassChecks.State.Status == workflow.Completed {",
  "set v2.block.State.Status = workflow.Completed",
  "} else {",
  "if v2.contCancel != nil {",
  "call v2.contCancel",
  "}",
  "if v2.block.ContChecks != nil && v2.contCancel != nil {",
  "range v2.contCheckResult {",
  "if v3 != nil {",
  "break",
  "}",
  "}",
  "if v3 != nil {",
  "set v2.block.State.Status = workflow.Failed",
  "set v1.Data.err = v3",
  "set v1.Next = v0.PlanDeferredChecks",
  "return",
  "}",
  "}",
  "if v2.block.State.Status == workflow.Running {",
  "set v2.block.State.Status = workflow.Completed",
  "} else {",
  "set v2.block.State.Status = workflow.Failed",
  "set v1.Next = v0.PlanDeferredChecks",
  "return",
  "}",
  "call after",
  "if v3 != nil {",
  "set v2.block.State.Status = workflow.Stopped",
  "set v1.Data.err = v3",
  "set v1.Next = v0.PlanDeferredChecks",
  "return",
  "}",
  "}",
  "if len(v1.Data.blocks) == 1 {",
  "} else {",
  "}",
  "set v1.Next = v0.ExecuteBlock",
  "return"
]

/-- expected skeleton of PlanPostChecks in internal/execute/sm/sm.go -/
def planPostChecks : List String := [
  "set v1.Next = v0.PlanDeferredChecks",
  "defer {",
  "func {",
  "call store.UpdatePlan",
  "if v2 != nil {",
  "}",
  "}",
  "}",
  "if v1.Data.contCancel != nil {",
  "call Data.contCancel",
  "}",
  "if v1.Data.Plan.ContChecks != nil {",
  "range v1.Data.contCheckResult {",
  "if v2 != nil {",
  "set v1.Data.err = v2",
  "return",
  "}",
  "}",
  "}",
  "if v1.Data.Plan.PostChecks != nil && !isCompleted(v1.Data.Plan.PostChecks) {",
  "call v0.runChecksOnce",
  "if v2 != nil {",
  "set v1.Data.err = v2",
  "return",
  "}",
  "}",
  "return"
]

/-- expected skeleton of End in internal/execute/sm/sm.go -/
def smEnd : List String := [
  "defer {",
  "func {",
  "call v0.now",
  "set v2.State.End = v0.now()",
  "call v0.writeEverything",
  "}",
  "}",
  "if v1.Data.contCancel != nil {",
  "call Data.contCancel",
  "if v1.Data.contCheckResult != nil {",
  "range v1.Data.contCheckResult {",
  "}",
  "}",
  "}",
  "set v1.Next = v3.start",
  "call statemachine.Run",
  "if v4 != nil {",
  "if errors.Is(v4, ErrInternalFailure) {",
  "}",
  "}",
  "set v1.Next = nil",
  "if v1.Data.err != nil {",
  "set v1.Err = v1.Data.err",
  "}",
  "return"
]

/-- expected skeleton of execSeq in internal/execute/sm/sm.go -/
def execSeq : List String := [
  "defer {",
  "func {",
  "call store.UpdateSequence",
  "if v3 != nil {",
  "}",
  "}",
  "}",
  "switch v2.State.Status {",
  "case workflow.Completed:",
  "return",
  "case workflow.Failed:",
  "range v2.Actions {",
  "if v4.State.Status == workflow.Failed {",
  "return",
  "}",
  "}",
  "return",
  "}",
  "set v2.State.Status = workflow.Running",
  "call v0.now",
  "set v2.State.Start = v0.now()",
  "call store.UpdateSequence",
  "if v3 != nil {",
  "}",
  "defer {",
  "func {",
  "call v0.now",
  "set v2.State.End = v0.now()",
  "}",
  "}",
  "range v2.Actions {",
  "call v0.runAction",
  "if v3 != nil {",
  "set v2.State.Status = workflow.Failed",
  "return",
  "}",
  "}",
  "set v2.State.Status = workflow.Completed",
  "return"
]

/-- expected skeleton of contChecksPassing in internal/execute/sm/sm.go -/
def contChecksPassing : List String := [
  "if len(v0.blocks) == 0 {",
  "select {",
  "comm:",
  "recv v0.contCheckResult",
  "return",
  "default:",
  "return",
  "}",
  "}",
  "select {",
  "comm:",
  "recv v0.contCheckResult",
  "return",
  "comm:",
  "recv v0.blocks[0].contCheckResult",
  "return",
  "default:",
  "}",
  "return"
]

/-- expected skeleton of Recovery in internal/execute/sm/recovery.go -/
def recovery : List String := [
  "call v0.fixPlan",
  "switch v2.State.Status {",
  "case workflow.NotStarted:",
  "set v1.Next = v0.Start",
  "return",
  "case workflow.Completed, workflow.Failed, workflow.Stopped:",
  "set v1.Next = v0.End",
  "return",
  "}",
  "call context.SetPlanID",
  "range v1.Data.Plan.Blocks {",
  "}",
  "set v1.Data.contCheckResult = make(chan error, 1)",
  "call v0.writeEverything",
  "set v1.Next = v0.PlanBypassChecks",
  "return"
]

/-- expected skeleton of fixAction in internal/execute/sm/recovery.go -/
def fixAction : List String := [
  "if v0.State.Status != workflow.Running {",
  "return",
  "}",
  "if len(v0.Attempts) == 0 {",
  "call resetAction",
  "return",
  "}",
  "if v0.Attempts[len(v0.Attempts) - 1].End.IsZero() {",
  "set v0.Attempts = v0.Attempts[:len(v0.Attempts) - 1]",
  "call fixAction",
  "return",
  "}",
  "if v0.Attempts[len(v0.Attempts) - 1].Err == nil {",
  "set v0.State.Status = workflow.Completed",
  "set v0.State.End = v0.Attempts[len(v0.Attempts) - 1].End",
  "return",
  "}",
  "set v0.State.Status = workflow.Failed",
  "set v0.State.End = v0.Attempts[len(v0.Attempts) - 1].End"
]

/-- expected skeleton of resetAction in internal/execute/sm/recovery.go -/
def resetAction : List String := [
  "set v0.State.Status = workflow.NotStarted",
  "set v0.State.Start = time.Time{}",
  "set v0.State.End = time.Time{}",
  "set v0.Attempts = nil"
]

/-- expected skeleton of fixChecks in internal/execute/sm/recovery.go -/
def fixChecks : List String := [
  "if v0 == nil {",
  "return",
  "}",
  "if v0.State.Status != workflow.Running {",
  "return",
  "}",
  "set v0.State.Status = workflow.NotStarted",
  "set v0.State.Start = time.Time{}",
  "set v0.State.End = time.Time{}",
  "range v0.Actions {",
  "call resetAction",
  "}"
]

/-- expected skeleton of fixSeq in internal/execute/sm/recovery.go -/
def fixSeq : List String := [
  "if v0.State.Status != workflow.Running {",
  "return",
  "}",
  "range v0.Actions {",
  "if v2.State.Status == workflow.Stopped {",
  "v1++",
  "}",
  "}",
  "if v1 > 0 {",
  "range v0.Actions {",
  "if v2.State.Status == workflow.Running {",
  "set v2.State.Status = workflow.Stopped",
  "set v2.State.End = time.Now()",
  "}",
  "}",
  "set v0.State.Status = workflow.Stopped",
  "set v0.State.End = time.Now()",
  "return",
  "}",
  "range v0.Actions {",
  "call fixAction",
  "switch v2.State.Status {",
  "case workflow.Completed:",
  "v3++",
  "case workflow.Running:",
  "v4++",
  "case workflow.Failed:",
  "v5++",
  "case workflow.Stopped:",
  "v1++",
  "}",
  "}",
  "switch  {",
  "case v1 > 0:",
  "set v0.State.Status = workflow.Stopped",
  "set v0.State.End = time.Now()",
  "case v5 > 0:",
  "set v0.State.Status = workflow.Failed",
  "set v0.State.End = time.Now()",
  "case v3 == 0 && v4 == 0:",
  "set v0.State.Status = workflow.NotStarted",
  "set v0.State.Start = time.Time{}",
  "set v0.State.End = time.Time{}",
  "case v3 == len(v0.Actions):",
  "set v0.State.Status = workflow.Completed",
  "set v0.State.End = time.Now()",
  "}"
]

/-- expected skeleton of exec in internal/execute/sm/actions/actions.go -/
def actionsExec : List String := [
  "if len(v2.Attempts) > v2.Retries {",
  "return",
  "}",
  "defer {",
  "func {",
  "call v4.UpdateAction",
  "if v5 != nil {",
  "}",
  "}",
  "}",
  "call v0.now",
  "defer {",
  "func {",
  "set v2.Attempts = append(v2.Attempts, v6)",
  "}",
  "}",
  "call context.WithTimeout",
  "call run",
  "call v8",
  "call v0.now",
  "set v6.End = v0.now()",
  "if v9.timeout {",
  "set v6.Err = &plugins.Error{…}",
  "return",
  "} else {",
  "set v6.Resp = v9.Resp",
  "set v6.Err = v9.Err",
  "}",
  "if v6.Resp != nil {",
  "call v3.Response",
  "if !isType(v6.Resp, v10) {",
  "call unexpectedTypeMsg",
  "set v6.Err = &plugins.Error{…}",
  "set v6.Resp = nil",
  "}",
  "}",
  "if v6.Err == nil {",
  "return",
  "}",
  "if v6.Err.Permanent {",
  "call errPermanent",
  "return",
  "}",
  "return"
]

/-- expected skeleton of Execute in internal/execute/sm/actions/actions.go -/
def actionsExecute : List String := [
  "call exponential.New",
  "call exponential.WithPolicy",
  "call v3.RetryPolicy",
  "if v6 != nil {",
  "}",
  "call v5.Retry",
  "func {",
  "call v0.exec",
  "return",
  "}",
  "set v1.Data.err = v5.Retry(v1.Ctx, (func(v7 context.Context, v8 exponential.Record) error literal))",
  "set v1.Next = v0.End",
  "return"
]

/-- expected skeleton of examineChecks in internal/execute/sm/final.go -/
def examineChecks : List String := [
  "range v1 {",
  "if v3 == nil {",
  "continue",
  "}",
  "switch v2 {",
  "case 0:",
  "case 1:",
  "case 2:",
  "case 3:",
  "}",
  "switch v3.State.Status {",
  "case workflow.Completed:",
  "continue",
  "case workflow.Failed:",
  "return",
  "default:",
  "return",
  "}",
  "}",
  "return"
]

/-- expected skeleton of examineBypasses in internal/execute/sm/final.go -/
def examineBypasses : List String := [
  "if v1 == nil {",
  "return",
  "}",
  "if v1.State.Status == workflow.Completed {",
  "return",
  "}",
  "return"
]

/-- expected skeleton of Start in internal/execute/execute.go -/
def plansStart : List String := [
  "call startMu.Lock",
  "defer {",
  "call startMu.Unlock",
  "}",
  "call waiters.Get",
  "if v3 {",
  "return",
  "}",
  "call store.Read",
  "if v5 != nil {",
  "return",
  "}",
  "call v0.validateStartState",
  "if v5 != nil {",
  "return",
  "}",
  "call v0.runPlan",
  "return"
]

/-- expected skeleton of runPlan in internal/execute/execute.go -/
def runPlan : List String := [
  "call context.WithCancel",
  "call stoppers.Set",
  "call waiters.Set",
  "call Submit",
  "call context.Pool",
  "func {",
  "defer {",
  "func {",
  "call v4",
  "call stoppers.Del",
  "call waiters.Get",
  "call close",
  "call waiters.Del",
  "}",
  "}",
  "if v2.State.Status == workflow.Running {",
  "}",
  "call v0.runner",
  "}"
]

/-- expected skeleton of BlockPreChecks in internal/execute/sm/sm.go -/
def blockPreChecks : List String := [
  "defer {",
  "func {",
  "call store.UpdateBlock",
  "if v3 != nil {",
  "}",
  "}",
  "}",
  "if v2.block.PreChecks == nil || v2.block.PreChecks.State.Status == workflow.Completed {",
  "if v2.block.PreChecks != nil && v2.block.ContChecks != nil && v2.block.ContChecks.State.Status != workflow.Completed {",
  "call v0.runChecksOnce",
  "if v3 != nil {",
  "set v2.block.State.Status = workflow.Failed",
  "set v1.Data.err = v3",
  "set v1.Next = v0.BlockDeferredChecks",
  "return",
  "}",
  "}",
  "set v1.Next = v0.BlockStartContChecks",
  "return",
  "}",
  "call v0.runPreChecks",
  "if v3 != nil {",
  "set v2.block.State.Status = workflow.Failed",
  "set v1.Data.err = v3",
  "set v1.Next = v0.BlockDeferredChecks",
  "return",
  "}",
  "set v1.Next = v0.BlockStartContChecks",
  "return"
]

/-- expected skeleton of PlanPreChecks in internal/execute/sm/sm.go -/
def planPreChecks : List String := [
  "defer {",
  "func {",
  "call store.UpdatePlan",
  "if v2 != nil {",
  "}",
  "}",
  "}",
  "if skipRecoveredChecks(v1.Data.Plan.PreChecks) {",
  "set v1.Next = v0.PlanStartContChecks",
  "return",
  "}",
  "call v0.runPreChecks",
  "if v2 != nil {",
  "set v1.Data.err = v2",
  "set v1.Next = v0.PlanDeferredChecks",
  "return",
  "}",
  "set v1.Next = v0.PlanStartContChecks",
  "return"
]

end Coercion.Skeletons
