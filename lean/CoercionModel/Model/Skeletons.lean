/-
  Model/Skeletons — the shape of the Go functions the hand-written models mirror, as the models'
  authors read it: for each function the control-flow skeleton (conditions verbatim, loops, switch and
  select arms, returns, defers, channel operations, counter updates, assignments to the tracked fields,
  calls). `harness/extract` (f10.go) regenerates the same skeletons from /repo on every run
  (Generated/F10.lean) and the `facts_skeleton_*` lemmas in Props/ compare the two with `decide`: when
  one of these functions changes shape, the model that mirrors it is no longer known to be its image and
  the property's check says so. The notes say which model element each part corresponds to.

  ExecuteSequences ↔ Model/Sched: pre-count of Failed sequences (recovery); per iteration the cont test
    and the `exceeded` test (label `top` / `exitCont` / `exitExceeded`, each early exit preceded by
    g.Wait = `joined`, fix 4161c24), then the limiter send (`acquire`), the worker: deferred limiter
    receive (`release`), its own `exceeded` test (`pass` / `skip`), execSeq, failures.Add (`finish`);
    after the loop g.Wait and the re-test. Model/Engine.blkSeqsRun / blkExceeded use the same tests.
  runContChecks / contChecksPassing / BlockEnd / PlanPostChecks / End ↔ Model/Cont: producer closes the
    channel on exit (defer), one send per tick, stops after the first failing run; consumers poll without
    blocking (select/default) and the owners drain until close after cancelling (fixes 20268dd, f8bdf7c).
  BlockPreChecks / PlanPreChecks ↔ Model/Regate (which gate runs on entry, fresh or recovered) and
    Model/Engine.blkPreOk / planPreOk (pre + first cont run gate the scope).
  execSeq ↔ Model/Engine.runSeqActs: actions in order, stop at the first error, status written before
    the first action and on exit.
  exec / Execute (actions.go) ↔ Model/Attempts: attempt appended in a defer, timeout → retryable error,
    type check of the response, retry loop bounded by Retries.
  Recovery / fixAction / resetAction / fixChecks / fixSeq ↔ Model/Fix; examineChecks / examineBypasses ↔
    Model/Engine.final; Start / runPlan (execute.go) ↔ Model/Api, Model/ApiFine.
-/
namespace Coercion.Skeletons

/-- expected skeleton of ExecuteSequences in internal/execute/sm/sm.go -/
def executeSequences : List String := [
  "func {",
  "if h.block.ToleratedFailures >= 0 && failures.Load() > int64(h.block.ToleratedFailures) {",
  "return",
  "}",
  "return",
  "}",
  "range h.block.Sequences {",
  "if seq.State.Status == workflow.Failed {",
  "call failures.Add",
  "}",
  "}",
  "call Limited",
  "call context.Pool",
  "call pool.Group",
  "for i < len(h.block.Sequences) {",
  "if seq.State.Status == workflow.Completed || seq.State.Status == workflow.Failed {",
  "continue",
  "}",
  "call Data.contChecksPassing",
  "if err != nil {",
  "call g.Wait",
  "set h.block.State.Status = workflow.Failed",
  "set req.Data.err = err",
  "set req.Next = s.BlockDeferredChecks",
  "return",
  "}",
  "if exceededFailures() {",
  "call g.Wait",
  "set h.block.State.Status = workflow.Failed",
  "set req.Data.err = <error>",
  "set req.Next = s.BlockDeferredChecks",
  "return",
  "}",
  "send limiter",
  "call g.Go",
  "func {",
  "defer {",
  "func {",
  "recv limiter",
  "}",
  "}",
  "if exceededFailures() {",
  "return",
  "}",
  "call s.execSeq",
  "if err != nil {",
  "call failures.Add",
  "}",
  "return",
  "}",
  "}",
  "call g.Wait",
  "if h.block.ToleratedFailures >= 0 && failures.Load() > int64(h.block.ToleratedFailures) {",
  "set h.block.State.Status = workflow.Failed",
  "set req.Data.err = <error>",
  "set req.Next = s.BlockDeferredChecks",
  "return",
  "}",
  "set req.Next = s.BlockPostChecks",
  "return"
]

/-- expected skeleton of runContChecks in internal/execute/sm/sm.go -/
def runContChecks : List String := [
  "defer {",
  "call close",
  "}",
  "if delay <= 0 {",
  "}",
  "call time.NewTicker",
  "defer {",
  "call t.Stop",
  "}",
  "for  {",
  "call t.Reset",
  "select {",
  "comm:",
  "recv ctx.Done()",
  "call ctx.Done",
  "return",
  "comm:",
  "recv t.C",
  "call s.runChecksOnce",
  "send resultCh",
  "if err != nil {",
  "return",
  "}",
  "}",
  "}"
]

/-- expected skeleton of BlockEnd in internal/execute/sm/sm.go -/
def blockEnd : List String := [
  "defer {",
  "func {",
  "call s.now",
  "set h.block.State.End = s.now()",
  "call store.UpdateBlock",
  "if err != nil {",
  "}",
  "}",
  "}",
  "if h.block.BypassChecks != nil && h.block.BypassChecks.State.Status == workflow.Completed {",
  "set h.block.State.Status = workflow.Completed",
  "} else {",
  "if h.contCancel != nil {",
  "call h.contCancel",
  "}",
  "if h.block.ContChecks != nil && h.contCancel != nil {",
  "range h.contCheckResult {",
  "if err != nil {",
  "break",
  "}",
  "}",
  "if err != nil {",
  "set h.block.State.Status = workflow.Failed",
  "set req.Data.err = err",
  "set req.Next = s.PlanDeferredChecks",
  "return",
  "}",
  "}",
  "if h.block.State.Status == workflow.Running {",
  "set h.block.State.Status = workflow.Completed",
  "} else {",
  "set h.block.State.Status = workflow.Failed",
  "set req.Next = s.PlanDeferredChecks",
  "return",
  "}",
  "call after",
  "if err != nil {",
  "set h.block.State.Status = workflow.Stopped",
  "set req.Data.err = err",
  "set req.Next = s.PlanDeferredChecks",
  "return",
  "}",
  "}",
  "if len(req.Data.blocks) == 1 {",
  "} else {",
  "}",
  "set req.Next = s.ExecuteBlock",
  "return"
]

/-- expected skeleton of PlanPostChecks in internal/execute/sm/sm.go -/
def planPostChecks : List String := [
  "set req.Next = s.PlanDeferredChecks",
  "defer {",
  "func {",
  "call store.UpdatePlan",
  "if err != nil {",
  "}",
  "}",
  "}",
  "if req.Data.contCancel != nil {",
  "call Data.contCancel",
  "}",
  "if req.Data.Plan.ContChecks != nil {",
  "range req.Data.contCheckResult {",
  "if err != nil {",
  "set req.Data.err = err",
  "return",
  "}",
  "}",
  "}",
  "if req.Data.Plan.PostChecks != nil && !isCompleted(req.Data.Plan.PostChecks) {",
  "call s.runChecksOnce",
  "if err != nil {",
  "set req.Data.err = err",
  "return",
  "}",
  "}",
  "return"
]

/-- expected skeleton of End in internal/execute/sm/sm.go -/
def smEnd : List String := [
  "defer {",
  "func {",
  "call s.now",
  "set plan.State.End = s.now()",
  "call s.writeEverything",
  "}",
  "}",
  "if req.Data.contCancel != nil {",
  "call Data.contCancel",
  "if req.Data.contCheckResult != nil {",
  "range req.Data.contCheckResult {",
  "}",
  "}",
  "}",
  "set req.Next = f.start",
  "call statemachine.Run",
  "if err != nil {",
  "if errors.Is(err, ErrInternalFailure) {",
  "}",
  "}",
  "set req.Next = nil",
  "if req.Data.err != nil {",
  "set req.Err = req.Data.err",
  "}",
  "return"
]

/-- expected skeleton of execSeq in internal/execute/sm/sm.go -/
def execSeq : List String := [
  "defer {",
  "func {",
  "call store.UpdateSequence",
  "if err != nil {",
  "}",
  "}",
  "}",
  "switch seq.State.Status {",
  "case workflow.Completed:",
  "return",
  "case workflow.Failed:",
  "range seq.Actions {",
  "if action.State.Status == workflow.Failed {",
  "return",
  "}",
  "}",
  "return",
  "}",
  "set seq.State.Status = workflow.Running",
  "call s.now",
  "set seq.State.Start = s.now()",
  "call store.UpdateSequence",
  "if err != nil {",
  "}",
  "defer {",
  "func {",
  "call s.now",
  "set seq.State.End = s.now()",
  "}",
  "}",
  "range seq.Actions {",
  "call s.runAction",
  "if err != nil {",
  "set seq.State.Status = workflow.Failed",
  "return",
  "}",
  "}",
  "set seq.State.Status = workflow.Completed",
  "return"
]

/-- expected skeleton of contChecksPassing in internal/execute/sm/sm.go -/
def contChecksPassing : List String := [
  "if len(d.blocks) == 0 {",
  "select {",
  "comm:",
  "recv d.contCheckResult",
  "return",
  "default:",
  "return",
  "}",
  "}",
  "select {",
  "comm:",
  "recv d.contCheckResult",
  "return",
  "comm:",
  "recv d.blocks[0].contCheckResult",
  "return",
  "default:",
  "}",
  "return"
]

/-- expected skeleton of Recovery in internal/execute/sm/recovery.go -/
def recovery : List String := [
  "call s.fixPlan",
  "switch plan.State.Status {",
  "case workflow.NotStarted:",
  "set req.Next = s.Start",
  "return",
  "case workflow.Completed, workflow.Failed, workflow.Stopped:",
  "set req.Next = s.End",
  "return",
  "}",
  "call context.SetPlanID",
  "range req.Data.Plan.Blocks {",
  "}",
  "set req.Data.contCheckResult = make(chan error, 1)",
  "call s.writeEverything",
  "set req.Next = s.PlanBypassChecks",
  "return"
]

/-- expected skeleton of fixAction in internal/execute/sm/recovery.go -/
def fixAction : List String := [
  "if a.State.Status != workflow.Running {",
  "return",
  "}",
  "if len(a.Attempts) == 0 {",
  "call resetAction",
  "return",
  "}",
  "if a.Attempts[len(a.Attempts) - 1].End.IsZero() {",
  "set a.Attempts = a.Attempts[:len(a.Attempts) - 1]",
  "call fixAction",
  "return",
  "}",
  "if a.Attempts[len(a.Attempts) - 1].Err == nil {",
  "set a.State.Status = workflow.Completed",
  "set a.State.End = a.Attempts[len(a.Attempts) - 1].End",
  "return",
  "}",
  "set a.State.Status = workflow.Failed",
  "set a.State.End = a.Attempts[len(a.Attempts) - 1].End"
]

/-- expected skeleton of resetAction in internal/execute/sm/recovery.go -/
def resetAction : List String := [
  "set a.State.Status = workflow.NotStarted",
  "set a.State.Start = time.Time{}",
  "set a.State.End = time.Time{}",
  "set a.Attempts = nil"
]

/-- expected skeleton of fixChecks in internal/execute/sm/recovery.go -/
def fixChecks : List String := [
  "if c == nil {",
  "return",
  "}",
  "if c.State.Status != workflow.Running {",
  "return",
  "}",
  "set c.State.Status = workflow.NotStarted",
  "set c.State.Start = time.Time{}",
  "set c.State.End = time.Time{}",
  "range c.Actions {",
  "call resetAction",
  "}"
]

/-- expected skeleton of fixSeq in internal/execute/sm/recovery.go -/
def fixSeq : List String := [
  "if s.State.Status != workflow.Running {",
  "return",
  "}",
  "range s.Actions {",
  "if a.State.Status == workflow.Stopped {",
  "stopped++",
  "}",
  "}",
  "if stopped > 0 {",
  "range s.Actions {",
  "if a.State.Status == workflow.Running {",
  "set a.State.Status = workflow.Stopped",
  "set a.State.End = time.Now()",
  "}",
  "}",
  "set s.State.Status = workflow.Stopped",
  "set s.State.End = time.Now()",
  "return",
  "}",
  "range s.Actions {",
  "call fixAction",
  "switch a.State.Status {",
  "case workflow.Completed:",
  "completed++",
  "case workflow.Running:",
  "running++",
  "case workflow.Failed:",
  "failed++",
  "case workflow.Stopped:",
  "stopped++",
  "}",
  "}",
  "switch  {",
  "case stopped > 0:",
  "set s.State.Status = workflow.Stopped",
  "set s.State.End = time.Now()",
  "case failed > 0:",
  "set s.State.Status = workflow.Failed",
  "set s.State.End = time.Now()",
  "case completed == 0 && running == 0:",
  "set s.State.Status = workflow.NotStarted",
  "set s.State.Start = time.Time{}",
  "set s.State.End = time.Time{}",
  "case completed == len(s.Actions):",
  "set s.State.Status = workflow.Completed",
  "set s.State.End = time.Now()",
  "}"
]

/-- expected skeleton of exec in internal/execute/sm/actions/actions.go -/
def actionsExec : List String := [
  "if len(action.Attempts) > action.Retries {",
  "return",
  "}",
  "defer {",
  "func {",
  "call updater.UpdateAction",
  "if err != nil {",
  "}",
  "}",
  "}",
  "call r.now",
  "defer {",
  "func {",
  "set action.Attempts = append(action.Attempts, attempt)",
  "}",
  "}",
  "call context.WithTimeout",
  "call run",
  "call cancel",
  "call r.now",
  "set attempt.End = r.now()",
  "if plugResp.timeout {",
  "set attempt.Err = &plugins.Error{…}",
  "return",
  "} else {",
  "set attempt.Resp = plugResp.Resp",
  "set attempt.Err = plugResp.Err",
  "}",
  "if attempt.Resp != nil {",
  "call plugin.Response",
  "if !isType(attempt.Resp, expect) {",
  "call unexpectedTypeMsg",
  "set attempt.Err = &plugins.Error{…}",
  "set attempt.Resp = nil",
  "}",
  "}",
  "if attempt.Err == nil {",
  "return",
  "}",
  "if attempt.Err.Permanent {",
  "call errPermanent",
  "return",
  "}",
  "return"
]

/-- expected skeleton of Execute in internal/execute/sm/actions/actions.go -/
def actionsExecute : List String := [
  "call exponential.New",
  "call exponential.WithPolicy",
  "call plugin.RetryPolicy",
  "if err != nil {",
  "}",
  "call backoff.Retry",
  "func {",
  "call r.exec",
  "return",
  "}",
  "set req.Data.err = backoff.Retry(req.Ctx, (func(ctx context.Context, record exponential.Record) error literal))",
  "set req.Next = r.End",
  "return"
]

/-- expected skeleton of examineChecks in internal/execute/sm/final.go -/
def examineChecks : List String := [
  "range checks {",
  "if check == nil {",
  "continue",
  "}",
  "switch i {",
  "case 0:",
  "case 1:",
  "case 2:",
  "case 3:",
  "}",
  "switch check.State.Status {",
  "case workflow.Completed:",
  "continue",
  "case workflow.Failed:",
  "return",
  "default:",
  "return",
  "}",
  "}",
  "return"
]

/-- expected skeleton of examineBypasses in internal/execute/sm/final.go -/
def examineBypasses : List String := [
  "if gates == nil {",
  "return",
  "}",
  "if gates.State.Status == workflow.Completed {",
  "return",
  "}",
  "return"
]

/-- expected skeleton of Start in internal/execute/execute.go -/
def plansStart : List String := [
  "call startMu.Lock",
  "defer {",
  "call startMu.Unlock",
  "}",
  "call waiters.Get",
  "if ok {",
  "return",
  "}",
  "call store.Read",
  "if err != nil {",
  "return",
  "}",
  "call e.validateStartState",
  "if err != nil {",
  "return",
  "}",
  "call e.runPlan",
  "return"
]

/-- expected skeleton of runPlan in internal/execute/execute.go -/
def runPlan : List String := [
  "call context.WithCancel",
  "call stoppers.Set",
  "call waiters.Set",
  "call Submit",
  "call context.Pool",
  "func {",
  "defer {",
  "func {",
  "call cancel",
  "call stoppers.Del",
  "call waiters.Get",
  "call close",
  "call waiters.Del",
  "}",
  "}",
  "if plan.State.Status == workflow.Running {",
  "}",
  "call e.runner",
  "}"
]

/-- expected skeleton of BlockPreChecks in internal/execute/sm/sm.go -/
def blockPreChecks : List String := [
  "defer {",
  "func {",
  "call store.UpdateBlock",
  "if err != nil {",
  "}",
  "}",
  "}",
  "if h.block.PreChecks == nil || h.block.PreChecks.State.Status == workflow.Completed {",
  "if h.block.PreChecks != nil && h.block.ContChecks != nil && h.block.ContChecks.State.Status != workflow.Completed {",
  "call s.runChecksOnce",
  "if err != nil {",
  "set h.block.State.Status = workflow.Failed",
  "set req.Data.err = err",
  "set req.Next = s.BlockDeferredChecks",
  "return",
  "}",
  "}",
  "set req.Next = s.BlockStartContChecks",
  "return",
  "}",
  "call s.runPreChecks",
  "if err != nil {",
  "set h.block.State.Status = workflow.Failed",
  "set req.Data.err = err",
  "set req.Next = s.BlockDeferredChecks",
  "return",
  "}",
  "set req.Next = s.BlockStartContChecks",
  "return"
]

/-- expected skeleton of PlanPreChecks in internal/execute/sm/sm.go -/
def planPreChecks : List String := [
  "defer {",
  "func {",
  "call store.UpdatePlan",
  "if err != nil {",
  "}",
  "}",
  "}",
  "if skipRecoveredChecks(req.Data.Plan.PreChecks) {",
  "set req.Next = s.PlanStartContChecks",
  "return",
  "}",
  "call s.runPreChecks",
  "if err != nil {",
  "set req.Data.err = err",
  "set req.Next = s.PlanDeferredChecks",
  "return",
  "}",
  "set req.Next = s.PlanStartContChecks",
  "return"
]

end Coercion.Skeletons
