import CoercionModel.Model.Types
/-
  Model/Clone — workflow/utils/clone/clone.go (Plan / Checks / Block / Sequence / Action, cloneState,
  cloneAttempts) on the value level: which fields of the original reach the copy under each option.
  `keep` = WithKeepState. Without it State is nil and ids/attempts/reason/submit time are zero — the
  model's `notStarted / 0 / []`. `Key` is never copied (not part of the statement's definition).
  Sharing of memory is not expressible on values; it is checked on the implementation (alias scan).
-/
namespace Coercion.Clone
open Coercion

def action (keep : Bool) (a : Action) : Action :=
  { name := a.name, descr := a.descr, plugin := a.plugin, timeout := a.timeout, retries := a.retries, req := a.req,
    id := if keep then a.id else 0, status := if keep then a.status else .notStarted,
    tStart := if keep then a.tStart else 0, tEnd := if keep then a.tEnd else 0,
    attempts := if keep then a.attempts else [] }

def checks (keep : Bool) (c : Checks) : Checks :=
  { delay := c.delay, actions := c.actions.map (action keep),
    id := if keep then c.id else 0, status := if keep then c.status else .notStarted,
    tStart := if keep then c.tStart else 0, tEnd := if keep then c.tEnd else 0 }

def sequence (keep : Bool) (q : Sequence) : Sequence :=
  { name := q.name, descr := q.descr, actions := q.actions.map (action keep),
    id := if keep then q.id else 0, status := if keep then q.status else .notStarted,
    tStart := if keep then q.tStart else 0, tEnd := if keep then q.tEnd else 0 }

def block (keep : Bool) (b : Block) : Block :=
  { name := b.name, descr := b.descr, entrance := b.entrance, exit := b.exit, conc := b.conc, tol := b.tol,
    bypass := b.bypass.map (checks keep), pre := b.pre.map (checks keep), cont := b.cont.map (checks keep),
    post := b.post.map (checks keep), deferred := b.deferred.map (checks keep), seqs := b.seqs.map (sequence keep),
    id := if keep then b.id else 0, status := if keep then b.status else .notStarted,
    tStart := if keep then b.tStart else 0, tEnd := if keep then b.tEnd else 0 }

def plan (keep : Bool) (p : Plan) : Plan :=
  { name := p.name, descr := p.descr, group := p.group, pmeta := p.pmeta,
    bypass := p.bypass.map (checks keep), pre := p.pre.map (checks keep), cont := p.cont.map (checks keep),
    post := p.post.map (checks keep), deferred := p.deferred.map (checks keep), blocks := p.blocks.map (block keep),
    id := if keep then p.id else 0, status := if keep then p.status else .notStarted,
    tStart := if keep then p.tStart else 0, tEnd := if keep then p.tEnd else 0,
    reason := if keep then p.reason else .unknown, submit := if keep then p.submit else 0 }

/-! ### the definition of an object: everything the statement lists, nothing engine-owned -/

def defAction (a : Action) : Action := { name := a.name, descr := a.descr, plugin := a.plugin, timeout := a.timeout, retries := a.retries, req := a.req }
def defChecks (c : Checks) : Checks := { delay := c.delay, actions := c.actions.map defAction }
def defSequence (q : Sequence) : Sequence := { name := q.name, descr := q.descr, actions := q.actions.map defAction }
def defBlock (b : Block) : Block :=
  { name := b.name, descr := b.descr, entrance := b.entrance, exit := b.exit, conc := b.conc, tol := b.tol,
    bypass := b.bypass.map defChecks, pre := b.pre.map defChecks, cont := b.cont.map defChecks, post := b.post.map defChecks,
    deferred := b.deferred.map defChecks, seqs := b.seqs.map defSequence }
def defPlan (p : Plan) : Plan :=
  { name := p.name, descr := p.descr, group := p.group, pmeta := p.pmeta,
    bypass := p.bypass.map defChecks, pre := p.pre.map defChecks, cont := p.cont.map defChecks, post := p.post.map defChecks,
    deferred := p.deferred.map defChecks, blocks := p.blocks.map defBlock }

/-- the same object with every user key erased (clones never carry keys) -/
def noKeyAction (a : Action) : Action := { a with key := 0 }
def noKeyChecks (c : Checks) : Checks := { c with key := 0, actions := c.actions.map noKeyAction }
def noKeySequence (q : Sequence) : Sequence := { q with key := 0, actions := q.actions.map noKeyAction }
def noKeyBlock (b : Block) : Block :=
  { b with key := 0, bypass := b.bypass.map noKeyChecks, pre := b.pre.map noKeyChecks, cont := b.cont.map noKeyChecks, post := b.post.map noKeyChecks, deferred := b.deferred.map noKeyChecks, seqs := b.seqs.map noKeySequence }
def noKeyPlan (p : Plan) : Plan :=
  { p with bypass := p.bypass.map noKeyChecks, pre := p.pre.map noKeyChecks, cont := p.cont.map noKeyChecks, post := p.post.map noKeyChecks, deferred := p.deferred.map noKeyChecks, blocks := p.blocks.map noKeyBlock }

end Coercion.Clone
