import CoercionModel.Model.Types
/-
  Model/Regate — which gating checks `BlockPreChecks` (internal/execute/sm/sm.go) runs when a block is
  entered, as a function of what storage says about the block's PreChecks and ContChecks. On a fresh run
  both are NotStarted; after a recovery either may already be Completed. (`PlanPreChecks` re-runs both
  whenever PreChecks exist: `skipRecoveredChecks` only skips absent groups, C06.translated_skipRecoveredChecks.)
-/
namespace Coercion.Regate
open Coercion

inductive Gate where
  | none       -- straight on to BlockStartContChecks
  | both       -- runPreChecks: PreChecks and the first run of ContChecks, in parallel
  | contOnly   -- (recovery) PreChecks had passed before the crash: only the first run of ContChecks
  deriving DecidableEq, Repr

/-- the code after fix 126bafb; `pre` / `cont`: stored status of the group, `none` = the group is absent -/
def blockGate (pre cont : Option Status) : Gate :=
  match pre with
  | none => .none                       -- no PreChecks: ContChecks are never run as a gate (only periodically)
  | some .completed =>
    (match cont with
     | some c => if c != .completed then .contOnly else .none
     | none => .none)
  | some _ => .both

/-- the pinned code: Completed PreChecks skip the whole gate -/
def blockGateOld (pre _cont : Option Status) : Gate :=
  match pre with
  | none => .none
  | some .completed => .none
  | some _ => .both

/-- does the gate include a run of ContChecks -/
def runsCont : Gate → Bool
  | .both | .contOnly => true
  | .none => false

end Coercion.Regate
