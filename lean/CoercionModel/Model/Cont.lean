/-
  Model/Cont — the continuous-check channel protocol of sm.go: `runContChecks` (producer goroutine),
  the capacity-1 result channel, `contChecksPassing` (non-blocking poll at every sequence launch),
  the cancel + drain loop of `BlockEnd` / `PlanPostChecks` (and, since the fix for D19, of `End`).
  Since the fix for D1 the consumer drains only a producer that was started.

  `failed : Bool` on a run/buffer value: the run of the check group failed (an error is sent).
-/
namespace Coercion.Cont

inductive Prod where
  | notStarted | idle | running | sending (failed : Bool) | closing | exited
  deriving DecidableEq, Repr, Inhabited

inductive Cons where
  | watching      -- the scope is executing: polls at sequence launches
  | draining      -- cancelled the producer, ranging over the channel
  | drained       -- left the range loop (error received, or channel closed)
  deriving DecidableEq, Repr, Inhabited

structure S where
  prod      : Prod := .notStarted
  buf       : Option Bool := none      -- the one-slot channel buffer
  closed    : Bool := false
  cancelled : Bool := false
  cons      : Cons := .watching
  failedRun : Bool := false            -- ghost: some run of the checks failed
  seenErr   : Bool := false            -- the consumer received an error
  runs      : Nat := 0                 -- ghost: completed runs
  deriving DecidableEq, Repr, Inhabited

inductive Label where
  | start                  -- *StartContChecks: producer goroutine launched
  | tick                   -- producer: ticker fired → runChecksOnce begins (select may pick this even after cancel)
  | runDone (failed : Bool) -- producer: runChecksOnce returned
  | send                   -- producer: `resultCh <- err` (blocks while the buffer is full)
  | seeCancel              -- producer: `<-ctx.Done()` branch → return
  | close                  -- producer: deferred close(resultCh)
  | poll                   -- consumer: contChecksPassing (non-blocking receive)
  | cancel                 -- consumer: contCancel(), then starts ranging over the channel
  | drainRecv              -- consumer: received a value in the range loop
  | drainClosed            -- consumer: range loop ended because the channel is closed and empty
  deriving DecidableEq, Repr, Inhabited

def step (s : S) : Label → Option S
  | .start => if s.prod = .notStarted ∧ s.cons = .watching then some { s with prod := .idle } else none
  | .tick => if s.prod = .idle then some { s with prod := .running } else none
  | .runDone failed => if s.prod = .running then
      some { s with prod := .sending failed, failedRun := s.failedRun || failed, runs := s.runs + 1 } else none
  | .send => match s.prod with
    | .sending failed => if s.buf = none then
        some { s with buf := some failed, prod := if failed then .closing else .idle } else none   -- on error: return (→ close)
    | _ => none
  | .seeCancel => if s.prod = .idle ∧ s.cancelled = true then some { s with prod := .closing } else none
  | .close => if s.prod = .closing then some { s with prod := .exited, closed := true } else none
  | .poll => if s.cons = .watching then
      (match s.buf with
       | some v => some { s with buf := none, seenErr := s.seenErr || v }
       | none => some s)                                  -- default branch / closed channel: "no error"
    else none
  | .cancel => if s.cons = .watching ∧ s.prod ≠ .notStarted then some { s with cancelled := true, cons := .draining } else none
  | .drainRecv => if s.cons = .draining then
      (match s.buf with
       | some v => some { s with buf := none, seenErr := s.seenErr || v, cons := if v then .drained else .draining }
       | none => none)
    else none
  | .drainClosed => if s.cons = .draining ∧ s.buf = none ∧ s.closed = true then some { s with cons := .drained } else none

def run : S → List Label → Option S
  | s, [] => some s
  | s, l :: t => match step s l with
    | none => none
    | some s' => run s' t

end Coercion.Cont
