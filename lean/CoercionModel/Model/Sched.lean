/-
  Model/Sched — the launch loop of `ExecuteSequences` (internal/execute/sm/sm.go) as a labelled
  transition system: one main thread (the `for` loop with its limiter) and one worker per launched
  sequence. A *run* is any label list `step` accepts, so "every schedule" = "every accepted run".

  Granularity (DESIGN §3.2): every statement another goroutine can observe is its own label; a guard
  is evaluated at its own label, never folded into a later one. The main thread tests `exceeded`
  (label `top`) *before* it blocks on the limiter (label `acquire`), exactly as the code does; the
  worker re-tests it (labels `pass` / `skip`); `failures.Add(1)` (inside `finish`) happens before the
  deferred limiter release (`release`). After the loop — and, since the fix for D23, before both
  early exits — the main thread joins its workers (`joined`).
  Sequences are anonymous here: only the counters matter for the bounds of C02/C03.
-/
namespace Coercion.Sched

structure Cfg where
  n    : Nat          -- number of sequences still to run in this block
  conc : Nat          -- Block.Concurrency after Defaults (≥ 1)
  tol  : Int          -- Block.ToleratedFailures
  deriving Repr, Inhabited

inductive Pc where
  | atTop        -- at the head of the for loop
  | acquiring    -- passed the tests, blocked on `limiter <- struct{}{}`
  | waiting      -- in g.Wait (after the loop or before an early return)
  | exited
  deriving DecidableEq, Repr, Inhabited

structure S where
  pc       : Pc := .atTop
  next     : Nat := 0     -- loop index
  tokens   : Nat := 0     -- limiter slots taken
  queued   : Nat := 0     -- workers spawned, not yet past their own `exceeded` test
  running  : Nat := 0     -- workers executing their sequence (an action may be in flight)
  exiting  : Nat := 0     -- workers past execSeq (failure counted) that still hold their limiter slot
  failures : Nat := 0     -- the atomic counter
  started  : Nat := 0     -- sequences that began (passed the worker test), ever
  early    : Bool := false -- the loop was left through one of the early exits
  deriving DecidableEq, Repr, Inhabited

inductive Label where
  | top                      -- loop head: index < n, cont checks quiet, threshold not exceeded
  | exitExceeded             -- loop head: threshold exceeded → wait for the workers, leave
  | exitCont                 -- loop head: a continuous check reported a failure → wait, leave
  | loopEnd                  -- loop head: index = n → g.Wait
  | acquire                  -- limiter slot obtained, worker spawned, index++
  | pass                     -- worker: threshold not exceeded → runs its sequence
  | skip                     -- worker: threshold exceeded → returns at once (slot released)
  | finish (failed : Bool)   -- worker: execSeq returned; failures++ if it failed
  | release                  -- worker: deferred `<-limiter`
  | joined                   -- main: g.Wait returned (no worker left)
  deriving DecidableEq, Repr, Inhabited

def exceeded (c : Cfg) (s : S) : Bool := decide (0 ≤ c.tol ∧ c.tol < (s.failures : Int))

def step (c : Cfg) (s : S) : Label → Option S
  | .top => if s.pc = .atTop ∧ s.next < c.n ∧ exceeded c s = false then some { s with pc := .acquiring } else none
  | .exitExceeded => if s.pc = .atTop ∧ s.next < c.n ∧ exceeded c s = true then some { s with pc := .waiting, early := true } else none
  | .exitCont => if s.pc = .atTop ∧ s.next < c.n then some { s with pc := .waiting, early := true } else none
  | .loopEnd => if s.pc = .atTop ∧ s.next = c.n then some { s with pc := .waiting } else none
  | .acquire => if s.pc = .acquiring ∧ s.tokens < c.conc then
      some { s with pc := .atTop, tokens := s.tokens + 1, queued := s.queued + 1, next := s.next + 1 } else none
  | .pass => if 0 < s.queued ∧ exceeded c s = false then
      some { s with queued := s.queued - 1, running := s.running + 1, started := s.started + 1 } else none
  | .skip => if 0 < s.queued ∧ exceeded c s = true then
      some { s with queued := s.queued - 1, tokens := s.tokens - 1 } else none
  | .finish failed => if 0 < s.running then
      some { s with running := s.running - 1, exiting := s.exiting + 1, failures := s.failures + (if failed then 1 else 0) } else none
  | .release => if 0 < s.exiting then some { s with exiting := s.exiting - 1, tokens := s.tokens - 1 } else none
  | .joined => if s.pc = .waiting ∧ s.queued = 0 ∧ s.running = 0 ∧ s.exiting = 0 then some { s with pc := .exited } else none

/-- `Run c s t s'`: the label list `t` is accepted from `s` and ends in `s'` -/
def run (c : Cfg) : S → List Label → Option S
  | s, [] => some s
  | s, l :: t => match step c s l with
    | none => none
    | some s' => run c s' t

end Coercion.Sched
