import CoercionModel.Model.Walk
/-
  Model/Flush — `writeEverything` (internal/execute/sm/sm.go): one storage write per object, in some
  order, any prefix of which may be all that reaches the disk before a crash. Objects are identified by
  id; `mem` is the in-memory plan, `dur` what storage held before the flush.
-/
namespace Coercion.Flush
open Coercion

structure Node where
  id : Nat
  parent : Option Nat       -- id of the parent object (none: the plan)
  deriving DecidableEq, Repr, Inhabited

abbrev Store := Nat → Status

/-- storage after the writes of `done` (a prefix of the flush order) have reached the disk -/
def after (done : List Node) (mem dur : Store) : Store :=
  fun id => if id ∈ done.map (·.id) then mem id else dur id

def terminal (st : Status) : Prop := st = .completed ∨ st = .failed

/-- what recovery relies on: under a parent that is durably in a final state nothing is Running
    (recovery never looks below a finished object again) -/
def Good (nodes : List Node) (s : Store) : Prop :=
  ∀ c ∈ nodes, ∀ q, c.parent = some q → terminal (s q) → s c.id ≠ .running

/-- in the order `ord` every object is written before its parent -/
def ChildrenFirst (ord : List Node) : Prop :=
  ∀ l1 c l2, ord = l1 ++ c :: l2 → ∀ q, c.parent = some q → q ∈ l2.map (·.id)

/-- the engine's flush order for a plan: the walk, reversed (fact F9 `flushOrder = "reverse-walk"`) -/
def flushNodes (p : Plan) : List Node := (Walk.all p).reverse.map (fun it => ⟨it.id, it.chain.getLast?⟩)

/-- the order the flush had before fix 05cb03a: the walk itself, parents first -/
def walkNodes (p : Plan) : List Node := (Walk.all p).map (fun it => ⟨it.id, it.chain.getLast?⟩)

end Coercion.Flush
