import CoercionModel.Model.Types
/-
  Model/Fix — internal/execute/sm/recovery.go: the in-memory repair of a plan read back after a
  crash (`fixAction`, `resetAction`, `fixSeq`, the status logic of `fixPlan`) and the routing decision
  of `Recovery`. An attempt "has ended" when its End time is set (`tEnd ≠ 0`).
-/
namespace Coercion.Fix
open Coercion

def resetAction (a : Action) : Action := { a with status := .notStarted, tStart := 0, tEnd := 0, attempts := [] }

/-- drop trailing attempts that never ended ("we don't know the state, pretend it didn't happen") -/
def dropUnended : List Attempt → List Attempt
  | [] => []
  | l@(_ :: _) =>
    let r := l.reverse.dropWhile (fun t => t.tEnd == 0)
    r.reverse

/-- `fixAction`: only a Running action is touched -/
def fixAction (a : Action) : Action :=
  if a.status ≠ .running then a
  else
    let atts := dropUnended a.attempts
    match atts.getLast? with
    | none => resetAction a                                   -- nothing durable: as if never started
    | some last =>
      if last.err == .none then { a with status := .completed, tEnd := last.tEnd, attempts := atts }
      else { a with status := .failed, tEnd := last.tEnd, attempts := atts }   -- even if retries remain

/-- `fixSeq`: only a Running sequence is touched; statuses derived from the repaired actions
    (the Stopped branches are omitted: nothing produces Stopped, Appendix E) -/
def fixSeq (q : Sequence) : Sequence :=
  if q.status ≠ .running then q
  else
    let as := q.actions.map fixAction
    let failed := as.any (·.status == .failed)
    let completed := (as.filter (·.status == .completed)).length
    let running := as.any (·.status == .running)
    if failed then { q with actions := as, status := .failed }
    else if completed == 0 && !running then { q with actions := as, status := .notStarted, tStart := 0, tEnd := 0 }
    else if completed == as.length then { q with actions := as, status := .completed }
    else { q with actions := as }

/-- what `runAction` does with an action after the repair: only a NotStarted action is handed to the
    plugin (Completed → return nil; Failed → return its error; Running cannot remain) -/
def willInvoke (a : Action) : Bool := (fixAction a).status == .notStarted || (fixAction a).status == .running

/-- the action has a durable result: it is Completed/Failed, or Running with an ended attempt -/
def durableResult (a : Action) : Bool :=
  a.status == .completed || a.status == .failed ||
  (a.status == .running && !(dropUnended a.attempts).isEmpty)

/-! ### plan level: the status `fixPlan` derives and where `Recovery` goes next -/

inductive Route where
  | start      -- plan reset to NotStarted → States.Start (a fresh run)
  | resume     -- still Running → channels recreated, PlanBypassChecks (the normal chain)
  | end_       -- a terminal status was derived → States.End directly (no deferred checks)
  deriving DecidableEq, Repr

structure PlanSummary where
  bypass   : Option Status := none       -- status of the group as read from the store
  pre      : Option Status := none
  cont     : Option Status := none
  post     : Option Status := none
  deferred : Option Status := none
  blocks   : List Status := []           -- block statuses after fixBlock
  deriving Repr, DecidableEq

def isFailed (g : Option Status) : Bool := g == some .failed
def isDone (g : Option Status) : Bool := g == none || g == some .completed

/-- the status `fixPlan` leaves on a plan that was Running -/
def fixPlanStatus (p : PlanSummary) : Status :=
  if p.bypass == some .completed then .completed
  else if isFailed p.pre then .failed
  else if isFailed p.post then .failed
  else
    -- a Failed ContChecks sets Failed too, but processing continues and may overwrite it
    let s0 : Status := if isFailed p.cont then .failed else .running
    if p.blocks.any (· == .failed) then .failed
    else if p.blocks.all (fun b => b != .completed && b != .running && b != .failed) then .notStarted
    else if p.blocks.all (· == .completed) && isDone p.post && isDone p.deferred then .completed
    else s0

def route (s : Status) : Route :=
  match s with
  | .notStarted => .start
  | .running => .resume
  | _ => .end_

end Coercion.Fix
