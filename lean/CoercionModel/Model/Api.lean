import CoercionModel.Model.Types
/-
  Model/Api — the life of ONE plan id under any interleaving of public API calls
  (internal/execute/execute.go Start/runPlan/Wait, coercion.go), after the fix for D10: `Start` is
  serialized by a mutex and refuses a plan that already has a waiter. The state machine body is a
  black box that (1) writes the plan Running some time after it was spawned and (2) writes a terminal
  status and only then releases its waiter.
-/
namespace Coercion.Api
open Coercion

structure S where
  stored : Status := .notStarted     -- plan row in storage
  waiter : Bool := false             -- an entry for the id in `waiters`
  execs  : Nat := 0                  -- state machine bodies spawned for this id (ghost)
  stale  : Bool := false             -- the submission is older than maxSubmit (can only become true)
  deriving DecidableEq, Repr, Inhabited

inductive Label where
  | start              -- a Start call, whole body under the mutex
  | ages               -- time passes: the submission becomes too old
  | engineRunning      -- the spawned body writes the plan Running
  | engineFinish (ok : Bool) -- the body writes the terminal state, then releases and removes the waiter
  | wait | status | plan     -- read-only calls
  deriving DecidableEq, Repr, Inhabited

inductive Ret where
  | ok | rejected | none
  deriving DecidableEq, Repr, Inhabited

/-- `validateStartState` on what `Read` returned + the waiter test -/
def startable (s : S) : Bool := s.stored == .notStarted && !s.stale && !s.waiter

def step (s : S) : Label → Option (S × Ret)
  | .start => if startable s then some ({ s with waiter := true, execs := s.execs + 1 }, .ok) else some (s, .rejected)
  | .ages => some ({ s with stale := true }, .none)
  | .engineRunning => if s.waiter ∧ s.stored = .notStarted then some ({ s with stored := .running }, .none) else none
  | .engineFinish ok => if s.waiter ∧ s.stored = .running then
      some ({ s with stored := if ok then .completed else .failed, waiter := false }, .none) else none
  | .wait | .status | .plan => some (s, .none)

def run : S → List Label → Option S
  | s, [] => some s
  | s, l :: t => match step s l with
    | none => none
    | some (s', _) => run s' t

end Coercion.Api
