/-
  Model/Store — the abstract vault every storage implementation must refine: a plan is a list of
  objects (the plan itself, its checks, blocks, sequences, actions in walk order), each with an id, an
  immutable definition and a mutable state; Create stores all objects of a plan at once or nothing;
  Update* overwrites the state of one object; Read returns the plan with the latest states; Delete
  removes the plan with all its objects. `encodable = false` marks an object whose request cannot be
  serialised (Create must then fail as a whole).
-/
namespace Coercion.Store

structure Obj where
  id        : Nat
  defn      : Nat          -- abstract definition value (names, plugin, request, …)
  state     : Nat          -- abstract state value (status, times, reason, attempts)
  encodable : Bool := true
  deriving DecidableEq, Repr, Inhabited

structure SPlan where
  id   : Nat
  objs : List Obj          -- all objects of the plan in walk order (the plan row first)
  deriving DecidableEq, Repr, Inhabited

abbrev Vault := List SPlan

def readPlan (v : Vault) (id : Nat) : Option SPlan := v.find? (·.id == id)

def exists_ (v : Vault) (id : Nat) : Bool := (readPlan v id).isSome

/-- `Create`: one transaction — fails (vault unchanged) if the id exists or any object cannot be encoded -/
def create (v : Vault) (p : SPlan) : Vault × Bool :=
  if exists_ v p.id then (v, false)
  else if p.objs.all (·.encodable) then (v ++ [p], true)
  else (v, false)

def setState (oid st : Nat) (o : Obj) : Obj := if o.id == oid then { o with state := st } else o

/-- `Update*`: overwrite the state of object `oid` (wherever it lives) -/
def update (v : Vault) (oid st : Nat) : Vault :=
  v.map fun p => { p with objs := p.objs.map (setState oid st) }

def delete (v : Vault) (id : Nat) : Vault := v.filter (·.id != id)

/-- the state last written for object `oid` by a list of updates, or the created one -/
def lastWritten (oid : Nat) (init : Nat) : List (Nat × Nat) → Nat
  | [] => init
  | (o, st) :: us => lastWritten oid (if o == oid then st else init) us

def applyAll (v : Vault) (us : List (Nat × Nat)) : Vault := us.foldl (fun v u => update v u.1 u.2) v

end Coercion.Store
