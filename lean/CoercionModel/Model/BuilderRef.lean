import CoercionModel.Model.Builder
/-
  Model/BuilderRef — the reference ("directly constructing the same hierarchy") for the builder: a bottom-up
  interpreter that keeps a stack of OPEN objects and attaches a child to its parent only when it is
  closed (by `Up`, or by `Plan()` at the end) — each object is complete before it is placed, as in a
  hand-written composite literal. The Go builder does the opposite (links the child at once and keeps
  mutating it through the pointer); `Builder.step` mirrors that. Proofs/BuilderRef shows the two agree.
-/
namespace Coercion.Builder
open Coercion

/-- open objects, innermost last in construction order: an optional open block, inside it (or at plan
    level) an optional open group or sequence -/
structure Z where
  plan  : Plan := {}                         -- closed part: everything already attached to the plan
  blk   : Option Block := none               -- the open block, not yet attached
  grp   : Option (GKind × Checks) := none    -- the open check group (of the open block, or of the plan)
  sq    : Option Sequence := none            -- the open sequence (of the open block)
  deriving Repr, Inhabited

def closeGrpOnBlock (b : Block) : Option (GKind × Checks) → Block
  | none => b
  | some (k, c) => b.setGrp k (some c)

def closeSeqOnBlock (b : Block) : Option Sequence → Block
  | none => b
  | some q => { b with seqs := b.seqs ++ [q] }

/-- attach everything that is still open, innermost first: the finished plan -/
def finish (z : Z) : Plan :=
  match z.blk with
  | some b =>
    let b' := closeSeqOnBlock (closeGrpOnBlock b z.grp) z.sq
    { z.plan with blocks := z.plan.blocks ++ [b'] }
  | none =>
    match z.grp with
    | some (k, c) => z.plan.setGrp k (some c)
    | none => z.plan

/-- the position the Go builder is at, read off the open objects -/
def posOf (z : Z) : Pos :=
  match z.blk, z.grp, z.sq with
  | none, none, _ => .plan
  | none, some (k, _), _ => .planGroup k
  | some _, none, none => .block
  | some _, some (k, _), _ => .blockGroup k
  | some _, none, some _ => .seq

/-- well-formed stacks: a sequence only inside a block, never together with an open group -/
def ZWF (z : Z) : Prop := (z.sq.isSome → z.blk.isSome ∧ z.grp = none)

/-- the reference interpreter on a call that the builder accepts (anything else: `none`) -/
def zstep (z : Z) : Call → Option Z
  | .addChecks (some k) (some (c, false)) =>
    (match z.blk, z.grp, z.sq with
     | none, none, _ => if (z.plan.grp k).isSome then none else some { z with grp := some (k, c) }
     | some b, none, none => if (b.grp k).isSome then none else some { z with grp := some (k, c) }
     | _, _, _ => none)
  | .addBlock a =>
    if a.name = "" ∨ a.descr = "" then none else
    (match z.blk, z.grp with
     | none, none => some { z with blk := some { key := a.key, name := a.name, descr := a.descr, entrance := a.entrance, exit := a.exit, conc := a.conc, tol := a.tol } }
     | _, _ => none)
  | .addSequence (some q) =>
    if q.name = "" ∨ q.descr = "" then none else
    (match z.blk, z.grp, z.sq with
     | some _, none, none => some { z with sq := some q }
     | _, _, _ => none)
  | .addAction (some a) =>
    if a.name = "" ∨ a.descr = "" ∨ a.plugin = "" then none else
    (match z.grp, z.sq with
     | some (k, c), _ => some { z with grp := some (k, addAct a c) }
     | none, some q => some { z with sq := some { q with actions := q.actions ++ [a] } }
     | none, none => none)
  | .up =>
    (match z.blk, z.grp, z.sq with
     | none, some (k, c), _ => some { z with plan := z.plan.setGrp k (some c), grp := none }      -- close a plan-level group
     | some b, some (k, c), _ => some { z with blk := some (b.setGrp k (some c)), grp := none }   -- close a block-level group
     | some b, none, some q => some { z with blk := some { b with seqs := b.seqs ++ [q] }, sq := none }  -- close a sequence
     | some b, none, none => some { z with plan := { z.plan with blocks := z.plan.blocks ++ [b] }, blk := none }  -- close a block
     | none, none, _ => none)
  | _ => none

/-- the calls that construct (everything but Plan / Err / Reset) -/
def isCtor : Call → Bool
  | .addChecks .. | .addBlock _ | .addSequence _ | .addAction _ | .up => true
  | _ => false

/-- the reference on a whole call list -/
def zrun : Z → List Call → Option Z
  | z, [] => some z
  | z, c :: cs => (zstep z c).bind (zrun · cs)

/-- what the driver reports next to `Builder.run`: the reference followed along a whole history (Reset
    starts it afresh, the first call it has no meaning for ends it), and `finish` at every first `Plan()` -/
def track : Option Z → Bool → List Call → List Plan
  | _, _, [] => []
  | z, emitted, c :: cs =>
    match c with
    | .reset blank name descr group =>
      if blank then track none false cs
      else match group with
        | none => track (some { plan := { name := name, descr := descr } }) false cs
        | some g =>
          if g = 0 then
            -- the option fails after the plan was replaced and leaves the recorded error as it was
            track (if z.isSome then some { plan := { name := name, descr := descr } } else none) false cs
          else track (some { plan := { name := name, descr := descr, group := g } }) false cs
    | .plan =>
      (match z, emitted with
       | some zz, false => finish zz :: track z true cs
       | _, _ => track z emitted cs)
    | .err => track z emitted cs
    | c => if emitted then track none emitted cs else track (z.bind (zstep · c)) emitted cs

end Coercion.Builder
