import CoercionModel.Model.Types
/-
  Model/Search — Exists / Search / List of workflow/storage/sqlite/reader.go over the `plans` table.
  `build` mirrors `buildSearchQuery` (after the fixes for D6/D7): a conjunction of at most three
  predicates — id IN (…), group_id IN (…), (status = s0 OR status = s1 …) — each present only when its
  filter is non-empty, ORDER BY submit_time DESC; `eval` gives that SQL fragment its meaning.
-/
namespace Coercion.Search
open Coercion

structure Row where
  id     : Nat
  group  : Nat
  status : Status
  submit : Nat
  deriving DecidableEq, Repr, Inhabited

structure Filters where
  ids      : List Nat := []
  groups   : List Nat := []
  statuses : List Status := []
  deriving DecidableEq, Repr, Inhabited

/-- one conjunct of the WHERE clause -/
inductive Pred where
  | idIn (ids : List Nat)
  | groupIn (gs : List Nat)
  | statusAny (ss : List Status)
  deriving DecidableEq, Repr, Inhabited

def build (f : Filters) : List Pred :=
  (if f.ids.isEmpty then [] else [.idIn f.ids]) ++
  (if f.groups.isEmpty then [] else [.groupIn f.groups]) ++
  (if f.statuses.isEmpty then [] else [.statusAny f.statuses])

def evalPred (r : Row) : Pred → Bool
  | .idIn ids => decide (r.id ∈ ids)
  | .groupIn gs => decide (r.group ∈ gs)
  | .statusAny ss => decide (r.status ∈ ss)

def newestFirst (a b : Row) : Bool := decide (b.submit ≤ a.submit)

/-- `Search(filters)`: rows satisfying every conjunct, newest submission first -/
def search (f : Filters) (store : List Row) : List Row :=
  (store.filter (fun r => (build f).all (evalPred r))).mergeSort newestFirst

/-- `List(limit)`: all rows newest first, cut at `limit` when it is positive -/
def list (limit : Int) (store : List Row) : List Row :=
  let all := store.mergeSort newestFirst
  if 0 < limit then all.take limit.toNat else all

def exists_ (id : Nat) (store : List Row) : Bool := store.any (·.id == id)

/-- specification of a match, straight from the statement: one of the ids, one of the group ids, any
    of the listed statuses (an empty filter does not constrain) -/
def isMatch (f : Filters) (r : Row) : Prop :=
  (f.ids = [] ∨ r.id ∈ f.ids) ∧ (f.groups = [] ∨ r.group ∈ f.groups) ∧ (f.statuses = [] ∨ r.status ∈ f.statuses)

end Coercion.Search
