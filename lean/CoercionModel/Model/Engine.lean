import CoercionModel.Model.Attempts
import CoercionModel.Model.Builder
/-
  Model/Engine — the routing chain of internal/execute/sm/sm.go + final.go as a big-step interpreter
  for *one* schedule: sequences of a block run one after the other in declared order, the two groups
  of `runPreChecks` run pre first. Everything that depends on the schedule (which sequences were
  already launched when the failure threshold was crossed, when a periodic cont-check run is noticed)
  is outside this interpreter: those parts are the labelled transition systems Model/Sched and
  Model/Cont. The correspondence check compares this interpreter exactly with the implementation on
  configurations whose outcome does not depend on the schedule (harness: `detConfig`).

  Mirrors (Appendix E of DESIGN.md): Start, PlanBypassChecks, PlanPreChecks, PlanStartContChecks,
  ExecuteBlock, BlockBypassChecks, BlockPreChecks, BlockStartContChecks, ExecuteSequences (+execSeq,
  runAction), BlockPostChecks, BlockDeferredChecks, BlockEnd, PlanPostChecks, PlanDeferredChecks, End,
  finalStates; with the repaired behaviour of the fix: commits for D1 (BlockEnd drains only a started
  producer) and D23 (ExecuteSequences joins its sequences before every exit).
-/
namespace Coercion.Engine
open Coercion Coercion.Attempts

structure MAction where
  idx     : Nat
  retries : Int := 0
  script  : List Outcome := []      -- outcome of the k-th call; the last one repeats; [] = always ok
  deriving Repr, Inhabited

structure MGroup where
  idx     : Nat
  actions : List MAction := []
  deriving Repr, Inhabited

structure MSeq where
  idx     : Nat
  actions : List MAction := []
  deriving Repr, Inhabited

structure MBlock where
  idx      : Nat
  bypass   : Option MGroup := none
  pre      : Option MGroup := none
  cont     : Option MGroup := none
  post     : Option MGroup := none
  deferred : Option MGroup := none
  seqs     : List MSeq := []
  tol      : Int := 0
  deriving Repr, Inhabited

structure MPlan where
  bypass   : Option MGroup := none
  pre      : Option MGroup := none
  cont     : Option MGroup := none
  post     : Option MGroup := none
  deferred : Option MGroup := none
  blocks   : List MBlock := []
  deriving Repr, Inhabited

def scriptFn (script : List Outcome) : Nat → Outcome := fun k =>
  match script with
  | [] => {}
  | _ => script.getD (min k (script.length - 1)) {}

/-- stage-level events -/
inductive Ev where
  /-- one run of a check group (all its actions) with its verdict; `scope` = the block it belongs to
      (`none` = plan level), `k` = which of the five groups -/
  | group (scope : Option Nat) (k : GKind) (g : Nat) (ok : Bool)
  | seq (b : Nat) (q : Nat) (ok : Bool)  -- sequence q of block b ran (up to its first failing action)
  | blockEnd (b : Nat) (st : Status)
  deriving DecidableEq, Repr, Inhabited, BEq

/-- final record of an object: status (+ number of plugin calls for actions) -/
structure Obj where
  idx    : Nat
  status : Status
  calls  : Nat := 0
  deriving DecidableEq, Repr, Inhabited, BEq

structure Out where
  evs  : List Ev := []
  objs : List Obj := []
  deriving Repr, Inhabited

def Out.append (a b : Out) : Out := { evs := a.evs ++ b.evs, objs := a.objs ++ b.objs }
instance : Append Out := ⟨Out.append⟩

def runAct (check : Bool) (a : MAction) : Obj :=
  let r := Attempts.run a.retries check (scriptFn a.script)
  { idx := a.idx, status := r.status, calls := r.calls }

def actOk (check : Bool) (a : MAction) : Bool := (runAct check a).status == .completed

/-- `runChecksOnce`: every action of the group runs; the group is Completed iff all succeeded -/
def groupOk (g : MGroup) : Bool := g.actions.all (actOk true)

def runGroup (sc : Option Nat) (k : GKind) (g : MGroup) : Out :=
  { evs := [.group sc k g.idx (groupOk g)],
    objs := { idx := g.idx, status := if groupOk g then .completed else .failed } :: g.actions.map (runAct true) }

/-- a group that never ran -/
def idleGroup (g : MGroup) : Out :=
  { objs := { idx := g.idx, status := .notStarted } :: g.actions.map (fun a => { idx := a.idx, status := .notStarted }) }

def idleOpt : Option MGroup → Out
  | none => {}
  | some g => idleGroup g

/-- `execSeq`: actions in order, stop at the first failure; later actions stay untouched -/
def runSeqActs : List MAction → List Obj × Bool
  | [] => ([], true)
  | a :: as =>
    let o := runAct false a
    if o.status == .completed then
      let (os, ok) := runSeqActs as
      (o :: os, ok)
    else (o :: as.map (fun a => { idx := a.idx, status := .notStarted }), false)

def seqOk (q : MSeq) : Bool := (runSeqActs q.actions).2

def runSeq (b : Nat) (q : MSeq) : Out :=
  let (os, ok) := runSeqActs q.actions
  { evs := [.seq b q.idx ok], objs := { idx := q.idx, status := if ok then .completed else .failed } :: os }

def idleSeq (q : MSeq) : Out :=
  { objs := { idx := q.idx, status := .notStarted } :: q.actions.map (fun a => { idx := a.idx, status := .notStarted }) }

def exceeded (tol : Int) (failures : Nat) : Bool := decide (0 ≤ tol ∧ tol < failures)

/-- the launch loop of `ExecuteSequences` under the sequential schedule: before each launch the
    threshold is tested; returns the output and the number of failed sequences -/
def runSeqs (b : Nat) (tol : Int) : List MSeq → Nat → Out × Nat
  | [], f => ({}, f)
  | q :: qs, f =>
    if exceeded tol f then
      ((q :: qs).foldl (fun o q => o ++ idleSeq q) {}, f)      -- not-yet-started sequences are never started
    else
      let o := runSeq b q
      let f' := if seqOk q then f else f + 1
      let (o', f'') := runSeqs b tol qs f'
      (o ++ o', f'')

def optOk : Option MGroup → Bool
  | none => true
  | some g => groupOk g

def runOpt (sc : Option Nat) (k : GKind) : Option MGroup → Out
  | none => {}
  | some g => runGroup sc k g

def idleSeqs (qs : List MSeq) : Out := qs.foldl (fun o q => o ++ idleSeq q) {}

/-- a periodic cont group that was not run as a gate: in schedule-independent configurations it
    always passes; its objects are reported Completed (the harness compares cont groups loosely) -/
def contIdle : Option MGroup → Out
  | none => {}
  | some g => { objs := { idx := g.idx, status := .completed } :: g.actions.map (fun a => { idx := a.idx, status := .completed }) }

def optRan (g : Option MGroup) : Bool := match g with | some g => groupOk g | none => false

/-- a check-group stage: runs (one run of the group) or is skipped (its objects stay NotStarted) -/
def stage (run : Bool) (sc : Option Nat) (k : GKind) (g : Option MGroup) : Out :=
  if run then runOpt sc k g else idleOpt g

/-- the cont group's place in the pre stage: skipped with the scope; run once as a gate together with
    the pre-checks when there are pre-checks; otherwise left to its periodic runs -/
def contStage (skipped hasPre : Bool) (sc : Option Nat) (g : Option MGroup) : Out :=
  if skipped then idleOpt g else if hasPre then runOpt sc .cont g else contIdle g

/-! One block, entered fresh (ExecuteBlock … BlockEnd), stage by stage. Every stage either runs or
    is skipped, and the conditions are exactly the routing decisions of the state functions. -/

/-- the bypass group is present and passed → nothing else in the block runs -/
def blkBypassed (b : MBlock) : Bool := optRan b.bypass
/-- PreChecks and the initial run of ContChecks (made only when PreChecks are present) passed -/
def blkPreOk (b : MBlock) : Bool := match b.pre with
  | some pre => groupOk pre && optOk b.cont
  | none => true
def blkSeqsRun (b : MBlock) : Bool := !blkBypassed b && blkPreOk b
def seqStage (run : Bool) (b : MBlock) : Out × Nat :=
  if run then runSeqs b.idx b.tol b.seqs 0 else (idleSeqs b.seqs, 0)
/-- the launch loop ended with more failed sequences than tolerated -/
def blkExceeded (b : MBlock) : Bool := blkSeqsRun b && exceeded b.tol (seqStage (blkSeqsRun b) b).2
/-- PostChecks run only after the sequence loop ended without exceeding the threshold -/
def blkPostRun (b : MBlock) : Bool := blkSeqsRun b && !blkExceeded b
def blkFailed (b : MBlock) : Bool :=
  !blkBypassed b && (!blkPreOk b || blkExceeded b || (blkPostRun b && !optOk b.post) || !optOk b.deferred)
def blkStatus (b : MBlock) : Status := if blkFailed b then .failed else .completed

def execBlockR (b : MBlock) : Out :=
  let sc := some b.idx
  stage true sc .bypass b.bypass ++
  stage (!blkBypassed b) sc .pre b.pre ++
  contStage (blkBypassed b) b.pre.isSome sc b.cont ++
  (seqStage (blkSeqsRun b) b).1 ++
  stage (blkPostRun b) sc .post b.post ++
  stage (!blkBypassed b) sc .deferred b.deferred ++          -- deferred checks run whenever the block was not bypassed
  { evs := [.blockEnd b.idx (blkStatus b)], objs := [{ idx := b.idx, status := blkStatus b }] }

def execBlock (b : MBlock) : Out × Status := (execBlockR b, blkStatus b)

def idleBlock (b : MBlock) : Out :=
  idleOpt b.bypass ++ idleOpt b.pre ++ idleOpt b.cont ++ idleSeqs b.seqs ++ idleOpt b.post ++ idleOpt b.deferred ++
    { objs := [{ idx := b.idx, status := .notStarted }] }

/-- blocks one at a time, in order; a Failed block ends the walk -/
def runBlocks : List MBlock → Out × Bool
  | [] => ({}, true)
  | b :: bs =>
    let (o, st) := execBlock b
    if st == .completed then
      let (o', ok) := runBlocks bs
      (o ++ o', ok)
    else (o ++ bs.foldl (fun o b => o ++ idleBlock b) {}, false)

/-- `finalStates` on the group verdicts (`none` = the group is absent; `some none` = it never ran) -/
def final (bypass : Option Bool) (pre cont post deferred : Option (Option Bool)) (blocksOk : Bool) : Status × Reason :=
  if bypass == some true then (.completed, .unknown)
  else
    let chk (g : Option (Option Bool)) (r : Reason) (k : Unit → Status × Reason) : Status × Reason :=
      match g with
      | none => k ()
      | some (some true) => k ()
      | some _ => (.failed, r)          -- Failed, or never ran (reported as that stage: D2)
    chk pre .preCheck fun _ => chk cont .contCheck fun _ => chk post .postCheck fun _ => chk deferred .deferredCheck fun _ =>
      if blocksOk then (.completed, .unknown) else (.failed, .block)

def idleBlocks (bs : List MBlock) : Out := bs.foldl (fun o b => o ++ idleBlock b) {}

structure Result where
  out    : Out
  status : Status
  reason : Reason
  deriving Repr, Inhabited

def verdict (ran : Bool) (g : Option MGroup) : Option (Option Bool) :=
  g.map fun g => if ran then some (groupOk g) else none

/-! A whole plan, started fresh, stage by stage (Start … End + finalStates). -/
def planBypassed (p : MPlan) : Bool := optRan p.bypass
def planPreOk (p : MPlan) : Bool := match p.pre with
  | some pre => groupOk pre && optOk p.cont
  | none => true
def planBlocksRun (p : MPlan) : Bool := !planBypassed p && planPreOk p
def blockStage (run : Bool) (p : MPlan) : Out × Bool :=
  if run then runBlocks p.blocks else (idleBlocks p.blocks, false)
def planBlocksOk (p : MPlan) : Bool := planBlocksRun p && (blockStage (planBlocksRun p) p).2
/-- a failed block skips PlanPostChecks -/
def planPostRun (p : MPlan) : Bool := planBlocksOk p
def planContVerdict (p : MPlan) : Option (Option Bool) := match p.pre with
  | some _ => verdict (!planBypassed p) p.cont
  | none => p.cont.map fun _ => some true      -- periodic only: passes in schedule-independent configurations
def planFinal (p : MPlan) : Status × Reason :=
  final (p.bypass.map groupOk) (verdict (!planBypassed p) p.pre) (planContVerdict p) (verdict (planPostRun p) p.post)
    (verdict (!planBypassed p) p.deferred) (planBlocksOk p)

def runPlan (p : MPlan) : Result :=
  { out := stage true none .bypass p.bypass ++
           stage (!planBypassed p) none .pre p.pre ++
           contStage (planBypassed p) p.pre.isSome none p.cont ++
           (blockStage (planBlocksRun p) p).1 ++
           stage (planPostRun p) none .post p.post ++
           stage (!planBypassed p) none .deferred p.deferred,
    status := (planFinal p).1, reason := (planFinal p).2 }

end Coercion.Engine
