import CoercionModel.Model.Types
/-
  Model/ApiFine — `Start` at the granularity of its shared-memory accesses (internal/execute/execute.go
  after fixes aa3e73e and a8f2a16), interleaved with the engine's own steps on the same plan id.

  Under `startMu` at most one Start is in progress; it (1) looks for a waiter, (2) reads the plan from
  storage, (3) validates what it read and spawns. The spawned body (runPlan's goroutine) writes Running,
  later writes the terminal state (End's flush), and only then — in runPlan's deferred function —
  closes and removes the waiter: two separate steps. `order` selects the order of (1) and (2): the code
  is `waiterFirst`; `readFirst` is the order the first repair (aa3e73e) had, kept to show why it matters.
-/
namespace Coercion.ApiFine
open Coercion

inductive Order where
  | waiterFirst | readFirst
  deriving DecidableEq, Repr, Inhabited

/-- where the Start that holds the mutex is -/
inductive Pc where
  | idle                                  -- nobody holds startMu
  | entered                               -- mutex taken, nothing looked at yet
  | sawNoWaiter                           -- (waiterFirst) the waiter lookup found nothing
  | haveRead (st : Status) (stale : Bool) -- storage has been read: local copy of the plan's status
  | readThenNoWaiter (st : Status) (stale : Bool) -- (readFirst) read, then the waiter lookup found nothing
  deriving DecidableEq, Repr, Inhabited

structure S where
  stored : Status := .notStarted
  waiter : Bool := false
  execs  : Nat := 0
  stale  : Bool := false
  pc     : Pc := .idle
  deriving DecidableEq, Repr, Inhabited

inductive Label where
  | lock                      -- a Start call acquires startMu
  | lookWaiter                -- e.waiters.Get(id)
  | readStore                 -- e.store.Read(ctx, id)
  | decide                    -- validateStartState on the local copy, then runPlan (registers the waiter, spawns) and unlock
  | ages
  | engineRunning             -- the body writes the plan Running
  | engineTerminal (ok : Bool)-- the body writes the terminal state (End)
  | engineRelease             -- runPlan's deferred function: close + delete the waiter
  deriving DecidableEq, Repr, Inhabited

inductive Ret where
  | none | ok | rejected
  deriving DecidableEq, Repr, Inhabited

def terminal (st : Status) : Prop := st = .completed ∨ st = .failed
instance (st : Status) : Decidable (terminal st) := by unfold terminal; exact inferInstance

def step (o : Order) (s : S) : Label → Option (S × Ret)
  | .lock => if s.pc = .idle then some ({ s with pc := .entered }, .none) else none
  | .lookWaiter =>
    (match o, s.pc with
     | .waiterFirst, .entered => if s.waiter then some ({ s with pc := .idle }, .rejected) else some ({ s with pc := .sawNoWaiter }, .none)
     | .readFirst, .haveRead st stale => if s.waiter then some ({ s with pc := .idle }, .rejected) else some ({ s with pc := .readThenNoWaiter st stale }, .none)
     | _, _ => none)
  | .readStore =>
    (match o, s.pc with
     | .waiterFirst, .sawNoWaiter => some ({ s with pc := .haveRead s.stored s.stale }, .none)
     | .readFirst, .entered => some ({ s with pc := .haveRead s.stored s.stale }, .none)
     | _, _ => none)
  | .decide =>
    (match o, s.pc with
     | .waiterFirst, .haveRead st stale | .readFirst, .readThenNoWaiter st stale =>
       if st = .notStarted ∧ stale = false then some ({ s with pc := .idle, waiter := true, execs := s.execs + 1 }, .ok)
       else some ({ s with pc := .idle }, .rejected)
     | _, _ => none)
  | .ages => some ({ s with stale := true }, .none)
  | .engineRunning => if s.waiter ∧ s.stored = .notStarted then some ({ s with stored := .running }, .none) else none
  | .engineTerminal ok => if s.waiter ∧ s.stored = .running then some ({ s with stored := if ok then .completed else .failed }, .none) else none
  | .engineRelease => if s.waiter ∧ terminal s.stored then some ({ s with waiter := false }, .none) else none

def run (o : Order) : S → List Label → Option S
  | s, [] => some s
  | s, l :: t => match step o s l with
    | none => none
    | some (s', _) => run o s' t

/-- the order of the shared accesses in the modelled `Start`, as names (compared with the order
    extracted from execute.go, Generated/F9) -/
def startOrder : List String := ["startMu.Lock", "waiters.Get", "store.Read", "validateStartState", "runPlan"]

end Coercion.ApiFine
