import CoercionModel.Model.Sched
import CoercionModel.Model.Skeletons
import CoercionModel.Generated.F10
import CoercionModel.Proofs.SchedEngine
import CoercionModel.Generated.T9
set_option linter.unusedSimpArgs false
/-
  C02 — At most Block.Concurrency sequences in flight; one block at a time.
  C03 (part 2) — the failure bound for every schedule.

  Theorems over Model/Sched (every configuration, every accepted run = every schedule): the limiter
  invariant `tokens = queued + running + exiting ≤ Concurrency`, hence at most Concurrency sequences
  are ever running (have an action in flight); at most ToleratedFailures+Concurrency sequences fail;
  once the threshold is exceeded no worker passes its start test any more and the exceeded state is
  permanent. "One block at a time" is C01.blocks_in_declared_order / block_events_scoped on
  Model/Engine (blocks are strictly sequential in the routing chain; since the fix for D23 the loop
  joins its workers before every exit, `joined_quiescent` below) and monitor C01.a on every run.
  "1 when unset": `Block.Defaults` (checked on the implementation by C16.accepted_pristine).
  Tie: monitors C02.concurrency_bound (sequences with an action in flight, and sequences durably
  Running), C03.failure_bound, C03.no_start_after_threshold on every implementation trace with
  overlapping plugin latencies; fact F2 (limiter and Limited pool both sized from Block.Concurrency).
-/
namespace Coercion.C02
open Coercion.Sched

def Inv (c : Cfg) (s : S) : Prop :=
  s.tokens = s.queued + s.running + s.exiting ∧ s.tokens ≤ c.conc ∧
  (0 ≤ c.tol → ((s.failures : Int) ≤ c.tol ∨ (s.failures : Int) + s.running ≤ c.tol + c.conc))

theorem inv_init (c : Cfg) : Inv c {} := by
  simp [Inv]; intro h; left; exact h

theorem inv_step (c : Cfg) (s s' : S) (l : Label) (hc : 1 ≤ c.conc) (h : Inv c s) (hs : step c s l = some s') : Inv c s' := by
  obtain ⟨h1, h2, h3⟩ := h
  cases l <;> simp only [step] at hs <;> split at hs <;> simp at hs <;> subst hs <;> simp only [Inv]
  case top => exact ⟨h1, h2, h3⟩
  case exitExceeded => exact ⟨h1, h2, h3⟩
  case exitCont => exact ⟨h1, h2, h3⟩
  case loopEnd => exact ⟨h1, h2, h3⟩
  case acquire hg => exact ⟨by omega, by omega, h3⟩
  case pass hg =>
    refine ⟨by omega, h2, ?_⟩
    intro ht
    have hex := hg.2
    simp only [exceeded, decide_eq_false_iff_not, not_and, Int.not_lt] at hex
    left; exact hex ht
  case skip hg => exact ⟨by omega, by omega, h3⟩
  case finish failed hg =>
    refine ⟨by omega, h2, ?_⟩
    intro ht
    rcases h3 ht with h | h
    · cases failed
      · left; simpa using h
      · -- failures was ≤ tol; after the increment it is ≤ tol+1, and fewer than conc workers remain running
        right
        simp only [ite_true]
        have : s.running ≤ c.conc := by omega
        omega
    · right
      cases failed <;> simp <;> omega
  case release hg => exact ⟨by omega, by omega, h3⟩
  case joined => exact ⟨h1, h2, h3⟩

theorem inv_run (c : Cfg) (hc : 1 ≤ c.conc) (t : List Label) (s s' : S) (h : Inv c s) (hr : run c s t = some s') : Inv c s' := by
  induction t generalizing s with
  | nil => simp [run] at hr; subst hr; exact h
  | cons l t ih =>
    simp only [run] at hr
    cases hs : step c s l with
    | none => simp [hs] at hr
    | some s1 => rw [hs] at hr; exact ih s1 (inv_step c s s1 l hc h hs) hr

/-- C02: in every reachable state of every schedule at most Concurrency sequences of the block are
    running (have an action in flight). -/
theorem concurrency_bound (c : Cfg) (hc : 1 ≤ c.conc) (t : List Label) (s : S) (hr : run c {} t = some s) :
    s.running ≤ c.conc ∧ s.queued + s.running + s.exiting ≤ c.conc := by
  have := inv_run c hc t {} s (inv_init c) hr
  obtain ⟨h1, h2, _⟩ := this
  exact ⟨by omega, by omega⟩

/-- C03: at most ToleratedFailures + Concurrency sequences ever fail (when the tolerance is not negative). -/
theorem failure_bound (c : Cfg) (hc : 1 ≤ c.conc) (ht : 0 ≤ c.tol) (t : List Label) (s : S) (hr : run c {} t = some s) :
    (s.failures : Int) ≤ c.tol + c.conc := by
  have := inv_run c hc t {} s (inv_init c) hr
  rcases this.2.2 ht with h | h <;> omega

/-- C03: once the threshold is exceeded no sequence is started any more (the worker's own test
    fails, the loop head exits) … -/
theorem no_start_after_exceeded (c : Cfg) (s : S) (h : exceeded c s = true) :
    step c s .pass = none ∧ step c s .top = none := by
  simp [step, h]

/-- … and the exceeded state is permanent: the failure counter never decreases. -/
theorem failures_monotone (c : Cfg) (s s' : S) (l : Label) (hs : step c s l = some s') : s.failures ≤ s'.failures := by
  cases l <;> simp only [step] at hs <;> split at hs <;> simp at hs <;> subst hs <;> simp

theorem exceeded_stable (c : Cfg) (s s' : S) (l : Label) (hs : step c s l = some s') (h : exceeded c s = true) :
    exceeded c s' = true := by
  have := failures_monotone c s s' l hs
  simp only [exceeded, decide_eq_true_eq] at *
  omega

/-- the number of sequences ever started grows only by `pass` -/
theorem started_only_by_pass (c : Cfg) (s s' : S) (l : Label) (hs : step c s l = some s') (hl : l ≠ .pass) :
    s'.started = s.started := by
  cases l <;> simp only [step] at hs <;> split at hs <;> simp at hs <;> subst hs <;> simp_all

/-- When the main thread leaves `ExecuteSequences` — through the loop end or through either early
    exit — no worker of the block is left (fix for D23): nothing of this block can overlap what
    follows (post/deferred checks, the next block, End, Wait). -/
theorem joined_quiescent (c : Cfg) (s s' : S) (hs : step c s .joined = some s') :
    s'.pc = .exited ∧ s'.queued = 0 ∧ s'.running = 0 ∧ s'.exiting = 0 := by
  simp only [step] at hs
  split at hs <;> simp at hs
  subst hs
  rename_i h
  simp [h.2.1, h.2.2.1, h.2.2.2]

theorem exited_only_by_joined (c : Cfg) (s s' : S) (l : Label) (hs : step c s l = some s') (hp : s.pc ≠ .exited)
    (he : s'.pc = .exited) : l = .joined := by
  cases l <;> simp only [step] at hs <;> split at hs <;> simp at hs <;> subst hs <;> simp_all

/-! ### non-vacuity: Concurrency 2, tolerance 0, four sequences; two fail while both are running -/
def c : Cfg := { n := 4, conc := 2, tol := 0 }
def t : List Label := [.top, .acquire, .top, .acquire, .pass, .pass, .finish true, .finish true, .release, .release, .exitExceeded, .joined]
example : (run c {} t).map (fun s => (s.failures, s.started, s.pc, s.early)) = some (2, 2, .exited, true) := by decide
-- the bound tol + conc = 2 is reached: it is tight
example : (run c {} t).map (·.failures) = some 2 := by decide

/-- the Go functions this property's model mirrors still have the shape the model was written against
    (control-flow skeletons regenerated from /repo on every run, Model/Skeletons): executeSequences -/
theorem facts_skeleton :
    Generated.F10.executeSequences = Skeletons.executeSequences := by
  decide

/-- bridge between the two models of the launch loop: the sequential schedule Model/Engine interprets (the
    one compared exactly with the implementation) is a run of Model/Sched (whose invariants hold for every
    schedule), and it ends with the failure count Engine computes -/
theorem engine_schedule_is_sched_run (b : Nat) (tol : Int) (qs : List Engine.MSeq) (conc : Nat) (hc : 1 ≤ conc) :
    ∃ s', Sched.run { n := qs.length, conc := conc, tol := tol } {} (SchedEngine.seqLabels tol (qs.map Engine.seqOk) 0) = some s' ∧
      s'.pc = .exited ∧ s'.failures = (Engine.runSeqs b tol qs 0).2 :=
  SchedEngine.engine_schedule_is_sched_run b tol qs conc hc

/-! ### where the hypothesis `1 ≤ conc` comes from: `Block.Defaults`, translated from workflow.go on every run (T9) -/

/-- Whatever Concurrency a submitted block carries — unset (0) or negative — the block `populate` stores has
    Concurrency ≥ 1, and a Concurrency ≥ 1 is kept as written. -/
theorem translated_defaults_concurrency (newId : Nat) (b : Block) :
    1 ≤ (Generated.T9.blockDefaults newId b).conc ∧ (1 ≤ b.conc → (Generated.T9.blockDefaults newId b).conc = b.conc) := by
  unfold Generated.T9.blockDefaults
  by_cases h : b.conc < 1
  · simp [h]; omega
  · simp [h]; omega

/-- `Defaults` touches nothing else the launch loop reads: tolerance and sequences are the submitted ones -/
theorem translated_defaults_keeps (newId : Nat) (b : Block) :
    (Generated.T9.blockDefaults newId b).tol = b.tol ∧ (Generated.T9.blockDefaults newId b).seqs = b.seqs := by
  unfold Generated.T9.blockDefaults
  by_cases h : b.conc < 1 <;> simp [h]

/-- the launch loop's configuration for a stored block -/
def cfgOf (b : Block) : Cfg := { n := b.seqs.length, conc := b.conc.toNat, tol := b.tol }

/-- C02 for every submitted block, whatever its Concurrency field says: in every reachable state of every schedule of
    the launch loop over the block AS STORED (after Defaults), at most max(1, Concurrency) sequences are in flight. -/
theorem concurrency_bound_of_submitted (newId : Nat) (b : Block) (t : List Label) (s : S)
    (hr : run (cfgOf (Generated.T9.blockDefaults newId b)) {} t = some s) :
    s.running ≤ (if 1 ≤ b.conc then b.conc.toNat else 1) := by
  have hd := translated_defaults_concurrency newId b
  have hc : 1 ≤ (cfgOf (Generated.T9.blockDefaults newId b)).conc := by
    simp only [cfgOf]; omega
  have hb := (concurrency_bound _ hc t s hr).1
  simp only [cfgOf] at hb
  by_cases h : 1 ≤ b.conc
  · simp only [h, ite_true]; rw [hd.2 h] at hb; exact hb
  · simp only [h, ite_false]
    have : (Generated.T9.blockDefaults newId b).conc = 1 := by
      unfold Generated.T9.blockDefaults
      have h' : b.conc < 1 := by omega
      simp [h']
    rw [this] at hb; simpa using hb

example : (Generated.T9.blockDefaults 7 { conc := -3, tol := 2 }).conc = 1 := by decide

end Coercion.C02
