import CoercionModel.Model.Builder
import CoercionModel.Proofs.BuilderRef
import CoercionModel.Model.SkeletonsMore
import CoercionModel.Generated.F12
import CoercionModel.Proofs.TranslatedBuilder
set_option linter.unusedSimpArgs false
/-
  C20 — Builder yields the described plan or a sticky first error; never panics.

  `Builder.step` mirrors every method of builder.go (Model/Builder.lean). Tie: harness/c20_test.go —
  exact differential of per-call results (error class / panic) and of the emitted plan on random call
  histories (valid-biased and misuse streams).
  History: on the pinned tree `NoPanic_Full` was refuted (D16: AddAction(nil) dereferenced nil; D17: a
  failed Reset left an empty chain and the next call panicked). Both were repaired by `fix:` commits
  (f31c9f0, 1a67d5b), the model follows the repaired code and the full statement is now proved.
-/
namespace Coercion.C20
open Coercion Coercion.Builder

def isReset : Call → Bool
  | .reset .. => true
  | _ => false

/-- (1) Sticky first error: once a misuse has been recorded (and the plan not emitted), every later
    call other than Reset returns that same error and changes nothing. -/
theorem sticky (s : B) (e : ErrClass) (c : Call) (he : s.err = some e) (hne : s.emitted = false)
    (hr : isReset c = false) : step s c = (s, .err e) := by
  cases c <;> simp_all [step, Builder.pre, isReset]

/-- … for whole histories: all results are that error, the builder (and the plan in it) is unchanged. -/
theorem sticky_run (s : B) (e : ErrClass) (cs : List Call) (he : s.err = some e) (hne : s.emitted = false)
    (hr : ∀ c ∈ cs, isReset c = false) :
    (run s cs).1 = s ∧ ∀ r ∈ (run s cs).2, (match r with | .err e' => e' = e | _ => False) := by
  induction cs with
  | nil => simp [run]
  | cons c cs ih =>
    have h1 := sticky s e c he hne (hr c (by simp))
    have ih' := ih (fun c hc => hr c (by simp [hc]))
    simp only [run, h1, isPanic]
    simp [ih'.1]
    exact ih'.2

/-- what counts as "using the builder" after emission (Err() is a query, not a use) -/
def isUse : Call → Bool
  | .err => false
  | .reset .. => false
  | _ => true

/-- (2) Use after emission: every Add*/Up/Plan call after the plan was emitted is refused with the
    use-after-emit error and leaves the emitted plan untouched. -/
theorem after_emit (s : B) (c : Call) (hem : s.emitted = true) (hu : isUse c = true) :
    (step s c).2 matches .err .afterEmit ∧ (step s c).1.plan = s.plan ∧ (step s c).1.emitted = true := by
  cases c <;> simp_all [step, Builder.pre, isUse, fail]

/-- (3) A refused call never changes the plan under construction (nothing is silently added). -/
theorem refused_keeps_plan (s : B) (c : Call) (e : ErrClass) (hr : isReset c = false)
    (h : (step s c).2 matches .err e) : (step s c).1.plan = s.plan := by
  cases c <;> simp only [step, Builder.pre, fail, isReset] at * <;> (repeat' split) <;> simp_all

/-- well-formed position: the chain is non-empty and points into the tree -/
def WF (s : B) : Prop :=
  match s.pos with
  | none => s.err.isSome = true ∧ s.emitted = false     -- empty chain only after a failed Reset, with its error recorded
  | some .plan | some (.planGroup _) => True
  | some .block | some (.blockGroup _) | some .seq => s.plan.blocks ≠ []

@[simp] theorem modLast_eq_nil {α} (f : α → α) (l : List α) : modLast f l = [] ↔ l = [] := by
  match l with
  | [] => simp [modLast]
  | [x] => simp [modLast]
  | x :: y :: r => simp [modLast]

theorem step_wf (s : B) (c : Call) (h : WF s) :
    WF (step s c).1 ∧ isPanic (step s c).2 = false := by
  cases hp : s.pos with
  | none =>
    have hh : s.err.isSome = true ∧ s.emitted = false := by simpa [WF, hp] using h
    obtain ⟨e, he⟩ := Option.isSome_iff_exists.mp hh.1
    cases hr : isReset c with
    | false =>
      rw [sticky s e c he hh.2 hr]
      exact ⟨h, rfl⟩
    | true =>
      cases c <;> simp [isReset] at hr
      rename_i bl n d g
      cases bl <;> cases g <;> simp [step, WF, isPanic]
      rename_i g
      by_cases hg : g = 0 <;> simp [hg]
  | some p =>
    cases c <;> cases p <;> simp only [step, Builder.pre, fail] <;> (repeat' split) <;>
      simp_all [WF, isPanic, Plan.modLastBlock]

/-- (4) No call history panics, from any builder `New` can return — with nil arguments, blank names,
    failed Resets, use after emission, anything. -/
theorem no_panic (s : B) (cs : List Call) (h : WF s) :
    ∀ r ∈ (run s cs).2, isPanic r = false := by
  induction cs generalizing s with
  | nil => simp [run]
  | cons c cs ih =>
    have h1 := step_wf s c h
    simp only [run]
    generalize hst : step s c = st at h1
    obtain ⟨s', r⟩ := st
    simp only at h1
    simp only [h1.2, Bool.false_eq_true, ite_false]
    intro r' hr'
    simp only [List.mem_cons] at hr'
    rcases hr' with rfl | hr'
    · exact h1.2
    · exact ih s' h1.1 r' hr'

theorem new_wf (bl : Bool) (n d : String) (g : Option Nat) (s : B) (h : new bl n d g = some s) : WF s := by
  cases bl
  · cases g with
    | none => simp [new, step] at h; subst h; simp [WF]
    | some g => by_cases hg : g = 0 <;> simp [new, step, hg] at h; subst h; simp [WF]
  · simp [new, step] at h

/-! ### (5) equivalence with direct construction

  The reference (`Proofs/BuilderRef`): a stack of OPEN objects; a child is attached to its parent only
  when it is closed — every object is complete before it is placed, as in a hand-written literal. The
  Go builder links the child first and keeps mutating it through the chain; the two agree on every
  accepted history, and the histories the reference has no meaning for are exactly the refused ones. -/

/-- `New(name, descr)` starts both in the same place -/
theorem new_is_reference_start (n d : String) : new false n d none = some (absB { plan := { name := n, descr := d } }) := by
  simp [new, step, absB, finish, posOf]

/-- any history of constructing calls the reference accepts, followed by `Plan()`: every call returns
    nil error and `Plan()` returns exactly the hierarchy the reference built (nothing dropped, nothing
    misplaced) -/
theorem equals_direct_construction (z z' : Z) (cs : List Call) (hw : ZWF z) (h : zrun z cs = some z') :
    (run (absB z) (cs ++ [.plan])).2 = cs.map (fun _ => Ret.ok) ++ [.planOut (finish z')] := by
  rw [sim_run cs z z' hw h]

/-- the first call the reference has no meaning for (wrong level, duplicate group, missing field, nil
    argument, Up from the root) is reported as an error, and every later call other than Reset —
    `Plan()` included — keeps returning that same error -/
theorem first_misuse_sticks (z z' : Z) (good rest : List Call) (bad : Call) (hw : ZWF z)
    (hg : zrun z good = some z') (hc : isCtor bad = true) (hb : zstep z' bad = none)
    (hr : ∀ c ∈ rest, isReset c = false) :
    ∃ e, (run (absB z) (good ++ bad :: rest)).2 = good.map (fun _ => Ret.ok) ++ Ret.err e :: rest.map (fun _ => Ret.err e) := by
  have key : ∀ (good : List Call) (z : Z), ZWF z → zrun z good = some z' →
      ∃ e, (run (absB z) (good ++ bad :: rest)).2 = good.map (fun _ => Ret.ok) ++ Ret.err e :: rest.map (fun _ => Ret.err e) := by
    intro good
    induction good with
    | nil =>
      intro z hw hg
      simp [zrun] at hg
      subst hg
      obtain ⟨e, he⟩ := rejected_call_errors z bad hw hc hb
      refine ⟨e, ?_⟩
      simp only [List.nil_append, run, he, isPanic, List.map_nil]
      have hs : ∀ (rest : List Call), (∀ c ∈ rest, isReset c = false) →
          (run { absB z with err := some e } rest).2 = rest.map (fun _ => Ret.err e) := by
        intro rest
        induction rest with
        | nil => intro _; simp [run]
        | cons c cs ih =>
          intro hr
          have h1 := sticky { absB z with err := some e } e c rfl rfl (hr c (by simp))
          simp only [run, h1, isPanic, List.map_cons]
          rw [ih (fun c hc => hr c (by simp [hc]))]
          simp
      simp [hs rest hr]
    | cons c cs ih =>
      intro z hw hg
      simp only [zrun] at hg
      cases h1 : zstep z c with
      | none => simp [h1] at hg
      | some z1 =>
        simp [h1] at hg
        obtain ⟨hs, hw1⟩ := sim_step z z1 c hw h1
        obtain ⟨e, he⟩ := ih z1 hw1 hg
        refine ⟨e, ?_⟩
        simp only [List.cons_append, run, hs, isPanic, List.map_cons]
        rw [he]
        simp
  exact key good z hw hg

/-- regression witnesses for the two repaired defects: these histories used to panic -/
example : (run {} [.addAction none]).2.all (fun r => !isPanic r) = true := by decide
example : (run {} [.reset true "" "d" none, .addBlock { name := "b", descr := "b" }, .plan]).2.all (fun r => !isPanic r) = true := by
  decide

/-! ### non-vacuity: a history that builds a two-level plan, then a misuse that sticks -/
def exCalls : List Call :=
  [.addChecks (some .pre) (some ({ actions := [{ name := "c1", descr := "d", plugin := "p" }] }, false)), .up,
   .addBlock { name := "b1", descr := "d", conc := 2 },
   .addSequence (some { name := "s1", descr := "d" }), .addAction (some { name := "a1", descr := "d", plugin := "p" }),
   .up, .addChecks (some .post) (some ({}, false)), .addAction (some { name := "c2", descr := "d", plugin := "p" }),
   .up, .up]

example : ((run {} exCalls).1.plan.blocks.map (fun b => (b.name, b.seqs.map (fun q => (q.name, q.actions.map (·.name))),
    b.post.map (fun c => c.actions.map (·.name))))) = [("b1", [("s1", ["a1"])], some ["c2"])] := by decide
example : (run {} (exCalls ++ [.up, .addBlock { name := "b2", descr := "d" }, .err])).2.drop 10
    |>.all (fun r => match r with | .err .upFromRoot => true | _ => false) := by decide

/-- non-vacuity: the example history is accepted by the reference, which builds the same two-level plan -/
example : ((zrun {} exCalls).map (fun z => (finish z).blocks.map (fun b => (b.name, b.seqs.map (fun q => (q.name, q.actions.map (·.name))),
    b.post.map (fun c => c.actions.map (·.name)))))).getD [] = [("b1", [("s1", ["a1"])], some ["c2"])] := by decide
example : ((zrun {} exCalls).bind (zstep · .up)).isNone = true := by decide

set_option maxRecDepth 100000 in
/-- the code this property's model mirrors still has the shape the model was written against (control-flow
    skeletons regenerated from /repo on every run, Model/SkeletonsMore) -/
theorem facts_model_skeleton : Generated.F12.builder = SkeletonsMore.builder := by rfl

/-! ### translated code: the builder's methods, regenerated from builder.go on every run (Generated/T3.lean) -/

theorem wf_hasBlock (s : B) (h : WF s) : TranslatedBuilder.HasBlock s := by
  unfold WF at h
  unfold TranslatedBuilder.HasBlock
  cases hp : s.pos with
  | none => trivial
  | some p => cases p <;> simp_all

/-- every chain method of the Go builder, translated, is the model's step for that call (AddChecks on every
    well-formed state; the others on every state) — so the theorems above are about the code's own translation -/
theorem translated_builder (s : B) (h : WF s) :
    Generated.T3.up s = step s .up ∧ Generated.T3.plan s = step s .plan ∧
    (∀ a, Generated.T3.addBlock s a = step s (.addBlock a)) ∧
    (∀ q, Generated.T3.addSequence s q = step s (.addSequence q)) ∧
    (∀ a, Generated.T3.addAction s a = step s (.addAction a)) ∧
    (∀ k c, Generated.T3.addChecks s k (c.map (·.1)) ((c.map (·.2)).getD false) = step s (.addChecks k c)) :=
  ⟨TranslatedBuilder.up_eq s, TranslatedBuilder.plan_eq s, TranslatedBuilder.addBlock_eq s, TranslatedBuilder.addSequence_eq s,
   TranslatedBuilder.addAction_eq s, fun k c => TranslatedBuilder.addChecks_eq s k c (wf_hasBlock s h)⟩

end Coercion.C20
