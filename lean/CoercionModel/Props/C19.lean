import CoercionModel.Proofs.Walk
import CoercionModel.Generated.F5
/-
  C19 — Walk visits every object once, in execution order, with its ancestors; stops at once.

  `Walk.run cons p` is the model of `walk.Plan(p)` driven by an arbitrary consumer `cons`
  (Model/Walk.lean mirrors walk.go statement by statement); `Walk.specPlan p` is the independent
  specification: the execution order written as a plain recursive enumeration, each item carrying
  the ids of its ancestors.  Tie to the code: harness/c19.go (exact differential on random shapes and
  every stop position) and fact F5 (order of field visits in walk.go).
-/
namespace Coercion.C19
open Coercion Coercion.Walk

/-- Every consumer, whatever its stopping rule, receives exactly the prefix of the specified order
    up to and including the item at which it stops, and the walker never yields after a stop. -/
theorem any_consumer (cons : Cons) (p : Plan) :
    (run cons p).out = takeCons cons [] (specPlan p) ∧ (run cons p).bad = false := by
  have h := emit_live cons (specPlan p) {} rfl
  simp only [run, walkPlan_eq]
  simpa using h

/-- A consumer that never stops receives the whole specified order. -/
theorem walk_spec (p : Plan) : all p = specPlan p := by
  have h := (any_consumer (fun _ => true) p).1
  simpa [all, takeCons_true] using h

/-- Every early-stop position: a consumer that stops at its k-th item (k ≥ 1) has received exactly
    the first k items, nothing more. -/
theorem stop (p : Plan) (k : Nat) (hk : 1 ≤ k) :
    (run (stopAt k) p).out = (all p).take k ∧ (run (stopAt k) p).bad = false := by
  have h := any_consumer (stopAt k) p
  refine ⟨?_, h.2⟩
  rw [h.1, walk_spec, takeCons_stopAt k [] _ (by simp; omega)]
  simp

/-- The walk starts with the plan itself, with an empty chain. -/
theorem head_is_plan (p : Plan) : (all p).head? = some ⟨.plan, p.id, []⟩ := by
  simp [walk_spec, specPlan]

/-- Number of items = number of objects (each object yields exactly one item). -/
def countChecks : Option Checks → Nat
  | none => 0
  | some c => 1 + c.actions.length
def countBlock (b : Block) : Nat :=
  1 + countChecks b.bypass + countChecks b.pre + countChecks b.cont +
    (b.seqs.map (fun q => 1 + q.actions.length)).sum + countChecks b.post + countChecks b.deferred
def countPlan (p : Plan) : Nat :=
  1 + countChecks p.bypass + countChecks p.pre + countChecks p.cont +
    (p.blocks.map countBlock).sum + countChecks p.post + countChecks p.deferred

theorem specOpt_length (ch : List Nat) (o : Option Checks) : (specOpt ch o).length = countChecks o := by
  cases o <;> simp [specOpt, specChecks, countChecks]; omega

theorem specBlock_length (ch : List Nat) (b : Block) : (specBlock ch b).length = countBlock b := by
  have hs : ∀ (l : List Sequence) (c : List Nat),
      (l.flatMap (specSequence c)).length = (l.map (fun q => 1 + q.actions.length)).sum := by
    intro l c
    induction l with
    | nil => rfl
    | cons q l ih => simp [specSequence, ih]; omega
  simp [specBlock, specOpt_length, hs, countBlock]; omega

theorem count (p : Plan) : (all p).length = countPlan p := by
  have hb : ∀ (l : List Block) (c : List Nat),
      (l.flatMap (specBlock c)).length = (l.map countBlock).sum := by
    intro l c
    induction l with
    | nil => rfl
    | cons q l ih => simp [specBlock_length, ih]
  simp [walk_spec, specPlan, specOpt_length, hb, countPlan]; omega

/-- Tie to the source (fact F5, regenerated from walk.go on every run): the fields are visited in the
    order the model uses. -/
theorem facts_walk_order :
    Generated.F5.planOrder = planFieldOrder ∧ Generated.F5.blockOrder = blockFieldOrder := by decide

/-! ### non-vacuity: a concrete plan with absent groups, an empty action list and two blocks -/
def ex : Plan :=
  { id := 1,
    pre := some { id := 2, actions := [{ id := 3 }] },
    blocks := [ { id := 4, cont := some { id := 5, actions := [] },
                  seqs := [ { id := 6, actions := [{ id := 7 }, { id := 8 }] } ] },
                { id := 9, seqs := [ { id := 10, actions := [{ id := 11 }] } ],
                  deferred := some { id := 12, actions := [{ id := 13 }] } } ],
    deferred := some { id := 14, actions := [{ id := 15 }] } }

example : (all ex).map (·.id) = [1,2,3,4,5,6,7,8,9,10,11,12,13,14,15] := by decide
example : ((all ex).map (·.chain))[7]! = [1,4,6] := by decide
example : (run (stopAt 5) ex).out.map (·.id) = [1,2,3,4,5] := by decide

end Coercion.C19
