import CoercionModel.Proofs.Walk
import CoercionModel.Proofs.WalkChain
import CoercionModel.Generated.F5
import CoercionModel.Model.SkeletonsMore
import CoercionModel.Generated.F12
import CoercionModel.Proofs.TranslatedWalk
/-
  C19 — Walk visits every object once, in execution order, with its ancestors; stops at once.

  `Walk.run cons p` is the model of `walk.Plan(p)` driven by an arbitrary consumer `cons`
  (Model/Walk.lean mirrors walk.go statement by statement); `Walk.specPlan p` is the independent
  specification: the execution order written as a plain recursive enumeration, each item carrying
  the ids of its ancestors.  Tie to the code: harness/c19.go (exact differential on random shapes and
  every stop position) and fact F5 (order of field visits in walk.go).
-/
namespace Coercion.C19
open Coercion Coercion.Walk

/-- Every consumer, whatever its stopping rule, receives exactly the prefix of the specified order
    up to and including the item at which it stops, and the walker never yields after a stop. -/
theorem any_consumer (cons : Cons) (p : Plan) :
    (run cons p).out = takeCons cons [] (specPlan p) ∧ (run cons p).bad = false := by
  have h := emit_live cons (specPlan p) {} rfl
  simp only [run, walkPlan_eq]
  simpa using h

/-- A consumer that never stops receives the whole specified order. -/
theorem walk_spec (p : Plan) : all p = specPlan p := by
  have h := (any_consumer (fun _ => true) p).1
  simpa [all, takeCons_true] using h

/-- Every early-stop position: a consumer that stops at its k-th item (k ≥ 1) has received exactly
    the first k items, nothing more. -/
theorem stop (p : Plan) (k : Nat) (hk : 1 ≤ k) :
    (run (stopAt k) p).out = (all p).take k ∧ (run (stopAt k) p).bad = false := by
  have h := any_consumer (stopAt k) p
  refine ⟨?_, h.2⟩
  rw [h.1, walk_spec, takeCons_stopAt k [] _ (by simp; omega)]
  simp

/-- The walk starts with the plan itself, with an empty chain. -/
theorem head_is_plan (p : Plan) : (all p).head? = some ⟨.plan, p.id, []⟩ := by
  simp [walk_spec, specPlan]

/-- Number of items = number of objects (each object yields exactly one item). -/
def countChecks : Option Checks → Nat
  | none => 0
  | some c => 1 + c.actions.length
def countBlock (b : Block) : Nat :=
  1 + countChecks b.bypass + countChecks b.pre + countChecks b.cont +
    (b.seqs.map (fun q => 1 + q.actions.length)).sum + countChecks b.post + countChecks b.deferred
def countPlan (p : Plan) : Nat :=
  1 + countChecks p.bypass + countChecks p.pre + countChecks p.cont +
    (p.blocks.map countBlock).sum + countChecks p.post + countChecks p.deferred

theorem specOpt_length (ch : List Nat) (o : Option Checks) : (specOpt ch o).length = countChecks o := by
  cases o <;> simp [specOpt, specChecks, countChecks]; omega

theorem specBlock_length (ch : List Nat) (b : Block) : (specBlock ch b).length = countBlock b := by
  have hs : ∀ (l : List Sequence) (c : List Nat),
      (l.flatMap (specSequence c)).length = (l.map (fun q => 1 + q.actions.length)).sum := by
    intro l c
    induction l with
    | nil => rfl
    | cons q l ih => simp [specSequence, ih]; omega
  simp [specBlock, specOpt_length, hs, countBlock]; omega

theorem count (p : Plan) : (all p).length = countPlan p := by
  have hb : ∀ (l : List Block) (c : List Nat),
      (l.flatMap (specBlock c)).length = (l.map countBlock).sum := by
    intro l c
    induction l with
    | nil => rfl
    | cons q l ih => simp [specBlock_length, ih]
  simp [walk_spec, specPlan, specOpt_length, hb, countPlan]; omega

/-- Tie to the source (fact F5, regenerated from walk.go on every run): the fields are visited in the
    order the model uses. -/
theorem facts_walk_order :
    Generated.F5.planOrder = planFieldOrder ∧ Generated.F5.blockOrder = blockFieldOrder := by decide

/-- Ancestors: every item other than the plan comes after its parent, and its chain is exactly its
    parent's chain followed by the parent — so every chain is the path from the plan down to the parent. -/
theorem parent_precedes (p : Plan) (l1 : List Item) (it : Item) (l2 : List Item) (h : all p = l1 ++ it :: l2) :
    it.chain = [] ∨ ∃ par ∈ l1, it.chain = par.chain ++ [par.id] := by
  have := closed_split (specPlan p) [] l1 it l2 (closed_specPlan p) (by rw [← walk_spec]; exact h)
  simpa [HasParentIn] using this

/-- … and only the plan itself has the empty chain: every other chain starts at the plan. -/
theorem chains_rooted (p : Plan) : ∀ it ∈ (all p).tail, it.chain.head? = some p.id := by
  intro it h
  simp only [walk_spec, specPlan, List.tail_cons, List.mem_append, List.mem_flatMap] at h
  have ho : ∀ (ch : List Nat) (o : Option Checks) (x : Item), ch.head? = some p.id → x ∈ specOpt ch o → x.chain.head? = some p.id := by
    intro ch o x hch hx
    cases o with
    | none => simp [specOpt] at hx
    | some c =>
      simp only [specOpt, specChecks, List.mem_cons, List.mem_map] at hx
      rcases hx with rfl | ⟨a, _, rfl⟩
      · exact hch
      · cases ch <;> simp_all
  have hq : ∀ (ch : List Nat) (q : Sequence) (x : Item), ch.head? = some p.id → x ∈ specSequence ch q → x.chain.head? = some p.id := by
    intro ch q x hch hx
    simp only [specSequence, List.mem_cons, List.mem_map] at hx
    rcases hx with rfl | ⟨a, _, rfl⟩
    · exact hch
    · cases ch <;> simp_all
  have hb : ∀ (b : Block) (x : Item), x ∈ specBlock [p.id] b → x.chain.head? = some p.id := by
    intro b x hx
    simp only [specBlock, List.mem_cons, List.mem_append, List.mem_flatMap] at hx
    rcases hx with rfl | ((((hx | hx) | hx) | ⟨q, _, hx⟩) | hx) | hx
    · rfl
    all_goals first | exact ho _ _ _ (by simp) hx | exact hq _ _ _ (by simp) hx
  rcases h with ((((h | h) | h) | ⟨b, _, h⟩) | h) | h
  all_goals first | exact ho _ _ _ (by simp) h | exact hb _ _ h

/-- Read backwards the walk is children-first: in the reversed order (the order of the engine's final
    flush since fix 05cb03a) the parent of every item comes after it. -/
theorem reverse_is_children_first (p : Plan) (l1 : List Item) (it : Item) (l2 : List Item) (h : (all p).reverse = l1 ++ it :: l2) :
    it.chain = [] ∨ ∃ par ∈ l2, it.chain = par.chain ++ [par.id] := by
  have h' : all p = l2.reverse ++ it :: l1.reverse := by
    have := congrArg List.reverse h
    simpa using this
  rcases parent_precedes p _ it _ h' with h0 | ⟨par, hp, hc⟩
  · exact .inl h0
  · exact .inr ⟨par, by simpa using hp, hc⟩

/-! ### non-vacuity: a concrete plan with absent groups, an empty action list and two blocks -/
def ex : Plan :=
  { id := 1,
    pre := some { id := 2, actions := [{ id := 3 }] },
    blocks := [ { id := 4, cont := some { id := 5, actions := [] },
                  seqs := [ { id := 6, actions := [{ id := 7 }, { id := 8 }] } ] },
                { id := 9, seqs := [ { id := 10, actions := [{ id := 11 }] } ],
                  deferred := some { id := 12, actions := [{ id := 13 }] } } ],
    deferred := some { id := 14, actions := [{ id := 15 }] } }

example : (all ex).map (·.id) = [1,2,3,4,5,6,7,8,9,10,11,12,13,14,15] := by decide
example : ((all ex).map (·.chain))[7]! = [1,4,6] := by decide
example : (run (stopAt 5) ex).out.map (·.id) = [1,2,3,4,5] := by decide

set_option maxRecDepth 100000 in
/-- the code this property's model mirrors still has the shape the model was written against (control-flow
    skeletons regenerated from /repo on every run, Model/SkeletonsMore) -/
theorem facts_model_skeleton : Generated.F12.walk = SkeletonsMore.walk := by rfl

/-! ### translated code: walk.go itself, regenerated on every run (Generated/T2.lean) -/

/-- the walker translated from walk.go is the model the theorems above are about -/
theorem translated_walk (cons : Cons) (p : Plan) : Generated.T2.walkPlan cons p = walkPlan cons p :=
  TranslatedWalk.walkPlan_eq cons p

/-- … so the main theorem holds of the translated code directly: every consumer receives exactly the prefix of
    the specified order up to its stop, and the walker never yields after a stop -/
theorem translated_any_consumer (cons : Cons) (p : Plan) :
    (Generated.T2.walkPlan cons p {}).2.out = takeCons cons [] (specPlan p) ∧ (Generated.T2.walkPlan cons p {}).2.bad = false := by
  rw [translated_walk]
  exact any_consumer cons p

end Coercion.C19
