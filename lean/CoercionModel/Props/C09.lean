import CoercionModel.Model.Fix
import CoercionModel.Model.Attempts
import CoercionModel.Model.Skeletons
import CoercionModel.Generated.F10
import CoercionModel.Proofs.FixFull
import CoercionModel.Proofs.Translated
import CoercionModel.Proofs.TranslatedPlan
import CoercionModel.Proofs.FixPlan
set_option linter.unusedSimpArgs false
/-
  C09 — After a crash, durably finished work is never executed again.

  Theorems over Model/Fix (every stored action / sequence image, including unreachable ones): the
  repair never touches a terminal action or sequence; a Running action with a durable (ended) attempt
  becomes Completed or Failed according to that attempt and keeps it; hence an action is handed to its
  plugin after a restart only if it was NotStarted or in flight without a durable result; running a
  terminal action invokes nothing (Attempts.runTerminal).
  Tie: harness/crash_test.go — for EVERY prefix of the durable write sequence of recorded executions
  (and second cuts inside recoveries) a fresh store is built and a new Workstream recovers it; monitors
  C09.* compare the plugin calls of the recovery with the durable image at the cut.
-/
namespace Coercion.C09
open Coercion Coercion.Fix

/-- terminal (and NotStarted) actions are left exactly as stored -/
theorem fixAction_only_running (a : Action) (h : a.status ≠ .running) : fixAction a = a := by
  simp [fixAction, h]

/-- the repair never leaves an action Running -/
theorem fixAction_not_running (a : Action) (h : a.status = .running) : (fixAction a).status ≠ .running := by
  simp only [fixAction, h, ne_eq, not_true_eq_false, ite_false]
  split
  · simp [resetAction]
  · split <;> simp

/-- A Running action whose last ended attempt succeeded becomes Completed (and one whose last ended
    attempt failed becomes Failed): its durable result decides, it is not run again. -/
theorem fixAction_durable (a : Action) (h : a.status = .running) (last : Attempt)
    (hl : (dropUnended a.attempts).getLast? = some last) :
    (fixAction a).status = (if last.err == .none then .completed else .failed) ∧
    (fixAction a).attempts = dropUnended a.attempts := by
  simp only [fixAction, h, ne_eq, not_true_eq_false, ite_false, hl]
  split <;> simp_all

/-- Only actions that were NotStarted, or in flight without any ended attempt, are invoked again. -/
theorem invoked_only_without_durable_result (a : Action) (h : willInvoke a = true) : durableResult a = false := by
  simp only [willInvoke, durableResult] at *
  by_cases hr : a.status = .running
  · have hnr := fixAction_not_running a hr
    cases hd : (dropUnended a.attempts).getLast? with
    | none =>
      have : dropUnended a.attempts = [] := by simpa using hd
      simp [hr, this]
    | some last =>
      have := (fixAction_durable a hr last hd).1
      rw [this] at h
      split at h <;> simp at h
  · rw [fixAction_only_running a hr] at h
    cases hs : a.status <;> simp_all

/-- A durably Completed action is never invoked again (special case, the one the statement names). -/
theorem completed_never_reinvoked (a : Action) (h : a.status = .completed) : willInvoke a = false := by
  simp [willInvoke, fixAction, h]

/-- … nor is a Running action with a durable successful attempt. -/
theorem running_with_success_never_reinvoked (a : Action) (h : a.status = .running) (last : Attempt)
    (hl : (dropUnended a.attempts).getLast? = some last) : willInvoke a = false := by
  have := (fixAction_durable a h last hl).1
  simp only [willInvoke, this]
  split <;> simp

/-- running a terminal action after recovery writes its state once and calls nothing -/
theorem terminal_action_invokes_nothing (st : Status) (n : Nat) :
    ∀ e ∈ Attempts.runTerminal st n, ∀ k, e ≠ .enter k := by
  simp [Attempts.runTerminal]

/-- durably Completed / Failed sequences are left exactly as stored (execSeq then returns at once) -/
theorem fixSeq_only_running (q : Sequence) (h : q.status ≠ .running) : fixSeq q = q := by
  simp [fixSeq, h]

/-! ### non-vacuity -/
def att (err : ErrKind) (e : Nat) : Attempt := { err := err, tStart := 1, tEnd := e }
example : (fixAction { status := .running, attempts := [att .transient 2, att .none 0] }).status = .failed := by decide
example : (fixAction { status := .running, attempts := [att .transient 2, att .none 4] }).status = .completed := by decide
example : (fixAction { status := .running, attempts := [att .none 0] }).status = .notStarted := by decide
example : willInvoke { status := .running, attempts := [att .none 0] } = true := by decide
example : (fixSeq { status := .running, actions := [{ status := .completed }, { status := .running, attempts := [att .none 3] }] }).status = .completed := by
  decide

/-! ### the repair functions over every input state (Model/FixFull; tied to the code function by function) -/

/-- without Stopped actions (nothing in the engine produces Stopped) the code's `fixSeq`, modelled over
    every state by `fixSeqFull`, is `Model/Fix.fixSeq` up to the End time it stamps -/
theorem fixSeqFull_eq_fixSeq (now : Nat) (q : Sequence) (h : q.actions.any (·.status == .stopped) = false) :
    { Fix.fixSeqFull now q with tEnd := (fixSeq q).tEnd } = fixSeq q :=
  Fix.fixSeqFull_eq_fixSeq now q h

/-- the repair never turns an action Stopped -/
theorem fixAction_not_stopped (a : Action) (h : a.status ≠ .stopped) : (fixAction a).status ≠ .stopped :=
  Fix.fixAction_not_stopped a h

/-- a Running check group is reset together with all its actions (they are run again from scratch);
    any other group is left alone -/
theorem fixChecks_resets (c : Checks) (h : c.status = .running) :
    (Fix.fixChecks c).status = .notStarted ∧ ∀ a ∈ (Fix.fixChecks c).actions, a.status = .notStarted ∧ a.attempts = [] :=
  Fix.fixChecks_resets c h
theorem fixChecks_only_running (c : Checks) (h : c.status ≠ .running) : Fix.fixChecks c = c :=
  Fix.fixChecks_only_running c h

/-- the Go functions this property's model mirrors still have the shape the model was written against
    (control-flow skeletons regenerated from /repo on every run, Model/Skeletons): fixAction, resetAction, fixSeq, fixChecks -/
theorem facts_skeleton :
    Generated.F10.fixAction = Skeletons.fixAction ∧
    Generated.F10.resetAction = Skeletons.resetAction ∧
    Generated.F10.fixSeq = Skeletons.fixSeq ∧
    Generated.F10.fixChecks = Skeletons.fixChecks := by
  decide

/-! ### translated code (Generated/T1.lean is regenerated from recovery.go by harness/extract/t1.go on every run)

  The hand-written model of the repair equals, function by function, the Lean definitions the translator
  produces from the Go source: if `fixAction`, `resetAction`, `fixChecks` or `fixSeq` change, these
  equalities are re-checked against what the code says now. -/

theorem translated_resetAction (a : Action) : Generated.T1.resetAction a = Fix.resetAction a := Translated.resetAction_eq a
/-- Go's `fixAction` (recursion: drop the last unended attempt, again) with fuel = number of attempts + 1 -/
theorem translated_fixAction (a : Action) : Generated.T1.fixAction (a.attempts.length + 1) a = fixAction a := Translated.fixAction_eq' a
theorem translated_fixChecks (o : Option Checks) : Generated.T1.fixChecksOpt o = o.map Fix.fixChecks := Translated.fixChecksOpt_eq o
/-- Go's `fixSeq` (three loops with counters, `now` = time.Now()) is `fixSeqFull`, hence `fixSeq` whenever nothing is Stopped -/
theorem translated_fixSeq (now : Nat) (q : Sequence) : Generated.T1.fixSeq now q = Fix.fixSeqFull now q := Translated.fixSeq_eq now q

/-! ### block level: `fixBlock` (translated by T6 on every run) repairs AND resumes — what it may execute

`exec` stands for `States.execSeq`. The theorems are about `Generated.T6.fixBlock`, i.e. about what recovery.go says now. -/

/-- the translated `fixBlock` is Model/FixPlan.fixBlockFull -/
theorem translated_fixBlock (exec : Sequence → Sequence × Bool) (now : Nat) (b : Block) :
    Generated.T6.fixBlock exec now b = Fix.fixBlockFull exec now b := Translated.fixBlock_eq exec now b

/-- During the repair of a block `execSeq` is consulted only on sequences that are Running after their own repair:
    two executors that agree on Running sequences give the same block. A sequence with a durable terminal status
    (Completed, Failed, Stopped) or one reset to NotStarted is never executed by the repair. -/
theorem block_repair_executes_only_running (exec exec' : Sequence → Sequence × Bool) (now : Nat) (b : Block)
    (h : ∀ q : Sequence, q.status = .running → exec q = exec' q) :
    Generated.T6.fixBlock exec now b = Generated.T6.fixBlock exec' now b := by
  rw [translated_fixBlock, translated_fixBlock]; exact Fix.fixBlock_exec_only_running exec exec' now b h

/-- a block that is not Running in the store is returned as it is (nothing repaired, nothing executed) -/
theorem block_repair_only_running_blocks (exec : Sequence → Sequence × Bool) (now : Nat) (b : Block) (h : b.status ≠ .running) :
    Generated.T6.fixBlock exec now b = b := by
  rw [translated_fixBlock]; exact Fix.fixBlock_only_running exec now b h

/-- every sequence of the repaired block is the stored one, its repaired-and-resumed image, or that image marked Stopped -/
theorem block_repair_seqs (exec : Sequence → Sequence × Bool) (now : Nat) (b : Block) :
    (Generated.T6.fixBlock exec now b).seqs = b.seqs ∨ (Generated.T6.fixBlock exec now b).seqs = b.seqs.map (Fix.resumeSeq exec now) ∨
      (Generated.T6.fixBlock exec now b).seqs = (b.seqs.map (Fix.resumeSeq exec now)).map Fix.stopRunning := by
  rw [translated_fixBlock]; exact Fix.fixBlock_seqs exec now b

/-- … and the resumed image of a sequence that was not Running in the store is the sequence itself -/
theorem finished_sequence_not_resumed (exec : Sequence → Sequence × Bool) (now : Nat) (q : Sequence) (h : q.status ≠ .running) :
    Fix.resumeSeq exec now q = q := Fix.resumeSeq_untouched exec now q h

/-- non-vacuity: a Running block with one durably Completed and one in-flight sequence — the executor that would
    "fail everything it is given" is consulted for the in-flight one only -/
example :
    let failAll : Sequence → Sequence × Bool := fun q => ({ q with status := .failed }, true)
    let b : Block := { status := .running, seqs := [{ id := 1, status := .completed }, { id := 2, status := .running, actions := [{ status := .running, attempts := [{ tEnd := 0 }] }, { status := .completed, attempts := [{ tEnd := 5 }] }] }] }
    ((Generated.T6.fixBlock failAll 9 b).seqs.map (·.status)) = [.completed, .failed] := by decide

/-- C09 for the repair itself, over the translated code: before `Recovery` resumes a plan, `fixPlan` (and `fixBlock` /
    `fixSeq` / `fixAction` under it) never resets durably finished work. Every action that is Completed in the store is,
    unchanged — same status, same attempts — an action of the same sequence of the same block of the repaired plan, at
    every position, for every plan and every stored state, provided `execSeq` itself keeps Completed actions (which is
    `terminal_action_invokes_nothing` at action level). Seeded change C09-H (reset every sequence of a block whose
    counters are zero) is exactly a violation of this statement. -/
theorem plan_repair_keeps_completed_work (exec : Sequence → Sequence × Bool) (hexec : Fix.ExecKeepsCompleted exec) (now : Nat) (p : Plan)
    (i j : Nat) (b : Block) (q : Sequence) (hb : p.blocks[i]? = some b) (hq : b.seqs[j]? = some q)
    (a : Action) (ha : a ∈ q.actions) (hc : a.status = .completed) :
    ∃ b' q', (Generated.T6.fixPlan exec now p).blocks[i]? = some b' ∧ b'.seqs[j]? = some q' ∧ a ∈ q'.actions := by
  rw [Translated.fixPlan_eq]; exact Fix.fixPlan_keeps_completed exec hexec now p i j b q hb hq a ha hc

/-- … and block by block -/
theorem block_repair_keeps_completed_work (exec : Sequence → Sequence × Bool) (hexec : Fix.ExecKeepsCompleted exec) (now : Nat) (b : Block)
    (j : Nat) (q : Sequence) (hq : b.seqs[j]? = some q) (a : Action) (ha : a ∈ q.actions) (hc : a.status = .completed) :
    ∃ q', (Generated.T6.fixBlock exec now b).seqs[j]? = some q' ∧ a ∈ q'.actions := by
  rw [translated_fixBlock]; exact Fix.fixBlock_keeps_completed exec hexec now b j q hq a ha hc

/-- the hypothesis is satisfiable: an executor that completes whatever is left of a sequence keeps its Completed actions -/
example : Fix.ExecKeepsCompleted (fun q => ({ q with status := .completed, actions := q.actions.map (fun a => if a.status == .completed then a else { a with status := .completed }) }, false)) := by
  intro q a ha hc
  simp only [List.mem_map]
  exact ⟨a, ha, by simp [hc]⟩

end Coercion.C09
