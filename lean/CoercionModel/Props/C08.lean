import CoercionModel.Proofs.Attempts
import CoercionModel.Props.C05
import CoercionModel.Model.SkeletonsRest
import CoercionModel.Generated.F14
set_option linter.unusedSimpArgs false
/-
  C08 — Persist-before-act: durable state leads side effects; no visible regress.

  Proved over Model/Attempts (every retry budget, every outcome oracle): in the event sequence of an
  action (durable writes and plugin calls, in order) every plugin call k is preceded by a durable
  write that shows the action Running with at least k attempts — so an action is durably Running
  before its plugin is invoked and each attempt's result is durable before the next attempt begins —
  and the statuses carried by successive writes never leave a terminal status (`noRegress`).
  "Result durable before the next action begins" then follows from C01.sequence_actions_gated (the
  next action is only reached through the terminal write). "Terminal plan state durable before the
  waiter is released" is not an Attempts fact; it is checked on every implementation run by the
  monitors C08.terminal_before_release / C08.flush_before_release (the merged write/plugin log).
  Tie: C05.events differential (exact event sequences) + monitors C08.* on every engine run.
-/
namespace Coercion.C08
open Coercion Coercion.Attempts

/-- scan an action's event list: `ok` stays true as long as every `enter k` is preceded by a write
    with status Running and ≥ k attempts -/
structure Scan where
  running : Bool := false    -- a write carrying Running has been seen
  written : Nat := 0         -- highest attempt count written so far
  ok      : Bool := true
  deriving Repr, DecidableEq

def scanEv (s : Scan) : Ev → Scan
  | .write st n => { s with running := s.running || st == .running, written := max s.written n }
  | .enter k => { s with ok := s.ok && s.running && decide (k ≤ s.written) }
  | .exit _ => s

def persistBeforeAct (evs : List Ev) : Bool := (evs.foldl scanEv {}).ok

theorem scan_evsFor (os : List Outcome) (k n : Nat) (s : Scan) (hr : s.running = true) (hw : k ≤ s.written) (hn : s.written ≤ n)
    (hok : s.ok = true) (hkn : k ≤ n) :
    ((evsFor os k n).foldl scanEv s).ok = true := by
  induction os generalizing k n s with
  | nil => simpa [evsFor] using hok
  | cons o os ih =>
    simp only [evsFor, List.cons_append, List.nil_append, List.foldl_cons, scanEv]
    apply ih
    · simp [hr]
    · simp; omega
    · simp; omega
    · simp [hok, hr, hw]
    · omega

/-- A sequence action: every call k happens after a durable write showing Running with ≥ k attempts. -/
theorem persist_before_invoke (r : Int) (sc : Nat → Outcome) : persistBeforeAct (run r false sc).evs = true := by
  rw [C05.events_shape]
  simp only [persistBeforeAct, List.foldl_cons, List.foldl_append, scanEv]
  have := scan_evsFor (C05.made r sc) 0 0 { running := true, written := 0, ok := true } rfl (Nat.le_refl _) (Nat.le_refl _) rfl (Nat.le_refl _)
  have hb : (Status.running == Status.running) = true := by decide
  simp_all

/-- A check action: `runActionsParallel` writes it Running first (the extra leading write), then the
    same holds. -/
theorem persist_before_invoke_check (r : Int) (sc : Nat → Outcome) :
    persistBeforeAct (.write .running 0 :: (run r true sc).evs) = true := by
  rw [C05.events_shape_check]
  simp only [persistBeforeAct, List.foldl_cons, List.foldl_append, scanEv]
  have := scan_evsFor (C05.made r sc) 0 0 { running := true, written := 0, ok := true } rfl (Nat.le_refl _) (Nat.le_refl _) rfl (Nat.le_refl _)
  have hb : (Status.running == Status.running) = true := by decide
  simp_all

/-- the statuses carried by the writes, in order -/
def writeStatuses : List Ev → List Status
  | [] => []
  | .write st _ :: r => st :: writeStatuses r
  | _ :: r => writeStatuses r

/-- once a terminal status was written, every later write carries the same status -/
def noRegress : List Status → Bool
  | [] => true
  | st :: r => (if st.terminal then r.all (· == st) else true) && noRegress r

theorem writeStatuses_evsFor (os : List Outcome) (k n : Nat) :
    writeStatuses (evsFor os k n) = List.replicate os.length .running := by
  induction os generalizing k n with
  | nil => rfl
  | cons o os ih => simp [evsFor, writeStatuses, ih, List.replicate_succ]

theorem writeStatuses_append (a b : List Ev) : writeStatuses (a ++ b) = writeStatuses a ++ writeStatuses b := by
  induction a with
  | nil => rfl
  | cons e a ih => cases e <;> simp [writeStatuses, ih]

theorem noRegress_running_then (n : Nat) (st : Status) :
    noRegress (List.replicate n .running ++ [st, st]) = true := by
  induction n with
  | zero => cases st <;> decide
  | succ n ih => simp [List.replicate_succ, noRegress, Status.terminal, ih]

/-- No visible regress for a sequence action: Running … Running, then the terminal status, forever. -/
theorem no_regress (r : Int) (sc : Nat → Outcome) : noRegress (writeStatuses (run r false sc).evs) = true := by
  rw [C05.events_shape]
  simp only [writeStatuses, writeStatuses_append, writeStatuses_evsFor]
  have := noRegress_running_then ((C05.made r sc).length + 1) (run r false sc).status
  simpa [List.replicate_succ] using this

/-! ### non-vacuity -/
example : persistBeforeAct [.write .running 0, .enter 0, .exit 0, .write .running 1, .enter 1] = true := by decide
example : persistBeforeAct [.enter 0, .write .running 0] = false := by decide              -- the monitor does fire
example : persistBeforeAct [.write .running 0, .enter 0, .exit 0, .enter 1] = false := by decide
example : noRegress [.running, .completed, .running] = false := by decide

/-- the engine functions this property's model depends on only through their effects (group `actionRest` of
    Model/SkeletonsRest) still have the shape they were read with (regenerated from /repo on every run) -/
theorem facts_skeleton_rest : Generated.F14.actionRest = SkeletonsRest.actionRest := by rfl

end Coercion.C08
