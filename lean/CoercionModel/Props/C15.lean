import CoercionModel.Model.Search
import CoercionModel.Model.SkeletonsCosmos
import CoercionModel.Generated.F11
import CoercionModel.Model.SkeletonsSqlite
import CoercionModel.Generated.F13
set_option linter.unusedSimpArgs false
/-
  C15 — Exists, Search and List answer exactly from stored state and terminate.

  Theorems over Model/Search for all stores and all filters: a row is returned by Search iff it is
  stored and isMatch every filter; results are ordered newest submission first; List returns all rows
  (or the newest `limit`) in that order; every durably Running plan is returned by the status search
  recovery uses; Exists is true exactly for stored ids.
  History: on the pinned tree sqlite Exists was always false (D5), Search by ids/group ids was a SQL
  syntax error (D6), several statuses were AND-ed (D7), List never closed its stream and released its
  connection early (D8) — all repaired by `fix:` commits; the model is the repaired query builder.
  Tie: harness/c15_test.go — stores of 0-8 plans x all filter shapes, limits, present/absent/deleted
  ids against the real sqlite vault; result id lists (ordered) and stream closure compared.
  CosmosDB: the repository's fake client does not evaluate queries (it filters by @ids only), so
  running Search/List against it says nothing; Cosmos C15 is NOT decided (see DESIGN §7).
-/
namespace Coercion.C15
open Coercion Coercion.Search

theorem all_build_iff (f : Filters) (r : Row) : (build f).all (evalPred r) = true ↔ isMatch f r := by
  simp only [build, isMatch]
  cases hi : f.ids <;> cases hg : f.groups <;> cases hs : f.statuses <;>
    simp [evalPred, List.contains_iff_mem]

/-- Search returns exactly the stored plans that match all given filters. -/
theorem search_exact (f : Filters) (store : List Row) (r : Row) :
    r ∈ search f store ↔ (r ∈ store ∧ isMatch f r) := by
  simp only [search, List.mem_mergeSort, List.mem_filter, all_build_iff]

theorem newestFirst_trans (a b c : Row) (h1 : newestFirst a b = true) (h2 : newestFirst b c = true) : newestFirst a c = true := by
  simp only [newestFirst, decide_eq_true_eq] at *; omega

theorem newestFirst_total (a b : Row) : (newestFirst a b || newestFirst b a) = true := by
  simp only [newestFirst, Bool.or_eq_true, decide_eq_true_eq]; omega

/-- … ordered newest submission first. -/
theorem search_sorted (f : Filters) (store : List Row) :
    (search f store).Pairwise (fun a b => b.submit ≤ a.submit) := by
  have := List.pairwise_mergeSort (le := newestFirst) (fun a b c => newestFirst_trans a b c) newestFirst_total
    (store.filter (fun r => (build f).all (evalPred r)))
  simpa [search, newestFirst] using this

/-- nothing is returned twice that was stored once: Search is a permutation of the matching rows -/
theorem search_perm (f : Filters) (store : List Row) :
    (search f store).Perm (store.filter (fun r => (build f).all (evalPred r))) :=
  List.mergeSort_perm _ _

/-- In particular every plan durably Running is returned by the status search crash recovery uses. -/
theorem running_found (store : List Row) (r : Row) (hr : r ∈ store) (hs : r.status = .running) :
    r ∈ search { statuses := [.running] } store := by
  rw [search_exact]
  exact ⟨hr, by simp [isMatch, hs]⟩

/-- List returns all plans newest first, at most `limit` of them when a limit is given. -/
theorem list_spec (limit : Int) (store : List Row) :
    (list limit store).Pairwise (fun a b => b.submit ≤ a.submit) ∧
    (0 < limit → (list limit store).length = min limit.toNat store.length ∧ list limit store = (list 0 store).take limit.toNat) ∧
    (limit ≤ 0 → (list limit store).Perm store) := by
  have hs := List.pairwise_mergeSort (le := newestFirst) (fun a b c => newestFirst_trans a b c) newestFirst_total store
  have hs' : (store.mergeSort newestFirst).Pairwise (fun a b => b.submit ≤ a.submit) := by simpa [newestFirst] using hs
  refine ⟨?_, ?_, ?_⟩
  · simp only [list]; split
    · exact List.Pairwise.sublist (List.take_sublist _ _) hs'
    · exact hs'
  · intro h
    simp [list, h, List.length_mergeSort]
  · intro h
    have : ¬ (0 < limit) := by omega
    simp only [list, this, ite_false]
    exact List.mergeSort_perm _ _

/-- Exists is true exactly for ids that are stored. -/
theorem exists_exact (id : Nat) (store : List Row) : exists_ id store = true ↔ ∃ r ∈ store, r.id = id := by
  simp [exists_]

/-! ### non-vacuity -/
def st : List Row := [⟨1, 7, .running, 30⟩, ⟨2, 7, .completed, 10⟩, ⟨3, 8, .running, 20⟩, ⟨4, 8, .failed, 40⟩]
-- (mergeSort is defined by well-founded recursion and does not reduce under `decide`; the examples go through the theorems)
example : (⟨1, 7, .running, 30⟩ : Row) ∈ search { statuses := [.running, .failed] } st :=
  (search_exact _ _ _).mpr ⟨by decide, by simp [isMatch]⟩
example : (⟨2, 7, .completed, 10⟩ : Row) ∉ search { statuses := [.running, .failed] } st := by
  rw [search_exact]; simp [isMatch]
example : (⟨3, 8, .running, 20⟩ : Row) ∈ search { statuses := [.running] } st := running_found st _ (by decide) rfl
example : (list 2 st).length = 2 := by have := (list_spec 2 st).2.1 (by decide); simpa [st] using this.1

set_option maxRecDepth 100000 in
/-- CosmosDB backend: the functions that implement this property there still have the shape that was read
    against the model (skeletons regenerated from /repo on every run, Model/SkeletonsCosmos). A static tie
    only: the repository's fake Cosmos client cannot judge this part dynamically. -/
theorem facts_cosmos_skeleton : Generated.F11.query = SkeletonsCosmos.query := by rfl

/-- SQLite backend: the functions and the SQL text that implement this property (query) still have the shape that was
    read against the model (regenerated from /repo on every run, Model/SkeletonsSqlite). A static tie on top of the
    dynamic differential: it also sees changes no generated input exercises. -/
theorem facts_sqlite_skeleton : Generated.F13.query = SkeletonsSqlite.query := by rfl

end Coercion.C15
