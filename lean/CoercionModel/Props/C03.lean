import CoercionModel.Proofs.Engine
import CoercionModel.Props.C01
import CoercionModel.Model.Skeletons
import CoercionModel.Generated.F10
import CoercionModel.Proofs.SchedEngine
set_option linter.unusedSimpArgs false
/-
  C03 — Tolerated-failure threshold stops new sequences and decides outcomes.

  Part 1 (this file, Model/Engine, sequential schedule = Concurrency 1): the launch loop records
  exactly the failed sequences it ran, never more than ToleratedFailures+1, and starts nothing after
  the failure that exceeds the tolerance; a block ends Failed exactly when the tolerance was exceeded
  or one of its own checks failed; after a Failed block no later block does anything and the plan
  ends Failed.
  Part 2 (Props/C02.lean, Model/Sched, every schedule): with Concurrency c at most tol+c sequences
  fail and once the threshold is exceeded no further sequence passes its start test.
  Tie: ENG.status differential + monitors C03.* on every run.
-/
namespace Coercion.C03
open Coercion Coercion.Engine

/-- The number of failures the launch loop reports is the number of sequences that ran and failed. -/
theorem failures_counted (b : MBlock) :
    (seqStage true b).2 = (seqStage true b).1.evs.countP isFailedSeq := by
  have := runSeqs_failures b.idx b.tol b.seqs 0
  simpa [seqStage] using this

/-- With Concurrency 1 execution stops exactly at the failure that exceeds the tolerance: never more
    than ToleratedFailures+1 sequences fail. -/
theorem stops_at_threshold (b : MBlock) (ht : 0 ≤ b.tol) : ((seqStage true b).2 : Int) ≤ b.tol + 1 := by
  have := runSeqs_bound b.idx b.tol b.seqs 0 ht (by omega)
  simpa [seqStage] using this

/-- Once the threshold is exceeded, not-yet-started sequences are never started. -/
theorem nothing_started_after_threshold (bi : Nat) (tol : Int) (qs : List MSeq) (f : Nat) (h : exceeded tol f = true) :
    (runSeqs bi tol qs f).1.evs = [] ∧ (runSeqs bi tol qs f).2 = f := by
  cases qs with
  | nil => simp [runSeqs]
  | cons q qs =>
    simp only [runSeqs, h, ite_true]
    have := foldl_idle_evs (fun q => idleSeq q) (by simp) (q :: qs) {}
    simp at this
    simp [this]

/-- A negative tolerance allows every sequence to fail: the threshold is never exceeded. -/
theorem negative_tolerance_never_exceeded (tol : Int) (f : Nat) (h : tol < 0) : exceeded tol f = false := by
  simp [exceeded]; omega

/-- A (non-bypassed) block ends Failed exactly when its failed sequences exceed the tolerance or one
    of its own checks failed (pre / initial cont, post when it ran, deferred); otherwise Completed. -/
theorem block_outcome (b : MBlock) :
    (blkStatus b = .failed ↔
      (blkBypassed b = false ∧ (blkPreOk b = false ∨ blkExceeded b = true ∨ (blkPostRun b = true ∧ optOk b.post = false) ∨ optOk b.deferred = false))) ∧
    (blkStatus b = .failed ∨ blkStatus b = .completed) := by
  unfold blkStatus blkFailed
  cases blkBypassed b <;> cases blkPreOk b <;> cases blkExceeded b <;> cases blkPostRun b <;> cases optOk b.post <;>
    cases optOk b.deferred <;> simp

/-- "exceeded" means what it says: the sequences ran and more of them failed than tolerated. -/
theorem exceeded_iff (b : MBlock) :
    blkExceeded b = true ↔ (blkSeqsRun b = true ∧ 0 ≤ b.tol ∧ b.tol < ((seqStage true b).1.evs.countP isFailedSeq : Nat)) := by
  unfold blkExceeded
  cases h : blkSeqsRun b
  · simp
  · rw [failures_counted]
    simp [exceeded]

theorem final_blocks_failed (byp : Option Bool) (pre cont post dfr : Option (Option Bool)) (h : byp ≠ some true) :
    (final byp pre cont post dfr false).1 = .failed := by
  have : (byp == some true) = false := by simpa using h
  simp only [final, this, Bool.false_eq_true, ite_false]
  rcases pre with _ | _ | _ | _ <;> rcases cont with _ | _ | _ | _ <;> rcases post with _ | _ | _ | _ <;>
    rcases dfr with _ | _ | _ | _ <;> simp

/-- After a Failed block no later block does anything (C01.blocks_in_declared_order: the executed
    prefix ends at the first block that does not complete) and the plan ends Failed. -/
theorem plan_fails_with_block (p : MPlan) (hrun : planBlocksRun p = true) (hfail : (runBlocks p.blocks).2 = false) :
    (runPlan p).status = .failed := by
  have hok : planBlocksOk p = false := by simp [planBlocksOk, hrun, blockStage, hfail]
  have hbyp : planBypassed p = false := by
    simp only [planBlocksRun, Bool.and_eq_true, Bool.not_eq_true'] at hrun; exact hrun.1
  have hbn : p.bypass.map groupOk ≠ some true := by
    simp only [planBypassed, optRan] at hbyp
    cases hb : p.bypass <;> simp_all
  simp only [runPlan, planFinal, hok]
  exact final_blocks_failed _ _ _ _ _ hbn

theorem runBlocks_ok_iff (bs : List MBlock) :
    (runBlocks bs).2 = true ↔ ∀ b ∈ bs, blkStatus b = .completed := by
  induction bs with
  | nil => simp [runBlocks]
  | cons b bs ih =>
    simp only [runBlocks, execBlock, List.mem_cons, forall_eq_or_imp]
    by_cases h : blkStatus b = .completed
    · simp [h, ih]
    · simp [h]

/-! ### non-vacuity -/
def bad : MAction := { idx := 9, script := [{ resp := .none, err := .permanent }] }
def exB : MBlock := { idx := 1, tol := 1, seqs := [{ idx := 2, actions := [bad] }, { idx := 3, actions := [{ idx := 4 }] },
  { idx := 5, actions := [bad] }, { idx := 6, actions := [{ idx := 7 }] }] }
example : (seqStage true exB).2 = 2 ∧ blkExceeded exB = true ∧ blkStatus exB = .failed ∧
    (seqStage true exB).1.evs = [.seq 1 2 false, .seq 1 3 true, .seq 1 5 false] := by decide
example : blkStatus { exB with tol := -1 } = .completed := by decide

/-- the Go functions this property's model mirrors still have the shape the model was written against
    (control-flow skeletons regenerated from /repo on every run, Model/Skeletons): executeSequences -/
theorem facts_skeleton :
    Generated.F10.executeSequences = Skeletons.executeSequences := by
  decide

/-- bridge between the two models of the launch loop: the sequential schedule Model/Engine interprets (the
    one compared exactly with the implementation) is a run of Model/Sched (whose invariants hold for every
    schedule), and it ends with the failure count Engine computes -/
theorem engine_schedule_is_sched_run (b : Nat) (tol : Int) (qs : List Engine.MSeq) (conc : Nat) (hc : 1 ≤ conc) :
    ∃ s', Sched.run { n := qs.length, conc := conc, tol := tol } {} (SchedEngine.seqLabels tol (qs.map Engine.seqOk) 0) = some s' ∧
      s'.pc = .exited ∧ s'.failures = (Engine.runSeqs b tol qs 0).2 :=
  SchedEngine.engine_schedule_is_sched_run b tol qs conc hc

end Coercion.C03
