import CoercionModel.Model.Fix
import CoercionModel.Props.C09
import CoercionModel.Proofs.Flush
import CoercionModel.Generated.F9
import CoercionModel.Model.Skeletons
import CoercionModel.Generated.F10
import CoercionModel.Proofs.TranslatedPreds
import CoercionModel.Proofs.FixIdem
set_option linter.unusedSimpArgs false
/-
  C10 — Recovery converges to the same consistent terminal outcome.

  What is proved (Model/Fix): where `Recovery` goes after the repair is a function of the status
  `fixPlan` derives; when nothing is durably Failed (no Failed pre/post/cont group, no Failed block) and
  the plan was not bypassed, the repaired plan is either reset (fresh `Start`) or resumed through the
  normal routing chain — the chain of Model/Engine, whose theorems (C01–C08) then apply, including
  "deferred checks run" and the outcome rules; the repair itself never leaves a sequence action
  Running (C09).
  Full statement (`DeferredAlwaysRun_Full`: every recovered, non-bypassed plan passes through its
  deferred checks) is REFUTED for the current code (D21): with a durably Failed group or block
  `fixPlan` derives Failed and `Recovery` jumps straight to `End` — deferred checks never run, and
  check actions that were in flight stay Running (D26: `fixChecks` only looks at groups that are
  Running, and groups never are). Both are known findings, not small repairs.
  Repaired by a `fix:` commit: D25 (repairs were kept in memory; a second crash could strand a Running
  sequence under a Completed block).
  D27 (05cb03a): the flush (`writeEverything`) wrote parents before children, one transaction each; a
  crash inside Recovery's flush left a Completed sequence over a Running action. Model/Flush +
  `flush_prefix_safe`: with the children-first order of the repaired code (fact F9) every crash point
  inside a flush leaves storage in a state recovery can still repair; `parents_first_unsafe` is the old order.
  Tie: harness/crash_test.go — every write prefix (and double cuts) recovered for real; monitors C10.*.
-/
namespace Coercion.C10
open Coercion Coercion.Fix

/-- nothing in the durable image is Failed and the plan was not bypassed -/
def NothingFailed (p : PlanSummary) : Prop :=
  p.bypass ≠ some .completed ∧ isFailed p.pre = false ∧ isFailed p.post = false ∧ isFailed p.cont = false ∧
  p.blocks.any (· == .failed) = false

/-- Partial: if nothing is durably Failed, recovery never jumps to `End` with work left: it either
    starts afresh, resumes the normal chain, or the plan was in fact complete (all blocks Completed,
    post and deferred checks done). -/
theorem no_shortcut_when_nothing_failed (p : PlanSummary) (h : NothingFailed p) :
    route (fixPlanStatus p) = .start ∨ route (fixPlanStatus p) = .resume ∨
    (p.blocks.all (· == .completed) = true ∧ isDone p.post = true ∧ isDone p.deferred = true) := by
  obtain ⟨h1, h2, h3, h4, h5⟩ := h
  have hb : (p.bypass == some .completed) = false := by
    cases hbb : p.bypass with
    | none => rfl
    | some st => cases st <;> simp_all
  simp only [fixPlanStatus, hb, h2, h3, h4, h5, Bool.false_eq_true, ite_false]
  split
  · left; rfl
  · split
    · right; right
      rename_i hc
      simp only [Bool.and_eq_true] at hc
      exact ⟨hc.1.1, hc.1.2, hc.2⟩
    · right; left; rfl

/-- the full statement: whenever a recovered plan has deferred checks that did not run yet and was
    not bypassed, recovery does not go straight to `End` -/
def DeferredAlwaysRun_Full : Prop :=
  ∀ p : PlanSummary, p.bypass ≠ some .completed → p.deferred = some .notStarted → route (fixPlanStatus p) ≠ .end_

/-- … is false of the current code (D21): PreChecks durably Failed, DeferredChecks present. -/
theorem deferred_full_refuted : ¬ DeferredAlwaysRun_Full := by
  intro h
  have := h { pre := some .failed, deferred := some .notStarted, blocks := [.notStarted] } (by simp) rfl
  simp [fixPlanStatus, isFailed, route] at this

/-- same for a durably Failed block -/
example : route (fixPlanStatus { deferred := some .notStarted, blocks := [.failed, .notStarted] }) = .end_ := by decide

/-- the repair leaves no sequence action Running (re-export of C09) -/
theorem repaired_actions_not_running (a : Action) (h : a.status = .running) : (fixAction a).status ≠ .running :=
  C09.fixAction_not_running a h

/-- a repaired sequence is Running only if one of its actions completed and none failed: it resumes
    behind its last completed action -/
theorem fixSeq_running_shape (q : Sequence) (h : (fixSeq q).status = .running) (hq : q.status = .running) :
    (q.actions.map fixAction).any (·.status == .failed) = false := by
  simp only [fixSeq, hq, ne_eq, not_true_eq_false, ite_false] at h
  split at h
  · simp at h
  · rename_i hf; simpa using hf

/-! ### crashes inside the flush (Model/Flush) -/

/-- the order in which `writeEverything` issues its writes, read off sm.go on every run: the walk, reversed -/
theorem facts_flush_order : Generated.F9.flushOrder = "reverse-walk" := by decide

/-- … and the reversed walk writes every object before its parent, for every plan -/
theorem flush_is_children_first (p : Plan) : Flush.ChildrenFirst (Flush.flushNodes p) :=
  Flush.flushNodes_childrenFirst p

/-- A crash after ANY prefix of the flush leaves storage Good (nothing Running under a durably final
    parent — the objects recovery never looks at again), provided memory and the previous storage were
    Good, ids are distinct, and durably final objects are not rewritten to something else (C08). -/
theorem flush_prefix_safe (p : Plan) (done rest : List Flush.Node) (mem dur : Flush.Store)
    (hsplit : Flush.flushNodes p = done ++ rest) (hnd : ((Flush.flushNodes p).map (·.id)).Nodup)
    (hm : Flush.Good (Flush.flushNodes p) mem) (hd : Flush.Good (Flush.flushNodes p) dur)
    (hstable : ∀ id, Flush.terminal (dur id) → mem id = dur id) :
    Flush.Good (Flush.flushNodes p) (Flush.after done mem dur) := by
  have hcf := Flush.flushNodes_childrenFirst p
  rw [hsplit] at hcf hnd hm hd ⊢
  exact Flush.prefix_safe done rest mem dur hcf hnd hm hd hstable

/-- the order before the fix (the walk itself, parents first) is refuted by the history of D27: first
    crash with everything Running, repair finishes the action and its sequence in memory, second crash
    after the plan, the block and the sequence have been written -/
theorem parents_first_unsafe :
    Flush.walkNodes Flush.exPlan = Flush.exOrd ∧
    Flush.Good Flush.exOrd Flush.exMem ∧ Flush.Good Flush.exOrd Flush.exDur ∧
    (∀ id, Flush.terminal (Flush.exDur id) → Flush.exMem id = Flush.exDur id) ∧
    ¬ Flush.Good Flush.exOrd (Flush.after (Flush.exOrd.take 3) Flush.exMem Flush.exDur) :=
  ⟨Flush.exOrd_is_walk, Flush.parents_first_unsafe⟩

/-- non-vacuity of `flush_prefix_safe`: the same situation under the repaired order is an instance of its hypotheses -/
example : Flush.flushNodes Flush.exPlan = Flush.exOrd.reverse ∧ ((Flush.flushNodes Flush.exPlan).map (·.id)).Nodup := by decide

/-! ### non-vacuity -/
example : NothingFailed { pre := some .completed, blocks := [.completed, .running, .notStarted] } := by
  simp [NothingFailed, isFailed]
example : route (fixPlanStatus { pre := some .completed, blocks := [.completed, .running, .notStarted] }) = .resume := by decide
example : route (fixPlanStatus { blocks := [.notStarted, .notStarted] }) = .start := by decide

/-- the Go functions this property's model mirrors still have the shape the model was written against
    (control-flow skeletons regenerated from /repo on every run, Model/Skeletons): recovery -/
theorem facts_skeleton :
    Generated.F10.recovery = Skeletons.recovery := by
  decide

/-- the predicates `fixPlan` uses on check groups, translated from recovery.go on every run, are the ones
    `fixPlanStatus` is written with -/
theorem translated_checksFailed (o : Option Checks) : Generated.T1.checksFailedOpt o = isFailed (o.map (·.status)) := Translated.checksFailed_eq o
theorem translated_checksCompleted (o : Option Checks) : Generated.T1.checksCompletedOpt o = isDone (o.map (·.status)) := Translated.checksCompleted_eq o

/-! ### a second recovery: the repair is idempotent -/

/-- repairing a repaired object changes nothing — what a later recovery (after a crash during or after
    the first one, fix da35c40 persists the repair) computes from the first one's result is that result -/
theorem repair_idempotent_action (a : Action) : fixAction (fixAction a) = fixAction a := Fix.fixAction_idem a
theorem repair_idempotent_checks (c : Checks) : Fix.fixChecks (Fix.fixChecks c) = Fix.fixChecks c := Fix.fixChecks_idem c
theorem repair_idempotent_sequence (now now' : Nat) (q : Sequence) :
    Fix.fixSeqFull now' (Fix.fixSeqFull now q) = Fix.fixSeqFull now q := Fix.fixSeqFull_idem now now' q

/-! ### known finding D26, as a theorem about the (translated) repair -/

/-- `fixChecks` only touches groups whose own status is Running — and `runChecksOnce` never sets a group's status
    to Running — so a check action that was in flight at the crash is left Running by the repair (it is only
    cleaned up if the group happens to be run again): the full statement "the repair leaves nothing Running" is
    refuted for check groups by this witness. With `C09.translated_fixChecks` this is a statement about
    recovery.go's own translation. -/
def d26Witness : Checks := { status := .notStarted, actions := [{ status := .running, tStart := 3 }] }
theorem check_action_inflight_not_repaired :
    d26Witness.status ≠ .running ∧ (Fix.fixChecks d26Witness).actions.any (·.status == .running) = true := by
  decide

/-! ### plan level: `fixPlan` as translated from recovery.go on every run (T6) -/

/-- the translated `fixPlan` is Model/FixPlan.fixPlanFull -/
theorem translated_fixPlan (exec : Sequence → Sequence × Bool) (now : Nat) (p : Plan) :
    Generated.T6.fixPlan exec now p = Fix.fixPlanFull exec now p := Translated.fixPlan_eq exec now p

/-- The status the translated `fixPlan` leaves on a Running plan is `fixPlanStatus` of the stored group statuses and
    the statuses of the repaired blocks — so every `PlanSummary` theorem above (where Recovery goes, the refutation
    of "deferred checks always run") is a statement about the code as it is now. Hypothesis: no block comes out
    Stopped (nothing in the engine produces Stopped; with one the plan is Stopped, `translated_fixPlan`). -/
theorem translated_fixPlan_status (exec : Sequence → Sequence × Bool) (now : Nat) (p : Plan) (hr : p.status = .running)
    (hs : (Fix.fixBlocksUntilStopped exec now p.blocks).2 = false) :
    (Generated.T6.fixPlan exec now p).status = fixPlanStatus (Fix.summaryOf exec now p) := by
  rw [translated_fixPlan]; exact Fix.fixPlan_status_is_summary exec now p hr hs

/-- a plan that is not Running in the store is not touched by the repair -/
theorem plan_repair_only_running (exec : Sequence → Sequence × Bool) (now : Nat) (p : Plan) (h : p.status ≠ .running) :
    Generated.T6.fixPlan exec now p = p := by
  rw [translated_fixPlan]; simp [Fix.fixPlanFull, h]

/-- known findings D21/D21b on the translated code: a Running plan whose first block is durably Failed and whose
    DeferredChecks never started is routed straight to End (deferred checks never run) -/
example :
    let p : Plan := { status := .running, deferred := some { status := .notStarted }, blocks := [{ status := .failed }, { status := .notStarted }] }
    route (Generated.T6.fixPlan (fun q => (q, false)) 7 p).status = .end_ := by decide

end Coercion.C10
