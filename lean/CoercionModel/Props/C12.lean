import CoercionModel.Model.Api
import CoercionModel.Proofs.ApiFine
import CoercionModel.Generated.F9
import CoercionModel.Model.Skeletons
import CoercionModel.Generated.F10
import CoercionModel.Model.SkeletonsRest
import CoercionModel.Generated.F14
import CoercionModel.Generated.T10
import CoercionModel.Model.SkeletonsGlue
import CoercionModel.Generated.F15
set_option linter.unusedSimpArgs false
/-
  C12 — A plan executes at most once; repeated or racing Start is rejected safely.

  Theorems over Model/Api for every interleaving of Start calls (each atomic under the mutex added by
  the fix for D10), engine steps, ageing and read-only calls on one plan id: at most one state machine
  body is ever spawned; a Start on a plan that is executing, has finished, or whose submission is too
  old is rejected and changes nothing; read-only calls change nothing.
  History: before the fix the model had a non-atomic Start (read … validate … register) and the full
  statement was refuted by the run [read₁, read₂, spawn₁, spawn₂] (D10: double execution, then
  `close of nil channel`); Status on an unknown id dereferenced a nil State because sqlite Read
  returned an empty plan (D11 via D4); Submit panicked on nil plans/children (D24). All repaired by
  `fix:` commits.
  "Never panics or exits" cannot be a theorem about this model; it is checked on the implementation:
  API-call histories (sequential and concurrent, known and unknown ids) run in a child process whose
  death is reported (harness/c12_test.go).
-/
namespace Coercion.C12
open Coercion Coercion.Api

def Inv (s : S) : Prop :=
  s.execs ≤ 1 ∧ (s.execs = 0 ↔ (s.stored = .notStarted ∧ s.waiter = false)) ∧
  (s.waiter = true → s.stored = .notStarted ∨ s.stored = .running)

theorem inv_init : Inv {} := by simp [Inv]

theorem startable_iff (s : S) : startable s = true ↔ (s.stored = .notStarted ∧ s.stale = false ∧ s.waiter = false) := by
  simp [startable, and_assoc]

theorem inv_step (s s' : S) (l : Label) (r : Ret) (h : Inv s) (hs : step s l = some (s', r)) : Inv s' := by
  obtain ⟨h1, h2, h3⟩ := h
  cases l <;> simp only [step] at hs
  case start =>
    by_cases hst : startable s = true
    · simp [hst] at hs
      obtain ⟨rfl, _⟩ := hs
      have hh := (startable_iff s).mp hst
      have : s.execs = 0 := h2.mpr ⟨hh.1, hh.2.2⟩
      simp [Inv, this, hh.1]
    · simp [hst] at hs
      obtain ⟨rfl, _⟩ := hs
      exact ⟨h1, h2, h3⟩
  case ages => simp at hs; obtain ⟨rfl, _⟩ := hs; exact ⟨h1, h2, h3⟩
  case engineRunning =>
    by_cases hg : s.waiter = true ∧ s.stored = .notStarted
    · simp [hg] at hs
      obtain ⟨rfl, _⟩ := hs
      refine ⟨h1, ?_, by simp⟩
      simp only [hg.1]
      constructor
      · intro h0; have := (h2.mp h0).2; simp [hg.1] at this
      · intro hh; simp at hh
    · simp [hg] at hs
  case engineFinish ok =>
    by_cases hg : s.waiter = true ∧ s.stored = .running
    · simp [hg] at hs
      obtain ⟨rfl, _⟩ := hs
      refine ⟨h1, ?_, by simp⟩
      constructor
      · intro h0; have := (h2.mp h0).1; simp [hg.2] at this
      · intro hh; cases ok <;> simp at hh
    · simp [hg] at hs
  case wait => simp at hs; obtain ⟨rfl, _⟩ := hs; exact ⟨h1, h2, h3⟩
  case status => simp at hs; obtain ⟨rfl, _⟩ := hs; exact ⟨h1, h2, h3⟩
  case plan => simp at hs; obtain ⟨rfl, _⟩ := hs; exact ⟨h1, h2, h3⟩

theorem inv_run (t : List Label) (s s' : S) (h : Inv s) (hr : run s t = some s') : Inv s' := by
  induction t generalizing s with
  | nil => simp [run] at hr; subst hr; exact h
  | cons l t ih =>
    simp only [run] at hr
    cases hs : step s l with
    | none => simp [hs] at hr
    | some p => obtain ⟨s1, r⟩ := p; rw [hs] at hr; exact ih s1 (inv_step s s1 l r h hs) hr

/-- A submitted plan is executed at most once, under every interleaving of any number of Start calls
    with the engine's own steps. -/
theorem at_most_once (t : List Label) (s : S) (hr : run {} t = some s) : s.execs ≤ 1 :=
  (inv_run t {} s inv_init hr).1

/-- Starting a plan that is already running or has finished is rejected without side effects. -/
theorem second_start_rejected (t : List Label) (s : S) (hr : run {} t = some s) (h : 1 ≤ s.execs) :
    step s .start = some (s, .rejected) := by
  obtain ⟨h1, h2, h3⟩ := inv_run t {} s inv_init hr
  have hne : ¬ (s.stored = .notStarted ∧ s.waiter = false) := fun hh => by have := h2.mpr hh; omega
  have : startable s = false := by
    cases hst : startable s with
    | false => rfl
    | true => have hh := (startable_iff s).mp hst; exact absurd ⟨hh.1, hh.2.2⟩ hne
  simp [step, this]

/-- A plan whose submission is older than the configured maximum cannot be started. -/
theorem stale_not_startable (s : S) (h : s.stale = true) : step s .start = some (s, .rejected) := by
  simp [step, startable, h]

/-- staleness is permanent -/
theorem stale_stable (s s' : S) (l : Label) (r : Ret) (hs : step s l = some (s', r)) (h : s.stale = true) : s'.stale = true := by
  cases l <;> simp only [step] at hs <;> (try split at hs) <;> simp at hs <;> obtain ⟨rfl, _⟩ := hs <;> simp [h]

/-- read-only calls change nothing -/
theorem reads_change_nothing (s : S) : step s .wait = some (s, .none) ∧ step s .status = some (s, .none) ∧ step s .plan = some (s, .none) := by
  simp [step]

/-! ### Start at the granularity of its shared accesses (Model/ApiFine)

  `Model/Api` takes `Start` as one step. That hid defect D28: between the storage read and the waiter
  lookup of one Start the engine can run a short plan to its end. `ApiFine` splits Start (lock, waiter
  lookup, storage read, decide) and the engine (Running write, terminal write, waiter release). -/

/-- the order of the accesses in `Start`, the synchronous registration of the waiter and its deferred
    release, read off execute.go on every run, are the ones the model has -/
theorem facts_start_order :
    Generated.F9.startOrder = ApiFine.startOrder ∧ Generated.F9.registerBeforeSpawn = true ∧ Generated.F9.releaseDeferred = true := by
  decide

/-- with the waiter looked up BEFORE storage is read (the code, a8f2a16) a plan is executed at most once
    under every interleaving of the sub-steps of any number of Starts with the engine's steps -/
theorem at_most_once_fine (t : List ApiFine.Label) (s : ApiFine.S) (hr : ApiFine.run .waiterFirst {} t = some s) : s.execs ≤ 1 :=
  (ApiFine.inv_run t {} s ApiFine.inv_init hr).le1

/-- with storage read first (the order the first repair had) the history of D28 executes the plan twice -/
theorem read_first_unsafe : ∃ t s, ApiFine.run .readFirst {} t = some s ∧ s.execs = 2 := by
  have h := ApiFine.d28_readFirst
  cases hr : ApiFine.run .readFirst {} ApiFine.d28 with
  | none => simp [hr] at h
  | some s => exact ⟨ApiFine.d28, s, hr, by simpa [hr] using h⟩

/-- at the access level too, a Start on a plan that has been executed is refused — at its waiter lookup
    while the plan runs, at its decision once it has finished — and a stale read is refused -/
theorem fine_start_on_executed_rejected (s : ApiFine.S) (st : Status) (stl : Bool) (h : ApiFine.Inv s) (he : s.execs = 1)
    (hp : s.pc = .haveRead st stl) : ApiFine.step .waiterFirst s .decide = some ({ s with pc := .idle }, .rejected) :=
  ApiFine.decide_rejects_executed s st stl h he hp
theorem fine_start_on_running_rejected (s : ApiFine.S) (hw : s.waiter = true) (hp : s.pc = .entered) :
    ApiFine.step .waiterFirst s .lookWaiter = some ({ s with pc := .idle }, .rejected) :=
  ApiFine.lookup_rejects_running s hw hp
theorem fine_stale_rejected (s : ApiFine.S) (st : Status) (hp : s.pc = .haveRead st true) :
    ApiFine.step .waiterFirst s .decide = some ({ s with pc := .idle }, .rejected) :=
  ApiFine.decide_rejects_stale s st hp

/-! ### non-vacuity: two racing Starts, the engine, a third Start after the end -/
example : (run {} [.start, .start, .engineRunning, .start, .engineFinish true, .start]).map (fun s => (s.execs, s.stored, s.waiter)) =
    some (1, .completed, false) := by decide

/-- the Go functions this property's model mirrors still have the shape the model was written against
    (control-flow skeletons regenerated from /repo on every run, Model/Skeletons): plansStart, runPlan -/
theorem facts_skeleton :
    Generated.F10.plansStart = Skeletons.plansStart ∧
    Generated.F10.runPlan = Skeletons.runPlan := by
  decide

/-- the engine functions this property's model depends on only through their effects (group `apiRest` of
    Model/SkeletonsRest) still have the shape they were read with (regenerated from /repo on every run) -/
theorem facts_skeleton_rest : Generated.F14.apiRest = SkeletonsRest.apiRest := by rfl

/-! ### the guard of `Start`'s decision, translated from execute.go on every run (translator T10)

The models (`Api.startable`, the `.decide` step of `ApiFine`) accept a plan iff what was read from storage is NotStarted
and the submission is not stale. In the code that guard is `validateStartState`: a staleness test on the plan and
`validateState` applied to every object of the walk. -/

/-- the translated `validateState` accepts an object iff it is NotStarted with zero Start and End times -/
theorem translated_validateState (st : Status) (tStart tEnd : Nat) :
    Generated.T10.validateStateOk st tStart tEnd = true ↔ (st = .notStarted ∧ tStart = 0 ∧ tEnd = 0) := by
  unfold Generated.T10.validateStateOk
  cases st <;> by_cases h1 : tStart = 0 <;> by_cases h2 : tEnd = 0 <;> simp [h1, h2]

/-- so a plan whose stored status is anything but NotStarted — Running (being executed or crashed), Completed, Failed,
    Stopped — is refused by the guard, whatever else it holds: the `st = .notStarted` conjunct of the models' guard -/
theorem translated_started_plan_refused (st : Status) (tStart tEnd : Nat) (h : st ≠ .notStarted) :
    Generated.T10.validateStateOk st tStart tEnd = false := by
  cases h' : Generated.T10.validateStateOk st tStart tEnd
  · rfl
  · exact absurd ((translated_validateState st tStart tEnd).mp h').1 h

/-- the translated staleness test is the models' `stale` flag: submitted longer than maxSubmit ago (the boundary itself
    is still fresh), and it can only become true as time passes (`stale_stable`) -/
theorem translated_stale (maxSubmit now submit : Nat) :
    Generated.T10.staleSubmission maxSubmit now submit = true ↔ submit + maxSubmit < now := by
  simp [Generated.T10.staleSubmission]

theorem translated_stale_monotone (maxSubmit now now' submit : Nat) (h : now ≤ now')
    (hs : Generated.T10.staleSubmission maxSubmit now submit = true) : Generated.T10.staleSubmission maxSubmit now' submit = true := by
  rw [translated_stale] at hs ⊢; omega

/-- the models' guard, assembled from the translated tests, is `Api.startable` without the waiter conjunct -/
theorem translated_guard_is_startable (s : S) (maxSubmit now submit : Nat)
    (hstale : s.stale = Generated.T10.staleSubmission maxSubmit now submit) (hw : s.waiter = false) :
    startable s = (Generated.T10.validateStateOk s.stored 0 0 && !Generated.T10.staleSubmission maxSubmit now submit) := by
  unfold startable
  rw [← hstale, hw]
  cases hst : s.stored <;> cases s.stale <;> simp [Generated.T10.validateStateOk]

example : Generated.T10.validateStateOk .running 5 0 = false ∧ Generated.T10.staleSubmission 100 1000 900 = false ∧
    Generated.T10.staleSubmission 100 1001 900 = true := by decide

/-- the glue code this property's campaigns rest on (group `apiGlue` of Model/SkeletonsGlue: code no model mirrors) still has
    the shape it was read with (regenerated from /repo on every run) -/
theorem facts_glue_skeleton : Generated.F15.apiGlue = SkeletonsGlue.apiGlue := by rfl

end Coercion.C12
