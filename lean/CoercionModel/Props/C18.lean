import CoercionModel.Model.Clone
import CoercionModel.Generated.F7
import CoercionModel.Model.SkeletonsMore
import CoercionModel.Generated.F12
import CoercionModel.Model.SkeletonsGlue
import CoercionModel.Generated.F15
set_option linter.unusedSimpArgs false
/-
  C18 — Clones are deep, definition-preserving and resubmittable.

  Theorems over Model/Clone for every plan: the clone has exactly the definition of the original
  (names, descriptions, plugin, request, timeout, retries, delays, concurrency, tolerance, group, meta,
  order), with either option; by default the clone *is* its own definition — every engine-owned field
  (id, state, times, reason, submit time, attempts) is zero, which is what Submit's validation demands
  of engine-owned fields (C16.WellFormed) — and with state retention it equals the original up to the
  user keys. Tie: fact F7 (regenerated from clone.go: fields always copied / copied only under
  keepState per clone function, `facts_clone_fields`) + harness/c18_test.go: plans in all execution
  states × the four option combinations, field-by-field comparison, alias scan by reflection (no
  pointer, map or slice backing array shared), mutate-the-clone-observe-the-original, Submit of the
  default clone. "Shares no mutable memory" is an implementation-level clause: checked, not proved.
-/
namespace Coercion.C18
open Coercion Coercion.Clone

theorem defAction_clone (k : Bool) (a : Action) : defAction (action k a) = defAction a := rfl

theorem defAction_comp (k : Bool) : (fun a => defAction (action k a)) = defAction := funext (defAction_clone k)

theorem defChecks_clone (k : Bool) (c : Checks) : defChecks (checks k c) = defChecks c := by
  simp [defChecks, checks, List.map_map, Function.comp_def, defAction_comp]

theorem defSequence_clone (k : Bool) (q : Sequence) : defSequence (sequence k q) = defSequence q := by
  simp [defSequence, sequence, List.map_map, Function.comp_def, defAction_comp]

theorem defChecks_comp (k : Bool) : (fun c => defChecks (checks k c)) = defChecks := funext (defChecks_clone k)
theorem defSequence_comp (k : Bool) : (fun q => defSequence (sequence k q)) = defSequence := funext (defSequence_clone k)

theorem defBlock_clone (k : Bool) (b : Block) : defBlock (block k b) = defBlock b := by
  simp [defBlock, block, Option.map_map, List.map_map, Function.comp_def, defChecks_comp, defSequence_comp]

theorem defBlock_comp (k : Bool) : (fun b => defBlock (block k b)) = defBlock := funext (defBlock_clone k)

/-- Cloning preserves the whole definition, with or without state retention. -/
theorem definition_preserved (k : Bool) (p : Plan) : defPlan (plan k p) = defPlan p := by
  simp [defPlan, plan, Option.map_map, List.map_map, Function.comp_def, defChecks_comp, defBlock_comp]

theorem action_default (a : Action) : action false a = defAction a := rfl
theorem checks_default (c : Checks) : checks false c = defChecks c := by simp [checks, defChecks, action_default]
theorem sequence_default (q : Sequence) : sequence false q = defSequence q := by simp [sequence, defSequence, action_default]
theorem block_default (b : Block) : block false b = defBlock b := by
  have h : checks false = defChecks := funext checks_default
  have h2 : sequence false = defSequence := funext sequence_default
  simp [block, defBlock, h, h2]

/-- By default all engine-owned state is stripped: the clone of any plan — fresh, running, completed
    or failed — is exactly its definition (ids 0, NotStarted, zero times, no attempts, no reason, no
    submit time, no keys), i.e. pristine as Submit requires. -/
theorem default_is_pristine (p : Plan) : plan false p = defPlan p := by
  have h : checks false = defChecks := funext checks_default
  have h2 : block false = defBlock := funext block_default
  simp [plan, defPlan, h, h2]

theorem action_keep (a : Action) : action true a = noKeyAction a := rfl
theorem checks_keep (c : Checks) : checks true c = noKeyChecks c := by simp [checks, noKeyChecks, action_keep]
theorem sequence_keep (q : Sequence) : sequence true q = noKeySequence q := by simp [sequence, noKeySequence, action_keep]
theorem block_keep (b : Block) : block true b = noKeyBlock b := by
  have h : checks true = noKeyChecks := funext checks_keep
  have h2 : sequence true = noKeySequence := funext sequence_keep
  simp [block, noKeyBlock, h, h2]

/-- With state retention ids, statuses, times, reason, submit time and attempts are all preserved:
    the clone equals the original except for the user keys (which are never cloned). -/
theorem keep_state_preserves_everything (p : Plan) : plan true p = noKeyPlan p := by
  have h : checks true = noKeyChecks := funext checks_keep
  have h2 : block true = noKeyBlock := funext block_keep
  simp [plan, noKeyPlan, h, h2]

/-! ### tie to clone.go (fact F7) -/
open Coercion.Generated

def definitionFields : List (String × List String) :=
  [("Plan", ["Name", "Descr", "GroupID", "Meta", "BypassChecks", "PreChecks", "ContChecks", "PostChecks", "DeferredChecks", "Blocks"]),
   ("Checks", ["Delay", "Actions"]),
   ("Block", ["Name", "Descr", "EntranceDelay", "ExitDelay", "Concurrency", "ToleratedFailures", "BypassChecks", "PreChecks", "ContChecks", "PostChecks", "DeferredChecks", "Sequences"]),
   ("Sequence", ["Name", "Descr", "Actions"]),
   ("Action", ["Name", "Descr", "Plugin", "Timeout", "Retries", "Req"])]

def stateFields : List (String × List String) :=
  [("Plan", ["ID", "State", "Reason", "SubmitTime"]), ("Checks", ["ID", "State"]), ("Block", ["ID", "State"]),
   ("Sequence", ["ID", "State"]), ("Action", ["ID", "State", "Attempts"])]

/-- in clone.go every definition field is always copied, every state field is copied under keepState
    and never unconditionally -/
def cloneFieldsOk : Bool :=
  F7.clones.all fun c =>
    ((definitionFields.lookup c.1).getD ["?"]).all (fun f => c.2.1.contains f) &&
    ((stateFields.lookup c.1).getD ["?"]).all (fun f => c.2.2.contains f && !c.2.1.contains f)

theorem facts_clone_fields : cloneFieldsOk = true ∧ F7.clones.map (·.1) = ["Plan", "Checks", "Block", "Sequence", "Action"] := by
  decide

/-! ### non-vacuity -/
def ranAction : Action := { id := 8, name := "a", plugin := "x", req := "r", retries := 2, status := .failed, attempts := [{ err := .permanent, tStart := 5, tEnd := 6 }] }
def ranBlock : Block := { id := 6, key := 77, name := "b", conc := 2, status := .failed, seqs := [{ id := 7, name := "s", status := .failed, actions := [ranAction] }] }
def ran : Plan := { id := 5, name := "p", status := .failed, reason := .block, submit := 3, tStart := 4, tEnd := 9, blocks := [ranBlock] }
example : (plan false ran).blocks.map (fun b => (b.id, b.key, b.status)) = [(0, 0, .notStarted)] := by decide
example : (action false ranAction).attempts = [] ∧ (action false ranAction).retries = 2 ∧ (action false ranAction).id = 0 := by decide
example : plan true ran = noKeyPlan ran ∧ (plan true ran).reason = .block := ⟨keep_state_preserves_everything ran, rfl⟩

set_option maxRecDepth 100000 in
/-- the code this property's model mirrors still has the shape the model was written against (control-flow
    skeletons regenerated from /repo on every run, Model/SkeletonsMore) -/
theorem facts_model_skeleton : Generated.F12.clone = SkeletonsMore.clone := by rfl

/-- the glue code this property's campaigns rest on (group `cloneGlue` of Model/SkeletonsGlue: code no model mirrors) still has
    the shape it was read with (regenerated from /repo on every run) -/
theorem facts_glue_skeleton : Generated.F15.cloneGlue = SkeletonsGlue.cloneGlue := by rfl

end Coercion.C18
