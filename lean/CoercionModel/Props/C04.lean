import CoercionModel.Proofs.Engine
import CoercionModel.Props.C01
import CoercionModel.Props.C02
import CoercionModel.Props.C05
import CoercionModel.Props.C07
import CoercionModel.Model.Skeletons
import CoercionModel.Generated.F10
import CoercionModel.Proofs.TranslatedFinal
import CoercionModel.Proofs.TranslatedFinalChain
import CoercionModel.Proofs.SchedLive
import CoercionModel.Model.SkeletonsGlue
import CoercionModel.Generated.F15
set_option linter.unusedSimpArgs false
/-
  C04 — Wait returns a terminal, quiescent, consistent and truthful final plan.

  What is proved (Model/Engine `final` = finalStates, for all verdict combinations):
    R1 the plan ends Completed or Failed; R3 a Completed plan was bypassed as a whole or has only
    Completed blocks and no failed/never-run check group; R8a the reason is unset exactly when the
    plan Completed; R8b (partial) the reason names a stage that did not pass, and names the stage
    that failed whenever every present group actually ran.
    R4/R5 (shape of Completed/Failed sequences) = C01.sequence_actions_gated; R6 (action Completed iff
    final attempt ok) = C05.completed_iff_last_ok; R7 (start ≤ end on the logical clock) =
    C05.attempt_times; quiescence = C02.joined_quiescent (no worker of a block outlives
    ExecuteSequences) + C07.drained_sees_failure/drain_progress (cont producers have exited when the
    drain ends).
  Full statement of R8 (`ReasonTruthful_Full`) is REFUTED for the current code: a check group that
  never ran is reported as the failed stage (D2: a block fails, plan PostChecks never run, reason =
  PostCheck; D22: ContChecks without PreChecks that never got to run, reason = ContCheck). The unit
  test TestExamineChecks pins this behaviour, so it is a known finding, not a fix.
  Tie: monitors C04.* on the plan returned by Wait, the trace up to the release and a settle window
  after it; ENG.status / ENG.reason differential.
-/
namespace Coercion.C04
open Coercion Coercion.Engine

abbrev V := Option (Option Bool)     -- none: group absent; some none: present, never ran; some (some ok): ran

def passed (v : V) : Bool := match v with
  | none | some (some true) => true
  | _ => false

/-- R1 -/
theorem final_terminal (byp : Option Bool) (pre cont post dfr : V) (bo : Bool) :
    (final byp pre cont post dfr bo).1 = .completed ∨ (final byp pre cont post dfr bo).1 = .failed := by
  simp only [final]
  split
  · simp
  · rcases pre with _ | _ | _ | _ <;> rcases cont with _ | _ | _ | _ <;> rcases post with _ | _ | _ | _ <;>
      rcases dfr with _ | _ | _ | _ <;> cases bo <;> simp

/-- R3: a Completed plan was bypassed as a whole, or all its blocks Completed and no check group
    failed (or was left un-run). -/
theorem completed_consistent (byp : Option Bool) (pre cont post dfr : V) (bo : Bool)
    (h : (final byp pre cont post dfr bo).1 = .completed) :
    byp = some true ∨ (bo = true ∧ passed pre = true ∧ passed cont = true ∧ passed post = true ∧ passed dfr = true) := by
  simp only [final] at h
  split at h
  · rename_i hb; left; simpa using hb
  · right
    rcases pre with _ | _ | _ | _ <;> rcases cont with _ | _ | _ | _ <;> rcases post with _ | _ | _ | _ <;>
      rcases dfr with _ | _ | _ | _ <;> cases bo <;> simp_all [passed]

/-- R8a: the failure reason is unset exactly when the plan Completed. -/
theorem reason_unset_iff_completed (byp : Option Bool) (pre cont post dfr : V) (bo : Bool) :
    (final byp pre cont post dfr bo).2 = .unknown ↔ (final byp pre cont post dfr bo).1 = .completed := by
  simp only [final]
  split
  · simp
  · rcases pre with _ | _ | _ | _ <;> rcases cont with _ | _ | _ | _ <;> rcases post with _ | _ | _ | _ <;>
      rcases dfr with _ | _ | _ | _ <;> cases bo <;> simp

/-- R8b (partial): the reason always names a stage that did *not pass*; the stages before it in the
    order pre, cont, post, deferred, block all passed. -/
theorem reason_names_unpassed_stage (byp : Option Bool) (pre cont post dfr : V) (bo : Bool) (hb : byp ≠ some true) :
    match (final byp pre cont post dfr bo).2 with
    | .preCheck => passed pre = false
    | .contCheck => passed pre = true ∧ passed cont = false
    | .postCheck => passed pre = true ∧ passed cont = true ∧ passed post = false
    | .deferredCheck => passed pre = true ∧ passed cont = true ∧ passed post = true ∧ passed dfr = false
    | .block => passed pre = true ∧ passed cont = true ∧ passed post = true ∧ passed dfr = true ∧ bo = false
    | .unknown => (final byp pre cont post dfr bo).1 = .completed
    | _ => False := by
  have : (byp == some true) = false := by simpa using hb
  simp only [final, this, Bool.false_eq_true, ite_false]
  rcases pre with _ | _ | _ | _ <;> rcases cont with _ | _ | _ | _ <;> rcases post with _ | _ | _ | _ <;>
    rcases dfr with _ | _ | _ | _ <;> cases bo <;> simp [passed]

/-- a stage "actually failed": it ran and its verdict was a failure -/
def failedStage (v : V) : Bool := v == some (some false)

/-- R8b for plans in which every present group actually ran: the reason names the stage that failed. -/
theorem reason_truthful_partial (byp : Option Bool) (pre cont post dfr : V) (bo : Bool) (hb : byp ≠ some true)
    (hran : pre ≠ some none ∧ cont ≠ some none ∧ post ≠ some none ∧ dfr ≠ some none) :
    match (final byp pre cont post dfr bo).2 with
    | .preCheck => failedStage pre = true
    | .contCheck => failedStage cont = true
    | .postCheck => failedStage post = true
    | .deferredCheck => failedStage dfr = true
    | .block => bo = false
    | _ => True := by
  have : (byp == some true) = false := by simpa using hb
  simp only [final, this, Bool.false_eq_true, ite_false]
  obtain ⟨h1, h2, h3, h4⟩ := hran
  rcases pre with _ | _ | _ | _ <;> rcases cont with _ | _ | _ | _ <;> rcases post with _ | _ | _ | _ <;>
    rcases dfr with _ | _ | _ | _ <;> cases bo <;> simp_all [failedStage]

/-- the full statement: whenever the plan Failed, the reason names a stage that actually failed -/
def ReasonTruthful_Full : Prop :=
  ∀ (byp : Option Bool) (pre cont post dfr : V) (bo : Bool), byp ≠ some true →
    match (final byp pre cont post dfr bo).2 with
    | .preCheck => failedStage pre = true
    | .contCheck => failedStage cont = true
    | .postCheck => failedStage post = true
    | .deferredCheck => failedStage dfr = true
    | .block => bo = false
    | _ => True

/-- … is false of the current code (D2): a block failed, the plan's PostChecks never ran, and the
    reason says PostCheck. -/
theorem reason_full_refuted : ¬ ReasonTruthful_Full := by
  intro h
  have := h none none none (some none) none false (by simp)
  simp [final, failedStage] at this

/-- the witness is a real plan of the model: one failing block and a PostChecks group -/
def bad : MAction := { idx := 9, script := [{ resp := .none, err := .permanent }] }
def d2 : MPlan := { blocks := [{ idx := 1, seqs := [{ idx := 2, actions := [bad] }] }], post := some { idx := 3, actions := [{ idx := 4 }] } }
example : (runPlan d2).status = .failed ∧ (runPlan d2).reason = .postCheck ∧
    (runPlan d2).out.evs = [.seq 1 2 false, .blockEnd 1 .failed] := by decide

/-- R4/R5 (re-export): a sequence's actions are Completed* · (Failed · untouched*)? -/
theorem sequences_shape (as : List MAction) : C01.seqShape (runSeqActs as).1 = true :=
  (C01.sequence_actions_gated as).1

/-- quiescence (re-export): when ExecuteSequences is left no worker of the block remains -/
theorem workers_joined (c : Sched.Cfg) (s s' : Sched.S) (hs : Sched.step c s .joined = some s') :
    s'.queued = 0 ∧ s'.running = 0 ∧ s'.exiting = 0 := (C02.joined_quiescent c s s' hs).2

/-- the Go functions this property's model mirrors still have the shape the model was written against
    (control-flow skeletons regenerated from /repo on every run, Model/Skeletons): examineChecks, examineBypasses, smEnd -/
theorem facts_skeleton :
    Generated.F10.examineChecks = Skeletons.examineChecks ∧
    Generated.F10.examineBypasses = Skeletons.examineBypasses ∧
    Generated.F10.smEnd = Skeletons.smEnd := by
  decide

/-- translated from final.go on every run: `examineChecks` on [pre, cont, post, deferred] names the first
    group that is present and not Completed, with that stage's reason — the chain `Model/Engine.final` is
    written with (this is also where D2 comes from: a group that never ran is "not Completed") -/
theorem translated_examineChecks (pre cont post dfr : Option Checks) :
    Generated.T1.examineChecks [pre, cont, post, dfr] =
      (match Engine.final none (TranslatedFinal.verdictOf pre) (TranslatedFinal.verdictOf cont) (TranslatedFinal.verdictOf post)
          (TranslatedFinal.verdictOf dfr) true with
       | (.failed, r) => (r, true)
       | _ => (.unknown, false)) :=
  TranslatedFinal.examineChecks_eq pre cont post dfr

/-! ### "without hanging": the launch loop (Model/Sched) cannot get stuck and cannot run forever -/

/-- deadlock freedom: in every reachable state of the launch loop that has not left the loop, some step — of the
    loop or of a worker — is enabled (the limiter being full means a worker holds a slot and can move) -/
theorem launch_loop_never_stuck (c : Sched.Cfg) (hc : 1 ≤ c.conc) (t : List Sched.Label) (s : Sched.S)
    (hr : Sched.run c {} t = some s) (hp : s.pc ≠ .exited) : ∃ l, (Sched.step c s l).isSome = true :=
  Sched.reachable_not_stuck c hc t s hr hp

/-- termination: every schedule of the launch loop has at most 5·n + 3 steps (n = sequences of the block); with
    plugin calls that return or are abandoned at their timeout, `ExecuteSequences` therefore returns -/
theorem launch_loop_terminates (c : Sched.Cfg) (t : List Sched.Label) (s : Sched.S) (hr : Sched.run c {} t = some s) :
    t.length ≤ 5 * c.n + 3 :=
  Sched.every_run_is_short c t s hr

/-- The whole `finalStates` machine (start → bypassChecks → planChecks → blocks → end of final.go), translated state by
    state on every run (translator T7, Generated/T7.lean) and run as statemachine.Run runs it (stop on req.Err or on a nil
    req.Next), leaves on the plan exactly the status `Model/Engine.final` computes from what the machine looks at — the
    bypass group, the four check groups, the block statuses — and, when that status is Failed, the reason `final` names.
    So R8 (status and reason are a function of the recorded object states, `final_truthful` etc.) is a statement about
    the current source of final.go, not only about the hand-written chain. -/
theorem translated_finalStates (p : Plan) :
    (Generated.T7.run 6 .start p).1.status =
      (Engine.final (TranslatedFinal.bypassVerdict p) (TranslatedFinal.verdictOf p.pre) (TranslatedFinal.verdictOf p.cont)
        (TranslatedFinal.verdictOf p.post) (TranslatedFinal.verdictOf p.deferred) (TranslatedFinal.blocksOk p)).1 ∧
    ((Generated.T7.run 6 .start p).1.status = .failed →
      (Generated.T7.run 6 .start p).1.reason =
        (Engine.final (TranslatedFinal.bypassVerdict p) (TranslatedFinal.verdictOf p.pre) (TranslatedFinal.verdictOf p.cont)
          (TranslatedFinal.verdictOf p.post) (TranslatedFinal.verdictOf p.deferred) (TranslatedFinal.blocksOk p)).2) :=
  TranslatedFinal.finalStates_eq p

/-- the translated machine always terminates within its fuel: it never reports the out-of-fuel value on a plan
    whose final status it derived (6 = the five states + 1) — witnessed on a failing and a completing plan -/
example : (Generated.T7.run 6 .start { blocks := [{ status := .completed }, { status := .failed }] }).1.reason = .block := by decide
example : (Generated.T7.run 6 .start { post := some { status := .completed }, blocks := [{ status := .completed }] }) =
    ({ status := .completed, post := some { status := .completed }, blocks := [{ status := .completed }] }, false) := by decide

/-- the glue code this property's campaigns rest on (group `flushGlue` of Model/SkeletonsGlue: code no model mirrors) still has
    the shape it was read with (regenerated from /repo on every run) -/
theorem facts_glue_skeleton : Generated.F15.flushGlue = SkeletonsGlue.flushGlue := by rfl

end Coercion.C04
