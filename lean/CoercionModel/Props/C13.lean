import CoercionModel.Model.Store
import CoercionModel.Generated.F3
import CoercionModel.Model.SkeletonsCosmos
import CoercionModel.Generated.F11
import CoercionModel.Model.SkeletonsSqlite
import CoercionModel.Generated.F13
import CoercionModel.Model.SkeletonsGlue
import CoercionModel.Generated.F15
set_option linter.unusedSimpArgs false
/-
  C13 — Storage round trip: Read returns exactly what was last written.

  Theorems over the abstract vault Model/Store (all vaults, plans, update sequences): after Create the
  plan reads back with its whole definition; after any sequence of object updates every object reads
  back with the state last written for it and its definition untouched; an id never created, or
  deleted, does not readPlan. The sqlite vault is tied to this specification by
    * fact F3 (regenerated from the sqlite sources on every run): every column written by an INSERT or
      UPDATE is consumed by a reader (`facts_written_columns_are_read`) — the "written but never readPlan"
      detector (D3: `reason`), and UPDATE columns are a subset of INSERT columns;
    * harness/c13_test.go: random plans (zero times, nil/empty meta, nil vs present groups,
      multi-attempt actions with wrapped errors, nanosecond times, typed requests/responses incl.
      pointer-typed responses) and random Create/Update*/Read/Delete histories against the real vault,
      compared field by field with what was last written.
  CosmosDB (over the repository's fake client): Create/Read/Update*/Delete round trips are run through
  the same differential when the `verif` hook is built in; see DESIGN §7 for what the fake cannot show.
-/
namespace Coercion.C13
open Coercion.Store

theorem read_append_new (v : Vault) (p : SPlan) (h : readPlan v p.id = none) : readPlan (v ++ [p]) p.id = some p := by
  simp only [readPlan, List.find?_append] at *
  simp [h]

/-- After a successful Create the plan reads back exactly as created. -/
theorem read_after_create (v : Vault) (p : SPlan) (h : (create v p).2 = true) :
    readPlan (create v p).1 p.id = some p := by
  by_cases he : exists_ v p.id = true
  · simp [create, he] at h
  · by_cases henc : (p.objs.all (·.encodable)) = true
    · have hne : readPlan v p.id = none := by
        simpa [exists_] using he
      simp only [create, he, henc, ite_true, Bool.false_eq_true, ite_false]
      exact read_append_new v p hne
    · simp [create, he, henc] at h

/-- Reading an id that was never created returns nothing (an error, never an empty plan). -/
theorem read_unknown (v : Vault) (id : Nat) (h : ∀ p ∈ v, p.id ≠ id) : readPlan v id = none := by
  simp only [readPlan, List.find?_eq_none]
  intro p hp
  simpa using h p hp

/-- … and so does reading a deleted id. -/
theorem read_deleted (v : Vault) (id : Nat) : readPlan (delete v id) id = none := by
  apply read_unknown
  intro p hp
  simp only [delete, List.mem_filter] at hp
  simpa using hp.2

/-- one update: the object reads back with the new state, every other object is untouched, and no
    definition changes -/
theorem update_obj (oid st : Nat) (o : Obj) :
    (setState oid st o).defn = o.defn ∧ (setState oid st o).id = o.id ∧
    (setState oid st o).state = (if o.id = oid then st else o.state) := by
  simp only [setState]
  by_cases h : o.id = oid <;> simp [h]

theorem read_update (v : Vault) (oid st id : Nat) :
    readPlan (update v oid st) id = (readPlan v id).map (fun p => { p with objs := p.objs.map (setState oid st) }) := by
  simp only [readPlan, update, List.find?_map]
  rfl

/-- After any sequence of updates, Read returns every object with the state last written for it
    (or the created one) and the definition it was created with; the order of objects is preserved. -/
theorem read_after_updates (v : Vault) (us : List (Nat × Nat)) (id : Nat) (p : SPlan) (h : readPlan v id = some p) :
    ∃ p', readPlan (applyAll v us) id = some p' ∧ p'.id = p.id ∧
      p'.objs.map (fun o => (o.id, o.defn)) = p.objs.map (fun o => (o.id, o.defn)) ∧
      p'.objs.map (·.state) = p.objs.map (fun o => lastWritten o.id o.state us) := by
  induction us generalizing v p with
  | nil => exact ⟨p, h, rfl, rfl, by simp [lastWritten]⟩
  | cons u us ih =>
    simp only [applyAll, List.foldl_cons]
    have h1 : readPlan (update v u.1 u.2) id = some { p with objs := p.objs.map (setState u.1 u.2) } := by
      rw [read_update, h]; rfl
    obtain ⟨p', hp', hid, hdef, hst⟩ := ih (update v u.1 u.2) _ h1
    refine ⟨p', hp', hid, ?_, ?_⟩
    · rw [hdef]
      simp only [List.map_map]
      apply List.map_congr_left
      intro o _
      have := update_obj u.1 u.2 o
      simp [this.1, this.2.1]
    · rw [hst]
      simp only [List.map_map]
      apply List.map_congr_left
      intro o _
      have := update_obj u.1 u.2 o
      simp only [Function.comp, this.2.1, this.2.2, lastWritten]
      by_cases hh : o.id = u.1
      · simp [hh]
      · have : (u.1 == o.id) = false := by simpa using fun h' => hh h'.symm
        simp [hh, this]

/-! ### tie to the sqlite sources (fact F3) -/
open Coercion.Generated

def allRead : List String := F3.tables.flatMap (fun t => t.2.2.2)

/-- every column an INSERT or UPDATE writes is consumed by some reader (except `pos`, which only
    orders children), and UPDATEs write only columns the INSERT also writes -/
def writtenColumnsAreRead : Bool :=
  F3.tables.all fun t =>
    (t.2.1 ++ t.2.2.1).all (fun c => c == "pos" || allRead.contains c) && t.2.2.1.all (fun c => t.2.1.contains c)

theorem facts_written_columns_are_read : writtenColumnsAreRead = true := by decide

/-- the five tables are all there and each INSERT writes its object's state columns -/
theorem facts_tables : F3.tables.map (·.1) = ["plans", "blocks", "checks", "sequences", "actions"] ∧
    F3.tables.all (fun t => ["state_status", "state_start", "state_end"].all (fun c => t.2.1.contains c && t.2.2.1.contains c)) = true := by
  decide

/-! ### non-vacuity -/
def p1 : SPlan := ⟨1, [⟨1, 10, 0, true⟩, ⟨2, 20, 0, true⟩, ⟨3, 30, 0, true⟩]⟩
example : (readPlan (applyAll (create [] p1).1 [(2, 5), (3, 7), (2, 9)]) 1).map (fun p => p.objs.map (·.state)) = some [0, 9, 7] := by decide
example : readPlan (delete (create [] p1).1 1) 1 = none := by decide

set_option maxRecDepth 100000 in
/-- CosmosDB backend: the functions that implement this property there still have the shape that was read
    against the model (skeletons regenerated from /repo on every run, Model/SkeletonsCosmos). A static tie
    only: the repository's fake Cosmos client cannot judge this part dynamically. -/
theorem facts_cosmos_skeleton : Generated.F11.roundtrip = SkeletonsCosmos.roundtrip := by rfl

/-- SQLite backend: the functions and the SQL text that implement this property (round trip) still have the shape that was
    read against the model (regenerated from /repo on every run, Model/SkeletonsSqlite). A static tie on top of the
    dynamic differential: it also sees changes no generated input exercises. -/
theorem facts_sqlite_skeleton : Generated.F13.roundtrip = SkeletonsSqlite.roundtrip := by rfl

/-- the glue code this property's campaigns rest on (group `storeGlue` of Model/SkeletonsGlue: code no model mirrors) still has
    the shape it was read with (regenerated from /repo on every run) -/
theorem facts_glue_skeleton : Generated.F15.storeGlue = SkeletonsGlue.storeGlue := by rfl

end Coercion.C13
