import CoercionModel.Proofs.Engine
import CoercionModel.Proofs.EnginePlan
import CoercionModel.Model.Skeletons
import CoercionModel.Generated.F10
import CoercionModel.Model.SkeletonsRest
import CoercionModel.Generated.F14
set_option linter.unusedSimpArgs false
/-
  C01 — Declared order: blocks, then actions of a sequence, each gated on success.

  Theorems over Model/Engine (all plans, all outcome scripts, sequential schedule): the stages of a
  block and of a plan occur in the fixed order bypass ≤ pre ≤ cont(initial) ≤ sequences ≤ post ≤
  deferred ≤ end, so post-checks come after every sequence and deferred checks last; blocks run one
  after another in declared order and stop at the first failed block; inside a sequence an action is
  invoked only after all earlier ones completed; no sequence runs unless the scope's bypass did not
  pass and its pre-checks (+ initial cont run) passed. Schedule-dependent parts (interleaving of the
  sequences of one block) are covered by the trace monitors of harness/monitors_test.go
  (C01.a … C01.e) on every implementation run and by Model/Sched (C02/C03).
  Tie: exact comparison of stage order, verdicts, statuses and call counts with the implementation on
  schedule-independent configurations (harness/engcamp_test.go, clause ENG.stage_order/ENG.calls).
-/
namespace Coercion.C01
open Coercion Coercion.Engine

/-- (d)(e) Inside a block the stages occur in the declared order: bypass, pre, initial cont run,
    sequences, post, deferred, end — whatever is present and whatever fails. In particular the
    post-checks come after every sequence and the deferred checks are the last group of the block. -/
theorem block_stage_order (b : MBlock) :
    ((execBlockR b).evs.map blockRank).Pairwise (· ≤ ·) := by
  have h0 : Upto blockRank 0 (stage true (some b.idx) .bypass b.bypass).evs := by
    have := upto_append blockRank (upto_nil blockRank 0) (Nat.le_refl 0) (seg_stage true (some b.idx) .bypass b.bypass 0 (fun _ _ => rfl))
    simpa using this
  have s6 : Seg blockRank 6 [Ev.blockEnd b.idx (blkStatus b)] := by intro e he; simp at he; subst he; rfl
  rw [execBlockR_evs]
  exact (upto_append blockRank (upto_append blockRank (upto_append blockRank (upto_append blockRank
    (upto_append blockRank (upto_append blockRank h0 (by decide) (seg_stage _ _ _ _ 1 (fun _ _ => rfl))) (by decide) (seg_contStage _ _ _ _))
    (by decide) (seg_seqStage _ _)) (by decide) (seg_stage _ _ _ _ 4 (fun _ _ => rfl))) (by decide) (seg_stage _ _ _ _ 5 (fun _ _ => rfl)))
    (by decide) s6).1

/-- (c) No sequence of a block runs unless its bypass checks did not pass and its pre-checks and the
    initial run of its continuous checks passed. -/
theorem sequences_gated (b : MBlock) (bi q : Nat) (ok : Bool) (h : Ev.seq bi q ok ∈ (execBlockR b).evs) :
    optRan b.bypass = false ∧ (∀ pre, b.pre = some pre → groupOk pre = true ∧ optOk b.cont = true) := by
  rw [execBlockR_evs] at h
  simp only [List.mem_append, List.mem_singleton] at h
  have hrun : blkSeqsRun b = true := by
    rcases h with (((((h | h) | h) | h) | h) | h) | h
    · obtain ⟨_, _, _, h⟩ := mem_stage h; cases h
    · obtain ⟨_, _, _, h⟩ := mem_stage h; cases h
    · obtain ⟨_, _, _, _, h⟩ := mem_contStage h; cases h
    · exact (mem_seqStage h).1
    · obtain ⟨_, _, _, h⟩ := mem_stage h; cases h
    · obtain ⟨_, _, _, h⟩ := mem_stage h; cases h
    · cases h
  simp only [blkSeqsRun, blkBypassed, blkPreOk, Bool.and_eq_true, Bool.not_eq_true'] at hrun
  refine ⟨hrun.1, ?_⟩
  intro pre hp
  rw [hp] at hrun
  simpa using hrun.2

/-- (b) Inside a sequence: an action is invoked only after every earlier action completed; after the
    first failure nothing of the sequence is touched. `seqShape` = completed* · (failed · untouched*)?. -/
def seqShape : List Obj → Bool
  | [] => true
  | o :: os => if o.status == .completed then seqShape os
               else os.all (fun o => o.status == .notStarted && o.calls == 0)

theorem sequence_actions_gated (as : List MAction) :
    seqShape (runSeqActs as).1 = true ∧
    ((runSeqActs as).2 = true ↔ (runSeqActs as).1.all (fun o => o.status == .completed) = true) := by
  induction as with
  | nil => simp [runSeqActs, seqShape]
  | cons a as ih =>
    simp only [runSeqActs]
    split
    · rename_i h
      simp only [seqShape, h, ite_true, List.all_cons, Bool.true_and]
      exact ih
    · rename_i h
      have h' : (runAct false a).status ≠ .completed := by simpa using h
      simp [seqShape, h', List.all_map]

/-- the executed prefix of a block list: up to and including the first block that does not complete -/
def executed : List MBlock → List MBlock
  | [] => []
  | b :: bs => if (execBlock b).2 == .completed then b :: executed bs else [b]

/-- (a) Blocks run one after another in declared order, and nothing of a later block happens after a
    block failed: the plan's block events are the concatenation of the executed blocks' events. -/
theorem blocks_in_declared_order (bs : List MBlock) :
    (runBlocks bs).1.evs = (executed bs).flatMap (fun b => (execBlock b).1.evs) := by
  induction bs with
  | nil => simp [runBlocks, executed]
  | cons b bs ih =>
    simp only [runBlocks, executed]
    split
    · simp [ih]
    · have := foldl_idle_evs (fun b => idleBlock b) (by simp) bs {}
      simp [this]

/-- … and a block's events all carry that block's index (so the segments cannot be confused). -/
def evBlock : Ev → Option Nat
  | .group sc _ _ _ => sc
  | .seq b _ _ => some b
  | .blockEnd b _ => some b

theorem block_events_scoped (b : MBlock) : ∀ e ∈ (execBlock b).1.evs, evBlock e = some b.idx := by
  intro e he
  simp only [execBlock] at he
  rw [execBlockR_evs] at he
  simp only [List.mem_append, List.mem_singleton] at he
  rcases he with (((((h | h) | h) | h) | h) | h) | h
  · obtain ⟨_, _, _, rfl⟩ := mem_stage h; rfl
  · obtain ⟨_, _, _, rfl⟩ := mem_stage h; rfl
  · obtain ⟨_, _, _, _, rfl⟩ := mem_contStage h; rfl
  · obtain ⟨_, _, _, rfl⟩ := mem_seqStage h; rfl
  · obtain ⟨_, _, _, rfl⟩ := mem_stage h; rfl
  · obtain ⟨_, _, _, rfl⟩ := mem_stage h; rfl
  · subst h; rfl

/-! ### the plan level (Proofs/EnginePlan) -/

/-- the plan's stages occur in the order bypass, pre-checks, initial continuous run, blocks (every event
    of every block), post-checks, deferred checks: post-checks only after all blocks and sequences,
    deferred checks last -/
theorem plan_stage_order (p : MPlan) : ((runPlan p).out.evs.map planRank).Pairwise (· ≤ ·) :=
  Engine.plan_stage_order p

/-- nothing of any block happens unless the plan's bypass did not pass and its pre-checks (and the
    initial continuous run) passed -/
theorem blocks_gated (p : MPlan) (e : Ev) (he : e ∈ (blockStage (planBlocksRun p) p).1.evs) :
    planBypassed p = false ∧ planPreOk p = true :=
  Engine.blocks_gated p e he

/-! ### non-vacuity -/
def exPlan : MPlan :=
  { pre := some { idx := 20, actions := [{ idx := 21 }] }, post := some { idx := 30, actions := [{ idx := 31 }] },
    deferred := some { idx := 32, actions := [{ idx := 33 }] },
    blocks := [{ idx := 1, seqs := [{ idx := 4, actions := [{ idx := 5 }] }] }] }
example : (runPlan exPlan).out.evs.map planRank = [1, 3, 3, 4, 5] := by decide

def failing : MAction := { idx := 9, script := [{ resp := .none, err := .permanent }] }
def exBlock : MBlock :=
  { idx := 1, pre := some { idx := 2, actions := [{ idx := 3 }] },
    seqs := [{ idx := 4, actions := [{ idx := 5 }, failing, { idx := 6 }] }, { idx := 7, actions := [{ idx := 8 }] }],
    post := some { idx := 10, actions := [{ idx := 11 }] }, deferred := some { idx := 12, actions := [{ idx := 13 }] }, tol := 0 }

example : (execBlockR exBlock).evs =
    [.group (some 1) .pre 2 true, .seq 1 4 false, .group (some 1) .deferred 12 true, .blockEnd 1 .failed] := by decide
example : (runSeqActs exBlock.seqs.head!.actions).1.map (·.status) = [.completed, .failed, .notStarted] := by decide

/-- the Go functions this property's model mirrors still have the shape the model was written against
    (control-flow skeletons regenerated from /repo on every run, Model/Skeletons): execSeq, executeSequences -/
theorem facts_skeleton :
    Generated.F10.execSeq = Skeletons.execSeq ∧
    Generated.F10.executeSequences = Skeletons.executeSequences := by
  decide

/-- the engine functions this property's model depends on only through their effects (group `orderRest` of
    Model/SkeletonsRest) still have the shape they were read with (regenerated from /repo on every run) -/
theorem facts_skeleton_rest : Generated.F14.orderRest = SkeletonsRest.orderRest := by rfl

end Coercion.C01
