import CoercionModel.Proofs.Validate
import CoercionModel.Model.SkeletonsMore
import CoercionModel.Generated.F12
import CoercionModel.Proofs.TranslatedValidate
import CoercionModel.Model.SkeletonsGlue
import CoercionModel.Generated.F15
set_option linter.unusedSimpArgs false
/-
  C16 — Submit admits exactly the well-formed plans; rejects leave no trace.

  `Validate.validate` mirrors workflow.Validate (breadth-first queue = level order, per-object rules in
  source order, one key set shared by the whole walk). `WellFormed` is the independent specification:
  a plain recursive predicate over the tree plus pairwise distinct non-nil keys.

  History: on the pinned tree the key set was dropped after every object, so duplicate keys were
  accepted (D12) and the full statement was refuted; repaired by a `fix:` commit, after which the
  model shares the key set and the full equivalence below is proved.
  Tie: harness/c16_test.go — accept/reject (and error class of the first failing object) of the real
  Submit vs the model on valid plans and on single/combined mutations at every object; store row
  counts after a reject; ids/state/submit time after an accept; Start's check-plugin rule.
-/
namespace Coercion.C16
open Coercion.Validate

/-- Submit's validation accepts a plan if and only if it is well formed (full statement). -/
theorem accept_iff_wellFormed (p : VPlan) : validate (some p) = .ok () ↔ WellFormed p := by
  have h1 := validateFrom_ok (order p) []
  have h2 := keysOk_iff [] ((order p).map nodeKey)
  have h3 := order_ok p
  simp only [validate, WellFormed, allKeys]
  constructor
  · intro h
    cases hv : validateFrom [] (order p) with
    | error e => simp [hv] at h
    | ok k =>
      have := h1.mp ⟨k, hv⟩
      exact ⟨h3.mp this.1, (h2.mp this.2).1⟩
  · intro ⟨hl, hk⟩
    have : ∃ k, validateFrom [] (order p) = .ok k := h1.mpr ⟨h3.mpr hl, h2.mpr ⟨hk, by simp⟩⟩
    obtain ⟨k, hk⟩ := this
    simp [hk]

/-- A nil plan is rejected. -/
theorem nil_rejected : validate none = .error .nilPlan := rfl

/-- Every rejection names a rule: the result is either ok or one of the error classes. (Totality:
    validation never panics or loops in the model.) -/
theorem total (p : Option VPlan) : (∃ e, validate p = .error e) ∨ validate p = .ok () := by
  cases p with
  | none => exact Or.inl ⟨_, rfl⟩
  | some p =>
    simp only [validate]
    cases validateFrom [] (order p) with
    | error e => exact Or.inl ⟨e, rfl⟩
    | ok k => exact Or.inr rfl

/-- Duplicate keys anywhere in the plan are refused (the clause D12 used to violate). -/
theorem duplicate_key_rejected (p : VPlan) (h : ¬ (allKeys p).Nodup) : validate (some p) ≠ .ok () := by
  intro hv
  exact h ((accept_iff_wellFormed p).mp hv).2

/-! ### non-vacuity -/
def okAction : VAction := { key := 7 }
def exPlan : VPlan :=
  { groups := [none, some { key := 3, actions := [okAction] }, none, none, none],
    blocks := [{ key := 5, groups := [none, none, none, none, none], seqs := [{ actions := [{ timeoutMs := 5000 }] }] }] }

/-- the outcome as a decidable value: `none` = accepted -/
def result : Except Err Unit → Option Err
  | .ok _ => none
  | .error e => some e

theorem result_none (r : Except Err Unit) : result r = none ↔ r = .ok () := by
  cases r <;> simp [result]

example : result (validate (some exPlan)) = none := by decide
example : WellFormed exPlan := (accept_iff_wellFormed exPlan).mp ((result_none _).mp (by decide))
-- the same key on two objects (a block and an action) is refused
example : result (validate (some { exPlan with blocks := [{ key := 7, groups := [], seqs := [{ actions := [{}] }] }] })) = some .keyDup := by
  decide
example : result (validate (some { exPlan with blocks := [{ groups := [], seqs := [{ actions := [{ timeoutMs := 4999 }] }] }] })) = some .timeoutLow := by
  decide

set_option maxRecDepth 100000 in
/-- the code this property's model mirrors still has the shape the model was written against (control-flow
    skeletons regenerated from /repo on every run, Model/SkeletonsMore) -/
theorem facts_model_skeleton : Generated.F12.validate = SkeletonsMore.validate := by rfl

/-! ### translated code: the validate methods, regenerated from workflow.go on every run (Generated/T5.lean) -/

/-- the rules each `validate` method applies, in source order with the first error winning, translated from the Go
    source over the observation flags, are the node rules of the model -/
theorem translated_rules (keys : List Nat) :
    (∀ p, Generated.T5.checkPlan keys p = checkPlan keys p) ∧ (∀ c, Generated.T5.checkChecks keys c = checkChecks keys (some c)) ∧
    (∀ b, Generated.T5.checkBlock keys b = checkBlock keys b) ∧ (∀ q, Generated.T5.checkSeq keys q = checkSeq keys q) ∧
    (∀ a, Generated.T5.checkAction keys a = checkAction keys a) :=
  ⟨TranslatedValidate.checkPlan_eq keys, TranslatedValidate.checkChecks_eq keys, TranslatedValidate.checkBlock_eq keys,
   TranslatedValidate.checkSeq_eq keys, TranslatedValidate.checkAction_eq keys⟩

/-- … and the model's breadth-first order is `Validate`'s queue discipline applied to the validators the translated
    methods return: every level is what the previous level's methods handed back, in order (no child is skipped) -/
theorem translated_order (p : VPlan) :
    level1 p = TranslatedValidate.kidsNode (.plan p) ∧ level2 p = (level1 p).flatMap TranslatedValidate.kidsNode ∧
    level3 p = (level2 p).flatMap TranslatedValidate.kidsNode :=
  TranslatedValidate.levels_are_queue_order p

/-- the glue code this property's campaigns rest on (group `keysGlue` of Model/SkeletonsGlue: code no model mirrors) still has
    the shape it was read with (regenerated from /repo on every run) -/
theorem facts_glue_skeleton : Generated.F15.keysGlue = SkeletonsGlue.keysGlue := by rfl

end Coercion.C16
