import CoercionModel.Model.Store
import CoercionModel.Props.C13
import CoercionModel.Model.SkeletonsCosmos
import CoercionModel.Generated.F11
import CoercionModel.Model.SkeletonsSqlite
import CoercionModel.Generated.F13
set_option linter.unusedSimpArgs false
/-
  C14 — Create is all-or-nothing and unique; Delete removes exactly one plan.

  Theorems over the abstract vault Model/Store: a Create either stores the complete plan (and then it
  reads back whole, C13.read_after_create) or leaves the vault exactly as it was — in particular when
  any object cannot be encoded, wherever in the plan it sits, and when the id already exists (the first
  plan is not altered); Delete removes the plan and all its objects and leaves every other plan as it
  was. That the sqlite vault refines this is tied by harness/c14_test.go: un-encodable requests at
  every position of the plan, raw row counts of all five tables before/after, interleaved creates and
  deletes of several plans, second Create of an id, and SIGKILL of a child process at random instants
  during Submit on a file-backed store (after which the plan is either completely readable or absent).
  History: D9 (commitChecks dropped commitAction's error → Create succeeded with a check action
  missing) repaired by a `fix:` commit.
  CosmosDB: two transactional batches (plan partition, then search partition); the gap between them is
  documented upstream and repaired by cosmosdb/recovery.go; batch atomicity belongs to the service —
  not decided here (DESIGN §7).
-/
namespace Coercion.C14
open Coercion.Store

/-- Create is all-or-nothing: on failure the vault is unchanged, on success it gained exactly the plan. -/
theorem create_all_or_nothing (v : Vault) (p : SPlan) :
    ((create v p).2 = false ∧ (create v p).1 = v) ∨ ((create v p).2 = true ∧ (create v p).1 = v ++ [p]) := by
  simp only [create]
  split
  · left; exact ⟨rfl, rfl⟩
  · split
    · right; exact ⟨rfl, rfl⟩
    · left; exact ⟨rfl, rfl⟩

/-- an object that cannot be encoded, at any position of the plan, makes the whole Create fail -/
theorem unencodable_anywhere_fails (v : Vault) (p : SPlan) (o : Obj) (ho : o ∈ p.objs) (hb : o.encodable = false) :
    (create v p).2 = false ∧ (create v p).1 = v := by
  have : p.objs.all (·.encodable) = false := by
    rw [List.all_eq_false]
    exact ⟨o, ho, by simp [hb]⟩
  simp only [create]
  split
  · exact ⟨rfl, rfl⟩
  · simp [this]

/-- so a successful Submit implies the stored plan equals the submitted one -/
theorem success_means_stored (v : Vault) (p : SPlan) (h : (create v p).2 = true) : readPlan (create v p).1 p.id = some p :=
  C13.read_after_create v p h

/-- creating an id twice fails without altering the first -/
theorem second_create_fails (v : Vault) (p q : SPlan) (hq : q.id = p.id) (h : (create v p).2 = true) :
    (create (create v p).1 q).2 = false ∧ (create (create v p).1 q).1 = (create v p).1 ∧
    readPlan (create (create v p).1 q).1 p.id = some p := by
  have hr := C13.read_after_create v p h
  have he : exists_ (create v p).1 q.id = true := by simp [exists_, hq, hr]
  have h1 : create (create v p).1 q = ((create v p).1, false) := by
    generalize create v p = cp at *
    simp only [create, he, ite_true]
  rw [h1]
  exact ⟨rfl, rfl, hr⟩

/-- Delete removes the plan (with every object belonging to it) … -/
theorem delete_removes (v : Vault) (id : Nat) : readPlan (delete v id) id = none ∧ ∀ p ∈ delete v id, p.id ≠ id := by
  refine ⟨C13.read_deleted v id, ?_⟩
  intro p hp
  simp only [delete, List.mem_filter] at hp
  simpa using hp.2

/-- … and nothing belonging to any other plan: every other plan reads back exactly as before. -/
theorem delete_keeps_others (v : Vault) (id other : Nat) (h : other ≠ id) : readPlan (delete v id) other = readPlan v other := by
  simp only [readPlan, delete]
  induction v with
  | nil => rfl
  | cons p v ih =>
    by_cases hp : p.id = id
    · have : (p.id != id) = false := by simp [hp]
      simp only [List.filter_cons, this, Bool.false_eq_true, ite_false, List.find?_cons]
      have : (p.id == other) = false := by simp [hp]; exact fun h' => h h'.symm
      simp [this, ih]
    · have : (p.id != id) = true := by simp [hp]
      simp only [List.filter_cons, this, ite_true, List.find?_cons]
      split
      · rfl
      · exact ih

/-! ### non-vacuity -/
def good : SPlan := ⟨1, [⟨1, 0, 0, true⟩, ⟨2, 0, 0, true⟩]⟩
def bad : SPlan := ⟨2, [⟨3, 0, 0, true⟩, ⟨4, 0, 0, false⟩, ⟨5, 0, 0, true⟩]⟩
example : (create (create [] good).1 bad) = ([good], false) := by decide
example : (create (create [] good).1 ⟨1, []⟩).2 = false := by decide
example : readPlan (delete (create (create [] good).1 ⟨7, [⟨8, 0, 0, true⟩]⟩).1 7) 1 = some good := by decide

set_option maxRecDepth 100000 in
/-- CosmosDB backend: the functions that implement this property there still have the shape that was read
    against the model (skeletons regenerated from /repo on every run, Model/SkeletonsCosmos). A static tie
    only: the repository's fake Cosmos client cannot judge this part dynamically. -/
theorem facts_cosmos_skeleton : Generated.F11.createDelete = SkeletonsCosmos.createDelete := by rfl

/-- SQLite backend: the functions and the SQL text that implement this property (create / delete) still have the shape that was
    read against the model (regenerated from /repo on every run, Model/SkeletonsSqlite). A static tie on top of the
    dynamic differential: it also sees changes no generated input exercises. -/
theorem facts_sqlite_skeleton : Generated.F13.createDelete = SkeletonsSqlite.createDelete := by rfl

end Coercion.C14
