import CoercionModel.Model.Secure
import CoercionModel.Model.SkeletonsMore
import CoercionModel.Generated.F12
import CoercionModel.Model.SkeletonsGlue
import CoercionModel.Generated.F15
set_option linter.unusedSimpArgs false
/-
  C17 — Secure-tagged values never leak through clones or HTML reports.

  Model/Secure mirrors the dispatch of clone/secure.go position by position. Proved by mutual
  structural induction over the whole shape grammar: on every shape the dispatch handles completely
  (`handledF`: pointers only to structs, no interface value directly inside a slice or map) the
  scrubber does not panic and no leaf below a secure-tagged field survives, however deep.
  The full statement (`NoLeak_Full`: the same for EVERY shape) is REFUTED for the current code with
  concrete witnesses: an interface element of a slice or map is skipped (`[]any`, `map[string]any`:
  D13), and a pointer to a slice/map/interface makes the scrubber panic (`NoPanic_Full` refuted).
  Both are known findings (the source documents "really bizarre struct … skipped something").
  Tie: harness/c17_test.go — shapes generated from the same grammar as real Go types
  (`reflect.StructOf`, tags included), canaries planted at every leaf, placed as requests of sequence
  and check actions and as responses in attempts; the set of canaries found in the JSON of the default
  clone (and in every file of the rendered HTML report) must equal the set Model/Secure predicts.
  History: reports.Render called workflow.Secure, which never descends through a Plan's pointer fields,
  so every report showed every secret (D14) — repaired by a `fix:` commit (clone.Secure).
-/
namespace Coercion.C17
open Coercion.Secure

theorem map_ok {α β} (f : α → β) (r : R α) (a : α) (h : r = .ok a) : r.map f = .ok (f a) := by subst h; rfl
theorem bind_ok {α β} (f : α → R β) (r : R α) (a : α) (h : r = .ok a) : r.bind f = f a := by subst h; rfl

mutual
theorem fields_ok : ∀ fs, handledF fs = true → ∃ fs', scrubFields fs = .ok fs' ∧ secretsF fs' = []
  | .nil, _ => ⟨.nil, rfl, rfl⟩
  | .cons true v r, h => by
    obtain ⟨r', hr, hs⟩ := fields_ok r (by simpa [handledF] using h)
    exact ⟨.cons true .hidden r', by simp [scrubFields, map_ok _ _ _ hr], by simp [secretsF, allV, hs]⟩
  | .cons false (.struct fs) r, h => by
    simp only [handledF, handledV, Bool.and_eq_true] at h
    obtain ⟨f', hf, hfs⟩ := fields_ok fs h.1
    obtain ⟨r', hr, hs⟩ := fields_ok r h.2
    exact ⟨.cons false (.struct f') r', by simp [scrubFields, map_ok _ _ _ hf, map_ok _ _ _ hr, R.bind], by simp [secretsF, secretsV, hfs, hs]⟩
  | .cons false (.ptr w) r, h => by
    simp only [handledF, Bool.and_eq_true] at h
    obtain ⟨v', hv, hvs⟩ := ptr_ok w h.1
    obtain ⟨r', hr, hs⟩ := fields_ok r h.2
    exact ⟨.cons false v' r', by simp [scrubFields, hv, map_ok _ _ _ hr, R.bind], by simp [secretsF, hvs, hs]⟩
  | .cons false (.iface w) r, h => by
    simp only [handledF, Bool.and_eq_true] at h
    obtain ⟨v', hv, hvs⟩ := iface_ok w h.1
    obtain ⟨r', hr, hs⟩ := fields_ok r h.2
    exact ⟨.cons false (.iface v') r', by simp [scrubFields, map_ok _ _ _ hv, map_ok _ _ _ hr, R.bind], by simp [secretsF, secretsV, hvs, hs]⟩
  | .cons false (.slice vs) r, h => by
    simp only [handledF, handledV, Bool.and_eq_true] at h
    obtain ⟨v', hv, hvs⟩ := elems_ok vs h.1
    obtain ⟨r', hr, hs⟩ := fields_ok r h.2
    exact ⟨.cons false (.slice v') r', by simp [scrubFields, map_ok _ _ _ hv, map_ok _ _ _ hr, R.bind], by simp [secretsF, secretsV, hvs, hs]⟩
  | .cons false (.map vs) r, h => by
    simp only [handledF, handledV, Bool.and_eq_true] at h
    obtain ⟨v', hv, hvs⟩ := elems_ok vs h.1
    obtain ⟨r', hr, hs⟩ := fields_ok r h.2
    exact ⟨.cons false (.map v') r', by simp [scrubFields, map_ok _ _ _ hv, map_ok _ _ _ hr, R.bind], by simp [secretsF, secretsV, hvs, hs]⟩
  | .cons false (.leaf c) r, h => by
    obtain ⟨r', hr, hs⟩ := fields_ok r (by simpa [handledF, handledV] using h)
    exact ⟨.cons false (.leaf c) r', by simp [scrubFields, map_ok _ _ _ hr, R.bind], by simp [secretsF, secretsV, hs]⟩
  | .cons false .nil r, h => by
    obtain ⟨r', hr, hs⟩ := fields_ok r (by simpa [handledF, handledV] using h)
    exact ⟨.cons false .nil r', by simp [scrubFields, map_ok _ _ _ hr, R.bind], by simp [secretsF, secretsV, hs]⟩
  | .cons false .hidden r, h => by
    obtain ⟨r', hr, hs⟩ := fields_ok r (by simpa [handledF, handledV] using h)
    exact ⟨.cons false .hidden r', by simp [scrubFields, map_ok _ _ _ hr, R.bind], by simp [secretsF, secretsV, hs]⟩
theorem ptr_ok : ∀ w, handledV (.ptr w) = true → ∃ v', scrubPtr w = .ok v' ∧ secretsV v' = []
  | .struct fs, h => by
    obtain ⟨f', hf, hfs⟩ := fields_ok fs (by simpa [handledV] using h)
    exact ⟨.ptr (.struct f'), by simp [scrubPtr, map_ok _ _ _ hf], by simp [secretsV, hfs]⟩
  | .leaf _, h => by simp [handledV] at h
  | .nil, h => by simp [handledV] at h
  | .hidden, h => by simp [handledV] at h
  | .ptr _, h => by simp [handledV] at h
  | .iface _, h => by simp [handledV] at h
  | .slice _, h => by simp [handledV] at h
  | .map _, h => by simp [handledV] at h
theorem iface_ok : ∀ w, handledV (.iface w) = true → ∃ v', scrubIface w = .ok v' ∧ secretsV v' = []
  | .struct fs, h => by
    obtain ⟨f', hf, hfs⟩ := fields_ok fs (by simpa [handledV] using h)
    exact ⟨.struct f', by simp [scrubIface, map_ok _ _ _ hf], by simp [secretsV, hfs]⟩
  | .ptr w, h => by
    obtain ⟨v', hv, hvs⟩ := ptr_ok w (by simpa [handledV] using h)
    exact ⟨v', by simp [scrubIface, hv], hvs⟩
  | .slice vs, h => by
    obtain ⟨v', hv, hvs⟩ := elems_ok vs (by simpa [handledV] using h)
    exact ⟨.slice v', by simp [scrubIface, map_ok _ _ _ hv], by simp [secretsV, hvs]⟩
  | .map vs, h => by
    obtain ⟨v', hv, hvs⟩ := elems_ok vs (by simpa [handledV] using h)
    exact ⟨.map v', by simp [scrubIface, map_ok _ _ _ hv], by simp [secretsV, hvs]⟩
  | .leaf c, _ => ⟨.leaf c, rfl, rfl⟩
  | .nil, _ => ⟨.nil, rfl, rfl⟩
  | .hidden, _ => ⟨.hidden, rfl, rfl⟩
  | .iface _, h => by simp [handledV] at h
theorem elems_ok : ∀ vs, handledVs vs = true → ∃ vs', scrubElems vs = .ok vs' ∧ secretsVs vs' = []
  | .nil, _ => ⟨.nil, rfl, rfl⟩
  | .cons (.iface _) _, h => by simp [handledVs] at h
  | .cons (.struct fs) r, h => by
    simp only [handledVs, handledV, Bool.and_eq_true] at h
    obtain ⟨f', hf, hfs⟩ := fields_ok fs h.1
    obtain ⟨r', hr, hs⟩ := elems_ok r h.2
    exact ⟨.cons (.struct f') r', by simp [scrubElems, map_ok _ _ _ hf, map_ok _ _ _ hr, R.bind], by simp [secretsVs, secretsV, hfs, hs]⟩
  | .cons (.ptr w) r, h => by
    simp only [handledVs, Bool.and_eq_true] at h
    obtain ⟨v', hv, hvs⟩ := ptr_ok w h.1
    obtain ⟨r', hr, hs⟩ := elems_ok r h.2
    exact ⟨.cons v' r', by simp [scrubElems, hv, map_ok _ _ _ hr, R.bind], by simp [secretsVs, hvs, hs]⟩
  | .cons (.slice vs) r, h => by
    simp only [handledVs, handledV, Bool.and_eq_true] at h
    obtain ⟨v', hv, hvs⟩ := elems_ok vs h.1
    obtain ⟨r', hr, hs⟩ := elems_ok r h.2
    exact ⟨.cons (.slice v') r', by simp [scrubElems, map_ok _ _ _ hv, map_ok _ _ _ hr, R.bind], by simp [secretsVs, secretsV, hvs, hs]⟩
  | .cons (.map vs) r, h => by
    simp only [handledVs, handledV, Bool.and_eq_true] at h
    obtain ⟨v', hv, hvs⟩ := elems_ok vs h.1
    obtain ⟨r', hr, hs⟩ := elems_ok r h.2
    exact ⟨.cons (.map v') r', by simp [scrubElems, map_ok _ _ _ hv, map_ok _ _ _ hr, R.bind], by simp [secretsVs, secretsV, hvs, hs]⟩
  | .cons (.leaf c) r, h => by
    obtain ⟨r', hr, hs⟩ := elems_ok r (by simpa [handledVs, handledV] using h)
    exact ⟨.cons (.leaf c) r', by simp [scrubElems, map_ok _ _ _ hr, R.bind], by simp [secretsVs, secretsV, hs]⟩
  | .cons .nil r, h => by
    obtain ⟨r', hr, hs⟩ := elems_ok r (by simpa [handledVs, handledV] using h)
    exact ⟨.cons .nil r', by simp [scrubElems, map_ok _ _ _ hr, R.bind], by simp [secretsVs, secretsV, hs]⟩
  | .cons .hidden r, h => by
    obtain ⟨r', hr, hs⟩ := elems_ok r (by simpa [handledVs, handledV] using h)
    exact ⟨.cons .hidden r', by simp [scrubElems, map_ok _ _ _ hr, R.bind], by simp [secretsVs, secretsV, hs]⟩
end

/-- **No leak (partial).** On every shape the dispatch handles completely, the scrubber behind the
    default clone does not panic and no leaf below a secure-tagged field survives — at any depth of
    structs, pointers, slices, maps and interface values. -/
theorem no_leak_partial (fs : Fs) (h : handledF fs = true) : ∃ fs', scrub fs = .ok fs' ∧ secretsF fs' = [] :=
  fields_ok fs h

/-- the full statement: for every shape, the scrubber does not panic and leaves no secret -/
def NoLeak_Full : Prop := ∀ fs, ∃ fs', scrub fs = .ok fs' ∧ secretsF fs' = []

/-- `[]any{ struct{ X string `coerce:"secure"` } }` as a (non-secure) field: the interface element is skipped -/
def witnessLeak : Fs := .cons false (.slice (.cons (.iface (.struct (.cons true (.leaf 7) .nil))) .nil)) .nil
/-- `*[]T` as a field: `securePtr` hands the pointer to `secureSlice`, whose kind check panics -/
def witnessPanic : Fs := .cons false (.ptr (.slice .nil)) .nil

theorem witnessLeak_leaks : ∃ fs', scrub witnessLeak = .ok fs' ∧ secretsF fs' = [7] :=
  ⟨witnessLeak, by simp [scrub, witnessLeak, scrubFields, scrubElems, R.map, R.bind], by simp [witnessLeak, secretsF, secretsV, secretsVs, allV]⟩

theorem witnessPanic_panics : scrub witnessPanic = .panic := by
  simp [scrub, witnessPanic, scrubFields, scrubPtr, R.map, R.bind]

/-- … is false of the current code (known finding D13). -/
theorem no_leak_full_refuted : ¬ NoLeak_Full := by
  intro h
  obtain ⟨fs', h1, _⟩ := h witnessPanic
  rw [witnessPanic_panics] at h1
  cases h1

/-! ### non-vacuity: a handled shape with secrets at depth 1, 3 and 4 -/
def deep : Fs :=
  .cons true (.leaf 1) (.cons false (.ptr (.struct (.cons false (.slice (.cons (.struct (.cons true (.leaf 2) (.cons false (.leaf 3) .nil))) .nil))
    (.cons false (.map (.cons (.ptr (.struct (.cons true (.leaf 4) .nil))) .nil)) .nil)))) (.cons false (.iface (.struct (.cons true (.leaf 5) .nil))) .nil))
example : handledF deep = true := by simp [deep, handledF, handledV, handledVs]
example : secretsF deep = [1, 2, 4, 5] := by simp [deep, secretsF, secretsV, secretsVs, allV]

set_option maxRecDepth 100000 in
/-- the code this property's model mirrors still has the shape the model was written against (control-flow
    skeletons regenerated from /repo on every run, Model/SkeletonsMore) -/
theorem facts_model_skeleton : Generated.F12.secure = SkeletonsMore.secure := by rfl

/-- the glue code this property's campaigns rest on (group `secureGlue` of Model/SkeletonsGlue: code no model mirrors) still has
    the shape it was read with (regenerated from /repo on every run) -/
theorem facts_glue_skeleton : Generated.F15.secureGlue = SkeletonsGlue.secureGlue := by rfl

end Coercion.C17
