import CoercionModel.Model.Cont
import CoercionModel.Proofs.Engine
import CoercionModel.Model.Routing
import CoercionModel.Generated.F2
import CoercionModel.Model.Skeletons
import CoercionModel.Generated.F10
import CoercionModel.Model.SkeletonsRest
import CoercionModel.Generated.F14
set_option linter.unusedSimpArgs false
/-
  C07 — Cont-check failures are never lost; deferred checks always run once entered.

  Part 1 (Model/Cont, every schedule of producer and consumer): a failed run is never lost — it is
  in the consumer's hands, in the channel buffer, or about to be sent — so a consumer that has
  drained the channel without seeing an error knows no run failed; the drain never blocks forever
  (progress); between start and cancel an idle producer can always tick again ("keeps being re-run",
  as enabledness; fairness of the Go scheduler is assumed).
  Part 2 (Model/Engine): deferred checks of a block / plan run exactly once iff the scope was not
  bypassed, after every other stage (C01.block_stage_order), and their failure fails the scope.
  Tie: monitors C07.* on every run (cont failure at run k in 0..4 against varying sequence latency);
  ENG.* differential. History: D1 (drain of a never-started producer hung) and D19 (plan producer not
  drained on failure paths) were repaired by `fix:` commits; the model has the repaired protocol.
-/
namespace Coercion.C07
open Coercion Coercion.Cont

def Inv (s : S) : Prop :=
  (s.failedRun = true → s.seenErr = true ∨ s.buf = some true ∨ s.prod = .sending true) ∧
  (s.closed = true ↔ s.prod = .exited) ∧
  (s.cons ≠ .watching → s.cancelled = true ∧ s.prod ≠ .notStarted) ∧
  (s.prod = .closing ∨ s.prod = .exited → s.cancelled = true ∨ s.failedRun = true) ∧
  (s.prod = .sending true → s.failedRun = true) ∧
  (s.cons = .drained → s.seenErr = true ∨ (s.buf = none ∧ s.prod = .exited))

theorem inv_init : Inv {} := by simp [Inv]

theorem inv_step (s s' : S) (l : Label) (h : Inv s) (hs : step s l = some s') : Inv s' := by
  obtain ⟨h1, h2, h3, h4, h5, h6⟩ := h
  cases l <;> simp only [step] at hs
  case start => split at hs <;> simp at hs; subst hs; simp_all [Inv]
  case tick => split at hs <;> simp at hs; subst hs; simp_all [Inv]
  case runDone failed =>
    split at hs <;> simp at hs; subst hs
    cases failed <;> simp_all [Inv]
  case send =>
    split at hs
    · rename_i failed hp
      split at hs <;> simp at hs; subst hs
      cases failed <;> simp_all [Inv]
    · simp at hs
  case seeCancel => split at hs <;> simp at hs; subst hs; simp_all [Inv]
  case close => split at hs <;> simp at hs; subst hs; simp_all [Inv]
  case poll =>
    split at hs
    · split at hs <;> simp at hs <;> subst hs
      · rename_i v hb
        cases v <;> simp_all [Inv]
      · exact ⟨h1, h2, h3, h4, h5, h6⟩
    · simp at hs
  case cancel => split at hs <;> simp at hs; subst hs; simp_all [Inv]
  case drainRecv =>
    split at hs
    · split at hs <;> simp at hs; subst hs
      rename_i v hb
      cases v <;> simp_all [Inv]
    · simp at hs
  case drainClosed => split at hs <;> simp at hs; subst hs; simp_all [Inv]

theorem inv_run (t : List Label) (s s' : S) (h : Inv s) (hr : run s t = some s') : Inv s' := by
  induction t generalizing s with
  | nil => simp [run] at hr; subst hr; exact h
  | cons l t ih =>
    simp only [run] at hr
    cases hs : step s l with
    | none => simp [hs] at hr
    | some s1 => rw [hs] at hr; exact ih s1 (inv_step s s1 l h hs) hr

/-- No failed run of a continuous check is ever lost: in every reachable state it has been seen by
    the consumer, sits in the channel, or is about to be sent. -/
theorem no_loss (t : List Label) (s : S) (hr : run {} t = some s) (hf : s.failedRun = true) :
    s.seenErr = true ∨ s.buf = some true ∨ s.prod = .sending true :=
  (inv_run t {} s inv_init hr).1 hf

/-- When the consumer has finished draining (BlockEnd / PlanPostChecks / End), it has seen the error
    of every failed run: "no error seen" really means "no run failed". -/
theorem drained_sees_failure (t : List Label) (s : S) (hr : run {} t = some s) (hd : s.cons = .drained)
    (hf : s.failedRun = true) : s.seenErr = true := by
  obtain ⟨h1, _, _, _, _, h6⟩ := inv_run t {} s inv_init hr
  rcases h6 hd with h | ⟨hb, hp⟩
  · exact h
  · rcases h1 hf with h | h | h
    · exact h
    · rw [hb] at h; cases h
    · rw [hp] at h; cases h

/-- The drain never blocks forever: in every reachable state in which the consumer is ranging over
    the channel some step is enabled (producer or consumer). (Before the fix for D1 the consumer also
    drained a producer that was never started, and this was false.) -/
theorem drain_progress (t : List Label) (s : S) (hr : run {} t = some s) (hd : s.cons = .draining) :
    ∃ l, (step s l).isSome = true := by
  obtain ⟨_, h2, h3, _, _, _⟩ := inv_run t {} s inv_init hr
  have hc := h3 (by rw [hd]; decide)
  cases hp : s.prod with
  | notStarted => exact absurd hp hc.2
  | idle => exact ⟨.seeCancel, by simp [step, hp, hc.1]⟩
  | running => exact ⟨.runDone false, by simp [step, hp]⟩
  | sending f =>
    cases hb : s.buf with
    | none => exact ⟨.send, by simp [step, hp, hb]⟩
    | some v => exact ⟨.drainRecv, by simp [step, hd, hb]⟩
  | closing => exact ⟨.close, by simp [step, hp]⟩
  | exited =>
    cases hb : s.buf with
    | none => exact ⟨.drainClosed, by simp [step, hd, hb, h2.mpr hp]⟩
    | some v => exact ⟨.drainRecv, by simp [step, hd, hb]⟩

/-- "Keeps being re-run": while the scope executes (consumer watching) an idle producer can always
    start another run, and a finished run can always be delivered once the consumer polls. -/
theorem rerun_enabled (s : S) (hp : s.prod = .idle) : (step s .tick).isSome = true := by
  simp [step, hp]

/-! ### Part 2 — deferred checks (Model/Engine) -/
open Coercion.Engine

def isDeferredOf (sc : Option Nat) : Ev → Bool
  | .group sc' .deferred _ _ => sc' == sc
  | _ => false

/-- Deferred checks of a block run exactly once when the block was entered and not bypassed (whether
    it succeeded or failed), and not at all when it was bypassed. -/
theorem block_deferred_exactly_once (b : MBlock) (d : MGroup) (hd : b.deferred = some d) :
    (execBlockR b).evs.countP (isDeferredOf (some b.idx)) = if blkBypassed b then 0 else 1 := by
  rw [execBlockR_evs]
  simp only [List.countP_append, stage_evs, contStage_evs]
  rw [countP_seqStage _ _ _ (by intros; rfl)]
  cases blkBypassed b <;> cases blkPostRun b <;> cases b.bypass <;> cases b.pre <;> cases b.cont <;> cases b.post <;>
    simp [hd, isDeferredOf]

/-- … they come after everything else in the block (C01.block_stage_order: rank 5 of 6, only the
    block's end follows), and a deferred-check failure fails the block. -/
theorem block_deferred_failure_fails (b : MBlock) (hb : blkBypassed b = false) (hd : optOk b.deferred = false) :
    blkStatus b = .failed := by
  simp [blkStatus, blkFailed, hb, hd]

/-- Plan level: deferred checks run exactly once iff the plan was not bypassed … -/
theorem plan_deferred_exactly_once (p : MPlan) (d : MGroup) (hd : p.deferred = some d) :
    ((stage (!planBypassed p) none .deferred p.deferred).evs.length = if planBypassed p then 0 else 1) := by
  cases planBypassed p <;> simp [stage_evs, hd]

/-- … and their failure fails the plan. -/
theorem plan_deferred_failure_fails (p : MPlan) (d : MGroup) (hd : p.deferred = some d) (hb : planBypassed p = false)
    (hf : groupOk d = false) : (runPlan p).status = .failed := by
  have hbn : (p.bypass.map groupOk == some true) = false := by
    simp only [planBypassed, optRan] at hb
    cases h : p.bypass <;> simp_all
  simp only [runPlan, planFinal, final, hbn, Bool.false_eq_true, ite_false, verdict, hd, hb, Option.map_some, Bool.not_false, ite_true, hf]
  rcases (Option.map (fun g => some (groupOk g)) p.pre) with _ | _ | _ | _ <;> rcases planContVerdict p with _ | _ | _ | _ <;>
    rcases (Option.map (fun g => if planPostRun p = true then some (groupOk g) else none) p.post) with _ | _ | _ | _ <;> simp

/-- a failed (initial) run of the plan's continuous checks fails the plan with reason ContCheck when
    the pre-checks passed -/
theorem plan_cont_failure_reason (p : MPlan) (pre c : MGroup) (hp : p.pre = some pre) (hc : p.cont = some c)
    (hb : planBypassed p = false) (hpre : groupOk pre = true) (hf : groupOk c = false) :
    (runPlan p).status = .failed ∧ (runPlan p).reason = .contCheck := by
  have hbn : (p.bypass.map groupOk == some true) = false := by
    simp only [planBypassed, optRan] at hb
    cases h : p.bypass <;> simp_all
  simp [runPlan, planFinal, final, hbn, verdict, hp, hc, hb, planContVerdict, hpre, hf]

/-! ### tie to the sources: the routing graph (fact F2, regenerated from sm.go / final.go / recovery.go /
    actions.go / execute/recovery.go on every run) -/

/-- the successor relation extracted from the sources is the one the models implement -/
theorem facts_routing : Generated.F2.succ = Routing.table := by decide

/-- On the routing graph, a block's end is reached only from its bypass checks or from its deferred
    checks: every non-bypassed way through a block passes its deferred checks. -/
theorem block_end_only_via_deferred : Routing.preds "sm" "BlockEnd" = ["BlockBypassChecks", "BlockDeferredChecks"] := by decide

/-- Likewise the plan's End is reached only from the plan bypass, the plan's deferred checks, or
    Recovery (the shortcut of known finding D21). -/
theorem plan_end_only_via_deferred :
    Routing.preds "sm" "End" = ["PlanBypassChecks", "PlanDeferredChecks", "Recovery"] := by decide

/-- … and the deferred states are entered from every stage that can fail. -/
theorem deferred_reached_from_failing_stages :
    Routing.preds "sm" "BlockDeferredChecks" = ["BlockPostChecks", "BlockPreChecks", "ExecuteSequences"] ∧
    Routing.preds "sm" "PlanDeferredChecks" = ["BlockEnd", "ExecuteBlock", "PlanPostChecks", "PlanPreChecks"] := by decide

/-! ### non-vacuity -/
def tr : List Label := [.start, .tick, .runDone false, .send, .tick, .runDone true, .cancel, .drainRecv, .send, .close, .drainRecv]
example : (run {} tr).map (fun s => (s.failedRun, s.seenErr, s.cons, s.runs)) = some (true, true, .drained, 2) := by decide

/-- the Go functions this property's model mirrors still have the shape the model was written against
    (control-flow skeletons regenerated from /repo on every run, Model/Skeletons): runContChecks, contChecksPassing, blockEnd, planPostChecks, smEnd -/
theorem facts_skeleton :
    Generated.F10.runContChecks = Skeletons.runContChecks ∧
    Generated.F10.contChecksPassing = Skeletons.contChecksPassing ∧
    Generated.F10.blockEnd = Skeletons.blockEnd ∧
    Generated.F10.planPostChecks = Skeletons.planPostChecks ∧
    Generated.F10.smEnd = Skeletons.smEnd := by
  decide

/-- the engine functions this property's model depends on only through their effects (group `deferredRest` of
    Model/SkeletonsRest) still have the shape they were read with (regenerated from /repo on every run) -/
theorem facts_skeleton_rest : Generated.F14.deferredRest = SkeletonsRest.deferredRest := by rfl

end Coercion.C07
