import CoercionModel.Proofs.Attempts
import CoercionModel.Model.Skeletons
import CoercionModel.Generated.F10
import CoercionModel.Proofs.TranslatedExec
import CoercionModel.Model.SkeletonsGlue
import CoercionModel.Generated.F15
set_option linter.unusedSimpArgs false
/-
  C05 — Attempts: at most Retries+1 calls, stop on success/permanent, all recorded.

  `Attempts.run retries preRunning sc` is the model of running one action (sequence action or check
  action) against a plugin whose k-th call has outcome `sc k`; all theorems quantify over every retry
  budget (any `Int`) and every oracle `sc` — i.e. over every outcome script of any length.
  Tie to the code: harness/c05_test.go — exact differential of the per-action event sequence
  (store writes with status and attempt count, plugin enter/exit) and of the stored attempts, for
  sequence and check actions, through the real engine.
-/
namespace Coercion.C05
open Coercion Coercion.Attempts

/-- the outcomes of the calls actually made -/
def made (retries : Int) (sc : Nat → Outcome) : List Outcome := consumed sc (budget retries 0) 0

theorem run_attempts (r : Int) (pre : Bool) (sc : Nat → Outcome) :
    (run r pre sc).attempts = recordAll (made r sc) 1 := by
  cases pre <;> simp [run, loop_eq, made]

theorem run_calls (r : Int) (pre : Bool) (sc : Nat → Outcome) :
    (run r pre sc).calls = (made r sc).length := by
  cases pre <;> simp [run, loop_eq, made]

theorem run_failed (r : Int) (pre : Bool) (sc : Nat → Outcome) :
    (run r pre sc).failed = errOf (made r sc) := by
  cases pre <;> simp [run, loop_eq, made]

/-- (1) The plugin is invoked at most Retries+1 times. -/
theorem calls_le (r : Int) (pre : Bool) (sc : Nat → Outcome) :
    ((run r pre sc).calls : Int) ≤ max (r + 1) 0 := by
  rw [run_calls]
  have := consumed_length_le sc (budget r 0) 0
  simp only [made, budget] at *
  omega

/-- (2) It is never invoked again after an attempt succeeded or failed permanently: every recorded
    attempt except the last carries a retryable error (transient or timeout). -/
theorem no_call_after_final (r : Int) (pre : Bool) (sc : Nat → Outcome) :
    ∀ a ∈ (run r pre sc).attempts.dropLast, a.err = .transient ∨ a.err = .timeout := by
  intro a ha
  rw [run_attempts] at ha
  have hk := recordAll_kinds (made r sc) 1
  -- a is the record of some outcome in (made r sc).dropLast
  have : (a.err, a.resp) ∈ ((made r sc).dropLast).map classify := by
    have h1 : (a.err, a.resp) ∈ ((recordAll (made r sc) 1).dropLast).map (fun a => (a.err, a.resp)) :=
      List.mem_map_of_mem ha
    rw [List.map_dropLast, hk, ← List.map_dropLast] at h1
    exact h1
  obtain ⟨o, ho, hoe⟩ := List.mem_map.mp this
  have hr := consumed_init_retryable sc (budget r 0) 0 o ho
  have : a.err = (classify o).1 := by rw [hoe]
  rw [this]
  revert hr
  cases (classify o).1 <;> simp [retryable]

/-- (3) Every invocation is recorded as exactly one attempt, in order, carrying what the plugin
    returned (as classified by `classify`): the i-th attempt is the record of the i-th call. -/
theorem one_attempt_per_call (r : Int) (pre : Bool) (sc : Nat → Outcome) :
    (run r pre sc).attempts.length = (run r pre sc).calls ∧
    (run r pre sc).attempts.map (fun a => (a.err, a.resp)) =
      (List.range (run r pre sc).calls).map (fun k => classify (sc k)) := by
  rw [run_attempts, run_calls, recordAll_length, recordAll_kinds]
  refine ⟨rfl, ?_⟩
  have := consumed_eq_map sc (budget r 0) 0
  simp only [made] at *
  rw [this]
  simp [List.range_eq_range', List.map_map, Function.comp_def]

/-- attempt times: start ≤ end for every attempt, attempts are chronologically ordered, and all lie
    within the action's own start/end. -/
theorem attempt_times (r : Int) (pre : Bool) (sc : Nat → Outcome) :
    (∀ a ∈ (run r pre sc).attempts, a.tStart ≤ a.tEnd ∧ (run r pre sc).tStart ≤ a.tStart ∧ a.tEnd ≤ (run r pre sc).tEnd) ∧
    (run r pre sc).attempts.Pairwise (fun a b => a.tEnd < b.tStart) ∧
    (run r pre sc).tStart ≤ (run r pre sc).tEnd := by
  refine ⟨?_, ?_, ?_⟩
  · intro a ha
    rw [run_attempts] at ha
    have h1 := recordAll_times _ _ a ha
    refine ⟨h1.2, ?_, ?_⟩
    · cases pre <;> simp [run] <;> omega
    · -- tEnd of the action = clk after the loop + 1 = 1 + 2 * calls + 1
      have hb : ∀ (os : List Outcome) (clk : Nat), ∀ a ∈ recordAll os clk, a.tEnd ≤ clk + 2 * os.length := by
        intro os
        induction os with
        | nil => simp [recordAll]
        | cons o os ih =>
          intro clk a ha
          simp only [recordAll, List.mem_cons] at ha
          rcases ha with rfl | ha
          · simp [record]; omega
          · have := ih (clk + 2) a ha; simp; omega
      have := hb _ _ a ha
      cases pre <;> simp [run, loop_eq, made] at * <;> omega
  · rw [run_attempts]; exact recordAll_sorted _ _
  · cases pre <;> simp [run] <;> omega

/-- (4a) An attempt that overruns the timeout is recorded as a timeout failure, which is retryable,
    and no response is stored. -/
theorem overrun_recorded_as_retryable_timeout (o : Outcome) (h : o.overrun = true) :
    classify o = (.timeout, false) ∧ retryable .timeout = true ∧ ErrKind.timeout.isPermanent = false := by
  simp [classify, h, retryable, ErrKind.isPermanent]

/-- (4b) A (non-nil) response of the wrong type fails the action permanently and is not stored —
    whatever error the plugin returned alongside it. -/
theorem wrong_type_is_permanent_and_dropped (o : Outcome) (h : o.overrun = false) (hb : o.resp = .bad) :
    classify o = (.typeErr, false) ∧ ErrKind.typeErr.isPermanent = true ∧ retryable .typeErr = false := by
  simp [classify, h, hb, retryable, ErrKind.isPermanent]

/-- (4c) Otherwise the attempt carries the plugin's error as returned and stores its response. -/
theorem plain_recorded_as_returned (o : Outcome) (h : o.overrun = false) (hb : o.resp ≠ .bad) :
    (classify o).2 = (o.resp == .good) ∧
    ((classify o).1 = .none ↔ o.err = .none) ∧ ((classify o).1 = .transient ↔ o.err = .transient) ∧
    ((classify o).1 = .permanent ↔ o.err = .permanent) := by
  cases o with | mk resp err ov =>
  cases resp <;> cases err <;> simp_all [classify]

/-- (5) The action ends Completed exactly when its final attempt has no error; otherwise Failed. -/
theorem completed_iff_last_ok (r : Int) (pre : Bool) (sc : Nat → Outcome) :
    ((run r pre sc).status = .completed ↔ ∃ a, (run r pre sc).attempts.getLast? = some a ∧ a.err = .none) ∧
    ((run r pre sc).status = .completed ∨ (run r pre sc).status = .failed) := by
  have hst : (run r pre sc).status = if errOf (made r sc) then .failed else .completed := by
    cases pre <;> cases h : errOf (consumed sc (budget r 0) 0) <;> simp [run, loop_eq, made, h]
  rw [hst, run_attempts]
  constructor
  · -- relate last attempt to last outcome
    have hl : ∀ (os : List Outcome) (clk : Nat),
        (recordAll os clk).getLast?.map (·.err) = os.getLast?.map (fun o => (classify o).1) := by
      intro os
      induction os with
      | nil => simp [recordAll]
      | cons o os ih =>
        intro clk
        cases os with
        | nil => simp [recordAll, record]
        | cons o' os' =>
          simp only [recordAll, List.getLast?_cons_cons] at ih ⊢
          exact ih (clk + 2)
    have := hl (made r sc) 1
    cases hlast : (made r sc).getLast? with
    | none =>
      have hn : (recordAll (made r sc) 1).getLast? = none := by
        cases h : (recordAll (made r sc) 1).getLast? with
        | none => rfl
        | some a => rw [hlast, h] at this; simp at this
      simp [hn, errOf, hlast]
    | some o =>
      rw [hlast] at this
      cases ha : (recordAll (made r sc) 1).getLast? with
      | none => rw [ha] at this; simp at this
      | some a =>
        rw [ha] at this
        simp only [Option.map_some, Option.some.injEq] at this
        simp only [errOf, hlast, Option.some.injEq, exists_eq_left']
        rw [this]
        cases (classify o).1 <;> decide
  · cases errOf (made r sc) <;> simp

/-- (6) Persistence order (shared with C08): the action is durably Running before the first call;
    the write that follows the k-th call carries exactly k+1 attempts and precedes the next call; the
    terminal status is written last. -/
theorem events_shape (r : Int) (sc : Nat → Outcome) :
    (run r false sc).evs =
      Ev.write .running 0 :: evsFor (made r sc) 0 0 ++
        [.write (run r false sc).status (made r sc).length, .write (run r false sc).status (made r sc).length] := by
  simp [run, loop_eq, made, recordAll_length]

theorem events_shape_check (r : Int) (sc : Nat → Outcome) :
    (run r true sc).evs =
      evsFor (made r sc) 0 0 ++
        [.write (run r true sc).status (made r sc).length, .write (run r true sc).status (made r sc).length] := by
  simp [run, loop_eq, made, recordAll_length]

/-! ### non-vacuity -/
def scEx : Nat → Outcome
  | 0 => { err := .transient }
  | 1 => { overrun := true }
  | 2 => { resp := .bad, err := .transient }
  | _ => {}

example : (run 5 false scEx).calls = 3 ∧ (run 5 false scEx).status = .failed ∧
    (run 5 false scEx).attempts.map (·.err) = [.transient, .timeout, .typeErr] := by decide
example : (run 1 false scEx).calls = 2 ∧ (run 1 false scEx).status = .failed := by decide
example : (run 0 true (fun _ => {})).calls = 1 ∧ (run 0 true (fun _ => {})).status = .completed := by decide
example : (run 5 false scEx).evs = [.write .running 0, .enter 0, .exit 0, .write .running 1, .enter 1, .exit 1,
    .write .running 2, .enter 2, .exit 2, .write .running 3, .write .failed 3, .write .failed 3] := by decide

/-- the Go functions this property's model mirrors still have the shape the model was written against
    (control-flow skeletons regenerated from /repo on every run, Model/Skeletons): actionsExec, actionsExecute -/
theorem facts_skeleton :
    Generated.F10.actionsExec = Skeletons.actionsExec ∧
    Generated.F10.actionsExecute = Skeletons.actionsExecute := by
  decide

/-! ### translated code: the decision tail of exec, regenerated from actions.go on every run (Generated/T4.lean) -/

/-- what exec records (error kind, whether a response is kept) and what it returns to the Retry loop, translated
    from the Go source, is `classify` and the loop's own stop/retry rule: timeout → retryable with nothing stored;
    a response of the wrong type → permanent and dropped, whatever error came with it; otherwise the plugin's
    error decides -/
theorem translated_exec_tail (o : Outcome) :
    let r := Generated.T4.execTail o.overrun o.resp (TranslatedExec.toErrKind o.err)
    r.1 = (classify o).1 ∧ (r.2.1 != RespKind.none) = (classify o).2 ∧ r.2.2 = TranslatedExec.retOf (classify o).1 :=
  TranslatedExec.execTail_eq o

/-- the model's Retry loop makes one more call exactly when the translated exec returns a retryable error -/
theorem retry_loop_follows_exec (sc : Nat → Outcome) (fuel : Nat) (s : St) :
    let a := record (sc s.calls) s.clk
    let s' : St := { attempts := s.attempts ++ [a], evs := s.evs ++ [.enter s.calls, .exit s.calls, .write .running (s.attempts.length + 1)],
                     clk := s.clk + 2, calls := s.calls + 1 }
    loop sc (fuel + 1) s =
      (match TranslatedExec.retOf a.err with
       | .ok => (s', false)
       | .permanent => (s', true)
       | .retry => loop sc fuel s') :=
  TranslatedExec.loop_follows_ret sc fuel s

/-- the glue code this property's campaigns rest on (group `attemptGlue` of Model/SkeletonsGlue: code no model mirrors) still has
    the shape it was read with (regenerated from /repo on every run) -/
theorem facts_glue_skeleton : Generated.F15.attemptGlue = SkeletonsGlue.attemptGlue := by rfl

end Coercion.C05
