import CoercionModel.Model.Startup
import CoercionModel.Model.SkeletonsMore
import CoercionModel.Generated.F12
import CoercionModel.Proofs.TranslatedStartup
set_option linter.unusedSimpArgs false
/-
  C11 — Only live Running plans are resumed; stale ones closed, others untouched.

  Theorems over Model/Startup (every store content, every age, recovery on/off). Tie:
  harness/c11_test.go — stores holding mixes of NotStarted / Running (cut of a recorded execution) /
  terminal plans with back-dated activity on either side of the configured maximum (±2 s margin; the
  exact boundary is covered by `boundary_is_live` and the reading of `Before`), recovery on and off;
  the set of plans acted on, the plugin calls, and the whole stored images before/after are compared
  with `fate` / `close`.
  History: closing a stale plan used to persist only the plan row (D18: blocks, sequences, actions
  stayed Running) — repaired by a `fix:` commit; the sqlite reader dropped the reason (D3) — repaired.
-/
namespace Coercion.C11
open Coercion Coercion.Startup

/-- exactly the Running plans are considered: anything else is untouched, whatever its age -/
theorem only_running_considered (rec : Bool) (maxAge now : Nat) (p : Stored) (h : p.status ≠ .running) :
    fate rec maxAge now p = .untouched := by
  cases rec <;> simp [fate, h]

/-- a Running plan is resumed iff recovery is enabled and its last activity is not older than maxAge -/
theorem resumed_iff (rec : Bool) (maxAge now : Nat) (p : Stored) :
    fate rec maxAge now p = .resumed ↔ (rec = true ∧ p.status = .running ∧ now ≤ p.lastUpdate + maxAge) := by
  cases rec
  · simp [fate]
  · by_cases h : p.status = .running <;> simp [fate, stale, h] <;> omega

/-- a Running plan is closed iff recovery is enabled and its last activity is older than maxAge -/
theorem closed_iff (rec : Bool) (maxAge now : Nat) (p : Stored) :
    fate rec maxAge now p = .closed ↔ (rec = true ∧ p.status = .running ∧ p.lastUpdate + maxAge < now) := by
  cases rec
  · simp [fate]
  · by_cases h : p.status = .running <;> simp [fate, stale, h]

/-- the boundary is live: a plan whose last activity is exactly maxAge old is still resumed -/
theorem boundary_is_live (maxAge : Nat) (p : Stored) (h : p.status = .running) :
    fate true maxAge (p.lastUpdate + maxAge) p = .resumed := by
  simp [fate, stale, h]

/-- with recovery disabled nothing is resumed or modified -/
theorem no_recovery_nothing (maxAge now : Nat) (p : Stored) : fate false maxAge now p = .untouched := by
  simp [fate]

/-- a closed plan is Failed with reason ExceedRecovery and nothing in it is left Running -/
theorem closed_nothing_running (p : Stored) :
    (close p).1.status = .failed ∧ (close p).2 = .exceedRecovery ∧ ∀ s ∈ (close p).1.inner, s ≠ .running := by
  refine ⟨rfl, rfl, ?_⟩
  intro s hs
  simp only [close, List.mem_map] at hs
  obtain ⟨t, _, rfl⟩ := hs
  by_cases h : t = .running <;> simp [h]

/-- closing changes nothing but Running objects -/
theorem close_keeps_others (p : Stored) : (close p).1.inner.length = p.inner.length ∧
    ∀ i (h : i < p.inner.length), p.inner[i] ≠ .running → ((close p).1.inner[i]?) = some p.inner[i] := by
  refine ⟨by simp [close], ?_⟩
  intro i h hn
  simp [close, h, hn]

/-! ### non-vacuity -/
example : [fate true 100 1000 ⟨1, .running, 880, []⟩, fate true 100 1000 ⟨2, .running, 900, []⟩, fate true 100 1000 ⟨3, .notStarted, 0, []⟩,
    fate true 100 1000 ⟨4, .completed, 1, []⟩, fate false 100 1000 ⟨5, .running, 999, []⟩] =
    [.closed, .resumed, .untouched, .untouched, .untouched] := by decide

set_option maxRecDepth 100000 in
/-- the code this property's model mirrors still has the shape the model was written against (control-flow
    skeletons regenerated from /repo on every run, Model/SkeletonsMore) -/
theorem facts_model_skeleton : Generated.F12.startup = SkeletonsMore.startup := by rfl

/-! ### `recover.filterPlans`, translated from internal/execute/recovery.go on every run (translator T8) -/

/-- the translated `filterPlans` splits the Running plans it is given into the ones that stay in `req.Data.plans`
    (not stale) and the ones moved to `req.Data.agedOut` (stale), each in the original order -/
theorem translated_filterPlans (maxAge now : Nat) (plans : List Stored) :
    Generated.T8.filterPlans maxAge now plans = (plans.filter (fun p => !stale maxAge now p), plans.filter (stale maxAge now)) :=
  TranslatedStartup.filterPlans_eq maxAge now plans

/-- so, for every Running plan found at start-up: it is kept for resumption iff Model/Startup says `resumed`, and it is
    moved to the aged-out list iff the model says `closed` — no plan is lost, none is in both lists -/
theorem translated_fate (maxAge now : Nat) (plans : List Stored) (p : Stored) (hp : p ∈ plans) (hr : p.status = .running) :
    (p ∈ (Generated.T8.filterPlans maxAge now plans).1 ↔ fate true maxAge now p = .resumed) ∧
    (p ∈ (Generated.T8.filterPlans maxAge now plans).2 ↔ fate true maxAge now p = .closed) := by
  rw [translated_filterPlans]
  simp only [List.mem_filter, hp, true_and, fate, hr, ne_eq, not_true_eq_false, Bool.not_true, Bool.false_eq_true, ite_false]
  by_cases h : stale maxAge now p = true
  · simp [h]
  · have h' : stale maxAge now p = false := by simpa using h
    simp [h']

example : (Generated.T8.filterPlans 100 1000 [{ id := 1, status := .running, lastUpdate := 950 }, { id := 2, status := .running, lastUpdate := 800 },
    { id := 3, status := .running, lastUpdate := 900 }]).1.map (·.id) = [1, 3] := by decide

end Coercion.C11
