import CoercionModel.Proofs.Engine
import CoercionModel.Proofs.TranslatedGates
import CoercionModel.Proofs.Regate
import CoercionModel.Proofs.TranslatedPlan
import CoercionModel.Proofs.FixPlan
import CoercionModel.Model.Skeletons
import CoercionModel.Generated.F10
import CoercionModel.Model.SkeletonsRest
import CoercionModel.Generated.F14
set_option linter.unusedSimpArgs false
/-
  C06 — Bypass and pre-check gating: what must not run does not run.

  Theorems over Model/Engine (all plans/blocks, all outcome scripts). Tie: exact comparison of stage
  order, verdicts, statuses and per-action call counts with the implementation on schedule-independent
  configurations + monitors C06.* on every run (harness/monitors_test.go).
  History: the last clause (failed pre-check ⇒ scope ends Failed) used to be false for a block that
  also has ContChecks — BlockEnd waited forever on a channel nobody would close (D1); repaired by a
  `fix:` commit, the model has no such hang.
-/
namespace Coercion.C06
open Coercion Coercion.Engine

/-- If every bypass check of a block succeeds, nothing else of the block is invoked and it ends
    Completed. -/
theorem block_bypass_skips (b : MBlock) (g : MGroup) (hb : b.bypass = some g) (hok : groupOk g = true) :
    (execBlockR b).evs = [.group (some b.idx) .bypass g.idx true, .blockEnd b.idx .completed] ∧
    blkStatus b = .completed := by
  have hbyp : blkBypassed b = true := by simp [blkBypassed, optRan, hb, hok]
  have hrun : blkSeqsRun b = false := by simp [blkSeqsRun, hbyp]
  have hpost : blkPostRun b = false := by simp [blkPostRun, hrun]
  have hst : blkStatus b = .completed := by simp [blkStatus, blkFailed, hbyp]
  refine ⟨?_, hst⟩
  rw [execBlockR_evs]
  simp [stage_evs, contStage_evs, hbyp, hrun, hpost, hst, hb, hok]

/-- A failed bypass alone never fails the block: the block behaves exactly as if it had no bypass
    checks (same status, same stages after the bypass run). -/
theorem block_bypass_failure_irrelevant (b : MBlock) (g : MGroup) (hb : b.bypass = some g) (hok : groupOk g = false) :
    blkStatus b = blkStatus { b with bypass := none } ∧
    (execBlockR b).evs = .group (some b.idx) .bypass g.idx false :: (execBlockR { b with bypass := none }).evs := by
  have h1 : blkBypassed b = false := by simp [blkBypassed, optRan, hb, hok]
  have h2 : blkBypassed { b with bypass := none } = false := by simp [blkBypassed, optRan]
  have h3 : blkPreOk { b with bypass := none } = blkPreOk b := rfl
  have h4 : blkSeqsRun { b with bypass := none } = blkSeqsRun b := by simp [blkSeqsRun, h1, h2, h3]
  have h5 : seqStage (blkSeqsRun b) { b with bypass := none } = seqStage (blkSeqsRun b) b := rfl
  have h6 : blkExceeded { b with bypass := none } = blkExceeded b := by simp [blkExceeded, h4, h5]
  have h7 : blkPostRun { b with bypass := none } = blkPostRun b := by simp [blkPostRun, h4, h6]
  have h8 : blkStatus { b with bypass := none } = blkStatus b := by
    simp [blkStatus, blkFailed, h1, h2, h3, h6, h7]
  refine ⟨h8.symm, ?_⟩
  rw [execBlockR_evs, execBlockR_evs]
  simp [stage_evs, contStage_evs, h1, h2, h4, h5, h7, h8, hb, hok]

/-- If a pre-check, or the initial run of a continuous check, of a block fails, no sequence of the
    block runs, the block ends Failed, and its deferred checks still run. -/
theorem block_pre_failure (b : MBlock) (hbyp : blkBypassed b = false) (hpre : blkPreOk b = false) :
    (∀ bi q ok, Ev.seq bi q ok ∉ (execBlockR b).evs) ∧ blkStatus b = .failed ∧
    (∀ d, b.deferred = some d → Ev.group (some b.idx) .deferred d.idx (groupOk d) ∈ (execBlockR b).evs) := by
  have hrun : blkSeqsRun b = false := by simp [blkSeqsRun, hpre]
  have hpost : blkPostRun b = false := by simp [blkPostRun, hrun]
  refine ⟨?_, by simp [blkStatus, blkFailed, hbyp, hpre], ?_⟩
  · intro bi q ok h
    rw [execBlockR_evs] at h
    simp only [hrun, hpost, hbyp, List.mem_append, List.mem_singleton, seqStage_false] at h
    rcases h with (((((h | h) | h) | h) | h) | h) | h
    · obtain ⟨_, _, _, h⟩ := mem_stage h; cases h
    · obtain ⟨_, _, _, h⟩ := mem_stage h; cases h
    · obtain ⟨_, _, _, _, h⟩ := mem_contStage h; cases h
    · simp at h
    · obtain ⟨_, _, _, h⟩ := mem_stage h; cases h
    · obtain ⟨_, _, _, h⟩ := mem_stage h; cases h
    · cases h
  · intro d hd
    rw [execBlockR_evs]
    simp [stage_evs, hbyp, hd]

theorem final_bypassed (pre cont post dfr : Option (Option Bool)) (bo : Bool) :
    final (some true) pre cont post dfr bo = (.completed, .unknown) := by simp [final]

/-- If every bypass check of the plan succeeds, nothing else is invoked and the plan ends Completed
    with no failure reason. -/
theorem plan_bypass_skips (p : MPlan) (g : MGroup) (hb : p.bypass = some g) (hok : groupOk g = true) :
    (runPlan p).out.evs = [.group none .bypass g.idx true] ∧ (runPlan p).status = .completed ∧ (runPlan p).reason = .unknown := by
  have hbyp : planBypassed p = true := by simp [planBypassed, optRan, hb, hok]
  have hrun : planBlocksRun p = false := by simp [planBlocksRun, hbyp]
  have hok2 : planBlocksOk p = false := by simp [planBlocksOk, hrun]
  have hf : planFinal p = (.completed, .unknown) := by simp [planFinal, hb, hok, final_bypassed]
  refine ⟨?_, by simp [runPlan, hf], by simp [runPlan, hf]⟩
  simp [runPlan, stage_evs, contStage_evs, hbyp, hrun, hok2, planPostRun, hb, hok]

/-- If a plan pre-check (or the initial run of the plan's continuous checks) fails, no block is
    entered — so no sequence action of the plan is ever invoked — and the plan ends Failed. -/
theorem plan_pre_failure (p : MPlan) (hbyp : planBypassed p = false) (hpre : planPreOk p = false) :
    (blockStage (planBlocksRun p) p).1.evs = [] ∧ (runPlan p).status = .failed := by
  have hrun : planBlocksRun p = false := by simp [planBlocksRun, hpre]
  refine ⟨by simp [hrun], ?_⟩
  have hbn : p.bypass.map groupOk ≠ some true := by
    simp only [planBypassed, optRan] at hbyp
    cases hb : p.bypass <;> simp_all
  simp only [runPlan, planFinal, final]
  have : (p.bypass.map groupOk == some true) = false := by simpa using hbn
  simp only [this, Bool.false_eq_true, ite_false]
  -- pre is present (otherwise preOk would hold) and either it or the initial cont run failed
  simp only [planPreOk] at hpre
  cases hp : p.pre with
  | none => simp [hp] at hpre
  | some pre =>
    simp only [hp, Bool.and_eq_false_iff] at hpre
    simp only [verdict, hp, hbyp, planContVerdict, Option.map_some, Bool.not_false, ite_true]
    cases hgo : groupOk pre
    · simp
    · rcases hpre with h | h
      · simp [hgo] at h
      · cases hc : p.cont with
        | none => simp [optOk, hc] at h
        | some c => simp [optOk, hc] at h; simp [h]

/-! ### non-vacuity -/
def bad : MAction := { idx := 9, script := [{ resp := .none, err := .permanent }] }
def exB : MBlock := { idx := 1, bypass := some { idx := 2, actions := [{ idx := 3 }] }, seqs := [{ idx := 4, actions := [bad] }] }
example : blkStatus exB = .completed ∧ (execBlockR exB).evs.length = 2 := by decide
example : blkStatus { exB with bypass := some { idx := 2, actions := [bad] } } = .failed := by decide
example : blkPreOk { exB with bypass := none, pre := some { idx := 5, actions := [bad] } } = false := by decide

/-- translated from the Go source on every run: after a recovery a gate (bypass / pre / cont group) is skipped
    exactly when it is absent — a present group is never skipped, whatever its stored status — and a scope
    counts as bypassed exactly when its bypass group exists and is Completed -/
theorem translated_skipRecoveredChecks (o : Option Checks) : Generated.T1.skipRecoveredChecksOpt o = o.isNone := Translated.skipRecoveredChecks_eq o
theorem translated_examineBypasses (o : Option Checks) : Generated.T1.examineBypassesOpt o = (o.map (·.status) == some .completed) :=
  Translated.examineBypasses_eq o

/-! ### the gate on entry to a block, fresh or recovered (Model/Regate; defect D29, fix 126bafb) -/

/-- a block that has PreChecks is never entered past a ContChecks group whose first run has not completed:
    the gate runs it — also after a recovery in which the PreChecks are already Completed -/
theorem recovered_block_cont_gated (pre c : Status) (hc : c ≠ .completed) :
    Regate.runsCont (Regate.blockGate (some pre) (some c)) = true := Regate.cont_gated pre c hc
/-- the pinned code skipped that run after a recovery (D29) -/
theorem old_gate_skipped_cont : Regate.runsCont (Regate.blockGateOld (some .completed) (some .notStarted)) = false :=
  Regate.old_gate_skipped_cont
/-- on a fresh run nothing changed -/
theorem gate_fresh_same (pre cont : Option Status) (hp : pre ≠ some .completed) :
    Regate.blockGate pre cont = Regate.blockGateOld pre cont := Regate.fresh_same pre cont hp
/-- BlockPreChecks / PlanPreChecks still have the shape Model/Regate and Model/Engine were written against -/
theorem facts_gate_skeleton :
    Generated.F10.blockPreChecks = Skeletons.blockPreChecks ∧ Generated.F10.planPreChecks = Skeletons.planPreChecks := by
  decide

/-! ### gating during the repair of a recovered block (`fixBlock`, translated by T6 on every run) -/

/-- A Running block whose PreChecks, ContChecks or PostChecks are durably Failed (and whose bypass did not complete) is
    closed Failed by the repair and none of its sequences is repaired, resumed or executed — whatever `execSeq` would do. -/
theorem recovery_failed_gate_runs_nothing (exec : Sequence → Sequence × Bool) (now : Nat) (b : Block) (hr : b.status = .running)
    (hb : Fix.grpStatus b.bypass ≠ some .completed)
    (hg : Fix.grpStatus b.pre = some .failed ∨ Fix.grpStatus b.cont = some .failed ∨ Fix.grpStatus b.post = some .failed) :
    (Generated.T6.fixBlock exec now b).status = .failed ∧ (Generated.T6.fixBlock exec now b).seqs = b.seqs := by
  rw [Translated.fixBlock_eq]; exact Fix.fixBlock_failed_gate exec now b hr hb hg

/-- a Running block whose bypass completed is closed Completed by the repair; no sequence is touched -/
theorem recovery_bypassed_block_runs_nothing (exec : Sequence → Sequence × Bool) (now : Nat) (b : Block) (hr : b.status = .running)
    (hb : Fix.grpStatus b.bypass = some .completed) :
    (Generated.T6.fixBlock exec now b).status = .completed ∧ (Generated.T6.fixBlock exec now b).seqs = b.seqs := by
  rw [Translated.fixBlock_eq]; exact Fix.fixBlock_bypassed exec now b hr hb

example : Fix.grpStatus ({ status := .running, pre := some { status := .failed } } : Block).pre = some .failed := by decide

/-- the engine functions this property's model depends on only through their effects (group `gatesRest` of
    Model/SkeletonsRest) still have the shape they were read with (regenerated from /repo on every run) -/
theorem facts_skeleton_rest : Generated.F14.gatesRest = SkeletonsRest.gatesRest := by rfl

end Coercion.C06
