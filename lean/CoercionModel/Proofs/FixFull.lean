import CoercionModel.Model.FixFull
set_option linter.unusedSimpArgs false
namespace Coercion.Fix
open Coercion

theorem fixAction_not_stopped (a : Action) (h : a.status ≠ .stopped) : (fixAction a).status ≠ .stopped := by
  unfold fixAction
  split
  · exact h
  · simp only
    split
    · simp [resetAction]
    · split <;> simp

theorem any_stopped_map_fixAction (as : List Action) (h : as.any (·.status == .stopped) = false) :
    (as.map fixAction).any (·.status == .stopped) = false := by
  induction as with
  | nil => rfl
  | cons a as ih =>
    simp only [List.any_cons, List.map_cons, Bool.or_eq_false_iff] at h ⊢
    refine ⟨?_, ih h.2⟩
    have ha : a.status ≠ .stopped := by simpa using h.1
    simpa using fixAction_not_stopped a ha

/-- Without Stopped actions (nothing in the engine produces Stopped) the full function is Model/Fix.fixSeq
    up to the End time the code stamps on a sequence it finishes -/
theorem fixSeqFull_eq_fixSeq (now : Nat) (q : Sequence) (h : q.actions.any (·.status == .stopped) = false) :
    { fixSeqFull now q with tEnd := (fixSeq q).tEnd } = fixSeq q := by
  have h0 := any_stopped_map_fixAction q.actions h
  unfold fixSeqFull fixSeq
  by_cases hr : q.status = .running
  · simp only [hr, ne_eq, not_true_eq_false, ite_false, h, h0, Bool.false_eq_true]
    split
    · rfl
    · split
      · rfl
      · split <;> rfl
  · simp [hr]

/-- the repaired sequence's status does not depend on the clock -/
theorem fixSeqFull_status (now : Nat) (q : Sequence) (h : q.actions.any (·.status == .stopped) = false) :
    (fixSeqFull now q).status = (fixSeq q).status := by
  have := congrArg Sequence.status (fixSeqFull_eq_fixSeq now q h)
  simpa using this

theorem fixChecks_only_running (c : Checks) (h : c.status ≠ .running) : fixChecks c = c := by simp [fixChecks, h]

theorem fixChecks_resets (c : Checks) (h : c.status = .running) :
    (fixChecks c).status = .notStarted ∧ ∀ a ∈ (fixChecks c).actions, a.status = .notStarted ∧ a.attempts = [] := by
  simp only [fixChecks, h, ne_eq, not_true_eq_false, ite_false, true_and]
  intro a ha
  simp only [List.mem_map] at ha
  obtain ⟨b, _, rfl⟩ := ha
  simp [resetAction]

end Coercion.Fix
