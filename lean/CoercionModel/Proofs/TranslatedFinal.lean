import CoercionModel.Generated.T1
import CoercionModel.Model.Engine
set_option linter.unusedSimpArgs false
/-
  Proofs/TranslatedFinal — `finalStates.examineChecks` (final.go), translated on every run (Generated/T1:
  the loop over [pre, cont, post, deferred] unrolled, `switch i` resolved, an error value = true), is the
  chain of `Model/Engine.final`.
-/
namespace Coercion.TranslatedFinal
open Coercion Coercion.Generated

/-- what `finalStates` sees of a group: absent, Completed, or anything else (Failed, or never finished) -/
def verdictOf (o : Option Checks) : Option (Option Bool) :=
  o.map fun c => if c.status == .completed then some true else if c.status == .failed then some false else none

/-- Go's `examineChecks` on [pre, cont, post, deferred] names the first group that is present and not
    Completed — exactly the chain of `Model/Engine.final` (with no bypass and blocks fine) -/
theorem examineChecks_eq (pre cont post dfr : Option Checks) :
    T1.examineChecks [pre, cont, post, dfr] =
      (match Engine.final none (verdictOf pre) (verdictOf cont) (verdictOf post) (verdictOf dfr) true with
       | (.failed, r) => (r, true)
       | _ => (.unknown, false)) := by
  unfold T1.examineChecks T1.examineChecks_0 T1.examineChecks_1 T1.examineChecks_2 T1.examineChecks_3 T1.examineChecks_4
  cases pre <;> cases cont <;> cases post <;> cases dfr <;> simp [Engine.final, verdictOf] <;>
    (repeat' split) <;> simp_all

end Coercion.TranslatedFinal
