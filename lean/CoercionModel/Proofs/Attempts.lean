import CoercionModel.Model.Attempts
set_option linter.unusedSimpArgs false
namespace Coercion.Attempts
open Coercion

/-- errors after which `Retry` calls `exec` again -/
def retryable : ErrKind → Bool
  | .transient | .timeout => true
  | _ => false

/-- the outcomes consumed by the loop, by plain recursion: stop at the first non-retryable one -/
def consumed (sc : Nat → Outcome) : Nat → Nat → List Outcome
  | 0, _ => []
  | f + 1, k => if retryable (classify (sc k)).1 then sc k :: consumed sc f (k + 1) else [sc k]

def recordAll : List Outcome → Nat → List Attempt
  | [], _ => []
  | o :: os, clk => record o clk :: recordAll os (clk + 2)

/-- events of the calls: k = index of the first call, n = attempts already recorded -/
def evsFor : List Outcome → Nat → Nat → List Ev
  | [], _, _ => []
  | _ :: os, k, n => [.enter k, .exit k, .write .running (n + 1)] ++ evsFor os (k + 1) (n + 1)

/-- `Data.err != nil` after the loop: true unless the last call's recorded error is none -/
def errOf (os : List Outcome) : Bool :=
  match os.getLast? with
  | none => true
  | some o => (classify o).1 != .none

theorem errOf_cons_cons (a b : Outcome) (l : List Outcome) : errOf (a :: b :: l) = errOf (b :: l) := by
  simp [errOf, List.getLast?_cons_cons]

theorem loop_eq (sc : Nat → Outcome) (fuel : Nat) (s : St) :
    loop sc fuel s =
      ({ attempts := s.attempts ++ recordAll (consumed sc fuel s.calls) s.clk,
         evs := s.evs ++ evsFor (consumed sc fuel s.calls) s.calls s.attempts.length,
         clk := s.clk + 2 * (consumed sc fuel s.calls).length,
         calls := s.calls + (consumed sc fuel s.calls).length },
       errOf (consumed sc fuel s.calls)) := by
  induction fuel generalizing s with
  | zero => simp [loop, consumed, recordAll, evsFor, errOf]
  | succ f ih =>
    simp only [loop, consumed]
    cases h : (classify (sc s.calls)).1 <;>
      simp [record, h, retryable, recordAll, evsFor, errOf, ih, List.getLast?_cons_cons] <;>
      (try (constructor <;> omega)) <;> (try omega)
    all_goals
      cases hc : consumed sc f (s.calls + 1) with
      | nil => simp [h]; decide
      | cons b l => simp [List.getLast?_cons_cons, Nat.mul_add, Nat.add_assoc, Nat.add_comm 1, recordAll, evsFor] <;> omega

theorem consumed_length_le (sc : Nat → Outcome) (fuel k : Nat) : (consumed sc fuel k).length ≤ fuel := by
  induction fuel generalizing k with
  | zero => simp [consumed]
  | succ f ih =>
    simp only [consumed]; split
    · simp; exact ih _
    · simp

/-- the consumed outcomes are exactly sc k, sc (k+1), … in order -/
theorem consumed_eq_map (sc : Nat → Outcome) (fuel k : Nat) :
    consumed sc fuel k = (List.range' k (consumed sc fuel k).length).map sc := by
  induction fuel generalizing k with
  | zero => simp [consumed]
  | succ f ih =>
    simp only [consumed]; split
    · simp only [List.length_cons, List.range'_succ, List.map_cons]
      congr 1
      exact ih (k + 1)
    · simp [List.range'_succ]

/-- every consumed outcome but the last was retryable: the plugin is never called again after a
    success or a permanent error -/
theorem consumed_init_retryable (sc : Nat → Outcome) (fuel k : Nat) :
    ∀ o ∈ (consumed sc fuel k).dropLast, retryable (classify o).1 = true := by
  induction fuel generalizing k with
  | zero => simp [consumed]
  | succ f ih =>
    simp only [consumed]; split
    · rename_i h
      intro o ho
      cases hc : consumed sc f (k + 1) with
      | nil => simp [hc] at ho
      | cons b l =>
        rw [hc, List.dropLast_cons_cons] at ho
        rcases List.mem_cons.mp ho with rfl | ho
        · exact h
        · exact ih (k + 1) o (by rw [hc]; exact ho)
    · simp

/-- if the loop stopped before its budget was used up, the last outcome was not retryable -/
theorem consumed_short_last (sc : Nat → Outcome) (fuel k : Nat)
    (h : (consumed sc fuel k).length < fuel) :
    ∃ o, (consumed sc fuel k).getLast? = some o ∧ retryable (classify o).1 = false := by
  induction fuel generalizing k with
  | zero => simp at h
  | succ f ih =>
    simp only [consumed] at h ⊢; split
    · rename_i hr
      simp only [hr, ite_true, List.length_cons] at h
      obtain ⟨o, ho, hn⟩ := ih (k + 1) (by omega)
      refine ⟨o, ?_, hn⟩
      cases hc : consumed sc f (k + 1) with
      | nil => simp [hc] at ho
      | cons b l => rw [List.getLast?_cons_cons, ← hc]; exact ho
    · rename_i hr
      exact ⟨sc k, by simp, by simpa using hr⟩

theorem recordAll_length (os : List Outcome) (clk : Nat) : (recordAll os clk).length = os.length := by
  induction os generalizing clk with
  | nil => rfl
  | cons o os ih => simp [recordAll, ih]

theorem recordAll_kinds (os : List Outcome) (clk : Nat) :
    (recordAll os clk).map (fun a => (a.err, a.resp)) = os.map classify := by
  induction os generalizing clk with
  | nil => rfl
  | cons o os ih => simp [recordAll, record, ih]

theorem recordAll_times (os : List Outcome) (clk : Nat) :
    ∀ a ∈ recordAll os clk, clk < a.tStart ∧ a.tStart ≤ a.tEnd := by
  induction os generalizing clk with
  | nil => simp [recordAll]
  | cons o os ih =>
    intro a ha
    simp only [recordAll, List.mem_cons] at ha
    rcases ha with rfl | ha
    · simp [record]
    · have := ih (clk + 2) a ha; omega

/-- attempts are recorded in chronological order: each starts after the previous one ended -/
theorem recordAll_sorted (os : List Outcome) (clk : Nat) :
    (recordAll os clk).Pairwise (fun a b => a.tEnd < b.tStart) := by
  induction os generalizing clk with
  | nil => simp [recordAll]
  | cons o os ih =>
    simp only [recordAll, List.pairwise_cons]
    refine ⟨?_, ih _⟩
    intro b hb
    have := recordAll_times os (clk + 2) b hb
    simp [record]; omega

end Coercion.Attempts
