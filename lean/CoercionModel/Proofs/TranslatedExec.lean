import CoercionModel.Generated.T4
import CoercionModel.Model.Attempts
set_option linter.unusedSimpArgs false
set_option linter.unusedVariables false
/-
  Proofs/TranslatedExec — the decision tail of Runner.exec (actions.go), translated on every run
  (Generated/T4.lean by harness/extract/t4.go), is `Model/Attempts.classify` + the stop/retry decision of
  `Model/Attempts.loop`.
-/
namespace Coercion.TranslatedExec
open Coercion Coercion.Attempts Coercion.Generated

def toErrKind : PErr → ErrKind
  | .none => .none | .transient => .transient | .permanent => .permanent

/-- how the Retry loop of Model/Attempts reacts to what was recorded -/
def retOf : ErrKind → T4.Ret
  | .none => .ok
  | .permanent | .typeErr => .permanent
  | .transient | .timeout => .retry

/-- the decision tail of exec, translated, records exactly what `Model/Attempts.classify` says and returns what
    the model's Retry loop acts on (stop with success / stop with failure / call again) -/
theorem execTail_eq (o : Outcome) :
    let r := T4.execTail o.overrun o.resp (toErrKind o.err)
    r.1 = (classify o).1 ∧ (r.2.1 != RespKind.none) = (classify o).2 ∧ r.2.2 = retOf (classify o).1 := by
  obtain ⟨resp, err, overrun⟩ := o
  cases overrun <;> cases resp <;> cases err <;> decide

/-- … and that is how `Model/Attempts.loop` (exponential.Retry around exec) uses it: one more call exactly on `retry` -/
theorem loop_follows_ret (sc : Nat → Outcome) (fuel : Nat) (s : St) :
    let a := record (sc s.calls) s.clk
    let s' : St := { attempts := s.attempts ++ [a], evs := s.evs ++ [.enter s.calls, .exit s.calls, .write .running (s.attempts.length + 1)],
                     clk := s.clk + 2, calls := s.calls + 1 }
    loop sc (fuel + 1) s =
      (match retOf a.err with
       | .ok => (s', false)
       | .permanent => (s', true)
       | .retry => loop sc fuel s') := by
  simp only [loop]
  cases h : (record (sc s.calls) s.clk).err <;> simp [retOf, h]

end Coercion.TranslatedExec
