import CoercionModel.Model.Engine
set_option linter.unusedSimpArgs false
namespace Coercion.Engine
open Coercion

@[simp] theorem append_evs (a b : Out) : (a ++ b).evs = a.evs ++ b.evs := rfl
@[simp] theorem append_objs (a b : Out) : (a ++ b).objs = a.objs ++ b.objs := rfl
@[simp] theorem empty_evs : ({} : Out).evs = [] := rfl

@[simp] theorem idleGroup_evs (g : MGroup) : (idleGroup g).evs = [] := rfl
@[simp] theorem idleOpt_evs (g : Option MGroup) : (idleOpt g).evs = [] := by cases g <;> rfl
@[simp] theorem contIdle_evs (g : Option MGroup) : (contIdle g).evs = [] := by cases g <;> rfl
@[simp] theorem idleSeq_evs (q : MSeq) : (idleSeq q).evs = [] := rfl

theorem foldl_idle_evs {α} (f : α → Out) (h : ∀ a, (f a).evs = []) (l : List α) (o : Out) :
    (l.foldl (fun o a => o ++ f a) o).evs = o.evs := by
  induction l generalizing o with
  | nil => rfl
  | cons a l ih => simp [List.foldl_cons, ih, h]

@[simp] theorem idleSeqs_evs (qs : List MSeq) : (idleSeqs qs).evs = [] := by
  simp [idleSeqs, foldl_idle_evs (fun q => idleSeq q) (by simp)]

@[simp] theorem idleBlock_evs (b : MBlock) : (idleBlock b).evs = [] := by simp [idleBlock]

@[simp] theorem idleBlocks_evs (bs : List MBlock) : (idleBlocks bs).evs = [] := by
  simp [idleBlocks, foldl_idle_evs (fun b => idleBlock b) (by simp)]

theorem runOpt_evs (sc : Option Nat) (k : GKind) (g : Option MGroup) :
    (runOpt sc k g).evs = match g with
      | none => []
      | some g => [.group sc k g.idx (groupOk g)] := by
  cases g <;> rfl

/-- position of an event inside its block: bypass, pre, cont, sequences, post, deferred, end -/
def blockRank : Ev → Nat
  | .group _ .bypass _ _ => 0
  | .group _ .pre _ _ => 1
  | .group _ .cont _ _ => 2
  | .seq .. => 3
  | .group _ .post _ _ => 4
  | .group _ .deferred _ _ => 5
  | .blockEnd .. => 6

/-- all events of `l` have rank `r` -/
def Seg (rank : Ev → Nat) (r : Nat) (l : List Ev) : Prop := ∀ e ∈ l, rank e = r

/-- `l` is ordered by rank and stays at or below `r` -/
def Upto (rank : Ev → Nat) (r : Nat) (l : List Ev) : Prop :=
  (l.map rank).Pairwise (· ≤ ·) ∧ ∀ e ∈ l, rank e ≤ r

theorem upto_nil (rank : Ev → Nat) (r : Nat) : Upto rank r [] := by simp [Upto]

theorem upto_append (rank : Ev → Nat) {r r' : Nat} {a b : List Ev} (ha : Upto rank r a) (hr : r ≤ r')
    (hb : Seg rank r' b) : Upto rank r' (a ++ b) := by
  refine ⟨?_, ?_⟩
  · rw [List.map_append, List.pairwise_append]
    refine ⟨ha.1, ?_, ?_⟩
    · rw [List.pairwise_map]
      have : ∀ x ∈ b, ∀ y ∈ b, rank x ≤ rank y := by
        intro x hx y hy; rw [hb x hx, hb y hy]; exact Nat.le_refl _
      exact List.Pairwise.imp_of_mem (fun hx hy _ => this _ hx _ hy) (List.pairwise_of_forall (l := b) (R := fun _ _ => True) (fun _ _ => trivial))
    · intro x hx y hy
      obtain ⟨e, he, rfl⟩ := List.mem_map.mp hx
      obtain ⟨e', he', rfl⟩ := List.mem_map.mp hy
      rw [hb e' he']
      exact Nat.le_trans (ha.2 e he) hr
  · intro e he
    rcases List.mem_append.mp he with he | he
    · exact Nat.le_trans (ha.2 e he) hr
    · rw [hb e he]; exact Nat.le_refl _

theorem seg_nil (rank : Ev → Nat) (r : Nat) : Seg rank r [] := by simp [Seg]

theorem seg_runOpt (sc : Option Nat) (k : GKind) (g : Option MGroup) (r : Nat)
    (h : ∀ i ok, blockRank (.group sc k i ok) = r) : Seg blockRank r (runOpt sc k g).evs := by
  rw [runOpt_evs]
  cases g <;> simp [Seg, h]

theorem runSeqs_evs_seq (b : Nat) (tol : Int) (qs : List MSeq) (f : Nat) :
    ∀ e ∈ (runSeqs b tol qs f).1.evs, ∃ q ok, e = .seq b q ok := by
  induction qs generalizing f with
  | nil => simp [runSeqs]
  | cons q qs ih =>
    simp only [runSeqs]
    split
    · have := foldl_idle_evs (fun q => idleSeq q) (by simp) (q :: qs) {}
      simp at this
      simp [this]
    · intro e he
      simp only [append_evs, List.mem_append] at he
      rcases he with he | he
      · simp [runSeq] at he
        exact ⟨_, _, he⟩
      · exact ih _ e he

theorem seg_runSeqs (b : Nat) (tol : Int) (qs : List MSeq) (f : Nat) :
    Seg blockRank 3 (runSeqs b tol qs f).1.evs := by
  intro e he
  obtain ⟨q, ok, rfl⟩ := runSeqs_evs_seq b tol qs f e he
  rfl

/-- the events of a check-group stage: exactly one `.group` event of that scope and kind, iff it ran -/
theorem mem_stage {run : Bool} {sc : Option Nat} {k : GKind} {g : Option MGroup} {e : Ev}
    (h : e ∈ (stage run sc k g).evs) : run = true ∧ ∃ g', g = some g' ∧ e = .group sc k g'.idx (groupOk g') := by
  unfold stage at h
  cases run
  · simp at h
  · simp only [ite_true, runOpt_evs] at h
    cases g with
    | none => simp at h
    | some g' => simp at h; exact ⟨rfl, g', rfl, h⟩

theorem mem_contStage {skipped hasPre : Bool} {sc : Option Nat} {g : Option MGroup} {e : Ev}
    (h : e ∈ (contStage skipped hasPre sc g).evs) :
    skipped = false ∧ hasPre = true ∧ ∃ g', g = some g' ∧ e = .group sc .cont g'.idx (groupOk g') := by
  unfold contStage at h
  cases skipped
  · cases hasPre
    · simp at h
    · simp only [Bool.false_eq_true, ite_false, ite_true, runOpt_evs] at h
      cases g with
      | none => simp at h
      | some g' => simp at h; exact ⟨rfl, rfl, g', rfl, h⟩
  · simp at h

theorem mem_seqStage {run : Bool} {b : MBlock} {e : Ev} (h : e ∈ (seqStage run b).1.evs) :
    run = true ∧ ∃ q ok, e = .seq b.idx q ok := by
  unfold seqStage at h
  cases run
  · simp at h
  · exact ⟨rfl, runSeqs_evs_seq _ _ _ _ e h⟩

theorem seg_stage (run : Bool) (sc : Option Nat) (k : GKind) (g : Option MGroup) (r : Nat)
    (h : ∀ i ok, blockRank (.group sc k i ok) = r) : Seg blockRank r (stage run sc k g).evs := by
  intro e he
  obtain ⟨_, g', _, rfl⟩ := mem_stage he
  exact h _ _

theorem seg_contStage (a c : Bool) (sc : Option Nat) (g : Option MGroup) :
    Seg blockRank 2 (contStage a c sc g).evs := by
  intro e he
  obtain ⟨_, _, g', _, rfl⟩ := mem_contStage he
  rfl

theorem seg_seqStage (run : Bool) (b : MBlock) : Seg blockRank 3 (seqStage run b).1.evs := by
  intro e he
  obtain ⟨_, q, ok, rfl⟩ := mem_seqStage he
  rfl

theorem execBlockR_evs (b : MBlock) :
    (execBlockR b).evs =
      (stage true (some b.idx) .bypass b.bypass).evs ++ (stage (!blkBypassed b) (some b.idx) .pre b.pre).evs ++
      (contStage (blkBypassed b) b.pre.isSome (some b.idx) b.cont).evs ++ (seqStage (blkSeqsRun b) b).1.evs ++
      (stage (blkPostRun b) (some b.idx) .post b.post).evs ++ (stage (!blkBypassed b) (some b.idx) .deferred b.deferred).evs ++
      [.blockEnd b.idx (blkStatus b)] := by
  simp [execBlockR]

theorem stage_evs (run : Bool) (sc : Option Nat) (k : GKind) (g : Option MGroup) :
    (stage run sc k g).evs = if run then (match g with | none => [] | some g => [.group sc k g.idx (groupOk g)]) else [] := by
  cases run <;> simp [stage, runOpt_evs]

theorem contStage_evs (skipped hasPre : Bool) (sc : Option Nat) (g : Option MGroup) :
    (contStage skipped hasPre sc g).evs =
      if !skipped && hasPre then (match g with | none => [] | some g => [.group sc .cont g.idx (groupOk g)]) else [] := by
  cases skipped <;> cases hasPre <;> simp [contStage, runOpt_evs]

@[simp] theorem seqStage_false (b : MBlock) : (seqStage false b).1.evs = [] := by simp [seqStage]
@[simp] theorem blockStage_false (p : MPlan) : (blockStage false p).1.evs = [] := by simp [blockStage]

theorem countP_seqStage (run : Bool) (b : MBlock) (p : Ev → Bool) (hp : ∀ bi q ok, p (.seq bi q ok) = false) :
    (seqStage run b).1.evs.countP p = 0 := by
  rw [List.countP_eq_zero]
  intro e he
  obtain ⟨_, q, ok, rfl⟩ := mem_seqStage he
  simp [hp]

/-- number of failed sequences reported by the launch loop = number of failed `.seq` events + the start value -/
def isFailedSeq : Ev → Bool
  | .seq _ _ false => true
  | _ => false

theorem runSeqs_failures (b : Nat) (tol : Int) (qs : List MSeq) (f : Nat) :
    (runSeqs b tol qs f).2 = f + (runSeqs b tol qs f).1.evs.countP isFailedSeq := by
  induction qs generalizing f with
  | nil => simp [runSeqs]
  | cons q qs ih =>
    simp only [runSeqs]
    split
    · have := foldl_idle_evs (fun q => idleSeq q) (by simp) (q :: qs) {}
      simp at this
      simp [this]
    · rw [ih]
      simp only [append_evs, List.countP_append, runSeq, seqOk]
      by_cases h : (runSeqActs q.actions).2 = true <;> simp [h, isFailedSeq] <;> omega

/-- under the sequential schedule the loop stops exactly at the failure that exceeds the tolerance:
    it never records more than tol+1 failures -/
theorem runSeqs_bound (b : Nat) (tol : Int) (qs : List MSeq) (f : Nat) (ht : 0 ≤ tol) (hf : (f : Int) ≤ tol + 1) :
    ((runSeqs b tol qs f).2 : Int) ≤ tol + 1 := by
  induction qs generalizing f with
  | nil => simpa [runSeqs] using hf
  | cons q qs ih =>
    simp only [runSeqs]
    split
    · simpa using hf
    · rename_i hex
      simp only [exceeded, decide_eq_true_eq, not_and, Int.not_lt] at hex
      have := hex ht
      apply ih
      split <;> omega

end Coercion.Engine
