import CoercionModel.Generated.T2
import CoercionModel.Model.Walk
set_option linter.unusedSimpArgs false
/-
  Proofs/TranslatedWalk — walk.go, translated on every run into the walker combinators (Generated/T2.lean by
  harness/extract/t2.go), is Model/Walk: for this property the model the theorems are about is the code's own
  translation.
-/
namespace Coercion.TranslatedWalk
open Coercion Coercion.Walk Coercion.Generated

theorem andThen_done (a : W) : andThen a done = a := by
  funext s
  simp only [andThen, done]
  cases h : (a s).1 <;> simp [h] <;> (rw [← h])

theorem walkChecks_eq (cons : Cons) (chain : List Nat) (c : Checks) : T2.walkChecks cons chain c = Walk.walkChecks cons chain c := by
  simp [T2.walkChecks, Walk.walkChecks, andThen_done]

theorem walkSequence_eq (cons : Cons) (chain : List Nat) (q : Sequence) : T2.walkSequence cons chain q = Walk.walkSequence cons chain q := by
  simp [T2.walkSequence, Walk.walkSequence, andThen_done]

theorem walkBlock_eq (cons : Cons) (chain : List Nat) (b : Block) : T2.walkBlock cons chain b = Walk.walkBlock cons chain b := by
  have h1 : ∀ ch, T2.walkChecks cons ch = Walk.walkChecks cons ch := fun ch => funext (walkChecks_eq cons ch)
  have h2 : ∀ ch, (fun (q : Sequence) => T2.walkSequence cons ch q) = Walk.walkSequence cons ch := fun ch => funext (walkSequence_eq cons ch)
  simp [T2.walkBlock, Walk.walkBlock, andThen_done, h1, h2]

theorem walkPlan_eq (cons : Cons) (p : Plan) : T2.walkPlan cons p = Walk.walkPlan cons p := by
  have h1 : ∀ ch, T2.walkChecks cons ch = Walk.walkChecks cons ch := fun ch => funext (walkChecks_eq cons ch)
  have h2 : ∀ ch, (fun (b : Block) => T2.walkBlock cons ch b) = Walk.walkBlock cons ch := fun ch => funext (walkBlock_eq cons ch)
  simp [T2.walkPlan, Walk.walkPlan, andThen_done, h1, h2]

end Coercion.TranslatedWalk
