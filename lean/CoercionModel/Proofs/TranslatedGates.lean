import CoercionModel.Generated.T1
import CoercionModel.Model.Types
/- Proofs/TranslatedGates — skipRecoveredChecks (recovery.go) and examineBypasses (final.go), translated (Generated/T1), characterised. -/
set_option linter.unusedSimpArgs false
namespace Coercion.Translated
open Coercion
open Generated

/-- `examineBypasses`: a scope counts as bypassed exactly when its bypass group exists and is Completed -/
theorem examineBypasses_eq (o : Option Checks) : T1.examineBypassesOpt o = (o.map (·.status) == some .completed) := by
  cases o with
  | none => rfl
  | some c => simp [T1.examineBypassesOpt, T1.examineBypasses]

/-- `skipRecoveredChecks` skips exactly the absent groups (its two non-nil branches both say "do not skip") -/
theorem skipRecoveredChecks_eq (o : Option Checks) : T1.skipRecoveredChecksOpt o = o.isNone := by
  cases o with
  | none => rfl
  | some c => simp [T1.skipRecoveredChecksOpt, T1.skipRecoveredChecks]

end Coercion.Translated
