import CoercionModel.Model.Walk
namespace Coercion.Walk

/-- emitting a list of items one `yield` at a time -/
def emit (cons : Cons) (l : List Item) : W := forEach (yield cons) l

theorem andThen_assoc (a b c : W) : andThen (andThen a b) c = andThen a (andThen b c) := by
  funext s
  simp only [andThen]
  by_cases h : (a s).1 = true <;> simp [h]

@[simp] theorem done_andThen (a : W) : andThen done a = a := by
  funext s; simp [andThen, done]

@[simp] theorem andThen_done (a : W) : andThen a done = a := by
  funext s
  simp only [andThen, done]
  cases h : (a s).1 <;> simp [← h]

theorem forEach_append {α} (f : α → W) (xs ys : List α) :
    forEach f (xs ++ ys) = andThen (forEach f xs) (forEach f ys) := by
  induction xs with
  | nil => simp [forEach]
  | cons x xs ih => simp [forEach, ih, andThen_assoc]

theorem emit_append (cons : Cons) (a b : List Item) :
    emit cons (a ++ b) = andThen (emit cons a) (emit cons b) := forEach_append _ _ _

@[simp] theorem emit_nil (cons : Cons) : emit cons [] = done := rfl

theorem emit_cons (cons : Cons) (x : Item) (l : List Item) :
    emit cons (x :: l) = andThen (yield cons x) (emit cons l) := rfl

theorem emit_singleton (cons : Cons) (x : Item) : emit cons [x] = yield cons x := by
  simp [emit, forEach]

theorem forEach_yield_map {α} (cons : Cons) (g : α → Item) (xs : List α) :
    forEach (fun a => yield cons (g a)) xs = emit cons (xs.map g) := by
  induction xs with
  | nil => rfl
  | cons x xs ih => simp only [forEach, ih, List.map_cons, emit_cons]

theorem forEach_emit_flatMap {α} (cons : Cons) (g : α → List Item) (xs : List α) :
    forEach (fun a => emit cons (g a)) xs = emit cons (xs.flatMap g) := by
  induction xs with
  | nil => rfl
  | cons x xs ih => simp [forEach, ih, emit_append]

theorem walkChecks_eq (cons : Cons) (chain : List Nat) (c : Checks) :
    walkChecks cons chain c = emit cons (specChecks chain c) := by
  simp [walkChecks, specChecks, emit_cons, forEach_yield_map]

theorem walkSequence_eq (cons : Cons) (chain : List Nat) (q : Sequence) :
    walkSequence cons chain q = emit cons (specSequence chain q) := by
  simp [walkSequence, specSequence, emit_cons, forEach_yield_map]

theorem whenSome_checks_eq (cons : Cons) (chain : List Nat) (o : Option Checks) :
    whenSome (walkChecks cons chain) o = emit cons (specOpt chain o) := by
  cases o <;> simp [whenSome, specOpt, walkChecks_eq]

theorem walkBlock_eq (cons : Cons) (chain : List Nat) (b : Block) :
    walkBlock cons chain b = emit cons (specBlock chain b) := by
  have hs : walkSequence cons (chain ++ [b.id]) = fun q => emit cons (specSequence (chain ++ [b.id]) q) := by
    funext q; exact walkSequence_eq _ _ _
  simp only [walkBlock, specBlock, whenSome_checks_eq, hs, forEach_emit_flatMap, emit_cons, emit_append, andThen_assoc]

theorem walkPlan_eq (cons : Cons) (p : Plan) :
    walkPlan cons p = emit cons (specPlan p) := by
  have hs : walkBlock cons [p.id] = fun b => emit cons (specBlock [p.id] b) := by
    funext b; exact walkBlock_eq _ _ _
  simp only [walkPlan, specPlan, whenSome_checks_eq, hs, forEach_emit_flatMap, emit_cons, emit_append, andThen_assoc]

/-- what emitting `l` does to a live, clean consumer state -/
theorem emit_live (cons : Cons) (l : List Item) (s : St) (hl : s.live = true) :
    ((emit cons l s).2.out = s.out ++ takeCons cons s.out l) ∧ (emit cons l s).2.bad = s.bad := by
  induction l generalizing s with
  | nil => simp [done, takeCons]
  | cons x l ih =>
    simp only [emit_cons, andThen, yield, hl, ite_true, takeCons]
    cases hc : cons (s.out ++ [x])
    · simp
    · simp only [ite_true]
      have := ih { s with out := s.out ++ [x], live := true } rfl
      simp only [List.append_assoc, List.singleton_append] at this ⊢
      exact this

theorem takeCons_true (pre l : List Item) : takeCons (fun _ => true) pre l = l := by
  induction l generalizing pre with
  | nil => rfl
  | cons x l ih => simp [takeCons, ih]

theorem takeCons_stopAt (k : Nat) (pre l : List Item) (h : pre.length < k) :
    takeCons (stopAt k) pre l = l.take (k - pre.length) := by
  induction l generalizing pre with
  | nil => simp [takeCons]
  | cons x l ih =>
    simp only [takeCons, stopAt, List.length_append, List.length_singleton]
    by_cases hk : pre.length + 1 < k
    · simp only [hk, decide_true, ite_true]
      have := ih (pre ++ [x]) (by simpa using hk)
      simp only [List.length_append, List.length_singleton] at this
      rw [this]
      have : k - pre.length = (k - (pre.length + 1)) + 1 := by omega
      rw [this, List.take_succ_cons]
    · simp only [hk, decide_false]
      have : k - pre.length = 1 := by omega
      simp [this]

end Coercion.Walk
