import CoercionModel.Generated.T3
import CoercionModel.Model.BuilderPrims
/-
  Proofs/TranslatedBuilder — the chain methods of builder.go (Up, AddChecks, AddBlock, AddSequence, AddAction,
  Plan), translated on every run over the chain primitives of Model/BuilderPrims (Generated/T3.lean by
  harness/extract/t3.go), are `Model/Builder.step` on the corresponding calls.
-/
namespace Coercion.TranslatedBuilder
open Coercion Coercion.Builder Coercion.Generated
set_option linter.unusedSimpArgs false

/-- position "in a block" implies a block exists (C20.WF restricted to what these proofs need) -/
def HasBlock (s : B) : Prop :=
  match s.pos with
  | some .block | some (.blockGroup _) | some .seq => s.plan.blocks ≠ []
  | _ => True

theorem up_eq (s : B) : T3.up s = step s .up := by
  unfold T3.up
  simp only [step, Builder.pre]
  by_cases he : s.emitted = true
  · simp [he]
  · simp only [he, Bool.false_eq_true, ite_false]
    cases herr : s.err with
    | some e => rfl
    | none =>
      obtain ⟨plan, pos, emitted, err⟩ := s
      simp only at herr he ⊢
      subst herr
      have he' : emitted = false := by simpa using he
      subst he'
      cases pos with
      | none => simp [chainLen, fail]
      | some p => cases p <;> simp [chainLen, popChain, fail]

theorem plan_eq (s : B) : T3.plan s = step s .plan := by
  unfold T3.plan
  simp only [step]
  by_cases he : s.emitted = true
  · simp [he]
  · simp only [he, Bool.false_eq_true, ite_false]
    cases herr : s.err with
    | some e => rfl
    | none =>
      obtain ⟨plan, pos, emitted, err⟩ := s
      cases pos with
      | none => simp [chainLen]
      | some p => cases p <;> simp [chainLen]

theorem addBlock_eq (s : B) (a : BlockArgs) : T3.addBlock s a = step s (.addBlock a) := by
  unfold T3.addBlock
  simp only [step, Builder.pre]
  by_cases he : s.emitted = true
  · simp [he]
  · simp only [he, Bool.false_eq_true, ite_false]
    cases herr : s.err with
    | some e => rfl
    | none =>
      obtain ⟨plan, pos, emitted, err⟩ := s
      simp only at herr he ⊢
      subst herr
      have he' : emitted = false := by simpa using he
      subst he'
      by_cases hn : a.name = ""
      · simp [hn]
      · by_cases hd : a.descr = ""
        · simp [hn, hd]
        · cases pos with
          | none => simp [hn, hd, curKind]
          | some p => cases p <;> simp [hn, hd, curKind, appendBlockPush]

theorem addSequence_eq (s : B) (q : Option Sequence) : T3.addSequence s q = step s (.addSequence q) := by
  unfold T3.addSequence
  simp only [step, Builder.pre]
  by_cases he : s.emitted = true
  · simp [he]
  · simp only [he, Bool.false_eq_true, ite_false]
    cases herr : s.err with
    | some e => rfl
    | none =>
      obtain ⟨plan, pos, emitted, err⟩ := s
      simp only at herr he ⊢
      subst herr
      have he' : emitted = false := by simpa using he
      subst he'
      cases q with
      | none => rfl
      | some q =>
        by_cases hn : q.name = ""
        · simp [hn]
        · by_cases hd : q.descr = ""
          · simp [hn, hd]
          · cases pos with
            | none => simp [hn, hd, curKind]
            | some p => cases p <;> simp [hn, hd, curKind, appendSeqPush]

theorem addAction_eq (s : B) (a : Option Action) : T3.addAction s a = step s (.addAction a) := by
  unfold T3.addAction
  simp only [step, Builder.pre]
  by_cases he : s.emitted = true
  · simp [he]
  · simp only [he, Bool.false_eq_true, ite_false]
    cases herr : s.err with
    | some e => rfl
    | none =>
      obtain ⟨plan, pos, emitted, err⟩ := s
      simp only at herr he ⊢
      subst herr
      have he' : emitted = false := by simpa using he
      subst he'
      cases a with
      | none => rfl
      | some a =>
        by_cases hn : a.name = ""
        · simp [hn]
        · by_cases hd : a.descr = ""
          · simp [hn, hd]
          · by_cases hp : a.plugin = ""
            · simp [hn, hd, hp]
            · cases pos with
              | none => simp [hn, hd, hp, curKind]
              | some p => cases p <;> simp [hn, hd, hp, curKind, appendActCur]

theorem addChecks_eq (s : B) (k : Option GKind) (c : Option (Checks × Bool)) (hw : HasBlock s) :
    T3.addChecks s k (c.map (·.1)) ((c.map (·.2)).getD false) = step s (.addChecks k c) := by
  unfold T3.addChecks
  simp only [step, Builder.pre]
  by_cases he : s.emitted = true
  · simp [he]
  · simp only [he, Bool.false_eq_true, ite_false]
    cases herr : s.err with
    | some e => rfl
    | none =>
      obtain ⟨plan, pos, emitted, err⟩ := s
      simp only at herr he ⊢
      subst herr
      have he' : emitted = false := by simpa using he
      subst he'
      cases c with
      | none => rfl
      | some cb =>
        obtain ⟨c, hasNil⟩ := cb
        cases hasNil with
        | true => simp
        | false =>
          simp only [Option.map_some, Option.getD_some, Bool.false_eq_true, ite_false]
          cases pos with
          | none => simp [curKind]
          | some p =>
            cases p with
            | plan =>
              cases k with
              | none => simp [curKind]
              | some k => cases k <;> simp [curKind, curGrp, setGrpPush] <;> split <;> simp_all
            | block =>
              simp only [HasBlock] at hw
              obtain ⟨b, hb⟩ : ∃ b, plan.blocks.getLast? = some b := by
                cases hl : plan.blocks.getLast? with
                | none => simp [List.getLast?_eq_none_iff] at hl; exact absurd hl hw
                | some b => exact ⟨b, rfl⟩
              cases k with
              | none => simp [curKind]
              | some k => cases k <;> simp [curKind, curGrp, setGrpPush, hb] <;> split <;> simp_all
            | planGroup g => simp [curKind]
            | blockGroup g => simp [curKind]
            | seq => simp [curKind]

end Coercion.TranslatedBuilder
