import CoercionModel.Model.ApiFine
set_option linter.unusedSimpArgs false
namespace Coercion.ApiFine
open Coercion

/-- inductive invariant of the `waiterFirst` order -/
structure Inv (s : S) : Prop where
  le1 : s.execs ≤ 1
  zero : s.execs = 0 → s.stored = .notStarted ∧ s.waiter = false
  wait : s.waiter = true → s.execs = 1
  done : s.waiter = false → s.execs = 1 → terminal s.stored
  -- what the Start in progress has established so far
  saw : s.pc = .sawNoWaiter → s.execs = 0 ∨ terminal s.stored
  read : ∀ st stale, s.pc = .haveRead st stale → st = .notStarted → s.execs = 0
  nor : ∀ st stale, s.pc ≠ .readThenNoWaiter st stale

theorem inv_init : Inv {} := by
  constructor <;> simp [terminal]

theorem inv_step (s s' : S) (l : Label) (r : Ret) (h : Inv s) (hs : step .waiterFirst s l = some (s', r)) : Inv s' := by
  obtain ⟨stored, waiter, execs, stale, pc⟩ := s
  obtain ⟨h1, h2, h3, h4, h5, h6, h7⟩ := h
  simp only at h1 h2 h3 h4 h5 h6 h7
  cases l with
  | lock =>
    simp only [step] at hs
    by_cases hp : pc = .idle
    · simp [hp] at hs; obtain ⟨rfl, _⟩ := hs
      exact ⟨h1, h2, h3, h4, by simp, by simp, by simp⟩
    · simp [hp] at hs
  | ages =>
    simp [step] at hs; obtain ⟨rfl, _⟩ := hs
    exact ⟨h1, h2, h3, h4, h5, h6, h7⟩
  | lookWaiter =>
    cases pc <;> simp [step] at hs
    case entered =>
      cases waiter with
      | true => simp at hs; obtain ⟨rfl, _⟩ := hs; exact ⟨h1, h2, h3, h4, by simp, by simp, by simp⟩
      | false =>
        simp at hs; obtain ⟨rfl, _⟩ := hs
        refine ⟨h1, h2, h3, h4, ?_, by simp, by simp⟩
        intro _
        by_cases he : execs = 0
        · exact .inl he
        · exact .inr (h4 rfl (by omega))
  | readStore =>
    cases pc <;> simp [step] at hs
    case sawNoWaiter =>
      obtain ⟨rfl, _⟩ := hs
      refine ⟨h1, h2, h3, h4, by simp, ?_, by simp⟩
      intro st stl hst hns
      simp at hst
      rcases h5 rfl with h0 | ht
      · exact h0
      · rw [← hst.1] at hns; simp [terminal, hns] at ht
  | decide =>
    cases pc <;> simp [step] at hs
    case haveRead st stl =>
      by_cases hc : st = .notStarted ∧ stl = false
      · simp [hc] at hs; obtain ⟨rfl, _⟩ := hs
        have h0 : execs = 0 := h6 st stl rfl hc.1
        subst h0
        exact ⟨by simp, by simp, by simp, by simp, by simp, by simp, by simp⟩
      · simp [hc] at hs; obtain ⟨rfl, _⟩ := hs
        exact ⟨h1, h2, h3, h4, by simp, by simp, by simp⟩
  | engineRunning =>
    simp only [step] at hs
    by_cases hg : waiter = true ∧ stored = .notStarted
    · obtain ⟨hw, hst⟩ := hg
      subst hw; subst hst
      simp at hs; obtain ⟨rfl, _⟩ := hs
      have he : execs = 1 := h3 rfl
      subst he
      refine ⟨by simp, by simp, by simp, by simp, ?_, ?_, h7⟩
      · intro hp; rcases h5 hp with h0 | ht
        · simp at h0
        · simp [terminal] at ht
      · intro st stl hp hns; have := h6 st stl hp hns; simp at this
    · simp [hg] at hs
  | engineTerminal ok =>
    simp only [step] at hs
    by_cases hg : waiter = true ∧ stored = .running
    · obtain ⟨hw, hst⟩ := hg
      subst hw; subst hst
      simp at hs; obtain ⟨rfl, _⟩ := hs
      have he : execs = 1 := h3 rfl
      subst he
      refine ⟨by simp, by simp, by simp, by simp, ?_, ?_, h7⟩
      · intro _; right; cases ok <;> simp [terminal]
      · intro st stl hp hns; have := h6 st stl hp hns; simp at this
    · simp [hg] at hs
  | engineRelease =>
    simp only [step] at hs
    by_cases hg : waiter = true ∧ terminal stored
    · obtain ⟨hw, hst⟩ := hg
      subst hw
      simp [hst] at hs; obtain ⟨rfl, _⟩ := hs
      have he : execs = 1 := h3 rfl
      subst he
      refine ⟨by simp, by simp, by simp, fun _ _ => hst, fun _ => .inr hst, ?_, h7⟩
      intro st stl hp hns; have := h6 st stl hp hns; simp at this
    · simp [hg] at hs

theorem inv_run (t : List Label) : ∀ (s s' : S), Inv s → run .waiterFirst s t = some s' → Inv s' := by
  induction t with
  | nil => intro s s' h hr; simp [run] at hr; subst hr; exact h
  | cons l t ih =>
    intro s s' h hr
    simp only [run] at hr
    cases hs : step .waiterFirst s l with
    | none => simp [hs] at hr
    | some p => obtain ⟨s1, r⟩ := p; rw [hs] at hr; exact ih s1 s' (inv_step s s1 l r h hs) hr

end Coercion.ApiFine

namespace Coercion.ApiFine
/-- the history of defect D28: the second Start reads NotStarted, the plan runs to its end and releases
    its waiter, the lookup finds nothing, the stale copy is spawned again -/
def d28 : List Label :=
  [.lock, .readStore, .lookWaiter, .decide,          -- first Start: spawns
   .lock, .readStore,                                -- second Start reads NotStarted (the Running write has not happened yet)
   .engineRunning, .engineTerminal true, .engineRelease,
   .lookWaiter, .decide]                             -- no waiter any more: spawns again

theorem d28_readFirst : (run .readFirst {} d28).map (·.execs) = some 2 := by decide

/-- the same accesses in the code's order cannot even be scheduled that way: the second Start is refused at its lookup -/
example : (run .waiterFirst {} [.lock, .lookWaiter, .readStore, .decide, .lock, .lookWaiter]).map (fun s => (s.execs, s.pc)) = some (1, .idle) := by decide
example : (run .waiterFirst {} [.lock, .lookWaiter, .readStore, .decide, .engineRunning, .engineTerminal true, .engineRelease,
    .lock, .lookWaiter, .readStore, .decide]).map (fun s => (s.execs, s.stored)) = some (1, .completed) := by decide
end Coercion.ApiFine

namespace Coercion.ApiFine
open Coercion

/-- a Start that gets as far as its decision on a plan that has already been executed is refused and changes nothing but its own pc -/
theorem decide_rejects_executed (s : S) (st : Status) (stl : Bool) (h : Inv s) (he : s.execs = 1) (hp : s.pc = .haveRead st stl) :
    step .waiterFirst s .decide = some ({ s with pc := .idle }, .rejected) := by
  have hne : st ≠ .notStarted := fun hns => by have := h.read st stl hp hns; omega
  simp [step, hp, hne]

/-- a Start that finds a waiter is refused at once -/
theorem lookup_rejects_running (s : S) (hw : s.waiter = true) (hp : s.pc = .entered) :
    step .waiterFirst s .lookWaiter = some ({ s with pc := .idle }, .rejected) := by
  simp [step, hp, hw]

/-- a Start whose read saw a stale submission is refused -/
theorem decide_rejects_stale (s : S) (st : Status) (hp : s.pc = .haveRead st true) :
    step .waiterFirst s .decide = some ({ s with pc := .idle }, .rejected) := by
  simp [step, hp]

/-- no step of a Start other than the spawning decision changes storage, the waiter or the execution count -/
theorem start_steps_change_nothing (s s' : S) (l : Label) (r : Ret) (hl : l = .lock ∨ l = .lookWaiter ∨ l = .readStore)
    (hs : step .waiterFirst s l = some (s', r)) : s'.stored = s.stored ∧ s'.waiter = s.waiter ∧ s'.execs = s.execs ∧ s'.stale = s.stale := by
  obtain ⟨stored, waiter, execs, stale, pc⟩ := s
  rcases hl with rfl | rfl | rfl
  · simp only [step] at hs
    by_cases hp : pc = .idle
    · simp [hp] at hs; obtain ⟨rfl, _⟩ := hs; simp
    · simp [hp] at hs
  · cases pc <;> simp [step] at hs
    case entered =>
      cases waiter <;> simp at hs <;> obtain ⟨rfl, _⟩ := hs <;> simp
  · cases pc <;> simp [step] at hs
    case sawNoWaiter => obtain ⟨rfl, _⟩ := hs; simp

end Coercion.ApiFine
