import CoercionModel.Proofs.Engine
set_option linter.unusedSimpArgs false
/-
  Plan-level stage order for Model/Engine: bypass ≤ pre ≤ initial cont ≤ (everything of the blocks) ≤
  post ≤ deferred, and the events of the blocks all carry a block index.
-/
namespace Coercion.Engine
open Coercion

/-- position of an event at plan level: plan bypass, pre, cont, anything inside a block, post, deferred -/
def planRank : Ev → Nat
  | .group none .bypass _ _ => 0
  | .group none .pre _ _ => 1
  | .group none .cont _ _ => 2
  | .group (some _) _ _ _ => 3
  | .seq .. => 3
  | .blockEnd .. => 3
  | .group none .post _ _ => 4
  | .group none .deferred _ _ => 5

theorem planRank_of_block_event (e : Ev) (b : Nat) (h : (match e with
    | .group sc _ _ _ => sc
    | .seq b _ _ => some b
    | .blockEnd b _ => some b) = some b) : planRank e = 3 := by
  cases e with
  | group sc k g ok => simp at h; subst h; rfl
  | seq _ _ _ => rfl
  | blockEnd _ _ => rfl

theorem execBlockR_evs_block (b : MBlock) : ∀ e ∈ (execBlockR b).evs, planRank e = 3 := by
  intro e he
  rw [execBlockR_evs] at he
  simp only [List.mem_append, List.mem_singleton] at he
  rcases he with (((((h | h) | h) | h) | h) | h) | h
  · obtain ⟨_, _, _, rfl⟩ := mem_stage h; rfl
  · obtain ⟨_, _, _, rfl⟩ := mem_stage h; rfl
  · obtain ⟨_, _, _, _, rfl⟩ := mem_contStage h; rfl
  · obtain ⟨_, _, _, rfl⟩ := mem_seqStage h; rfl
  · obtain ⟨_, _, _, rfl⟩ := mem_stage h; rfl
  · obtain ⟨_, _, _, rfl⟩ := mem_stage h; rfl
  · subst h; rfl

theorem runBlocks_evs_block (bs : List MBlock) : ∀ e ∈ (runBlocks bs).1.evs, planRank e = 3 := by
  induction bs with
  | nil => simp [runBlocks]
  | cons b bs ih =>
    intro e he
    simp only [runBlocks, execBlock] at he
    by_cases hc : (blkStatus b == Status.completed) = true
    · simp only [hc, ite_true, append_evs, List.mem_append] at he
      rcases he with he | he
      · exact execBlockR_evs_block b e he
      · exact ih e he
    · have := foldl_idle_evs (fun b => idleBlock b) (by simp) bs {}
      simp only [hc, Bool.false_eq_true, ite_false, append_evs, List.mem_append, this] at he
      rcases he with he | he
      · exact execBlockR_evs_block b e he
      · simp at he

theorem seg_blockStage (run : Bool) (p : MPlan) : Seg planRank 3 (blockStage run p).1.evs := by
  intro e he
  unfold blockStage at he
  cases run
  · simp at he
  · exact runBlocks_evs_block _ e he

theorem seg_stage_plan (run : Bool) (k : GKind) (g : Option MGroup) (r : Nat)
    (h : ∀ i ok, planRank (.group none k i ok) = r) : Seg planRank r (stage run none k g).evs := by
  intro e he
  obtain ⟨_, g', _, rfl⟩ := mem_stage he
  exact h _ _

theorem seg_contStage_plan (a c : Bool) (g : Option MGroup) : Seg planRank 2 (contStage a c none g).evs := by
  intro e he
  obtain ⟨_, _, g', _, rfl⟩ := mem_contStage he
  rfl

/-- the plan-level stages occur in the declared order: bypass, pre, initial cont run, blocks, post,
    deferred — post-checks after every block (hence after every sequence), deferred checks last -/
theorem plan_stage_order (p : MPlan) : ((runPlan p).out.evs.map planRank).Pairwise (· ≤ ·) := by
  have h0 : Upto planRank 0 (stage true none .bypass p.bypass).evs := by
    have := upto_append planRank (upto_nil planRank 0) (Nat.le_refl 0) (seg_stage_plan true .bypass p.bypass 0 (fun _ _ => rfl))
    simpa using this
  simp only [runPlan, append_evs]
  exact (upto_append planRank (upto_append planRank (upto_append planRank (upto_append planRank (upto_append planRank h0
    (by decide) (seg_stage_plan _ _ _ 1 (fun _ _ => rfl))) (by decide) (seg_contStage_plan _ _ _)) (by decide) (seg_blockStage _ _))
    (by decide) (seg_stage_plan _ _ _ 4 (fun _ _ => rfl))) (by decide) (seg_stage_plan _ _ _ 5 (fun _ _ => rfl))).1

/-- no block is entered unless the plan's bypass did not pass and its pre-checks (+ initial cont run) passed -/
theorem blocks_gated (p : MPlan) (e : Ev) (he : e ∈ (blockStage (planBlocksRun p) p).1.evs) :
    planBypassed p = false ∧ planPreOk p = true := by
  have hr : planBlocksRun p = true := by
    cases h : planBlocksRun p
    · simp [h] at he
    · rfl
  simpa [planBlocksRun] using hr

end Coercion.Engine
