import CoercionModel.Model.Flush
import CoercionModel.Proofs.WalkChain
set_option linter.unusedSimpArgs false
namespace Coercion.Flush
open Coercion

/-- Crash anywhere inside a children-first flush: storage stays Good, provided memory is Good, storage
    was Good, ids are distinct and the engine never rewrites a durably final object to something else. -/
theorem prefix_safe (done rest : List Node) (mem dur : Store)
    (hcf : ChildrenFirst (done ++ rest)) (hnd : ((done ++ rest).map (·.id)).Nodup)
    (hm : Good (done ++ rest) mem) (hd : Good (done ++ rest) dur)
    (hstable : ∀ id, terminal (dur id) → mem id = dur id) :
    Good (done ++ rest) (after done mem dur) := by
  intro c hc q hpar hterm
  simp only [after] at hterm ⊢
  by_cases hq : q ∈ done.map (·.id)
  · -- the parent's write is on disk: so is the child's
    have hcd : c.id ∈ done.map (·.id) := by
      rcases List.mem_append.mp hc with h | h
      · exact List.mem_map.mpr ⟨c, h, rfl⟩
      · exfalso
        obtain ⟨r1, r2, hr⟩ := List.append_of_mem h
        have hsplit : done ++ rest = (done ++ r1) ++ c :: r2 := by rw [hr]; simp
        have hq2 : q ∈ r2.map (·.id) := hcf _ c _ hsplit q hpar
        rw [hr] at hnd
        simp only [List.map_append, List.map_cons] at hnd
        have := List.nodup_append.mp hnd
        exact this.2.2 q hq q (by simp [hq2]) rfl
    simp only [hq, hcd, if_true] at hterm ⊢
    exact hm c hc q hpar hterm
  · simp only [hq, if_false] at hterm
    have hmq : terminal (mem q) := by rw [hstable q hterm]; exact hterm
    by_cases hcd : c.id ∈ done.map (·.id)
    · simp only [hcd, if_true]; exact hm c hc q hpar hmq
    · simp only [hcd, if_false]; exact hd c hc q hpar hterm

theorem all_eq_spec (p : Plan) : Walk.all p = Walk.specPlan p := by
  have h := Walk.emit_live (fun _ => true) (Walk.specPlan p) {} rfl
  have h2 : (Walk.run (fun _ => true) p).out = Walk.takeCons (fun _ => true) [] (Walk.specPlan p) := by
    simp only [Walk.run, Walk.walkPlan_eq]
    simpa using h.1
  simpa [Walk.all, Walk.takeCons_true] using h2

/-- the engine's order is children-first, for every plan -/
theorem flushNodes_childrenFirst (p : Plan) : ChildrenFirst (flushNodes p) := by
  intro l1 c l2 h q hpar
  simp only [flushNodes] at h
  obtain ⟨m1, m2', hm, h1, h2⟩ := List.map_eq_append_iff.mp h
  obtain ⟨it, m2, rfl, hit, h3⟩ := List.map_eq_cons_iff.mp h2
  subst hit
  simp only at hpar
  have hw : (Walk.all p).reverse = m1 ++ it :: m2 := hm
  have hsplit : Walk.all p = m2.reverse ++ it :: m1.reverse := by
    have := congrArg List.reverse hw
    simpa using this
  have hc := Walk.closed_split (Walk.specPlan p) [] m2.reverse it m1.reverse (Walk.closed_specPlan p) (by rw [← all_eq_spec]; exact hsplit)
  rcases hc with h0 | ⟨par, hp, hch⟩
  · simp [h0] at hpar
  · rw [hch] at hpar
    simp at hpar
    subst hpar
    rw [← h3]
    simp only [List.map_map, List.mem_map]
    exact ⟨par, by simpa using hp, rfl⟩

end Coercion.Flush

namespace Coercion.Flush
/-! ### the order before fix 05cb03a (parents first) is not safe: the history of defect D27 -/

def exPlan : Plan := { id := 0, blocks := [{ id := 1, seqs := [{ id := 2, actions := [{ id := 3 }] }] }] }
def exOrd : List Node := [⟨0, none⟩, ⟨1, some 0⟩, ⟨2, some 1⟩, ⟨3, some 2⟩]
/-- after the first crash everything is Running on disk; Recovery's repair finishes the action and its sequence in memory -/
def exDur : Store := fun _ => .running
def exMem : Store := fun id => if id = 2 ∨ id = 3 then .completed else .running

theorem exOrd_is_walk : walkNodes exPlan = exOrd := by decide
theorem exOrd_rev_is_flush : flushNodes exPlan = exOrd.reverse := by decide

theorem parents_first_unsafe :
    Good exOrd exMem ∧ Good exOrd exDur ∧ (∀ id, terminal (exDur id) → exMem id = exDur id) ∧
    ¬ Good exOrd (after (exOrd.take 3) exMem exDur) := by
  refine ⟨?_, ?_, ?_, ?_⟩
  · intro c hc q hp ht
    simp [exOrd] at hc
    rcases hc with rfl | rfl | rfl | rfl <;> simp at hp <;> subst hp <;> simp [exMem, terminal] at *
  · intro c hc q hp ht
    simp [exDur, terminal] at ht
  · intro id ht
    simp [exDur, terminal] at ht
  · intro h
    have := h ⟨3, some 2⟩ (by simp [exOrd]) 2 rfl (by simp [after, exOrd, exMem, terminal])
    simp [after, exOrd, exDur] at this

end Coercion.Flush
