import CoercionModel.Model.Validate
set_option linter.unusedSimpArgs false
namespace Coercion.Validate

/-- a node's own rules, without the duplicate-key test -/
def localOk : Node → Bool
  | .plan p => !p.idSet && !p.stateSet && !p.nameBlank && !p.descrBlank && !p.blocks.isEmpty && !p.reasonSet && !p.submitSet
  | .checks none => true
  | .checks (some c) => !c.idSet && !c.stateSet && !c.actions.isEmpty && (c.key == 0 || c.keyV7)
  | .block b => !b.isNil && !b.idSet && !b.stateSet && !b.nameBlank && !b.descrBlank && !b.seqs.isEmpty && (b.key == 0 || b.keyV7)
  | .seq q => !q.isNil && !q.idSet && !q.stateSet && !q.nameBlank && !q.descrBlank && !q.actions.isEmpty && (q.key == 0 || q.keyV7)
  | .action a => !a.isNil && !a.idSet && !a.stateSet && !timeoutLow a.timeoutMs && !a.nameBlank && !a.descrBlank &&
      !a.pluginBlank && !a.attemptsSet && a.pluginKnown && a.reqOk && (a.key == 0 || a.keyV7)

def pushKey (keys : List Nat) (k : Nat) : List Nat := if k = 0 then keys else k :: keys

theorem addKey_ok (keys : List Nat) (k : Nat) (v7 : Bool) (keys' : List Nat) :
    addKey keys k v7 = .ok keys' ↔ ((k = 0 ∨ v7 = true) ∧ (k = 0 ∨ k ∉ keys) ∧ keys' = pushKey keys k) := by
  unfold addKey pushKey
  by_cases hk : k = 0
  · simp [hk]; exact eq_comm
  · cases v7 <;> by_cases hm : k ∈ keys <;> simp [hk, hm]
    exact eq_comm

theorem checkNode_ok (keys : List Nat) (n : Node) (keys' : List Nat) :
    checkNode keys n = .ok keys' ↔
      (localOk n = true ∧ (nodeKey n = 0 ∨ nodeKey n ∉ keys) ∧ keys' = pushKey keys (nodeKey n)) := by
  cases n with
  | plan p =>
    simp only [checkNode, checkPlan, localOk, nodeKey, pushKey]
    (repeat' split) <;> simp_all
    exact eq_comm
  | checks c =>
    cases c with
    | none => simp [checkNode, checkChecks, localOk, nodeKey, pushKey]; exact eq_comm
    | some c =>
      by_cases hk : c.key = 0 <;> by_cases hm : c.key ∈ keys <;> cases hv : c.keyV7 <;>
        simp [checkNode, checkChecks, addKey, localOk, nodeKey, pushKey, hk, hm, hv] <;>
        (repeat' split) <;> simp_all <;> (try omega)
      all_goals first | exact eq_comm | skip
  | block b =>
    by_cases hk : b.key = 0 <;> by_cases hm : b.key ∈ keys <;> cases hv : b.keyV7 <;>
      simp [checkNode, checkBlock, addKey, localOk, nodeKey, pushKey, hk, hm, hv] <;>
      (repeat' split) <;> simp_all <;> (try omega)
    all_goals first | exact eq_comm | skip
  | seq q =>
    by_cases hk : q.key = 0 <;> by_cases hm : q.key ∈ keys <;> cases hv : q.keyV7 <;>
      simp [checkNode, checkSeq, addKey, localOk, nodeKey, pushKey, hk, hm, hv] <;>
      (repeat' split) <;> simp_all <;> (try omega)
    all_goals first | exact eq_comm | skip
  | action a =>
    have hr : actionRest a = none ↔ (a.stateSet = false ∧ timeoutLow a.timeoutMs = false ∧ a.nameBlank = false ∧
        a.descrBlank = false ∧ a.pluginBlank = false ∧ a.attemptsSet = false ∧ a.pluginKnown = true ∧ a.reqOk = true) := by
      unfold actionRest
      (repeat' split) <;> simp_all
    cases hrest : actionRest a with
    | none =>
      have := hr.mp hrest
      by_cases hk : a.key = 0 <;> by_cases hm : a.key ∈ keys <;> cases hv : a.keyV7 <;> cases hn : a.isNil <;> cases hi : a.idSet <;>
        simp [checkNode, checkAction, addKey, localOk, nodeKey, pushKey, hk, hm, hv, hrest, this, hn, hi]
      all_goals first | exact eq_comm | skip
    | some e =>
      have hne : ¬ (a.stateSet = false ∧ timeoutLow a.timeoutMs = false ∧ a.nameBlank = false ∧
        a.descrBlank = false ∧ a.pluginBlank = false ∧ a.attemptsSet = false ∧ a.pluginKnown = true ∧ a.reqOk = true) := by
        intro h; rw [hr.mpr h] at hrest; cases hrest
      have hl : localOk (.action a) = false := by
        simp only [localOk]
        cases h1 : a.stateSet <;> cases h2 : timeoutLow a.timeoutMs <;> cases h3 : a.nameBlank <;> cases h4 : a.descrBlank <;>
          cases h5 : a.pluginBlank <;> cases h6 : a.attemptsSet <;> cases h7 : a.pluginKnown <;> cases h8 : a.reqOk <;> simp_all
      simp only [hl, Bool.false_eq_true, false_and, iff_false]
      simp only [checkNode, checkAction, hrest]
      (repeat' split) <;> simp

def KeysOk (keys : List Nat) : List Nat → Prop
  | [] => True
  | k :: ks => (k = 0 ∨ k ∉ keys) ∧ KeysOk (pushKey keys k) ks

theorem validateFrom_ok (ns : List Node) (keys : List Nat) :
    (∃ keys', validateFrom keys ns = .ok keys') ↔
      ((∀ n ∈ ns, localOk n = true) ∧ KeysOk keys (ns.map nodeKey)) := by
  induction ns generalizing keys with
  | nil => simp [validateFrom, KeysOk]
  | cons n ns ih =>
    simp only [validateFrom, List.map_cons, KeysOk, List.mem_cons, forall_eq_or_imp]
    cases h : checkNode keys n with
    | error e =>
      have := checkNode_ok keys n (pushKey keys (nodeKey n))
      simp [h] at this
      constructor
      · rintro ⟨_, hh⟩; cases hh
      · intro ⟨⟨h1, _⟩, h2, _⟩
        have h3 := this h1
        rcases h2 with h2 | h2
        · exact absurd h2 h3.1
        · exact absurd h3.2 h2
    | ok k2 =>
      obtain ⟨h1, h2, rfl⟩ := (checkNode_ok keys n k2).mp h
      simp only [h1, h2, true_and]
      exact ih _

theorem keysOk_iff (keys ks : List Nat) :
    KeysOk keys ks ↔ ((ks.filter (· ≠ 0)).Nodup ∧ ∀ k ∈ ks, k ≠ 0 → k ∉ keys) := by
  induction ks generalizing keys with
  | nil => simp [KeysOk]
  | cons k ks ih =>
    simp only [KeysOk, ih, pushKey]
    by_cases hk : k = 0
    · simp [hk]
    · have hf : (k :: ks).filter (· ≠ 0) = k :: ks.filter (· ≠ 0) := by simp [hk]
      rw [hf, List.nodup_cons]
      simp only [hk, false_or, ite_false, List.mem_cons, forall_eq_or_imp, List.mem_filter]
      constructor
      · intro ⟨h1, h2, h3⟩
        refine ⟨⟨?_, h2⟩, fun _ => h1, ?_⟩
        · intro ⟨hm, _⟩
          exact h3 k hm hk (Or.inl rfl)
        · intro x hx hx0 hxk
          exact h3 x hx hx0 (Or.inr hxk)
      · intro ⟨⟨h1, h2⟩, h3, h4⟩
        refine ⟨h3 hk, h2, ?_⟩
        intro x hx hx0 hor
        rcases hor with hxk | hxk
        · subst hxk; exact h1 ⟨hx, by simpa using hx0⟩
        · exact h4 x hx hx0 hxk

theorem all_actions (l : List VAction) :
    (∀ n ∈ l.map Node.action, localOk n = true) ↔ l.all wfAction = true := by
  simp [localOk, wfAction]

theorem local_checks (g : Option VChecks) :
    (localOk (.checks g) = true ∧ ∀ n ∈ groupActions g, localOk n = true) ↔ wfChecks g = true := by
  cases g with
  | none => simp [localOk, groupActions, wfChecks]
  | some c =>
    rw [show groupActions (some c) = c.actions.map Node.action from rfl, all_actions]
    simp only [wfChecks, localOk, Bool.and_eq_true]

abbrev AllOk (l : List Node) : Prop := ∀ n ∈ l, localOk n = true

theorem allOk_append (a b : List Node) : AllOk (a ++ b) ↔ AllOk a ∧ AllOk b := by
  simp only [AllOk, List.mem_append]
  constructor
  · intro h; exact ⟨fun n hn => h n (Or.inl hn), fun n hn => h n (Or.inr hn)⟩
  · intro ⟨h1, h2⟩ n hn; rcases hn with hn | hn; exact h1 n hn; exact h2 n hn

theorem allOk_cons (n : Node) (l : List Node) : AllOk (n :: l) ↔ localOk n = true ∧ AllOk l := by
  simp [AllOk]

/-- two flat-mapped families are all ok iff every element satisfies the combined predicate -/
theorem allOk_flatMap2 {α} (l : List α) (f g : α → List Node) (w : α → Bool)
    (h : ∀ a, (AllOk (f a) ∧ AllOk (g a)) ↔ w a = true) :
    (AllOk (l.flatMap f) ∧ AllOk (l.flatMap g)) ↔ l.all w = true := by
  induction l with
  | nil => simp [AllOk]
  | cons a l ih =>
    simp only [List.flatMap_cons, allOk_append, List.all_cons, Bool.and_eq_true, ← h a, ← ih]
    constructor
    · intro ⟨⟨a, b⟩, ⟨c, d⟩⟩; exact ⟨⟨a, c⟩, ⟨b, d⟩⟩
    · intro ⟨⟨a, c⟩, ⟨b, d⟩⟩; exact ⟨⟨a, b⟩, ⟨c, d⟩⟩

theorem groups_ok (gs : List (Option VChecks)) :
    (AllOk (gs.map .checks) ∧ AllOk (gs.flatMap groupActions)) ↔ gs.all wfChecks = true := by
  rw [List.map_eq_flatMap]
  apply allOk_flatMap2
  intro g
  have := local_checks g
  simp only [AllOk, List.mem_singleton, forall_eq] at *
  exact this

theorem seq_ok (q : VSeq) :
    (localOk (.seq q) = true ∧ AllOk (q.actions.map .action)) ↔ wfSeq q = true := by
  have := all_actions q.actions
  simp only [AllOk] at *
  rw [this]
  simp only [wfSeq, localOk, Bool.and_eq_true]

theorem seqs_ok (qs : List VSeq) :
    (AllOk (qs.map .seq) ∧ AllOk (qs.flatMap (fun q => q.actions.map .action))) ↔ qs.all wfSeq = true := by
  rw [List.map_eq_flatMap]
  apply allOk_flatMap2
  intro q
  have := seq_ok q
  simp only [AllOk, List.mem_singleton, forall_eq] at *
  exact this

theorem block_ok (b : VBlock) :
    (localOk (.block b) = true ∧ AllOk (blockKids b) ∧ AllOk (blockGrandKids b)) ↔ wfBlock b = true := by
  have hg := groups_ok b.groups
  have hs := seqs_ok b.seqs
  simp only [blockKids, blockGrandKids, allOk_append, wfBlock, localOk, Bool.and_eq_true, ← hg, ← hs]
  constructor
  · intro ⟨h1, ⟨h2, h3⟩, ⟨h4, h5⟩⟩; exact ⟨⟨h1, ⟨h2, h4⟩⟩, ⟨h3, h5⟩⟩
  · intro ⟨⟨h1, ⟨h2, h4⟩⟩, ⟨h3, h5⟩⟩; exact ⟨h1, ⟨h2, h3⟩, ⟨h4, h5⟩⟩

theorem blocks_ok (bs : List VBlock) :
    (AllOk (bs.map .block) ∧ AllOk (bs.flatMap blockKids) ∧ AllOk (bs.flatMap blockGrandKids)) ↔ bs.all wfBlock = true := by
  induction bs with
  | nil => simp [AllOk]
  | cons b bs ih =>
    simp only [List.map_cons, List.flatMap_cons, allOk_cons, allOk_append, List.all_cons, Bool.and_eq_true, ← block_ok b, ← ih]
    constructor
    · intro ⟨⟨a, b⟩, ⟨c, d⟩, ⟨e, f⟩⟩; exact ⟨⟨a, c, e⟩, ⟨b, d, f⟩⟩
    · intro ⟨⟨a, c, e⟩, ⟨b, d, f⟩⟩; exact ⟨⟨a, b⟩, ⟨c, d⟩, ⟨e, f⟩⟩

theorem order_ok (p : VPlan) : AllOk (order p) ↔ wfPlanLocal p = true := by
  have hg := groups_ok p.groups
  have hb := blocks_ok p.blocks
  simp only [order, level1, level2, level3, allOk_cons, allOk_append, wfPlanLocal, localOk, Bool.and_eq_true, ← hg, ← hb]
  constructor
  · intro ⟨h0, ⟨⟨h1, h2⟩, ⟨h3, h4⟩⟩, h5⟩; exact ⟨⟨h0, ⟨h1, h3⟩⟩, ⟨h2, h4, h5⟩⟩
  · intro ⟨⟨h0, ⟨h1, h3⟩⟩, ⟨h2, h4, h5⟩⟩; exact ⟨h0, ⟨⟨h1, h2⟩, ⟨h3, h4⟩⟩, h5⟩

end Coercion.Validate
