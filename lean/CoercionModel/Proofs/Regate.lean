import CoercionModel.Model.Regate
namespace Coercion.Regate
open Coercion

/-- a block that has PreChecks is never entered — fresh or recovered — past a ContChecks group whose first
    run has not completed: the gate runs it -/
theorem cont_gated (pre : Status) (c : Status) (hc : c ≠ .completed) : runsCont (blockGate (some pre) (some c)) = true := by
  cases pre <;> cases c <;> simp_all [blockGate, runsCont]

/-- and nothing is run twice for nothing: Completed PreChecks are not run again, a Completed first run neither -/
theorem completed_not_rerun (cont : Option Status) : blockGate (some .completed) cont ≠ .both := by
  cases cont with
  | none => simp [blockGate]
  | some c => cases c <;> simp [blockGate]
theorem all_passed_no_gate : blockGate (some .completed) (some .completed) = .none := rfl

/-- the pinned code skipped it: the recovered state of defect D29 -/
theorem old_gate_skipped_cont : runsCont (blockGateOld (some .completed) (some .notStarted)) = false := rfl

/-- on a fresh run (nothing Completed yet) the two agree -/
theorem fresh_same (pre cont : Option Status) (hp : pre ≠ some .completed) : blockGate pre cont = blockGateOld pre cont := by
  cases pre with
  | none => rfl
  | some p => cases p <;> simp_all [blockGate, blockGateOld]

end Coercion.Regate
