import CoercionModel.Model.FixFull
set_option linter.unusedSimpArgs false
/-
  Proofs/FixIdem — repairing a repaired object changes nothing: what a second recovery (after a crash
  during or after the first) computes from the first one's result is that result.
-/
namespace Coercion.Fix
open Coercion

theorem fixAction_status_ne_running (a : Action) (h : a.status = .running) : (fixAction a).status ≠ .running := by
  unfold fixAction
  simp only [h, ne_eq, not_true_eq_false, ite_false]
  split
  · simp [resetAction]
  · split <;> simp

theorem fixAction_of_not_running (a : Action) (h : a.status ≠ .running) : fixAction a = a := by
  simp [fixAction, h]

theorem fixAction_idem (a : Action) : fixAction (fixAction a) = fixAction a := by
  by_cases h : a.status = .running
  · exact fixAction_of_not_running _ (fixAction_status_ne_running a h)
  · rw [fixAction_of_not_running a h, fixAction_of_not_running a h]

theorem map_fixAction_idem (l : List Action) : (l.map fixAction).map fixAction = l.map fixAction := by
  simp [List.map_map, Function.comp_def, fixAction_idem]

theorem fixChecks_idem (c : Checks) : fixChecks (fixChecks c) = fixChecks c := by
  by_cases h : c.status = .running
  · have : (fixChecks c).status ≠ .running := by simp [fixChecks, h]
    simp [fixChecks, this]
    simp [fixChecks, h] at this ⊢
  · simp [fixChecks, h]

theorem fixSeqFull_of_not_running (now : Nat) (q : Sequence) (h : q.status ≠ .running) : fixSeqFull now q = q := by
  simp [fixSeqFull, h]

/-- a Running sequence whose actions are already repaired and which falls in none of the deciding cases is a fixed point -/
theorem fixSeqFull_fixed_point (now : Nat) (r : Sequence) (hr : r.status = .running) (hfix : r.actions.map fixAction = r.actions)
    (h1 : r.actions.any (·.status == .stopped) = false) (h2 : r.actions.any (·.status == .failed) = false)
    (h3 : ((r.actions.filter (·.status == .completed)).length == 0 && !r.actions.any (·.status == .running)) = false)
    (h4 : ((r.actions.filter (·.status == .completed)).length == r.actions.length) = false) : fixSeqFull now r = r := by
  obtain ⟨id, key, name, descr, status, tStart, tEnd, actions⟩ := r
  simp only at hr hfix h1 h2 h3 h4
  subst hr
  unfold fixSeqFull
  simp only [ne_eq, not_true_eq_false, ite_false, hfix, h1, h2, h3, h4, Bool.false_eq_true]

/-- a second repair of a sequence (at any later time) leaves the first repair's result as it is -/
theorem fixSeqFull_idem (now now' : Nat) (q : Sequence) : fixSeqFull now' (fixSeqFull now q) = fixSeqFull now q := by
  by_cases hr : q.status = .running
  · by_cases h0 : q.actions.any (·.status == .stopped) = true
    · have hres : (fixSeqFull now q).status ≠ .running := by
        unfold fixSeqFull; simp only [hr, ne_eq, not_true_eq_false, ite_false, h0, ite_true]; simp
      exact fixSeqFull_of_not_running _ _ hres
    · have h0' : q.actions.any (·.status == .stopped) = false := by simpa using h0
      by_cases h1 : (q.actions.map fixAction).any (·.status == .stopped) = true
      · have hres : (fixSeqFull now q).status ≠ .running := by
          unfold fixSeqFull; simp only [hr, ne_eq, not_true_eq_false, ite_false, h0', h1, ite_true, Bool.false_eq_true]; simp
        exact fixSeqFull_of_not_running _ _ hres
      · have h1' : (q.actions.map fixAction).any (·.status == .stopped) = false := by simpa using h1
        by_cases h2 : (q.actions.map fixAction).any (·.status == .failed) = true
        · have hres : (fixSeqFull now q).status ≠ .running := by
            unfold fixSeqFull; simp only [hr, ne_eq, not_true_eq_false, ite_false, h0', h1', h2, ite_true, Bool.false_eq_true]; simp
          exact fixSeqFull_of_not_running _ _ hres
        · have h2' : (q.actions.map fixAction).any (·.status == .failed) = false := by simpa using h2
          by_cases h3 : (((q.actions.map fixAction).filter (·.status == .completed)).length == 0 && !(q.actions.map fixAction).any (·.status == .running)) = true
          · have hres : (fixSeqFull now q).status ≠ .running := by
              unfold fixSeqFull; simp only [hr, ne_eq, not_true_eq_false, ite_false, h0', h1', h2', h3, ite_true, Bool.false_eq_true]; simp
            exact fixSeqFull_of_not_running _ _ hres
          · have h3' : (((q.actions.map fixAction).filter (·.status == .completed)).length == 0 && !(q.actions.map fixAction).any (·.status == .running)) = false := by simpa using h3
            by_cases h4 : (((q.actions.map fixAction).filter (·.status == .completed)).length == (q.actions.map fixAction).length) = true
            · have hres : (fixSeqFull now q).status ≠ .running := by
                unfold fixSeqFull; simp only [hr, ne_eq, not_true_eq_false, ite_false, h0', h1', h2', h3', h4, ite_true, Bool.false_eq_true]; simp
              exact fixSeqFull_of_not_running _ _ hres
            · have h4' : (((q.actions.map fixAction).filter (·.status == .completed)).length == (q.actions.map fixAction).length) = false := by simpa using h4
              have hres : fixSeqFull now q = { q with actions := q.actions.map fixAction } := by
                unfold fixSeqFull
                simp only [hr, ne_eq, not_true_eq_false, ite_false, h0', h1', h2', h3', h4', Bool.false_eq_true]
              rw [hres]
              exact fixSeqFull_fixed_point now' _ hr (map_fixAction_idem _) h1' h2' h3' h4'
  · rw [fixSeqFull_of_not_running now q hr, fixSeqFull_of_not_running now' q hr]

end Coercion.Fix
