import CoercionModel.Model.Sched
import CoercionModel.Model.Engine
set_option linter.unusedSimpArgs false
/-
  Proofs/SchedEngine — the two models of the launch loop agree: the sequential schedule that
  Model/Engine.runSeqs interprets is one of the runs of the transition system Model/Sched, and the
  failure count Engine computes is the counter Sched ends with. (Engine = one schedule, exact
  differential with the code; Sched = every schedule, invariants. This lemma is the bridge.)
-/
namespace Coercion.SchedEngine
open Coercion

/-- the labels of the sequential schedule for sequences with outcomes `outs` (true = the sequence
    succeeds), starting with `f` failures already counted -/
def seqLabels (tol : Int) : List Bool → Nat → List Sched.Label
  | [], _ => [.loopEnd, .joined]
  | ok :: rest, f =>
    if Engine.exceeded tol f then [.exitExceeded, .joined]
    else [.top, .acquire, .pass, .finish (!ok), .release] ++ seqLabels tol rest (if ok then f else f + 1)

/-- the failure count of Engine.runSeqs as a function of the outcomes alone -/
def failCount (tol : Int) : List Bool → Nat → Nat
  | [], f => f
  | ok :: rest, f => if Engine.exceeded tol f then f else failCount tol rest (if ok then f else f + 1)

theorem runSeqs_failures (b : Nat) (tol : Int) (qs : List Engine.MSeq) : ∀ f, (Engine.runSeqs b tol qs f).2 = failCount tol (qs.map Engine.seqOk) f := by
  induction qs with
  | nil => intro f; rfl
  | cons q qs ih =>
    intro f
    simp only [Engine.runSeqs, List.map_cons, failCount]
    by_cases he : Engine.exceeded tol f = true
    · simp [he]
    · simp only [he, Bool.false_eq_true, ite_false]
      rw [← ih]

theorem exceeded_eq (c : Sched.Cfg) (s : Sched.S) : Sched.exceeded c s = Engine.exceeded c.tol s.failures := rfl

/-- quiescent at the loop head -/
def AtTop (s : Sched.S) : Prop := s.pc = .atTop ∧ s.tokens = 0 ∧ s.queued = 0 ∧ s.running = 0 ∧ s.exiting = 0

theorem sequential_is_run (c : Sched.Cfg) (hc : 1 ≤ c.conc) (outs : List Bool) :
    ∀ (s : Sched.S), AtTop s → c.n = s.next + outs.length →
    ∃ s', Sched.run c s (seqLabels c.tol outs s.failures) = some s' ∧ s'.pc = .exited ∧
      s'.failures = failCount c.tol outs s.failures := by
  induction outs with
  | nil =>
    intro s ⟨hpc, ht, hq, hr, he⟩ hn
    simp at hn
    refine ⟨{ s with pc := .exited }, ?_, rfl, rfl⟩
    simp [seqLabels, Sched.run, Sched.step, hpc, hn, hq, hr, he]
  | cons ok rest ih =>
    intro s ⟨hpc, ht, hq, hr, he⟩ hn
    simp only [List.length_cons] at hn
    have hlt : s.next < c.n := by omega
    by_cases hex : Engine.exceeded c.tol s.failures = true
    · refine ⟨{ s with pc := .exited, early := true }, ?_, rfl, ?_⟩
      · simp [seqLabels, hex, Sched.run, Sched.step, hpc, hlt, exceeded_eq, hq, hr, he]
      · simp [failCount, hex]
    · have hex' : Engine.exceeded c.tol s.failures = false := by simpa using hex
      -- the five steps of one sequence
      let f' := if ok then s.failures else s.failures + 1
      let s1 : Sched.S := { s with next := s.next + 1, failures := f', started := s.started + 1 }
      have h1 : AtTop s1 := ⟨hpc, ht, hq, hr, he⟩
      obtain ⟨s', hrun, hp, hf⟩ := ih s1 h1 (by simp [s1]; omega)
      refine ⟨s', ?_, hp, ?_⟩
      · simp only [seqLabels, hex', Bool.false_eq_true, ite_false, List.cons_append, List.nil_append]
        have hstep : Sched.run c s [.top, .acquire, .pass, .finish (!ok), .release] = some s1 := by
          obtain ⟨pc, next, tokens, queued, running, exiting, failures, started, early⟩ := s
          simp only at hpc ht hq hr he hlt hex'
          subst hpc ht hq hr he
          cases ok <;>
            simp [Sched.run, Sched.step, hlt, exceeded_eq, hex', s1, f', Nat.lt_of_lt_of_le Nat.zero_lt_one hc]
        have happ : ∀ (l1 l2 : List Sched.Label) (a b : Sched.S), Sched.run c a l1 = some b → Sched.run c a (l1 ++ l2) = Sched.run c b l2 := by
          intro l1
          induction l1 with
          | nil => intro l2 a b h; simp [Sched.run] at h; subst h; rfl
          | cons l l1 ih1 =>
            intro l2 a b h
            simp only [Sched.run, List.cons_append] at h ⊢
            cases hst : Sched.step c a l with
            | none => simp [hst] at h
            | some a' => simp only [hst] at h ⊢; exact ih1 l2 a' b h
        have := happ [.top, .acquire, .pass, .finish (!ok), .release] (seqLabels c.tol rest f') s s1 hstep
        simp only [List.cons_append, List.nil_append] at this
        rw [this]
        exact hrun
      · simp only [failCount, hex', Bool.false_eq_true, ite_false]
        exact hf

/-- Model/Engine's launch loop is a run of Model/Sched that ends with Engine's failure count: every
    invariant proved for all runs of Sched (C02/C03) holds of the schedule Engine interprets, and the
    two models agree on whether the threshold was exceeded. -/
theorem engine_schedule_is_sched_run (b : Nat) (tol : Int) (qs : List Engine.MSeq) (conc : Nat) (hc : 1 ≤ conc) :
    ∃ s', Sched.run { n := qs.length, conc := conc, tol := tol } {} (seqLabels tol (qs.map Engine.seqOk) 0) = some s' ∧
      s'.pc = .exited ∧ s'.failures = (Engine.runSeqs b tol qs 0).2 := by
  have h := sequential_is_run { n := qs.length, conc := conc, tol := tol } hc (qs.map Engine.seqOk) {}
    ⟨rfl, rfl, rfl, rfl, rfl⟩ (by simp)
  obtain ⟨s', hr, hp, hf⟩ := h
  exact ⟨s', hr, hp, by rw [runSeqs_failures]; exact hf⟩

example : (Sched.run { n := 3, conc := 1, tol := 0 } {} (seqLabels 0 [true, false, true] 0)).map (fun s => (s.pc, s.failures, s.started)) =
    some (.exited, 1, 2) := by decide

end Coercion.SchedEngine
