import CoercionModel.Generated.T1
import CoercionModel.Model.Fix
/- Proofs/TranslatedPreds — checksFailed / checksCompleted of recovery.go (translated, Generated/T1) are the predicates of Model/Fix. -/
set_option linter.unusedSimpArgs false
namespace Coercion.Translated
open Coercion
open Generated

theorem checksFailed_eq (o : Option Checks) : T1.checksFailedOpt o = Fix.isFailed (o.map (·.status)) := by
  cases o with
  | none => rfl
  | some c => simp [T1.checksFailedOpt, T1.checksFailed, Fix.isFailed]

theorem checksCompleted_eq (o : Option Checks) : T1.checksCompletedOpt o = Fix.isDone (o.map (·.status)) := by
  cases o with
  | none => rfl
  | some c => simp [T1.checksCompletedOpt, T1.checksCompleted, Fix.isDone]

end Coercion.Translated
