import CoercionModel.Generated.T8
set_option linter.unusedSimpArgs false
/-
  Proofs/TranslatedStartup — `recover.filterPlans` (internal/execute/recovery.go) as translator T8 regenerates it on
  every run: the plans that stay in `req.Data.plans` (they are resumed) are exactly the ones that are not stale, the
  ones moved to `req.Data.agedOut` (they are closed) exactly the stale ones, both in their original order — with
  `stale` the predicate of Model/Startup.
-/
namespace Coercion.TranslatedStartup
open Coercion Coercion.Startup Coercion.Generated

theorem loop1 (maxAge now : Nat) (l : List Stored) : ∀ (aged : List Stored) (slots : List (Option Stored)),
    l.foldl (T8.filterPlans_loop1 maxAge now) (aged, slots) =
      (aged ++ l.filter (stale maxAge now), slots ++ l.map (fun p => if stale maxAge now p then none else some p)) := by
  induction l with
  | nil => intro aged slots; simp
  | cons p l ih =>
    intro aged slots
    simp only [List.foldl_cons, T8.filterPlans_loop1, List.filter_cons, List.map_cons]
    by_cases h : stale maxAge now p = true
    · have h' : decide (p.lastUpdate + maxAge < now) = true := by simpa [stale] using h
      simp only [h', ite_true, ih, h]
      simp
    · have h' : decide (p.lastUpdate + maxAge < now) = false := by simpa [stale] using h
      have h2 : stale maxAge now p = false := by simpa using h
      simp only [h', Bool.false_eq_true, ite_false, ih, h2]
      simp

theorem loop2 (maxAge now : Nat) (l : List Stored) : ∀ (acc : List Stored),
    (l.map (fun p => if stale maxAge now p then none else some p)).foldl T8.filterPlans_loop2 acc =
      acc ++ l.filter (fun p => !stale maxAge now p) := by
  induction l with
  | nil => intro acc; simp
  | cons p l ih =>
    intro acc
    simp only [List.map_cons, List.foldl_cons, List.filter_cons]
    by_cases h : stale maxAge now p = true
    · simp only [h, ite_true, T8.filterPlans_loop2, ih]
      simp
    · have h2 : stale maxAge now p = false := by simpa using h
      simp only [h2, Bool.false_eq_true, ite_false, T8.filterPlans_loop2, ih]
      simp

/-- the translated `filterPlans` partitions the Running plans by `Startup.stale`, keeping the order -/
theorem filterPlans_eq (maxAge now : Nat) (plans : List Stored) :
    T8.filterPlans maxAge now plans = (plans.filter (fun p => !stale maxAge now p), plans.filter (stale maxAge now)) := by
  unfold T8.filterPlans
  have h1 := loop1 maxAge now plans [] []
  simp only [List.nil_append] at h1
  simp only [h1]
  have h2 := loop2 maxAge now plans []
  simp only [List.nil_append] at h2
  rw [h2]

end Coercion.TranslatedStartup
