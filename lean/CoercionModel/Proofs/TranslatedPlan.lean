import CoercionModel.Generated.T6
import CoercionModel.Model.FixPlan
import CoercionModel.Proofs.Translated
set_option linter.unusedSimpArgs false
/-
  Proofs/TranslatedPlan — `fixBlock` and `fixPlan` as translator T6 regenerates them from recovery.go on
  every run (Generated/T6.lean) equal the hand-written Model/FixPlan (`fixBlockFull`, `fixPlanFull`).
-/
namespace Coercion.Translated
open Coercion
open Generated

theorem grp_fix_status_completed (g : Option Checks) :
    (((T1.fixChecksOpt g).map (·.status)).getD Status.notStarted == Status.completed) = (Fix.grpStatus g == some .completed) := by
  cases g with
  | none => simp [T1.fixChecksOpt, Fix.grpStatus]
  | some c =>
    simp only [T1.fixChecksOpt, fixChecks_eq, Fix.grpStatus, Option.map_some, Option.getD_some]
    unfold Fix.fixChecks
    by_cases h : c.status = .running <;> simp [h]

theorem grp_status_failed (g : Option Checks) (h : g.isSome = true) :
    ((g.map (·.status)).getD Status.notStarted == Status.failed) = (Fix.grpStatus g == some .failed) := by
  cases g with
  | none => simp at h
  | some c => simp [Fix.grpStatus]

theorem grp_none_failed (g : Option Checks) (h : g.isSome = false) : (Fix.grpStatus g == some .failed) = false := by
  cases g with
  | none => simp [Fix.grpStatus]
  | some c => simp at h

theorem grp_none_completed (g : Option Checks) (h : g.isSome = false) : (Fix.grpStatus g == some .completed) = false := by
  cases g with
  | none => simp [Fix.grpStatus]
  | some c => simp at h

theorem fixChecksOpt_none (g : Option Checks) (h : g.isSome = false) : Fix.fixGroup g = g := by
  cases g with
  | none => rfl
  | some c => simp at h

theorem fixChecksOpt_group (g : Option Checks) : T1.fixChecksOpt g = Fix.fixGroup g := by
  simp [fixChecksOpt_eq, Fix.fixGroup]

/-- one step of the first loop of fixBlock -/
theorem block_loop1_step (exec : Sequence → Sequence × Bool) (now : Nat) (b : Block) (c f s : Nat) (pre : List Sequence) (q : Sequence) :
    T6.fixBlock_loop1 exec now ((b, false), (c, f, s), pre) q =
      ((b, false), (c + (if Fix.seqCompleted now q then 1 else 0), f + (if Fix.seqFailed exec now q then 1 else 0),
        s + (if Fix.seqStopped now q then 1 else 0)), pre ++ [Fix.resumeSeq exec now q]) := by
  simp only [T6.fixBlock_loop1, fixSeq_eq, Fix.seqCompleted, Fix.seqFailed, Fix.seqStopped, Fix.resumeSeq]
  by_cases h1 : (Fix.fixSeqFull now q).status = .completed
  · simp [h1]
  · by_cases h2 : (Fix.fixSeqFull now q).status = .failed
    · simp [h2]
    · by_cases h3 : (Fix.fixSeqFull now q).status = .stopped
      · simp [h3]
      · by_cases h4 : (Fix.fixSeqFull now q).status = .running
        · by_cases he : (exec (Fix.fixSeqFull now q)).2 = true <;> simp [h4, he]
        · simp [h1, h2, h3, h4]

theorem block_loop1 (exec : Sequence → Sequence × Bool) (now : Nat) (b : Block) (l : List Sequence) : ∀ (c f s : Nat) (pre : List Sequence),
    List.foldl (T6.fixBlock_loop1 exec now) ((b, false), (c, f, s), pre) l =
      ((b, false), (c + (l.filter (Fix.seqCompleted now)).length, f + (l.filter (Fix.seqFailed exec now)).length,
        s + (l.filter (Fix.seqStopped now)).length), pre ++ l.map (Fix.resumeSeq exec now)) := by
  induction l with
  | nil => intro c f s pre; simp
  | cons q l ih =>
    intro c f s pre
    simp only [List.foldl_cons, block_loop1_step, ih, List.filter_cons, List.map_cons]
    cases Fix.seqCompleted now q <;> cases Fix.seqFailed exec now q <;> cases Fix.seqStopped now q <;> simp <;> omega

theorem block_loop2 (exec : Sequence → Sequence × Bool) (now : Nat) (b : Block) (l : List Sequence) : ∀ (c f s : Nat) (pre : List Sequence),
    List.foldl (T6.fixBlock_loop2 exec now) ((b, false), (c, f, s), pre) l = ((b, false), (c, f, s), pre ++ l.map Fix.stopRunning) := by
  induction l with
  | nil => intro c f s pre; simp
  | cons q l ih =>
    intro c f s pre
    have hstep : T6.fixBlock_loop2 exec now ((b, false), (c, f, s), pre) q = ((b, false), (c, f, s), pre ++ [Fix.stopRunning q]) := by
      simp only [T6.fixBlock_loop2, Fix.stopRunning]
      by_cases h : (q.status == Status.running) = true <;> simp [h]
    simp only [List.foldl_cons, hstep, ih, List.map_cons]
    simp

end Coercion.Translated

namespace Coercion.Translated
open Coercion
open Generated

theorem fixChecks_status_completed (c : Checks) : ((Fix.fixChecks c).status = .completed) = (c.status = .completed) := by
  unfold Fix.fixChecks
  by_cases h : c.status = .running <;> simp [h]

/-- the translated `fixBlock` is the model's `fixBlockFull` -/
theorem fixBlock_eq (exec : Sequence → Sequence × Bool) (now : Nat) (b : Block) : T6.fixBlock exec now b = Fix.fixBlockFull exec now b := by
  unfold T6.fixBlock Fix.fixBlockFull
  by_cases hr : b.status = .running
  · obtain ⟨id, key, name, descr, entrance, exit, conc, tol, status, tStart, tEnd, bypass, pre, cont, post, deferred, seqs⟩ := b
    simp only at hr
    subst hr
    have hl1 := fun b => block_loop1 exec now b seqs 0 0 0 []
    have hl2 := fun b l c f s => block_loop2 exec now b l c f s []
    simp only [Nat.zero_add, List.nil_append] at hl1 hl2
    rcases bypass with _ | cb <;> rcases pre with _ | cp <;> rcases cont with _ | cc <;> rcases post with _ | cpo
    all_goals simp only [bne_self_eq_false, Bool.false_eq_true, ite_false, ne_eq, not_true_eq_false, Fix.grpStatus, Fix.fixGroup, Option.map_none, Option.map_some, Option.isSome_none, Option.isSome_some, Option.getD_some, T1.fixChecksOpt, fixChecks_eq, ite_true, status_beq, decide_eq_true_eq, fixChecks_status_completed, Option.some.injEq, reduceCtorEq, decide_false]
    all_goals (try by_cases h1 : cb.status = .completed)
    all_goals (try by_cases h2 : cp.status = .failed)
    all_goals (try by_cases h3 : cc.status = .failed)
    all_goals (try by_cases h4 : cpo.status = .failed)
    all_goals simp [*, hl1, hl2]
  · simp [hr]

end Coercion.Translated

namespace Coercion.Translated
open Coercion
open Generated

/-- once `fixPlan` has returned from inside its loop the remaining blocks are passed through untouched -/
theorem plan_loop1_done (exec : Sequence → Sequence × Bool) (now : Nat) (p : Plan) (cs : Nat × Nat × Nat) (l : List Block) : ∀ (pre : List Block),
    List.foldl (T6.fixPlan_loop1 exec now) ((p, true), cs, pre) l = ((p, true), cs, pre ++ l) := by
  induction l with
  | nil => intro pre; simp
  | cons b l ih =>
    intro pre
    have hstep : T6.fixPlan_loop1 exec now ((p, true), cs, pre) b = ((p, true), cs, pre ++ [b]) := by
      obtain ⟨r, c, f⟩ := cs
      simp [T6.fixPlan_loop1]
    simp only [List.foldl_cons, hstep, ih]
    simp

theorem plan_loop1 (exec : Sequence → Sequence × Bool) (now : Nat) (p : Plan) (l : List Block) : ∀ (r c f : Nat) (pre : List Block),
    ((Fix.fixBlocksUntilStopped exec now l).2 = true →
      ∃ cs, List.foldl (T6.fixPlan_loop1 exec now) ((p, false), (r, c, f), pre) l =
        (({ p with status := .stopped }, true), cs, pre ++ (Fix.fixBlocksUntilStopped exec now l).1)) ∧
    ((Fix.fixBlocksUntilStopped exec now l).2 = false →
      List.foldl (T6.fixPlan_loop1 exec now) ((p, false), (r, c, f), pre) l =
        ((p, false), (r + Fix.cntStatus .running (Fix.fixBlocksUntilStopped exec now l).1, c + Fix.cntStatus .completed (Fix.fixBlocksUntilStopped exec now l).1,
          f + Fix.cntStatus .failed (Fix.fixBlocksUntilStopped exec now l).1), pre ++ (Fix.fixBlocksUntilStopped exec now l).1)) := by
  induction l with
  | nil => intro r c f pre; simp [Fix.fixBlocksUntilStopped, Fix.cntStatus]
  | cons b l ih =>
    intro r c f pre
    by_cases hs : (Fix.fixBlockFull exec now b).status = .stopped
    · have hstep : T6.fixPlan_loop1 exec now ((p, false), (r, c, f), pre) b =
          (({ p with status := .stopped }, true), (r, c, f), pre ++ [Fix.fixBlockFull exec now b]) := by
        simp [T6.fixPlan_loop1, fixBlock_eq, hs]
      simp only [Fix.fixBlocksUntilStopped, hs, status_beq, decide_true, ite_true, List.foldl_cons, hstep, plan_loop1_done]
      simp
    · have hstep : T6.fixPlan_loop1 exec now ((p, false), (r, c, f), pre) b =
          ((p, false), (r + (if (Fix.fixBlockFull exec now b).status == .running then 1 else 0), c + (if (Fix.fixBlockFull exec now b).status == .completed then 1 else 0),
            f + (if (Fix.fixBlockFull exec now b).status == .failed then 1 else 0)), pre ++ [Fix.fixBlockFull exec now b]) := by
        simp only [T6.fixPlan_loop1, fixBlock_eq]
        by_cases h1 : (Fix.fixBlockFull exec now b).status = .completed
        · simp [h1]
        · by_cases h2 : (Fix.fixBlockFull exec now b).status = .running
          · simp [h2]
          · by_cases h3 : (Fix.fixBlockFull exec now b).status = .failed
            · simp [h3]
            · simp [h1, h2, h3, hs]
      have hs' : ((Fix.fixBlockFull exec now b).status == Status.stopped) = false := by simpa using hs
      simp only [Fix.fixBlocksUntilStopped, hs', Bool.false_eq_true, ite_false, List.foldl_cons, hstep]
      obtain ⟨ih1, ih2⟩ := ih (r + (if (Fix.fixBlockFull exec now b).status == .running then 1 else 0)) (c + (if (Fix.fixBlockFull exec now b).status == .completed then 1 else 0))
        (f + (if (Fix.fixBlockFull exec now b).status == .failed then 1 else 0)) (pre ++ [Fix.fixBlockFull exec now b])
      constructor
      · intro h
        obtain ⟨cs, hcs⟩ := ih1 h
        exact ⟨cs, by rw [hcs]; simp⟩
      · intro h
        rw [ih2 h]
        simp only [Fix.cntStatus, List.filter_cons, List.append_assoc, List.singleton_append]
        by_cases h1 : (Fix.fixBlockFull exec now b).status = .completed
        · simp [h1]; omega
        · by_cases h2 : (Fix.fixBlockFull exec now b).status = .running
          · simp [h2]; omega
          · by_cases h3 : (Fix.fixBlockFull exec now b).status = .failed
            · simp [h3]; omega
            · simp [h1, h2, h3]

end Coercion.Translated

namespace Coercion.Translated
open Coercion
open Generated

theorem fixChecks_status_failed (c : Checks) : ((Fix.fixChecks c).status = .failed) = (c.status = .failed) := by
  unfold Fix.fixChecks
  by_cases h : c.status = .running <;> simp [h]

set_option maxHeartbeats 4000000 in
/-- the translated `fixPlan` is the model's `fixPlanFull` -/
theorem fixPlan_eq (exec : Sequence → Sequence × Bool) (now : Nat) (p : Plan) : T6.fixPlan exec now p = Fix.fixPlanFull exec now p := by
  unfold T6.fixPlan Fix.fixPlanFull
  by_cases hr : p.status = .running
  · obtain ⟨id, name, descr, group, pmeta, status, tStart, tEnd, reason, submit, bypass, pre, cont, post, deferred, blocks⟩ := p
    simp only at hr
    subst hr
    have hloop := fun p => plan_loop1 exec now p blocks 0 0 0 []
    simp only [Nat.zero_add, List.nil_append] at hloop
    rcases bypass with _ | cb <;> rcases pre with _ | cp <;> rcases cont with _ | cc <;> rcases post with _ | cpo <;> rcases deferred with _ | cd
    all_goals simp only [bne_self_eq_false, Bool.false_eq_true, ite_false, ne_eq, not_true_eq_false, Fix.grpStatus, Fix.fixGroup, Fix.grpDone, Option.map_none, Option.map_some, Option.isSome_none, Option.isSome_some, Option.isNone_none, Option.isNone_some, Option.getD_some, T1.fixChecksOpt, T1.checksFailedOpt, T1.checksCompletedOpt, T1.checksFailed, T1.checksCompleted, fixChecks_eq, ite_true, status_beq, decide_eq_true_eq, fixChecks_status_completed, fixChecks_status_failed, Option.some.injEq, reduceCtorEq, decide_false, Bool.or_false, Bool.false_or, Bool.true_or, Bool.or_true, Bool.and_true, Bool.true_and]
    all_goals (try by_cases h1 : cb.status = .completed)
    all_goals (try by_cases h2 : cp.status = .failed)
    all_goals (try by_cases h3 : cpo.status = .failed)
    all_goals (try by_cases h4 : cc.status = .failed)
    all_goals (try simp only [*, ite_true, ite_false, if_true, if_false, decide_true, decide_false, Bool.false_eq_true])
    all_goals (
      cases hres : (Fix.fixBlocksUntilStopped exec now blocks).2
      · have hF := fun p => (hloop p).2 hres
        clear hloop
        by_cases hf : 0 < Fix.cntStatus .failed (Fix.fixBlocksUntilStopped exec now blocks).1
        · simp [*, fixChecks_status_completed, fixChecks_status_failed]
        · have hf0 : Fix.cntStatus .failed (Fix.fixBlocksUntilStopped exec now blocks).1 = 0 := by omega
          simp [*, fixChecks_status_completed, fixChecks_status_failed]
          try (repeat' split) <;> simp_all
      · have hT1 : ∀ p : Plan, (List.foldl (T6.fixPlan_loop1 exec now) ((p, false), (0, 0, 0), []) blocks).1 = ({ p with status := .stopped }, true) := by
          intro p; obtain ⟨cs, hcs⟩ := (hloop p).1 hres; rw [hcs]
        have hT2 : ∀ p : Plan, (List.foldl (T6.fixPlan_loop1 exec now) ((p, false), (0, 0, 0), []) blocks).2.2 = (Fix.fixBlocksUntilStopped exec now blocks).1 := by
          intro p; obtain ⟨cs, hcs⟩ := (hloop p).1 hres; rw [hcs]
        clear hloop
        simp [*, fixChecks_status_completed, fixChecks_status_failed])
  · simp [hr]

end Coercion.Translated
