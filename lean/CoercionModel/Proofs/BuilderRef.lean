import CoercionModel.Model.BuilderRef
set_option linter.unusedSimpArgs false
/-
  Proofs/BuilderRef — the Go builder's model (`Builder.step`, top-down, in-place) simulates the bottom-up
  reference (`Model/BuilderRef`) call by call: `sim_step`, `sim_run`, `rejected_call_errors`.
-/
namespace Coercion.Builder
open Coercion

theorem modLast_append_single {α} (f : α → α) (l : List α) (x : α) : modLast f (l ++ [x]) = l ++ [f x] := by
  induction l with
  | nil => rfl
  | cons y l ih =>
    cases l with
    | nil => simp [modLast]
    | cons z l => simp only [List.cons_append, modLast] at *; rw [ih]

@[simp] theorem grp_setGrp_block (b : Block) (k : GKind) (c : Option Checks) : (b.setGrp k c).grp k = c := by
  cases k <;> rfl
@[simp] theorem grp_setGrp_plan (p : Plan) (k : GKind) (c : Option Checks) : (p.setGrp k c).grp k = c := by
  cases k <;> rfl
@[simp] theorem setGrp_setGrp_block (b : Block) (k : GKind) (c d : Option Checks) : (b.setGrp k c).setGrp k d = b.setGrp k d := by
  cases k <;> rfl
@[simp] theorem setGrp_setGrp_plan (p : Plan) (k : GKind) (c d : Option Checks) : (p.setGrp k c).setGrp k d = p.setGrp k d := by
  cases k <;> rfl
@[simp] theorem setGrp_seqs (b : Block) (k : GKind) (c : Option Checks) : (b.setGrp k c).seqs = b.seqs := by cases k <;> rfl
@[simp] theorem setGrp_blocks (p : Plan) (k : GKind) (c : Option Checks) : (p.setGrp k c).blocks = p.blocks := by cases k <;> rfl
theorem setGrp_with_seqs (b : Block) (k : GKind) (c : Option Checks) (s : List Sequence) :
    ({ b with seqs := s } : Block).setGrp k c = { b.setGrp k c with seqs := s } := by cases k <;> rfl
theorem setGrp_with_blocks (p : Plan) (k : GKind) (c : Option Checks) (bs : List Block) :
    ({ p with blocks := bs } : Plan).setGrp k c = { p.setGrp k c with blocks := bs } := by cases k <;> rfl
@[simp] theorem grp_with_seqs (b : Block) (k : GKind) (s : List Sequence) : ({ b with seqs := s } : Block).grp k = b.grp k := by cases k <;> rfl
@[simp] theorem grp_with_blocks (p : Plan) (k : GKind) (bs : List Block) : ({ p with blocks := bs } : Plan).grp k = p.grp k := by cases k <;> rfl

end Coercion.Builder

namespace Coercion.Builder
open Coercion

/-- the Go builder's state that corresponds to a stack of open objects -/
def absB (z : Z) : B := { plan := finish z, pos := some (posOf z), emitted := false, err := none }

theorem getLast?_append_single {α} (l : List α) (x : α) : (l ++ [x]).getLast? = some x := by simp

theorem sim_addChecks (z z' : Z) (k : Option GKind) (c : Option (Checks × Bool)) (hw : ZWF z)
    (h : zstep z (.addChecks k c) = some z') : step (absB z) (.addChecks k c) = (absB z', .ok) ∧ ZWF z' := by
  obtain ⟨plan, blk, grp, sq⟩ := z
  cases k with
  | none => simp [zstep] at h
  | some k =>
  cases c with
  | none => simp [zstep] at h
  | some cb =>
  obtain ⟨c, hasNil⟩ := cb
  cases hasNil with
  | true => simp [zstep] at h
  | false =>
  cases blk with
  | none =>
    cases grp with
    | some g => simp [zstep] at h
    | none =>
      simp only [zstep] at h
      by_cases hd : (plan.grp k).isSome = true
      · simp [hd] at h
      · simp [hd] at h
        subst h
        refine ⟨?_, ?_⟩
        · simp [step, pre, absB, finish, posOf, hd]
        · intro hs; simp [ZWF] at hw hs ⊢; cases sq <;> simp_all
  | some b =>
    cases grp with
    | some g => simp [zstep] at h
    | none =>
      cases sq with
      | some q => simp [zstep] at h
      | none =>
        simp only [zstep] at h
        by_cases hd : (b.grp k).isSome = true
        · simp [hd] at h
        · simp [hd] at h
          subst h
          refine ⟨?_, ?_⟩
          · simp [step, pre, absB, finish, posOf, hd, closeGrpOnBlock, closeSeqOnBlock, Plan.modLastBlock, modLast_append_single]
          · simp [ZWF]

theorem sim_addBlock (z z' : Z) (a : BlockArgs) (hw : ZWF z)
    (h : zstep z (.addBlock a) = some z') : step (absB z) (.addBlock a) = (absB z', .ok) ∧ ZWF z' := by
  obtain ⟨plan, blk, grp, sq⟩ := z
  simp only [zstep] at h
  by_cases hn : a.name = ""
  · simp [hn] at h
  by_cases hd : a.descr = ""
  · simp [hd] at h
  cases blk with
  | some b => simp [hn, hd] at h
  | none =>
    cases grp with
    | some g => simp [hn, hd] at h
    | none =>
      simp [hn, hd] at h
      subst h
      have hs : sq = none := by cases sq <;> simp_all [ZWF]
      subst hs
      refine ⟨?_, by simp [ZWF]⟩
      simp [step, pre, absB, finish, posOf, hn, hd, closeGrpOnBlock, closeSeqOnBlock]

theorem sim_addSequence (z z' : Z) (q : Option Sequence) (hw : ZWF z)
    (h : zstep z (.addSequence q) = some z') : step (absB z) (.addSequence q) = (absB z', .ok) ∧ ZWF z' := by
  obtain ⟨plan, blk, grp, sq⟩ := z
  cases q with
  | none => simp [zstep] at h
  | some q =>
  simp only [zstep] at h
  by_cases hn : q.name = ""
  · simp [hn] at h
  by_cases hd : q.descr = ""
  · simp [hd] at h
  cases blk with
  | none => simp [hn, hd] at h
  | some b =>
    cases grp with
    | some g => simp [hn, hd] at h
    | none =>
      cases sq with
      | some q' => simp [hn, hd] at h
      | none =>
        simp [hn, hd] at h
        subst h
        refine ⟨?_, by simp [ZWF]⟩
        simp [step, pre, absB, finish, posOf, hn, hd, closeGrpOnBlock, closeSeqOnBlock, Plan.modLastBlock, modLast_append_single]

theorem sim_addAction (z z' : Z) (a : Option Action) (hw : ZWF z)
    (h : zstep z (.addAction a) = some z') : step (absB z) (.addAction a) = (absB z', .ok) ∧ ZWF z' := by
  obtain ⟨plan, blk, grp, sq⟩ := z
  cases a with
  | none => simp [zstep] at h
  | some a =>
  simp only [zstep] at h
  by_cases hn : a.name = ""
  · simp [hn] at h
  by_cases hd : a.descr = ""
  · simp [hd] at h
  by_cases hp : a.plugin = ""
  · simp [hp] at h
  cases grp with
  | some g =>
    obtain ⟨k, c⟩ := g
    simp [hn, hd, hp] at h
    subst h
    have hs : sq = none := by cases sq <;> simp_all [ZWF]
    subst hs
    refine ⟨?_, by simp [ZWF]⟩
    cases blk with
    | none => simp [step, pre, absB, finish, posOf, hn, hd, hp]
    | some b => simp [step, pre, absB, finish, posOf, hn, hd, hp, closeGrpOnBlock, closeSeqOnBlock, Plan.modLastBlock, modLast_append_single]
  | none =>
    cases sq with
    | none => simp [hn, hd, hp] at h
    | some q =>
      simp [hn, hd, hp] at h
      subst h
      cases blk with
      | none => simp [ZWF] at hw
      | some b =>
        refine ⟨?_, by simp [ZWF]⟩
        simp [step, pre, absB, finish, posOf, hn, hd, hp, closeGrpOnBlock, closeSeqOnBlock, Plan.modLastBlock, modLast_append_single]

theorem sim_up (z z' : Z) (hw : ZWF z)
    (h : zstep z .up = some z') : step (absB z) .up = (absB z', .ok) ∧ ZWF z' := by
  obtain ⟨plan, blk, grp, sq⟩ := z
  cases blk with
  | none =>
    cases grp with
    | none => simp [zstep] at h
    | some g =>
      obtain ⟨k, c⟩ := g
      simp [zstep] at h
      subst h
      have hs : sq = none := by cases sq <;> simp_all [ZWF]
      subst hs
      refine ⟨?_, by simp [ZWF]⟩
      simp [step, pre, absB, finish, posOf]
  | some b =>
    cases grp with
    | some g =>
      obtain ⟨k, c⟩ := g
      simp [zstep] at h
      subst h
      have hs : sq = none := by cases sq <;> simp_all [ZWF]
      subst hs
      refine ⟨?_, by simp [ZWF]⟩
      simp [step, pre, absB, finish, posOf, closeGrpOnBlock, closeSeqOnBlock]
    | none =>
      cases sq with
      | some q =>
        simp [zstep] at h
        subst h
        refine ⟨?_, by simp [ZWF]⟩
        simp [step, pre, absB, finish, posOf, closeGrpOnBlock, closeSeqOnBlock]
      | none =>
        simp [zstep] at h
        subst h
        refine ⟨?_, by simp [ZWF]⟩
        simp [step, pre, absB, finish, posOf, closeGrpOnBlock, closeSeqOnBlock]

theorem sim_step (z z' : Z) (c : Call) (hw : ZWF z) (h : zstep z c = some z') :
    step (absB z) c = (absB z', .ok) ∧ ZWF z' := by
  cases c with
  | addChecks k c => exact sim_addChecks z z' k c hw h
  | addBlock a => exact sim_addBlock z z' a hw h
  | addSequence q => exact sim_addSequence z z' q hw h
  | addAction a => exact sim_addAction z z' a hw h
  | up => exact sim_up z z' hw h
  | plan => simp [zstep] at h
  | err => simp [zstep] at h
  | reset _ _ _ _ => simp [zstep] at h

theorem sim_run (cs : List Call) : ∀ (z z' : Z), ZWF z → zrun z cs = some z' →
    run (absB z) (cs ++ [.plan]) = ({ absB z' with emitted := true }, cs.map (fun _ => Ret.ok) ++ [.planOut (finish z')]) := by
  induction cs with
  | nil =>
    intro z z' _ h
    simp [zrun] at h
    subst h
    simp [run, step, absB, isPanic]
  | cons c cs ih =>
    intro z z' hw h
    simp only [zrun] at h
    cases h1 : zstep z c with
    | none => simp [h1] at h
    | some z1 =>
      simp [h1] at h
      obtain ⟨hs, hw1⟩ := sim_step z z1 c hw h1
      simp only [List.cons_append, run, hs, isPanic, List.map_cons]
      rw [ih z1 z' hw1 h]
      simp

/-- a constructing call the reference has no meaning for is refused by the builder: it records an
    error, returns it, and the hierarchy built so far is untouched -/
theorem rejected_call_errors (z : Z) (c : Call) (hw : ZWF z) (hc : isCtor c = true) (h : zstep z c = none) :
    ∃ e, step (absB z) c = ({ absB z with err := some e }, .err e) := by
  obtain ⟨plan, blk, grp, sq⟩ := z
  cases c with
  | plan => simp [isCtor] at hc
  | err => simp [isCtor] at hc
  | reset _ _ _ _ => simp [isCtor] at hc
  | up =>
    cases blk <;> cases grp <;> cases sq <;> simp_all [zstep, ZWF]
    all_goals simp [step, pre, absB, posOf, fail]
  | addBlock a =>
    by_cases hn : a.name = ""
    · exact ⟨.missingField, by simp [step, pre, absB, fail, hn]⟩
    by_cases hd : a.descr = ""
    · exact ⟨.missingField, by simp [step, pre, absB, fail, hn, hd]⟩
    cases blk <;> cases grp <;> cases sq <;> simp_all [zstep, ZWF]
    all_goals simp [step, pre, absB, posOf, fail, hn, hd]
  | addSequence q =>
    cases q with
    | none => exact ⟨.nilArg, by simp [step, pre, absB, fail]⟩
    | some q =>
    by_cases hn : q.name = ""
    · exact ⟨.missingField, by simp [step, pre, absB, fail, hn]⟩
    by_cases hd : q.descr = ""
    · exact ⟨.missingField, by simp [step, pre, absB, fail, hn, hd]⟩
    cases blk <;> cases grp <;> cases sq <;> simp_all [zstep, ZWF]
    all_goals simp [step, pre, absB, posOf, fail, hn, hd]
  | addAction a =>
    cases a with
    | none => exact ⟨.nilArg, by simp [step, pre, absB, fail]⟩
    | some a =>
    by_cases hn : a.name = ""
    · exact ⟨.missingField, by simp [step, pre, absB, fail, hn]⟩
    by_cases hd : a.descr = ""
    · exact ⟨.missingField, by simp [step, pre, absB, fail, hn, hd]⟩
    by_cases hp : a.plugin = ""
    · exact ⟨.missingField, by simp [step, pre, absB, fail, hn, hd, hp]⟩
    cases blk <;> cases grp <;> cases sq <;> simp_all [zstep, ZWF]
    all_goals simp [step, pre, absB, posOf, fail, hn, hd, hp]
  | addChecks k c =>
    cases c with
    | none => exact ⟨.nilArg, by simp [step, pre, absB, fail]⟩
    | some cb =>
    obtain ⟨c, hasNil⟩ := cb
    cases hasNil with
    | true => exact ⟨.nilArg, by simp [step, pre, absB, fail]⟩
    | false =>
    cases k with
    | none =>
      cases blk <;> cases grp <;> cases sq <;> simp_all [zstep, ZWF]
      all_goals simp [step, pre, absB, posOf, fail]
    | some k =>
      cases blk <;> cases grp <;> cases sq <;> simp_all [zstep, ZWF]
      all_goals simp [step, pre, absB, posOf, fail, finish, closeGrpOnBlock, closeSeqOnBlock, *]
      all_goals
        have h' := Option.isSome_iff_ne_none.mpr h
        exact ⟨.dupGroup, by simp [h']⟩

end Coercion.Builder
