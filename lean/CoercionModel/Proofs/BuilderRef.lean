import CoercionModel.Model.Builder
set_option linter.unusedSimpArgs false
/-
  The reference ("directly constructing the same hierarchy") for the builder: a bottom-up interpreter
  that keeps a stack of OPEN objects and attaches a child to its parent only when it is closed (by
  `Up`, or by `Plan()` at the end) — each object is complete before it is placed, as in a hand-written
  composite literal. The Go builder does the opposite (links the child at once and keeps mutating it
  through the pointer); `Builder.step` mirrors that. `sim_step` shows the two agree call by call.
-/
namespace Coercion.Builder
open Coercion

/-- open objects, innermost last in construction order: an optional open block, inside it (or at plan
    level) an optional open group or sequence -/
structure Z where
  plan  : Plan := {}                         -- closed part: everything already attached to the plan
  blk   : Option Block := none               -- the open block, not yet attached
  grp   : Option (GKind × Checks) := none    -- the open check group (of the open block, or of the plan)
  sq    : Option Sequence := none            -- the open sequence (of the open block)
  deriving Repr, Inhabited

def closeGrpOnBlock (b : Block) : Option (GKind × Checks) → Block
  | none => b
  | some (k, c) => b.setGrp k (some c)

def closeSeqOnBlock (b : Block) : Option Sequence → Block
  | none => b
  | some q => { b with seqs := b.seqs ++ [q] }

/-- attach everything that is still open, innermost first: the finished plan -/
def finish (z : Z) : Plan :=
  match z.blk with
  | some b =>
    let b' := closeSeqOnBlock (closeGrpOnBlock b z.grp) z.sq
    { z.plan with blocks := z.plan.blocks ++ [b'] }
  | none =>
    match z.grp with
    | some (k, c) => z.plan.setGrp k (some c)
    | none => z.plan

/-- the position the Go builder is at, read off the open objects -/
def posOf (z : Z) : Pos :=
  match z.blk, z.grp, z.sq with
  | none, none, _ => .plan
  | none, some (k, _), _ => .planGroup k
  | some _, none, none => .block
  | some _, some (k, _), _ => .blockGroup k
  | some _, none, some _ => .seq

/-- well-formed stacks: a sequence only inside a block, never together with an open group -/
def ZWF (z : Z) : Prop := (z.sq.isSome → z.blk.isSome ∧ z.grp = none)

/-- the reference interpreter on a call that the builder accepts (anything else: `none`) -/
def zstep (z : Z) : Call → Option Z
  | .addChecks (some k) (some (c, false)) =>
    (match z.blk, z.grp, z.sq with
     | none, none, _ => if (z.plan.grp k).isSome then none else some { z with grp := some (k, c) }
     | some b, none, none => if (b.grp k).isSome then none else some { z with grp := some (k, c) }
     | _, _, _ => none)
  | .addBlock a =>
    if a.name = "" ∨ a.descr = "" then none else
    (match z.blk, z.grp with
     | none, none => some { z with blk := some { key := a.key, name := a.name, descr := a.descr, entrance := a.entrance, exit := a.exit, conc := a.conc, tol := a.tol } }
     | _, _ => none)
  | .addSequence (some q) =>
    if q.name = "" ∨ q.descr = "" then none else
    (match z.blk, z.grp, z.sq with
     | some _, none, none => some { z with sq := some q }
     | _, _, _ => none)
  | .addAction (some a) =>
    if a.name = "" ∨ a.descr = "" ∨ a.plugin = "" then none else
    (match z.grp, z.sq with
     | some (k, c), _ => some { z with grp := some (k, addAct a c) }
     | none, some q => some { z with sq := some { q with actions := q.actions ++ [a] } }
     | none, none => none)
  | .up =>
    (match z.blk, z.grp, z.sq with
     | none, some (k, c), _ => some { z with plan := z.plan.setGrp k (some c), grp := none }      -- close a plan-level group
     | some b, some (k, c), _ => some { z with blk := some (b.setGrp k (some c)), grp := none }   -- close a block-level group
     | some b, none, some q => some { z with blk := some { b with seqs := b.seqs ++ [q] }, sq := none }  -- close a sequence
     | some b, none, none => some { z with plan := { z.plan with blocks := z.plan.blocks ++ [b] }, blk := none }  -- close a block
     | none, none, _ => none)
  | _ => none

theorem modLast_append_single {α} (f : α → α) (l : List α) (x : α) : modLast f (l ++ [x]) = l ++ [f x] := by
  induction l with
  | nil => rfl
  | cons y l ih =>
    cases l with
    | nil => simp [modLast]
    | cons z l => simp only [List.cons_append, modLast] at *; rw [ih]

@[simp] theorem grp_setGrp_block (b : Block) (k : GKind) (c : Option Checks) : (b.setGrp k c).grp k = c := by
  cases k <;> rfl
@[simp] theorem grp_setGrp_plan (p : Plan) (k : GKind) (c : Option Checks) : (p.setGrp k c).grp k = c := by
  cases k <;> rfl
@[simp] theorem setGrp_setGrp_block (b : Block) (k : GKind) (c d : Option Checks) : (b.setGrp k c).setGrp k d = b.setGrp k d := by
  cases k <;> rfl
@[simp] theorem setGrp_setGrp_plan (p : Plan) (k : GKind) (c d : Option Checks) : (p.setGrp k c).setGrp k d = p.setGrp k d := by
  cases k <;> rfl
@[simp] theorem setGrp_seqs (b : Block) (k : GKind) (c : Option Checks) : (b.setGrp k c).seqs = b.seqs := by cases k <;> rfl
@[simp] theorem setGrp_blocks (p : Plan) (k : GKind) (c : Option Checks) : (p.setGrp k c).blocks = p.blocks := by cases k <;> rfl
theorem setGrp_with_seqs (b : Block) (k : GKind) (c : Option Checks) (s : List Sequence) :
    ({ b with seqs := s } : Block).setGrp k c = { b.setGrp k c with seqs := s } := by cases k <;> rfl
theorem setGrp_with_blocks (p : Plan) (k : GKind) (c : Option Checks) (bs : List Block) :
    ({ p with blocks := bs } : Plan).setGrp k c = { p.setGrp k c with blocks := bs } := by cases k <;> rfl
@[simp] theorem grp_with_seqs (b : Block) (k : GKind) (s : List Sequence) : ({ b with seqs := s } : Block).grp k = b.grp k := by cases k <;> rfl
@[simp] theorem grp_with_blocks (p : Plan) (k : GKind) (bs : List Block) : ({ p with blocks := bs } : Plan).grp k = p.grp k := by cases k <;> rfl

end Coercion.Builder
