import CoercionModel.Model.FixPlan
set_option linter.unusedSimpArgs false
/-
  Proofs/FixPlan — what the block- and plan-level repair (Model/FixPlan = translated recovery.go, see
  Proofs/TranslatedPlan) does and does not do.
-/
namespace Coercion.Fix
open Coercion

/-- a sequence that is not Running after its repair is not handed to `execSeq` -/
theorem resumeSeq_finished (exec : Sequence → Sequence × Bool) (now : Nat) (q : Sequence)
    (h : (fixSeqFull now q).status ≠ .running) : resumeSeq exec now q = fixSeqFull now q := by
  simp [resumeSeq, h]

/-- … in particular a sequence that was not Running in the store is returned as it is -/
theorem resumeSeq_untouched (exec : Sequence → Sequence × Bool) (now : Nat) (q : Sequence)
    (h : q.status ≠ .running) : resumeSeq exec now q = q := by
  have : fixSeqFull now q = q := by simp [fixSeqFull, h]
  simp [resumeSeq, this, h]

/-- `fixBlock` consults `execSeq` only on sequences that are Running after their repair -/
theorem fixBlock_exec_only_running (exec exec' : Sequence → Sequence × Bool) (now : Nat) (b : Block)
    (h : ∀ q : Sequence, q.status = .running → exec q = exec' q) : fixBlockFull exec now b = fixBlockFull exec' now b := by
  have hres : resumeSeq exec now = resumeSeq exec' now := by
    funext q
    unfold resumeSeq
    by_cases hq : (fixSeqFull now q).status = .running
    · simp [hq, h _ hq]
    · simp [hq]
  have hfail : seqFailed exec now = seqFailed exec' now := by
    funext q
    unfold seqFailed
    by_cases hq : (fixSeqFull now q).status = .running
    · simp [hq, h _ hq]
    · simp [hq]
  unfold fixBlockFull
  rw [hres, hfail]

/-- a block that is not Running in the store is not touched -/
theorem fixBlock_only_running (exec : Sequence → Sequence × Bool) (now : Nat) (b : Block) (h : b.status ≠ .running) :
    fixBlockFull exec now b = b := by simp [fixBlockFull, h]

/-- a Running block with a durably Failed PreChecks / ContChecks / PostChecks group (and no Completed bypass) comes out
    Failed, and none of its sequences is repaired or executed -/
theorem fixBlock_failed_gate (exec : Sequence → Sequence × Bool) (now : Nat) (b : Block) (hr : b.status = .running)
    (hb : grpStatus b.bypass ≠ some .completed)
    (hg : grpStatus b.pre = some .failed ∨ grpStatus b.cont = some .failed ∨ grpStatus b.post = some .failed) :
    (fixBlockFull exec now b).status = .failed ∧ (fixBlockFull exec now b).seqs = b.seqs := by
  have hb' : (grpStatus b.bypass == some Status.completed) = false := by simpa using hb
  unfold fixBlockFull
  simp only [hr, ne_eq, not_true_eq_false, ite_false, hb', Bool.false_eq_true]
  by_cases h1 : grpStatus b.pre = some .failed
  · simp [h1]
  · by_cases h2 : grpStatus b.cont = some .failed
    · simp [h1, h2]
    · have h3 : grpStatus b.post = some .failed := by
        rcases hg with h | h | h
        · exact absurd h h1
        · exact absurd h h2
        · exact h
      simp [h1, h2, h3]

/-- a completed bypass closes a Running block without looking at anything else -/
theorem fixBlock_bypassed (exec : Sequence → Sequence × Bool) (now : Nat) (b : Block) (hr : b.status = .running)
    (hb : grpStatus b.bypass = some .completed) :
    (fixBlockFull exec now b).status = .completed ∧ (fixBlockFull exec now b).seqs = b.seqs := by
  simp [fixBlockFull, hr, hb]

/-- every sequence of a repaired block is the resumed image of the stored one, unless the block left early -/
theorem fixBlock_seqs (exec : Sequence → Sequence × Bool) (now : Nat) (b : Block) :
    (fixBlockFull exec now b).seqs = b.seqs ∨ (fixBlockFull exec now b).seqs = b.seqs.map (resumeSeq exec now) ∨
      (fixBlockFull exec now b).seqs = (b.seqs.map (resumeSeq exec now)).map stopRunning := by
  unfold fixBlockFull
  repeat' split
  all_goals simp

/-! ### plan level -/

theorem untilStopped_none (exec : Sequence → Sequence × Bool) (now : Nat) (bs : List Block)
    (h : (fixBlocksUntilStopped exec now bs).2 = false) :
    (fixBlocksUntilStopped exec now bs).1 = bs.map (fixBlockFull exec now) := by
  induction bs with
  | nil => rfl
  | cons b bs ih =>
    unfold fixBlocksUntilStopped at h ⊢
    by_cases hs : ((fixBlockFull exec now b).status == .stopped) = true
    · simp [hs] at h
    · simp only [hs, Bool.false_eq_true, ite_false] at h ⊢
      simp [ih h]

theorem cnt_pos_iff_any (st : Status) (bs : List Block) : decide (0 < cntStatus st bs) = (bs.map (·.status)).any (· == st) := by
  induction bs with
  | nil => simp [cntStatus]
  | cons b bs ih =>
    simp only [cntStatus, List.filter_cons, List.map_cons, List.any_cons] at ih ⊢
    by_cases h : (b.status == st) = true
    · simp [h]
    · simp only [h, Bool.false_eq_true, ite_false, Bool.false_or]; exact ih

theorem cnt_zero_iff (st : Status) (bs : List Block) : (cntStatus st bs == 0) = (bs.map (·.status)).all (· != st) := by
  induction bs with
  | nil => simp [cntStatus]
  | cons b bs ih =>
    simp only [cntStatus, List.filter_cons, List.map_cons, List.all_cons] at ih ⊢
    by_cases h : (b.status == st) = true
    · have hb : b.status = st := by simpa using h
      simp [hb]
    · have h' : (b.status != st) = true := by simpa [bne] using h
      simp only [h, Bool.false_eq_true, ite_false, h', Bool.true_and]; exact ih

theorem cnt_all_iff (st : Status) (bs : List Block) : (cntStatus st bs == bs.length) = (bs.map (·.status)).all (· == st) := by
  induction bs with
  | nil => simp [cntStatus]
  | cons b bs ih =>
    have hle : cntStatus st bs ≤ bs.length := by simp only [cntStatus]; exact List.length_filter_le _ _
    simp only [cntStatus, List.filter_cons, List.map_cons, List.all_cons, List.length_cons] at ih hle ⊢
    by_cases h : (b.status == st) = true
    · simp only [h, ite_true, List.length_cons, Bool.true_and, ← ih]
      by_cases he : (List.filter (fun x => x.status == st) bs).length = bs.length <;> simp [he]
    · simp only [h, Bool.false_eq_true, ite_false, Bool.false_and]
      have : (List.filter (fun x => x.status == st) bs).length ≠ bs.length + 1 := by omega
      simpa using this

end Coercion.Fix

namespace Coercion.Fix
open Coercion

theorem all3_iff (l : List Status) :
    (l.all (· != .completed) && l.all (· != .running) && l.all (· != .failed)) =
      l.all (fun b => b != .completed && b != .running && b != .failed) := by
  induction l with
  | nil => rfl
  | cons a l ih =>
    simp only [List.all_cons, ← ih]
    cases (a != Status.completed) <;> cases (a != Status.running) <;> cases (a != Status.failed) <;> simp

/-- The status `fixPlan` leaves on a Running plan is the one Model/Fix.fixPlanStatus derives from the stored group
    statuses and the statuses of the repaired blocks (unless a block came out Stopped — nothing in the engine
    produces Stopped; then the plan is Stopped). This is what ties the `PlanSummary` theorems of C10 to the
    translated code. -/
theorem fixPlan_status_is_summary (exec : Sequence → Sequence × Bool) (now : Nat) (p : Plan) (hr : p.status = .running)
    (hs : (fixBlocksUntilStopped exec now p.blocks).2 = false) :
    (fixPlanFull exec now p).status = fixPlanStatus (summaryOf exec now p) := by
  have hmap := untilStopped_none exec now p.blocks hs
  unfold fixPlanFull fixPlanStatus summaryOf
  simp only [hr, ne_eq, not_true_eq_false, ite_false, hs, Bool.false_eq_true, hmap, isFailed, isDone]
  by_cases h1 : grpStatus p.bypass = some .completed
  · simp [h1]
  have h1' : (grpStatus p.bypass == some Status.completed) = false := by simpa using h1
  simp only [h1', Bool.false_eq_true, ite_false]
  by_cases h2 : grpStatus p.pre = some .failed
  · simp [h2]
  have h2' : (grpStatus p.pre == some Status.failed) = false := by simpa using h2
  simp only [h2', Bool.false_eq_true, ite_false]
  by_cases h3 : grpStatus p.post = some .failed
  · simp [h3]
  have h3' : (grpStatus p.post == some Status.failed) = false := by simpa using h3
  simp only [h3', Bool.false_eq_true, ite_false]
  have hf := cnt_pos_iff_any .failed (p.blocks.map (fixBlockFull exec now))
  have hc0 := cnt_zero_iff .completed (p.blocks.map (fixBlockFull exec now))
  have hr0 := cnt_zero_iff .running (p.blocks.map (fixBlockFull exec now))
  have hf0 := cnt_zero_iff .failed (p.blocks.map (fixBlockFull exec now))
  have hcall := cnt_all_iff .completed (p.blocks.map (fixBlockFull exec now))
  have h3all := all3_iff ((p.blocks.map (fixBlockFull exec now)).map (·.status))
  by_cases hfail : 0 < cntStatus .failed (p.blocks.map (fixBlockFull exec now))
  · have : ((p.blocks.map (fixBlockFull exec now)).map (·.status)).any (· == .failed) = true := by rw [← hf]; simpa using hfail
    rw [if_pos hfail, if_pos this]
  · have hany : ((p.blocks.map (fixBlockFull exec now)).map (·.status)).any (· == .failed) = false := by
      rw [← hf]; simpa using hfail
    have hfz : (cntStatus .failed (p.blocks.map (fixBlockFull exec now)) == 0) = true := by
      have : cntStatus .failed (p.blocks.map (fixBlockFull exec now)) = 0 := by omega
      simp [this]
    rw [hf0] at hfz
    simp only [hfail, ite_false, hany, Bool.false_eq_true, hc0, hr0, hcall, ← h3all, hfz, Bool.and_true]
    have hdp : grpDone p.post = (grpStatus p.post == none || grpStatus p.post == some .completed) := by
      cases p.post <;> simp [grpDone, grpStatus]
    have hdd : grpDone p.deferred = (grpStatus p.deferred == none || grpStatus p.deferred == some .completed) := by
      cases p.deferred <;> simp [grpDone, grpStatus]
    simp only [hdp, hdd, List.length_map]
    repeat' split
    all_goals simp_all

end Coercion.Fix

namespace Coercion.Fix
open Coercion

/-- `fixAction` returns a durably Completed action as it is -/
theorem fixAction_completed (a : Action) (h : a.status = .completed) : fixAction a = a := by
  simp [fixAction, h]

/-- the repair of a sequence keeps every durably Completed action (same status, same attempts) -/
theorem fixSeqFull_keeps_completed (now : Nat) (q : Sequence) (a : Action) (ha : a ∈ q.actions) (hc : a.status = .completed) :
    a ∈ (fixSeqFull now q).actions := by
  unfold fixSeqFull
  by_cases hr : q.status = .running
  · simp only [hr, ne_eq, not_true_eq_false, ite_false]
    have hmap : a ∈ q.actions.map fixAction := List.mem_map.mpr ⟨a, ha, fixAction_completed a hc⟩
    split
    · exact List.mem_map.mpr ⟨a, ha, by simp [hc]⟩
    · repeat' split
      all_goals exact hmap
  · simp [hr, ha]

/-- an executor that never loses a Completed action of the sequence it is given -/
def ExecKeepsCompleted (exec : Sequence → Sequence × Bool) : Prop :=
  ∀ (q : Sequence) (a : Action), a ∈ q.actions → a.status = .completed → a ∈ (exec q).1.actions

theorem resumeSeq_keeps_completed (exec : Sequence → Sequence × Bool) (hexec : ExecKeepsCompleted exec) (now : Nat) (q : Sequence) (a : Action)
    (ha : a ∈ q.actions) (hc : a.status = .completed) : a ∈ (resumeSeq exec now q).actions := by
  have h1 := fixSeqFull_keeps_completed now q a ha hc
  unfold resumeSeq
  split
  · exact hexec _ a h1 hc
  · exact h1

theorem stopRunning_actions (q : Sequence) : (stopRunning q).actions = q.actions := by
  unfold stopRunning; split <;> rfl

/-- The block-level repair never resets durably finished work: every action that is Completed in the store is, unchanged,
    an action of the corresponding sequence of the repaired block (position by position), whatever else the repair does —
    provided `execSeq` itself keeps Completed actions (C09 at action level: `runAction` returns at once on a Completed action). -/
theorem fixBlock_keeps_completed (exec : Sequence → Sequence × Bool) (hexec : ExecKeepsCompleted exec) (now : Nat) (b : Block)
    (i : Nat) (q : Sequence) (hq : b.seqs[i]? = some q) (a : Action) (ha : a ∈ q.actions) (hc : a.status = .completed) :
    ∃ q', (fixBlockFull exec now b).seqs[i]? = some q' ∧ a ∈ q'.actions := by
  rcases fixBlock_seqs exec now b with h | h | h
  · exact ⟨q, by rw [h]; exact hq, ha⟩
  · refine ⟨resumeSeq exec now q, ?_, resumeSeq_keeps_completed exec hexec now q a ha hc⟩
    rw [h]; simp [hq]
  · refine ⟨stopRunning (resumeSeq exec now q), ?_, ?_⟩
    · rw [h]; simp [hq]
    · rw [stopRunning_actions]; exact resumeSeq_keeps_completed exec hexec now q a ha hc

end Coercion.Fix

namespace Coercion.Fix
open Coercion

/-- the loop over the blocks leaves every block either as stored or repaired, position by position -/
theorem untilStopped_get (exec : Sequence → Sequence × Bool) (now : Nat) (bs : List Block) :
    ∀ (i : Nat) (b : Block), bs[i]? = some b →
      (fixBlocksUntilStopped exec now bs).1[i]? = some b ∨ (fixBlocksUntilStopped exec now bs).1[i]? = some (fixBlockFull exec now b) := by
  induction bs with
  | nil => intro i b h; simp at h
  | cons c cs ih =>
    intro i b h
    unfold fixBlocksUntilStopped
    by_cases hs : ((fixBlockFull exec now c).status == .stopped) = true
    · simp only [hs, ite_true]
      cases i with
      | zero => simp at h; subst h; right; simp
      | succ j => left; simpa using h
    · simp only [hs, Bool.false_eq_true, ite_false]
      cases i with
      | zero => simp at h; subst h; right; simp
      | succ j =>
        have := ih j b (by simpa using h)
        simpa using this

/-- `fixPlan` leaves every block as stored or as `fixBlock` repairs it, position by position -/
theorem fixPlan_blocks (exec : Sequence → Sequence × Bool) (now : Nat) (p : Plan) (i : Nat) (b : Block) (h : p.blocks[i]? = some b) :
    (fixPlanFull exec now p).blocks[i]? = some b ∨ (fixPlanFull exec now p).blocks[i]? = some (fixBlockFull exec now b) := by
  have hu := untilStopped_get exec now p.blocks i b h
  have heq : (fixPlanFull exec now p).blocks = p.blocks ∨ (fixPlanFull exec now p).blocks = (fixBlocksUntilStopped exec now p.blocks).1 := by
    unfold fixPlanFull
    dsimp only
    repeat' split
    all_goals simp
  rcases heq with e | e
  · left; rw [e]; exact h
  · rw [e]; exact hu

/-- Plan-wide: the repair `Recovery` applies before it resumes never resets durably finished work. Every action that is
    Completed in the store is, unchanged, an action of the same sequence of the same block of the repaired plan. -/
theorem fixPlan_keeps_completed (exec : Sequence → Sequence × Bool) (hexec : ExecKeepsCompleted exec) (now : Nat) (p : Plan)
    (i j : Nat) (b : Block) (q : Sequence) (hb : p.blocks[i]? = some b) (hq : b.seqs[j]? = some q)
    (a : Action) (ha : a ∈ q.actions) (hc : a.status = .completed) :
    ∃ b' q', (fixPlanFull exec now p).blocks[i]? = some b' ∧ b'.seqs[j]? = some q' ∧ a ∈ q'.actions := by
  rcases fixPlan_blocks exec now p i b hb with h | h
  · exact ⟨b, q, h, hq, ha⟩
  · obtain ⟨q', hq', ha'⟩ := fixBlock_keeps_completed exec hexec now b j q hq a ha hc
    exact ⟨_, q', h, hq', ha'⟩

end Coercion.Fix
