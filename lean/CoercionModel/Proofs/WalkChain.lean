import CoercionModel.Proofs.Walk
set_option linter.unusedSimpArgs false
/-
  Proofs/WalkChain — in the walk order every object comes after its parent, and its chain is its
  parent's chain followed by the parent: chains are root paths, the order is a pre-order. (The engine's
  final flush writes the REVERSE of this order: children before parents.)
-/
namespace Coercion.Walk
open Coercion

/-- `it`'s parent (the item whose id ends `it`'s chain and whose own chain is the rest) is in `seen` -/
def HasParentIn (seen : List Item) (it : Item) : Prop :=
  it.chain = [] ∨ ∃ par ∈ seen, it.chain = par.chain ++ [par.id]

/-- every item of the list has its parent among `pre` or earlier in the list -/
def Closed : List Item → List Item → Prop
  | _, [] => True
  | pre, it :: l => HasParentIn pre it ∧ Closed (pre ++ [it]) l

theorem hasParentIn_mono {s s' : List Item} {it : Item} (h : HasParentIn s it) (hs : ∀ x ∈ s, x ∈ s') : HasParentIn s' it := by
  rcases h with h | ⟨par, hp, hc⟩
  · exact .inl h
  · exact .inr ⟨par, hs par hp, hc⟩

theorem closed_mono (l : List Item) : ∀ (s s' : List Item), Closed s l → (∀ x ∈ s, x ∈ s') → Closed s' l := by
  induction l with
  | nil => intro _ _ _ _; trivial
  | cons it l ih =>
    intro s s' h hs
    refine ⟨hasParentIn_mono h.1 hs, ih _ _ h.2 ?_⟩
    intro x hx
    simp only [List.mem_append, List.mem_singleton] at hx ⊢
    rcases hx with hx | hx
    · exact .inl (hs x hx)
    · exact .inr hx

theorem closed_append (a : List Item) : ∀ (pre b : List Item), Closed pre a → Closed (pre ++ a) b → Closed pre (a ++ b) := by
  induction a with
  | nil => intro pre b _ hb; simpa using hb
  | cons it a ih =>
    intro pre b ha hb
    refine ⟨ha.1, ih _ _ ha.2 ?_⟩
    simpa using hb

/-- the split form: whatever precedes an item contains its parent -/
theorem closed_split (l : List Item) : ∀ (pre l1 : List Item) (it : Item) (l2 : List Item), Closed pre l → l = l1 ++ it :: l2 →
    HasParentIn (pre ++ l1) it := by
  induction l with
  | nil => intro _ l1 _ _ _ h; simp at h
  | cons x l ih =>
    intro pre l1 it l2 hc h
    cases l1 with
    | nil => simp at h; obtain ⟨rfl, _⟩ := h; simpa using hc.1
    | cons y l1 =>
      simp at h
      obtain ⟨rfl, h⟩ := h
      have := ih (pre ++ [x]) l1 it l2 hc.2 h
      simpa using this

/-- a checks group (or sequence) whose parent has been seen, followed by its actions -/
theorem closed_unit (pre : List Item) (k : Kind) (id : Nat) (chain : List Nat) (as : List Action)
    (hp : HasParentIn pre ⟨k, id, chain⟩) :
    Closed pre (⟨k, id, chain⟩ :: as.map (fun a => (⟨.action, a.id, chain ++ [id]⟩ : Item))) := by
  refine ⟨hp, ?_⟩
  have : ∀ (as : List Action) (s : List Item), (⟨k, id, chain⟩ : Item) ∈ s →
      Closed s (as.map (fun a => (⟨.action, a.id, chain ++ [id]⟩ : Item))) := by
    intro as
    induction as with
    | nil => intro _ _; trivial
    | cons a as ih =>
      intro s hs
      refine ⟨.inr ⟨⟨k, id, chain⟩, hs, rfl⟩, ih _ (by simp [hs])⟩
  exact this as _ (by simp)

theorem closed_specOpt (pre : List Item) (par : Item) (hpar : par ∈ pre) (o : Option Checks) :
    Closed pre (specOpt (par.chain ++ [par.id]) o) := by
  cases o with
  | none => trivial
  | some c => exact closed_unit pre .checks c.id _ c.actions (.inr ⟨par, hpar, rfl⟩)

theorem closed_seqs (par : Item) (qs : List Sequence) : ∀ (pre : List Item), par ∈ pre →
    Closed pre (qs.flatMap (specSequence (par.chain ++ [par.id]))) := by
  induction qs with
  | nil => intro _ _; trivial
  | cons q qs ih =>
    intro pre hpar
    simp only [List.flatMap_cons]
    refine closed_append _ _ _ (closed_unit pre .sequence q.id _ q.actions (.inr ⟨par, hpar, rfl⟩)) (ih _ (by simp [hpar]))

theorem closed_specBlock (pre : List Item) (par : Item) (hpar : par ∈ pre) (b : Block) :
    Closed pre (specBlock (par.chain ++ [par.id]) b) := by
  let me : Item := ⟨.block, b.id, par.chain ++ [par.id]⟩
  refine ⟨.inr ⟨par, hpar, rfl⟩, ?_⟩
  have hme : ∀ s : List Item, me ∈ pre ++ [me] ++ s := by intro s; simp
  have key : ∀ (s : List Item) (o : Option Checks), me ∈ s → Closed s (specOpt (par.chain ++ [par.id] ++ [b.id]) o) :=
    fun s o h => closed_specOpt s me h o
  refine closed_append _ _ _ (closed_append _ _ _ (closed_append _ _ _ (closed_append _ _ _ (closed_append _ _ _
    (key _ _ (by simp [me])) (key _ _ (by simp [me]))) (key _ _ (by simp [me]))) ?_) (key _ _ (by simp [me]))) (key _ _ (by simp [me]))
  exact closed_seqs me b.seqs _ (by simp [me])

theorem closed_blocks (par : Item) (bs : List Block) : ∀ (pre : List Item), par ∈ pre →
    Closed pre (bs.flatMap (specBlock (par.chain ++ [par.id]))) := by
  induction bs with
  | nil => intro _ _; trivial
  | cons b bs ih =>
    intro pre hpar
    simp only [List.flatMap_cons]
    exact closed_append _ _ _ (closed_specBlock pre par hpar b) (ih _ (by simp [hpar]))

theorem closed_specPlan (p : Plan) : Closed [] (specPlan p) := by
  let me : Item := ⟨.plan, p.id, []⟩
  refine ⟨.inl rfl, ?_⟩
  have key : ∀ (s : List Item) (o : Option Checks), me ∈ s → Closed s (specOpt [p.id] o) :=
    fun s o h => by simpa [me] using closed_specOpt s me h o
  refine closed_append _ _ _ (closed_append _ _ _ (closed_append _ _ _ (closed_append _ _ _ (closed_append _ _ _
    (key _ _ (by simp [me])) (key _ _ (by simp [me]))) (key _ _ (by simp [me]))) ?_) (key _ _ (by simp [me]))) (key _ _ (by simp [me]))
  simpa [me] using closed_blocks me p.blocks _ (by simp [me])

end Coercion.Walk
