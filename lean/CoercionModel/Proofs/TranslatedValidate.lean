import CoercionModel.Generated.T5
import CoercionModel.Model.Validate
set_option linter.unusedVariables false
/-
  Proofs/TranslatedValidate — the five validate methods of workflow.go, translated on every run
  (Generated/T5.lean by harness/extract/t5.go) into node rules and children lists over the harness's observation
  flags, are the rules and the breadth-first order of Model/Validate.
-/
namespace Coercion.TranslatedValidate
open Coercion Coercion.Validate Coercion.Generated
set_option linter.unusedSimpArgs false

theorem checkPlan_eq (keys : List Nat) (p : VPlan) : T5.checkPlan keys p = Validate.checkPlan keys p := by
  unfold T5.checkPlan Validate.checkPlan
  repeat' split <;> rfl

theorem checkChecks_eq (keys : List Nat) (c : VChecks) : T5.checkChecks keys c = Validate.checkChecks keys (some c) := by
  unfold T5.checkChecks Validate.checkChecks
  by_cases h1 : c.idSet = true
  · simp [h1]
  · simp only [h1, Bool.false_eq_true, ite_false]
    cases addKey keys c.key c.keyV7 with
    | error e => rfl
    | ok k => simp only []; repeat' split <;> rfl

theorem checkBlock_eq (keys : List Nat) (b : VBlock) : T5.checkBlock keys b = Validate.checkBlock keys b := by
  unfold T5.checkBlock Validate.checkBlock
  by_cases h0 : b.isNil = true
  · simp [h0]
  · by_cases h1 : b.idSet = true
    · simp [h0, h1]
    · simp only [h0, h1, Bool.false_eq_true, ite_false]
      cases addKey keys b.key b.keyV7 with
      | error e => rfl
      | ok k => simp only []; repeat' split <;> rfl

theorem checkSeq_eq (keys : List Nat) (q : VSeq) : T5.checkSeq keys q = Validate.checkSeq keys q := by
  unfold T5.checkSeq Validate.checkSeq
  by_cases h0 : q.isNil = true
  · simp [h0]
  · by_cases h1 : q.idSet = true
    · simp [h0, h1]
    · simp only [h0, h1, Bool.false_eq_true, ite_false]
      cases addKey keys q.key q.keyV7 with
      | error e => rfl
      | ok k => simp only []; repeat' split <;> rfl

theorem timeout_rule (ms : Int) : decide ((if ms = 0 then (30000 : Int) else ms) < 5000) = timeoutLow ms := by
  unfold timeoutLow
  by_cases h : ms = 0
  · simp [h]
  · by_cases h2 : ms < 5000 <;> simp [h, h2]

theorem checkAction_eq (keys : List Nat) (a : VAction) : T5.checkAction keys a = Validate.checkAction keys a := by
  unfold T5.checkAction Validate.checkAction Validate.actionRest
  by_cases h0 : a.isNil = true
  · simp [h0]
  · by_cases h1 : a.idSet = true
    · simp [h0, h1]
    · simp only [h0, h1, Bool.false_eq_true, ite_false]
      cases addKey keys a.key a.keyV7 with
      | error e => rfl
      | ok k =>
        simp only [timeout_rule]
        repeat' split <;> simp_all

/-- the validators each method returns are the children the model's breadth-first order visits next -/
theorem kids_eq (p : VPlan) (b : VBlock) (q : VSeq) (c : VChecks) (a : VAction) :
    T5.kidsPlan p = level1 p ∧ T5.kidsBlock b = blockKids b ∧ T5.kidsChecks c = groupActions (some c) ∧
    T5.kidsSeq q = q.actions.map .action ∧ T5.kidsAction a = [] :=
  ⟨rfl, rfl, rfl, rfl, rfl⟩

/-- the validators a node's translated `validate` returns -/
def kidsNode : Node → List Node
  | .plan p => T5.kidsPlan p
  | .checks none => []
  | .checks (some c) => T5.kidsChecks c
  | .block b => T5.kidsBlock b
  | .seq q => T5.kidsSeq q
  | .action a => T5.kidsAction a

theorem flatMap_kids_checks (gs : List (Option VChecks)) : (gs.map Node.checks).flatMap kidsNode = gs.flatMap groupActions := by
  induction gs with
  | nil => rfl
  | cons g gs ih =>
    simp only [List.map_cons, List.flatMap_cons, ih]
    cases g <;> rfl

theorem flatMap_kids_actions (as : List VAction) : (as.map Node.action).flatMap kidsNode = [] := by
  induction as with
  | nil => rfl
  | cons a as ih => simp only [List.map_cons, List.flatMap_cons, ih]; rfl

theorem flatMap_kids_groupActions (gs : List (Option VChecks)) : (gs.flatMap groupActions).flatMap kidsNode = [] := by
  induction gs with
  | nil => rfl
  | cons g gs ih =>
    simp only [List.flatMap_cons, List.flatMap_append, ih, List.append_nil]
    cases g with
    | none => rfl
    | some c => exact flatMap_kids_actions c.actions

/-- the model's breadth-first order is the queue discipline of `Validate` applied to the translated methods: each
    level is the concatenation of what the previous level's validators returned -/
theorem levels_are_queue_order (p : VPlan) :
    level1 p = kidsNode (.plan p) ∧ level2 p = (level1 p).flatMap kidsNode ∧ level3 p = (level2 p).flatMap kidsNode := by
  refine ⟨rfl, ?_, ?_⟩
  · simp only [level2, level1, List.flatMap_append, flatMap_kids_checks]
    congr 1
    induction p.blocks with
    | nil => rfl
    | cons b bs ih => simp only [List.map_cons, List.flatMap_cons, ih]; rfl
  · simp only [level3, level2, List.flatMap_append, flatMap_kids_groupActions, List.nil_append]
    induction p.blocks with
    | nil => rfl
    | cons b bs ih =>
      simp only [List.flatMap_cons, List.flatMap_append, ih]
      congr 1
      simp only [blockKids, blockGrandKids, List.flatMap_append, flatMap_kids_checks]
      congr 1
      induction b.seqs with
      | nil => rfl
      | cons q qs ihq => simp only [List.map_cons, List.flatMap_cons, ihq]; rfl

end Coercion.TranslatedValidate
