import CoercionModel.Generated.T7
import CoercionModel.Proofs.TranslatedFinal
set_option linter.unusedSimpArgs false
/-
  Proofs/TranslatedFinalChain — the whole `finalStates` machine of final.go (start → bypassChecks → planChecks →
  blocks → end), translated state by state on every run (Generated/T7.lean) and run by `T7.run` (statemachine.Run as
  read), computes `Model/Engine.final`: the status and failure reason `End` records on the plan.
-/
namespace Coercion.TranslatedFinal
open Coercion Coercion.Generated

/-- the loop of `blocks`: the first block that is not Completed fails the plan with reason Block and ends the loop -/
theorem blocks_loop (bs : List Block) (plan : Plan) (next : T7.Next) :
    bs.foldl (fun (acc : Plan × Bool × T7.Next × Bool) (block : Block) =>
      let (plan, err, next, returned) := acc
      if returned then acc else
      if (block.status == Status.completed) then
      (plan, err, next, false)
    else if (block.status == Status.failed) then
      let plan := { plan with status := Status.failed }
      let plan := { plan with reason := Reason.block }
      let err := true
      (plan, err, next, true)
    else
      let plan := { plan with status := Status.failed }
      let plan := { plan with reason := Reason.block }
      let err := true
      (plan, err, next, true)) (plan, false, next, false) =
    if bs.all (·.status == .completed) then (plan, false, next, false)
    else ({ plan with status := .failed, reason := .block }, true, next, true) := by
  induction bs generalizing plan with
  | nil => simp
  | cons b bs ih =>
    simp only [List.foldl_cons, List.all_cons]
    by_cases hb : b.status = .completed
    · simp only [hb, beq_self_eq_true, ite_true, Bool.false_eq_true, ite_false, Bool.true_and]
      exact ih plan
    · have hb' : (b.status == Status.completed) = false := by simpa using hb
      simp only [hb', Bool.false_eq_true, ite_false, Bool.false_and]
      have hdone : ∀ (l : List Block) (acc : Plan × Bool × T7.Next), l.foldl (fun (acc : Plan × Bool × T7.Next × Bool) (block : Block) =>
          let (plan, err, next, returned) := acc
          if returned then acc else
          if (block.status == Status.completed) then
          (plan, err, next, false)
        else if (block.status == Status.failed) then
          let plan := { plan with status := Status.failed }
          let plan := { plan with reason := Reason.block }
          let err := true
          (plan, err, next, true)
        else
          let plan := { plan with status := Status.failed }
          let plan := { plan with reason := Reason.block }
          let err := true
          (plan, err, next, true)) (acc.1, acc.2.1, acc.2.2, true) = (acc.1, acc.2.1, acc.2.2, true) := by
        intro l
        induction l with
        | nil => intro acc; rfl
        | cons c l ihl => intro acc; simp only [List.foldl_cons, ite_true]; exact ihl acc
      by_cases hf : b.status = .failed
      · simp only [hf, beq_self_eq_true, ite_true]
        exact hdone bs ({ plan with status := .failed, reason := .block }, true, next)
      · have hf' : (b.status == Status.failed) = false := by simpa using hf
        simp only [hf', Bool.false_eq_true, ite_false]
        exact hdone bs ({ plan with status := .failed, reason := .block }, true, next)

/-- what `finalStates` sees of the plan -/
def bypassVerdict (p : Plan) : Option Bool := p.bypass.map (fun c => c.status == .completed)
def blocksOk (p : Plan) : Bool := p.blocks.all (·.status == .completed)

theorem run_end (n : Nat) (q : Plan) : T7.run (n + 1) .end_ q = ({ q with status := .completed }, false) := by
  simp [T7.run, T7.state, T7.end_]

theorem run_blocks (n : Nat) (q : Plan) : T7.run (n + 2) .blocks q =
    if blocksOk q then ({ q with status := .completed }, false) else ({ q with status := .failed, reason := .block }, true) := by
  have hb : T7.blocks q = if blocksOk q then (q, false, T7.Next.end_) else ({ q with status := .failed, reason := .block }, true, T7.Next.stop) := by
    unfold T7.blocks
    simp only [blocks_loop, blocksOk]
    split <;> simp_all
  rw [T7.run]
  simp only [T7.state, hb]
  by_cases h : blocksOk q = true
  · simp [h, run_end]
  · simp [h]

theorem run_planChecks (n : Nat) (q : Plan) : T7.run (n + 3) .planChecks q =
    if (T1.examineChecks [q.pre, q.cont, q.post, q.deferred]).2 then
      ({ q with status := .failed, reason := (T1.examineChecks [q.pre, q.cont, q.post, q.deferred]).1 }, true)
    else T7.run (n + 2) .blocks q := by
  rw [T7.run]
  simp only [T7.state, T7.planChecks]
  by_cases h : (T1.examineChecks [q.pre, q.cont, q.post, q.deferred]).2 = true
  · simp [h]
  · simp [h]

theorem run_start (n : Nat) (q : Plan) : T7.run (n + 5) .start q =
    if T1.examineBypassesOpt q.bypass then ({ q with status := .completed }, false) else T7.run (n + 3) .planChecks q := by
  rw [T7.run]
  simp only [T7.state, T7.start]
  rw [T7.run]
  simp only [T7.state, T7.bypassChecks]
  by_cases h : T1.examineBypassesOpt q.bypass = true
  · simp [h, run_end]
  · simp [h]

/-- The translated finalStates machine, run from `start`, leaves the status `Model/Engine.final` computes from the group
    verdicts and the block statuses; and when that status is Failed, the reason `final` names. -/
theorem finalStates_eq (p : Plan) :
    (T7.run 6 .start p).1.status = (Engine.final (bypassVerdict p) (verdictOf p.pre) (verdictOf p.cont) (verdictOf p.post) (verdictOf p.deferred) (blocksOk p)).1 ∧
    ((T7.run 6 .start p).1.status = .failed →
      (T7.run 6 .start p).1.reason = (Engine.final (bypassVerdict p) (verdictOf p.pre) (verdictOf p.cont) (verdictOf p.post) (verdictOf p.deferred) (blocksOk p)).2) := by
  have hbyp : T1.examineBypassesOpt p.bypass = (bypassVerdict p == some true) := by
    cases h : p.bypass <;> simp [T1.examineBypassesOpt, T1.examineBypasses, bypassVerdict, h]
  rw [show (6 : Nat) = 1 + 5 from rfl, run_start, run_planChecks, run_blocks, hbyp, examineChecks_eq]
  unfold Engine.final
  by_cases h1 : bypassVerdict p = some true
  · simp [h1]
  · have h1' : (bypassVerdict p == some true) = false := by simpa using h1
    simp only [h1', Bool.false_eq_true, ite_false]
    cases hpre : verdictOf p.pre <;> cases hcont : verdictOf p.cont <;> cases hpost : verdictOf p.post <;> cases hd : verdictOf p.deferred <;>
      cases hok : blocksOk p <;> simp <;> (repeat' split) <;> simp_all

end Coercion.TranslatedFinal
