import CoercionModel.Model.Sched
set_option linter.unusedSimpArgs false
/-
  Proofs/SchedLive — the launch loop never gets stuck: in every reachable state that has not left the
  loop some step is enabled (deadlock freedom, the safety half of "the block terminates"; with the workers'
  plugin calls returning or being abandoned at their timeouts, every enabled worker step eventually happens).
-/
namespace Coercion.Sched

/-- bookkeeping invariant: limiter slots = workers alive, at most Concurrency; the loop index stays in range -/
def Book (c : Cfg) (s : S) : Prop :=
  s.tokens = s.queued + s.running + s.exiting ∧ s.tokens ≤ c.conc ∧ s.next ≤ c.n ∧ (s.pc = .acquiring → s.next < c.n)

theorem book_init (c : Cfg) : Book c {} := by simp [Book]

theorem book_step (c : Cfg) (s s' : S) (l : Label) (h : Book c s) (hs : step c s l = some s') : Book c s' := by
  obtain ⟨h1, h2, h3, h4⟩ := h
  cases l <;> simp only [step] at hs <;> split at hs <;> simp at hs <;> subst hs <;> simp only [Book]
  case top hg => exact ⟨h1, h2, h3, fun _ => hg.2.1⟩
  case exitExceeded => exact ⟨h1, h2, h3, by simp⟩
  case exitCont => exact ⟨h1, h2, h3, by simp⟩
  case loopEnd => exact ⟨h1, h2, h3, by simp⟩
  case acquire hg => have := h4 hg.1; exact ⟨by omega, by omega, by omega, by simp⟩
  case pass hg => exact ⟨by omega, h2, h3, h4⟩
  case skip hg => exact ⟨by omega, by omega, h3, h4⟩
  case finish failed hg => exact ⟨by omega, h2, h3, h4⟩
  case release hg => exact ⟨by omega, by omega, h3, h4⟩
  case joined hg => exact ⟨h1, h2, h3, by simp⟩

theorem book_run (c : Cfg) (t : List Label) : ∀ (s s' : S), Book c s → run c s t = some s' → Book c s' := by
  induction t with
  | nil => intro s s' h hr; simp [run] at hr; subst hr; exact h
  | cons l t ih =>
    intro s s' h hr
    simp only [run] at hr
    cases hs : step c s l with
    | none => simp [hs] at hr
    | some s1 => rw [hs] at hr; exact ih s1 s' (book_step c s s1 l h hs) hr

/-- a worker that exists can take its next step -/
theorem worker_enabled (c : Cfg) (s : S) (h : 0 < s.queued + s.running + s.exiting) :
    ∃ l, (step c s l).isSome = true := by
  by_cases hq : 0 < s.queued
  · by_cases he : exceeded c s = true
    · exact ⟨.skip, by simp [step, hq, he]⟩
    · exact ⟨.pass, by simp [step, hq, he]⟩
  · by_cases hr : 0 < s.running
    · exact ⟨.finish false, by simp [step, hr]⟩
    · have : 0 < s.exiting := by omega
      exact ⟨.release, by simp [step, this]⟩

/-- deadlock freedom: unless the loop has been left, something can happen -/
theorem no_deadlock (c : Cfg) (hc : 1 ≤ c.conc) (s : S) (h : Book c s) (hp : s.pc ≠ .exited) :
    ∃ l, (step c s l).isSome = true := by
  obtain ⟨h1, h2, h3, h4⟩ := h
  cases hpc : s.pc with
  | exited => exact absurd hpc hp
  | atTop =>
    by_cases hn : s.next < c.n
    · by_cases he : exceeded c s = true
      · exact ⟨.exitExceeded, by simp [step, hpc, hn, he]⟩
      · exact ⟨.top, by simp [step, hpc, hn, he]⟩
    · have : s.next = c.n := by omega
      exact ⟨.loopEnd, by simp [step, hpc, this]⟩
  | acquiring =>
    by_cases ht : s.tokens < c.conc
    · exact ⟨.acquire, by simp [step, hpc, ht]⟩
    · -- the limiter is full: its slots are held by workers, one of which can move
      exact worker_enabled c s (by omega)
  | waiting =>
    by_cases hw : s.queued = 0 ∧ s.running = 0 ∧ s.exiting = 0
    · exact ⟨.joined, by simp [step, hpc, hw]⟩
    · exact worker_enabled c s (by omega)

/-- … in every reachable state -/
theorem reachable_not_stuck (c : Cfg) (hc : 1 ≤ c.conc) (t : List Label) (s : S) (hr : run c {} t = some s) (hp : s.pc ≠ .exited) :
    ∃ l, (step c s l).isSome = true :=
  no_deadlock c hc s (book_run c t {} s (book_init c) hr) hp

/-- the work left: every step of the loop or of a worker uses some of it up -/
def workLeft (c : Cfg) (s : S) : Nat :=
  5 * (c.n - s.next) + 3 * s.queued + 2 * s.running + s.exiting +
    (match s.pc with | .atTop => 3 | .acquiring => 2 | .waiting => 1 | .exited => 0)

theorem step_decreases (c : Cfg) (s s' : S) (l : Label) (h : Book c s) (hs : step c s l = some s') :
    workLeft c s' < workLeft c s := by
  obtain ⟨h1, h2, h3, h4⟩ := h
  cases l <;> simp only [step] at hs <;> split at hs <;> simp at hs <;> subst hs <;> simp only [workLeft]
  case top hg => simp [hg.1]
  case exitExceeded hg => simp [hg.1]
  case exitCont hg => simp [hg.1]
  case loopEnd hg => simp [hg.1]
  case acquire hg => have := h4 hg.1; simp [hg.1]; omega
  case pass hg => omega
  case skip hg => omega
  case finish failed hg => omega
  case release hg => omega
  case joined hg => simp [hg.1]

/-- termination: no schedule of the launch loop is longer than 5·n + 3 steps — there is no infinite run -/
theorem run_length_bounded (c : Cfg) (t : List Label) : ∀ (s s' : S), Book c s → run c s t = some s' →
    t.length + workLeft c s' ≤ workLeft c s := by
  induction t with
  | nil => intro s s' _ hr; simp [run] at hr; subst hr; simp
  | cons l t ih =>
    intro s s' h hr
    simp only [run] at hr
    cases hs : step c s l with
    | none => simp [hs] at hr
    | some s1 =>
      rw [hs] at hr
      have h1 := step_decreases c s s1 l h hs
      have h2 := ih s1 s' (book_step c s s1 l h hs) hr
      simp only [List.length_cons]
      omega

theorem every_run_is_short (c : Cfg) (t : List Label) (s : S) (hr : run c {} t = some s) : t.length ≤ 5 * c.n + 3 := by
  have := run_length_bounded c t {} s (book_init c) hr
  simp [workLeft] at this
  omega

end Coercion.Sched
