import CoercionModel.Generated.T1
import CoercionModel.Model.FixFull
set_option linter.unusedSimpArgs false
/-
  Proofs/Translated — the hand-written recovery model equals the definitions the translator
  (harness/extract/t1.go) regenerates from recovery.go on every run: `resetAction`, `fixAction`,
  `fixChecks`, `checksFailed`, `checksCompleted`, `skipRecoveredChecks`. If one of these Go functions
  changes, Generated/T1.lean changes and these proofs are re-checked against what the code says now.
-/
namespace Coercion.Translated
open Coercion
open Generated

theorem resetAction_eq (a : Action) : T1.resetAction a = Fix.resetAction a := rfl

/-- a loop that only rebuilds the list -/
theorem foldl_rebuild {σ : Type} (step : σ × List Action → Action → σ × List Action) (f : Action → Action)
    (hstep : ∀ acc a, step acc a = (acc.1, acc.2 ++ [f a])) (st : σ) (l : List Action) : ∀ (pre : List Action),
    List.foldl step (st, pre) l = (st, pre ++ l.map f) := by
  induction l with
  | nil => intro pre; simp
  | cons a l ih => intro pre; simp only [List.foldl_cons, List.map_cons, hstep]; rw [ih]; simp

theorem fixChecks_eq (c : Checks) : T1.fixChecks c = Fix.fixChecks c := by
  unfold T1.fixChecks Fix.fixChecks
  by_cases h : c.status = .running
  · have := foldl_rebuild T1.fixChecks_loop1 Fix.resetAction (fun acc a => by simp [T1.fixChecks_loop1, resetAction_eq]) () c.actions []
    simp only [List.nil_append] at this
    simp [h, this]
  · simp [h]

theorem fixChecksOpt_eq (o : Option Checks) : T1.fixChecksOpt o = o.map Fix.fixChecks := by
  cases o <;> simp [T1.fixChecksOpt, fixChecks_eq]

end Coercion.Translated

namespace Coercion.Translated
open Coercion
open Generated

theorem dropUnended_concat_unended (l : List Attempt) (x : Attempt) (h : x.tEnd = 0) :
    Fix.dropUnended (l ++ [x]) = Fix.dropUnended l := by
  cases l with
  | nil => simp [Fix.dropUnended, List.dropWhile, h]
  | cons y l =>
    simp only [Fix.dropUnended, List.cons_append]
    simp [List.reverse_append, List.dropWhile, h]

theorem dropUnended_concat_ended (l : List Attempt) (x : Attempt) (h : x.tEnd ≠ 0) :
    Fix.dropUnended (l ++ [x]) = l ++ [x] := by
  cases l with
  | nil => simp [Fix.dropUnended, List.dropWhile, h]
  | cons y l =>
    simp only [Fix.dropUnended, List.cons_append]
    simp [List.reverse_append, List.dropWhile, h]

theorem getLast?_concat' (l : List Attempt) (x : Attempt) : (l ++ [x]).getLast? = some x := by simp

/-- the translated `fixAction` (recursion on dropping the last unended attempt, fuel = number of
    attempts + 1) is the model's `fixAction` (drop all trailing unended attempts at once) -/
theorem fixAction_eq : ∀ (n : Nat) (a : Action), a.attempts.length = n → T1.fixAction (n + 1) a = Fix.fixAction a := by
  intro n
  induction n with
  | zero =>
    intro a hl
    have hnil : a.attempts = [] := List.eq_nil_of_length_eq_zero hl
    unfold T1.fixAction Fix.fixAction
    by_cases hr : a.status = .running
    · simp [hr, hnil, Fix.dropUnended, resetAction_eq]
    · simp [hr]
  | succ n ih =>
    intro a hl
    obtain ⟨id, key, name, descr, plugin, timeout, retries, req, status, tStart, tEnd, attempts⟩ := a
    simp only at hl
    have hne : attempts ≠ [] := by intro h; simp [h] at hl
    obtain ⟨l, x, hlx⟩ : ∃ l x, attempts = l ++ [x] := ⟨attempts.dropLast, attempts.getLast hne, (List.dropLast_concat_getLast hne).symm⟩
    subst hlx
    have hll : l.length = n := by simp at hl; exact hl
    by_cases hr : status = .running
    · subst hr
      by_cases hx : x.tEnd = 0
      · -- drop the unended attempt and recurse
        have hrec := ih { id := id, key := key, name := name, descr := descr, plugin := plugin, timeout := timeout, retries := retries, req := req, status := .running, tStart := tStart, tEnd := tEnd, attempts := l } hll
        have lhs : T1.fixAction (n + 1 + 1) { id := id, key := key, name := name, descr := descr, plugin := plugin, timeout := timeout, retries := retries, req := req, status := .running, tStart := tStart, tEnd := tEnd, attempts := l ++ [x] } =
            T1.fixAction (n + 1) { id := id, key := key, name := name, descr := descr, plugin := plugin, timeout := timeout, retries := retries, req := req, status := .running, tStart := tStart, tEnd := tEnd, attempts := l } := by
          rw [T1.fixAction]
          simp [getLast?_concat', hx]
        rw [lhs, hrec]
        unfold Fix.fixAction
        simp only [ne_eq, not_true_eq_false, ite_false, dropUnended_concat_unended l x hx]
        cases (Fix.dropUnended l).getLast? with
        | none => rfl
        | some last => simp
      · have hx' : (x.tEnd == 0) = false := by simpa using hx
        rw [T1.fixAction]
        unfold Fix.fixAction
        simp only [ne_eq, not_true_eq_false, ite_false, dropUnended_concat_ended l x hx, getLast?_concat']
        by_cases he : x.err = .none
        · simp [he, hx', getLast?_concat']
        · have he' : (x.err == ErrKind.none) = false := by simpa using he
          simp [he', hx', getLast?_concat']
    · rw [T1.fixAction]
      unfold Fix.fixAction
      simp [hr]

/-- … with the fuel the callers use -/
theorem fixAction_eq' (a : Action) : T1.fixAction (a.attempts.length + 1) a = Fix.fixAction a := fixAction_eq _ a rfl

end Coercion.Translated

namespace Coercion.Translated
open Coercion
open Generated

def cnt (st : Status) (l : List Action) : Nat := (l.filter (·.status == st)).length

theorem cnt_cons (st : Status) (a : Action) (l : List Action) :
    cnt st (a :: l) = (if a.status == st then 1 else 0) + cnt st l := by
  simp only [cnt, List.filter_cons]
  split <;> simp <;> omega

theorem cnt_pos_iff_any (st : Status) (l : List Action) : decide (cnt st l > 0) = l.any (·.status == st) := by
  induction l with
  | nil => simp [cnt]
  | cons a l ih =>
    rw [cnt_cons, List.any_cons, ← ih]
    by_cases h : (a.status == st) = true
    · simp [h]; omega
    · simp [h]

theorem cnt_zero_iff_not_any (st : Status) (l : List Action) : (cnt st l == 0) = !l.any (·.status == st) := by
  rw [← cnt_pos_iff_any]
  by_cases h : cnt st l = 0
  · simp [h]
  · have : cnt st l > 0 := by omega
    simp [h, this]

/-- first loop of fixSeq: count the Stopped actions, list unchanged -/
theorem loop1 (l : List Action) : ∀ (n : Nat) (pre : List Action),
    List.foldl T1.fixSeq_loop1 (n, pre) l = (n + cnt .stopped l, pre ++ l) := by
  induction l with
  | nil => intro n pre; simp [cnt]
  | cons a l ih =>
    intro n pre
    simp only [List.foldl_cons, cnt_cons, T1.fixSeq_loop1]
    by_cases h : (a.status == Status.stopped) = true
    · simp only [h, ite_true]; rw [ih]; simp; omega
    · simp only [h, ite_false]; rw [ih]; simp

/-- second loop: whatever was still Running becomes Stopped -/
theorem loop2 (now : Nat) (n : Nat) (l : List Action) :
    List.foldl (T1.fixSeq_loop2 now) (n, []) l =
      (n, l.map (fun a => if a.status == .running then { a with status := .stopped, tEnd := now } else a)) := by
  have := foldl_rebuild (T1.fixSeq_loop2 now) (fun a => if a.status == .running then { a with status := .stopped, tEnd := now } else a)
    (fun acc a => by simp only [T1.fixSeq_loop2]; split <;> rfl) n l []
  simpa using this

/-- third loop: repair every action and count by resulting status -/
theorem loop3 (l : List Action) : ∀ (s c r f : Nat) (pre : List Action),
    List.foldl T1.fixSeq_loop3 ((s, c, r, f), pre) l =
      ((s + cnt .stopped (l.map Fix.fixAction), c + cnt .completed (l.map Fix.fixAction), r + cnt .running (l.map Fix.fixAction),
        f + cnt .failed (l.map Fix.fixAction)), pre ++ l.map Fix.fixAction) := by
  induction l with
  | nil => intro s c r f pre; simp [cnt]
  | cons a l ih =>
    intro s c r f pre
    simp only [List.foldl_cons, List.map_cons, cnt_cons]
    have hstep : T1.fixSeq_loop3 ((s, c, r, f), pre) a =
        ((s + (if (Fix.fixAction a).status == .stopped then 1 else 0), c + (if (Fix.fixAction a).status == .completed then 1 else 0),
          r + (if (Fix.fixAction a).status == .running then 1 else 0), f + (if (Fix.fixAction a).status == .failed then 1 else 0)),
          pre ++ [Fix.fixAction a]) := by
      simp only [T1.fixSeq_loop3, fixAction_eq']
      cases hst : (Fix.fixAction a).status <;> simp [hst]
    rw [hstep, ih]
    simp
    omega

/-- the translated `fixSeq` is the model's `fixSeqFull` -/
theorem fixSeq_eq (now : Nat) (q : Sequence) : T1.fixSeq now q = Fix.fixSeqFull now q := by
  unfold T1.fixSeq Fix.fixSeqFull
  by_cases hr : q.status = .running
  · have h1 := loop1 q.actions 0 []
    simp only [Nat.zero_add, List.nil_append] at h1
    simp only [hr, bne_self_eq_false, Bool.false_eq_true, ite_false, ne_eq, not_true_eq_false, h1, cnt_pos_iff_any]
    by_cases hs : q.actions.any (·.status == .stopped) = true
    · simp only [hs, ite_true, loop2]
    · simp only [hs, Bool.false_eq_true, ite_false]
      have h3 := loop3 q.actions (cnt .stopped q.actions) 0 0 0 []
      simp only [Nat.zero_add, List.nil_append] at h3
      have hz : cnt .stopped q.actions = 0 := by
        have h := cnt_zero_iff_not_any .stopped q.actions
        have hs' : q.actions.any (·.status == .stopped) = false := by simpa using hs
        rw [hs'] at h
        simpa using h
      rw [hz] at h3
      simp only [hz, h3, Nat.zero_add, cnt_pos_iff_any, List.length_map]
      rw [cnt_zero_iff_not_any .running]
      simp only [cnt]
      rfl
  · simp [hr]

end Coercion.Translated
