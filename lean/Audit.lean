import Lean
/-
  Audit: for a property module, list every theorem declared in the property's namespace together
  with the axioms it depends on (the same computation as `#print axioms`), as one JSON object.
  usage: lake env lean --run Audit.lean C19 [C05 ...]
-/
open Lean

instance : MonadEnv (StateM Environment) := { getEnv := get, modifyEnv := modify }

def auditOne (env : Environment) (prop : String) : IO Json := do
  let ns : Name := (`Coercion).str prop
  let mut thms : Array Json := #[]
  let mut defs : Array String := #[]
  for (n, ci) in env.constants.map₁.toList do
    if ns.isPrefixOf n && !n.isInternalDetail then
      match ci with
      | .thmInfo _ =>
        let axs := ((collectAxioms (m := StateM Environment) n).run' env).toList.map (·.toString)
        thms := thms.push (Json.mkObj [("name", n.toString), ("axioms", toJson axs)])
      | .defnInfo _ => defs := defs.push n.toString
      | _ => pure ()
  return Json.mkObj [("property", prop), ("theorems", Json.arr thms), ("defs", toJson defs)]

def main (args : List String) : IO UInt32 := do
  initSearchPath (← findSysroot)
  let mut out : Array Json := #[]
  for prop in args do
    let mod : Name := ((`CoercionModel).str "Props").str prop
    let env ← importModules #[{ module := mod }] {}
    out := out.push (← auditOne env prop)
  IO.println (Json.arr out).compress
  return 0
